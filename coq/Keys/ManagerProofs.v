(* Keys/ManagerProofs.v — proofs about the keystore manager of Keys/Manager.v. *)
From Coq Require Import List ZArith Bool Lia.
Import ListNotations.
Require Import MW.Codec.Bip32 MW.Codec.Bip32Proofs MW.Keys.Unlock MW.Keys.UnlockProofs MW.Keys.Manager MW.Keys.Toy.
Open Scope Z_scope.

(* ------------------------------------------------------------------ lists *)
Lemma Forall2_refl_gen {A} (R : A -> A -> Prop) (l : list A) : (forall a, R a a) -> Forall2 R l l.
Proof. intros H. induction l; constructor; auto. Qed.

Lemma Forall2_map_right {A} (R : A -> A -> Prop) (g : A -> A) (l : list A) :
  (forall a, R a (g a)) -> Forall2 R l (map g l).
Proof. intros H. induction l; cbn; constructor; auto. Qed.

Lemma Forall2_Forall_transport {A} (R : A -> A -> Prop) (P : A -> Prop) (l l' : list A) :
  Forall2 R l l' -> (forall a b, R a b -> P a -> P b) -> Forall P l -> Forall P l'.
Proof.
  intros F T. induction F as [|a b l l' Rab F IH]; intros H; [constructor|].
  inversion H as [|x y Pa Pl]; subst. constructor; [eapply T; eauto|apply IH, Pl].
Qed.

Lemma Forall2_map_eq {A B} (k : A -> B) (l l' : list A) :
  Forall2 (fun a b => k b = k a) l l' -> map k l' = map k l.
Proof. intros F. induction F as [|a b l l' E F IH]; [reflexivity|]. cbn. rewrite E, IH. reflexivity. Qed.

Lemma Forall2_weaken {A} (R S : A -> A -> Prop) (l l' : list A) :
  (forall a b, R a b -> S a b) -> Forall2 R l l' -> Forall2 S l l'.
Proof. intros H F. induction F; constructor; auto. Qed.

Section Proofs.
  Variable kdf : bytes -> bytes -> bytes.
  Variable digest : bytes -> bytes.
  Variable shash : bytes -> bytes.
  Variable open_box : bytes -> bytes -> option bytes.
  Variable sk : Type.
  Variable sig : Type.
  Variable branch_ok : bytes -> bool.
  Variable derive_sk : bytes -> Z -> Z -> option sk.
  Variable sign : sk -> bytes -> sig.
  Variable zfix : bool.
  Variable sfix : bool.
  Variable nfix : bool.
  Variable cfix : bool.
  Variable name_of : kid -> addr -> aname.

  Local Notation entry := (entry sk).
  Local Notation mstate := (mstate sk).
  Local Notation ustep := (Unlock.step kdf digest shash open_box sk sig branch_ok derive_sk sign zfix sfix nfix).
  Local Notation ustep_st := (Unlock.step_st kdf digest shash open_box sk sig branch_ok derive_sk sign zfix sfix nfix).
  Local Notation ustep_out := (Unlock.step_out kdf digest shash open_box sk sig branch_ok derive_sk sign zfix sfix nfix).
  Local Notation urun := (Unlock.run kdf digest shash open_box sk sig branch_ok derive_sk sign zfix sfix nfix).
  Local Notation ureachable := (Unlock.reachable kdf digest shash open_box sk sig branch_ok derive_sk sign zfix sfix nfix).
  Local Notation lift := (lift kdf digest shash open_box sk sig branch_ok derive_sk sign zfix sfix nfix).
  Local Notation on_keystore := (on_keystore kdf digest shash open_box sk sig branch_ok derive_sk sign zfix sfix nfix).
  Local Notation mstep := (mstep kdf digest shash open_box sk sig branch_ok derive_sk sign zfix sfix nfix cfix name_of).
  Local Notation use_all := (use_all kdf digest shash open_box sk sig branch_ok derive_sk sign zfix sfix nfix cfix name_of).
  Local Notation sign_inputs := (sign_inputs kdf digest shash open_box sk sig branch_ok derive_sk sign zfix sfix nfix cfix name_of).
  Local Notation sign_raw := (sign_raw kdf digest shash open_box sk sig branch_ok derive_sk sign zfix sfix nfix cfix name_of).
  Local Notation wstep := (wstep kdf digest shash open_box sk sig branch_ok derive_sk sign zfix sfix nfix cfix name_of).
  Local Notation wrun := (wrun kdf digest shash open_box sk sig branch_ok derive_sk sign zfix sfix nfix cfix name_of).
  Local Notation mreachable := (mreachable kdf digest shash open_box sk sig branch_ok derive_sk sign zfix sfix nfix cfix name_of).
  Local Notation clear_all := (clear_all sk cfix).
  Local Notation clear_entry := (clear_entry sk).
  Local Notation has_addr := (has_addr sk name_of).
  Local Notation path_of := (path_of sk name_of).
  Local Notation touches := (touches sk name_of).
  Local Notation same_but_mk := (same_but_mk sk).

  (* what never changes: the id and the configuration of every managed keystore *)
  Definition key (e : entry) : kid * amcfg := (e_id e, e_cfg e).
  Definition same_key (a b : entry) : Prop := e_id b = e_id a /\ e_cfg b = e_cfg a.

  Lemma set_st_key e st : same_key e (set_st sk e st).
  Proof. split; reflexivity. Qed.

  (* ---------------------------------------------------------------- on_first *)
  Lemma on_first_spec sel f l x l' : on_first sk sig sel f l = Some (x, l') ->
    exists l1 e l2, l = l1 ++ e :: l2 /\ l' = l1 ++ set_st sk e (snd (f e)) :: l2 /\
                    sel e = true /\ x = fst (f e) /\ Forall (fun a => sel a = false) l1.
  Proof.
    revert x l'. induction l as [|a r IH]; intros x l' H; cbn in H; [discriminate|].
    destruct (sel a) eqn:S.
    - injection H as <- <-. exists [], a, r. repeat split; auto.
    - destruct (on_first sk sig sel f r) as [[y r']|] eqn:E; [|discriminate].
      injection H as <- <-. destruct (IH y r' eq_refl) as (l1 & e & l2 & E1 & E2 & Se & Ex & F).
      exists (a :: l1), e, l2. subst. repeat split; auto.
  Qed.

  Lemma on_first_find sel f l e : find sel l = Some e ->
    exists l', on_first sk sig sel f l = Some (fst (f e), l').
  Proof.
    induction l as [|a r IH]; cbn; [discriminate|]. destruct (sel a) eqn:S.
    - intros H. inversion H; subst. eexists. reflexivity.
    - intros H. destruct (IH H) as (l' & E). rewrite E. eexists. reflexivity.
  Qed.

  (* a relation that holds between every keystore and itself, and between the chosen keystore and
     its successor, holds between the lists *)
  Lemma on_first_rel (R : entry -> entry -> Prop) sel f l x l' :
    (forall e, R e e) -> (forall e, In e l -> sel e = true -> x = fst (f e) -> R e (set_st sk e (snd (f e)))) ->
    on_first sk sig sel f l = Some (x, l') -> Forall2 R l l'.
  Proof.
    intros Rr Rs H. destruct (on_first_spec sel f l x l' H) as (l1 & e & l2 & -> & -> & Se & Ex & _).
    apply Forall2_app; [apply Forall2_refl_gen, Rr|].
    constructor; [apply Rs; auto; apply in_or_app; right; left; reflexivity|apply Forall2_refl_gen, Rr].
  Qed.

  (* ---------------------------------------------------------------- a relation kept by every
     KeystoreManager call is kept by every caller's operation *)
  Definition ks_rel (R : entry -> entry -> Prop) (m m' : mstate) : Prop := Forall2 R (m_ks m) (m_ks m').

  Lemma clear_all_rel (R : entry -> entry -> Prop) m :
    (forall e, R e e) -> (forall e, R e (clear_entry e)) -> ks_rel R m (clear_all m).
  Proof.
    intros Rr Rc. unfold ks_rel, Manager.clear_all.
    assert (A : Forall2 R (m_ks m) (map clear_entry (m_ks m))) by (apply Forall2_map_right, Rc).
    destruct cfix; [exact A|]. destruct (m_cur m) as [id|]; [|exact A].
    destruct (existsb (has_id id) (m_ks m)); [|exact A]. cbn [m_ks].
    apply Forall2_map_right. intros e. destruct (has_id id e); auto.
  Qed.

  Lemma on_keystore_rel (R : entry -> entry -> Prop) sel o m :
    (forall e, R e e) ->
    (forall e, In e (m_ks m) -> sel e = true -> fst (on_keystore sel o m) = MRes (fst (lift o e)) -> R e (set_st sk e (snd (lift o e)))) ->
    ks_rel R m (snd (on_keystore sel o m)).
  Proof.
    intros Rr Rs. unfold ks_rel, Manager.on_keystore in *.
    destruct (on_first sk sig sel (lift o) (m_ks m)) as [[x ks']|] eqn:E; cbn [snd m_ks fst] in *.
    - eapply on_first_rel; eauto. intros e Ie Se Ex. apply Rs; auto. rewrite Ex. reflexivity.
    - apply Forall2_refl_gen, Rr.
  Qed.

  (* the operation of the single-keystore machine a KeystoreManager call performs on keystore e *)
  Definition op_on (o : mop) (e : entry) : op :=
    match o with
    | MSign p n h => OSign p (match path_of n e with Some a => a | None => (0, 0) end) h
    | MExport _ p => OExport p
    | MMnemonic _ p => OMnemonic p
    | MCheck _ p => OCheck p
    | _ => OClear
    end.

  (* the general form: R is reflexive, holds across clearPrivKeys and across the machine step of a
     keystore the call may touch (given the outcome) *)
  Lemma mstep_rel (R : entry -> entry -> Prop) m o :
    (forall e, R e e) -> (o = MClear -> forall e, R e (clear_entry e)) ->
    (forall e, In e (m_ks m) -> touches o e = true -> fst (mstep m o) = MRes (ustep_out (e_cfg e) (e_st e) (op_on o e)) ->
               R e (set_st sk e (ustep_st (e_cfg e) (e_st e) (op_on o e)))) ->
    ks_rel R m (snd (mstep m o)).
  Proof.
    intros Rr Rc Rs. destruct o as [id|p n h|  |id p|id p|id p]; cbn [Manager.mstep] in *.
    - destruct (existsb (has_id id) (m_ks m)); cbn; apply Forall2_refl_gen, Rr.
    - apply on_keystore_rel; [exact Rr|]. intros e Ie Se Ex. apply (Rs e Ie Se Ex).
    - cbn [snd]. apply clear_all_rel; auto.
    - apply on_keystore_rel; [exact Rr|]. intros e Ie Se Ex. apply (Rs e Ie Se Ex).
    - apply on_keystore_rel; [exact Rr|]. intros e Ie Se Ex. apply (Rs e Ie Se Ex).
    - apply on_keystore_rel; [exact Rr|]. intros e Ie Se Ex. apply (Rs e Ie Se Ex).
  Qed.


  (* a predicate on manager states kept by every KeystoreManager call *)
  Definition kept (P : mstate -> Prop) : Prop := forall m o, P m -> P (snd (mstep m o)).

  Lemma use_all_kept P ids : kept P -> forall m, P m -> P (use_all ids m).
  Proof.
    intros K. induction ids as [|id r IH]; intros m H; cbn [Manager.use_all]; [exact H|].
    apply IH. apply (K m (MUse id) H).
  Qed.

  Lemma sign_inputs_kept P p ins : kept P -> forall m, P m -> P (snd (sign_inputs m p ins)).
  Proof.
    intros K. induction ins as [|[[[sw1 sw2] n] h] r IH]; intros m H; cbn [Manager.sign_inputs]; [exact H|].
    pose proof (use_all_kept P sw1 K m H) as H0.
    destruct (current (use_all sw1 m)) as [c|]; [|exact H0].
    destruct (negb (has_addr n c)); [exact H0|].
    pose proof (use_all_kept P sw2 K _ H0) as H1.
    destruct (current (use_all sw2 (use_all sw1 m))) as [c'|]; [|exact H1].
    destruct (negb (has_addr n c')); [exact H1|].
    pose proof (K _ (MSign p n h) H1) as H2.
    destruct (mstep (use_all sw2 (use_all sw1 m)) (MSign p n h)) as [x m2]. cbn [snd] in H2.
    destruct x as [[s|ex|en| |e]|l|e]; try exact H2.
    specialize (IH m2 H2). destruct (sign_inputs m2 p r) as [y m3]. cbn [snd] in IH.
    destruct y; exact IH.
  Qed.

  Lemma clear_is_mstep m : clear_all m = snd (mstep m MClear).
  Proof. reflexivity. Qed.

  Lemma wstep_kept P o : kept P -> forall m, P m -> P (snd (wstep m o)).
  Proof.
    intros K m H. destruct o as [o|p ins last]; cbn [Manager.wstep]; [apply K, H|].
    unfold Manager.sign_raw. destruct (current m); [|exact H]. cbn [snd].
    rewrite clear_is_mstep. apply K, use_all_kept; [exact K|]. apply sign_inputs_kept; auto.
  Qed.

  Lemma wrun_kept P ops : kept P -> forall m, P m -> P (wrun m ops).
  Proof. intros K. induction ops as [|o r IH]; intros m H; cbn; [exact H|]. apply IH, wstep_kept; auto. Qed.

  (* ---------------------------------------------------------------- ids and configurations *)
  Lemma mstep_keys m o : ks_rel same_key m (snd (mstep m o)).
  Proof.
    apply mstep_rel; intros; try apply set_st_key; split; reflexivity.
  Qed.

  Lemma keys_kept l : kept (fun m => map key (m_ks m) = l).
  Proof.
    intros m o H. rewrite <- H. apply Forall2_map_eq.
    eapply Forall2_weaken; [|apply mstep_keys]. intros a b [E1 E2]. unfold key. rewrite E1, E2. reflexivity.
  Qed.

  Lemma fresh_keys l : map key (m_ks (fresh l)) = l.
  Proof.
    unfold fresh. cbn [m_ks]. rewrite map_map. unfold key. cbn [e_id e_cfg].
    induction l as [|[i c] r IH]; cbn; [reflexivity|]. rewrite IH. reflexivity.
  Qed.

  (* the managed keystores of a reachable manager are the loaded ones, in their order *)
  Theorem reachable_keys l m : mreachable l m -> map key (m_ks m) = l.
  Proof. intros [ops <-]. apply wrun_kept; [apply keys_kept|apply fresh_keys]. Qed.

  (* ---------------------------------------------------------------- projection: in every manager
     state every managed keystore is in a reachable state of the single-keystore machine *)
  Definition kreach (e : entry) : Prop := ureachable (e_cfg e) (e_st e).

  Lemma ureachable_step cfg st o : ureachable cfg st -> ureachable cfg (ustep_st cfg st o).
  Proof.
    intros [ops <-]. exists (ops ++ [o]).
    rewrite (run_app kdf digest shash open_box sk sig branch_ok derive_sk sign zfix sfix nfix cfg). reflexivity.
  Qed.

  Lemma kreach_kept : kept (fun m => Forall kreach (m_ks m)).
  Proof.
    intros m o H. eapply Forall2_Forall_transport; [| |exact H].
    - apply (mstep_rel (fun a b => kreach a -> kreach b)); auto.
      + intros _ e He. apply (ureachable_step _ _ OClear He).
      + intros e _ _ _ He. apply (ureachable_step _ _ _ He).
    - cbn. auto.
  Qed.

  Theorem keystores_reachable l m : mreachable l m -> Forall kreach (m_ks m).
  Proof.
    intros [ops <-]. apply (wrun_kept (fun m => Forall kreach (m_ks m))); [apply kreach_kept|].
    unfold fresh. cbn [m_ks]. apply Forall_forall. intros e He. apply in_map_iff in He.
    destruct He as ([i c] & <- & _). exists []. reflexivity.
  Qed.

  (* ---------------------------------------------------------------- (c) frame: a KeystoreManager
     call changes no keystore but those it may touch — the first keystore with the given id, the
     first that has the address — and never an id or a configuration *)
  Theorem keystore_frame m o :
    Forall2 (fun a b => same_key a b /\ (touches o a = false -> b = a)) (m_ks m) (m_ks (snd (mstep m o))).
  Proof.
    apply (mstep_rel (fun a b => same_key a b /\ (touches o a = false -> b = a))).
    - intros e. split; [split; reflexivity|auto].
    - intros -> e. split; [apply set_st_key|]. discriminate.
    - intros e _ T _. split; [apply set_st_key|]. rewrite T. discriminate.
  Qed.

  (* of the keystores a call may touch it changes at most one *)
  Theorem keystore_frame_one m o : o <> MClear ->
    m_ks (snd (mstep m o)) = m_ks m \/
    exists l1 e e' l2, m_ks m = l1 ++ e :: l2 /\ m_ks (snd (mstep m o)) = l1 ++ e' :: l2 /\
                       touches o e = true /\ same_key e e' /\ Forall (fun a => touches o a = false) l1.
  Proof.
    intros NC.
    assert (K : forall sel f, (forall e, sel e = touches o e) ->
              m_ks (snd (on_keystore sel f m)) = m_ks m \/
              exists l1 e e' l2, m_ks m = l1 ++ e :: l2 /\ m_ks (snd (on_keystore sel f m)) = l1 ++ e' :: l2 /\
                                 touches o e = true /\ same_key e e' /\ Forall (fun a => touches o a = false) l1).
    { intros sel f Hs. unfold Manager.on_keystore.
      destruct (on_first sk sig sel (lift f) (m_ks m)) as [[x ks']|] eqn:E; [|left; reflexivity].
      destruct (on_first_spec _ _ _ _ _ E) as (l1 & e & l2 & E1 & E2 & Se & _ & F). right.
      exists l1, e, (set_st sk e (snd (lift f e))), l2. cbn [snd m_ks]. rewrite <- Hs.
      repeat split; auto. eapply Forall_impl; [|exact F]. intros a Ha. rewrite <- Hs. exact Ha. }
    destruct o as [id|p n h|  |id p|id p|id p]; cbn [Manager.mstep]; try (apply K; reflexivity).
    - left. destruct (existsb (has_id id) (m_ks m)); reflexivity.
    - contradiction.
  Qed.

  (* UseKeystoreForWallet changes no keystore at all, and the other calls do not change the selection *)
  Theorem use_changes_no_keystore m id : m_ks (snd (mstep m (MUse id))) = m_ks m.
  Proof. cbn. destruct (existsb (has_id id) (m_ks m)); reflexivity. Qed.

  Theorem selection_frame m o : (forall id, o <> MUse id) -> m_cur (snd (mstep m o)) = m_cur m.
  Proof.
    intros N. destruct o as [id|p n h|  |id p|id p|id p]; cbn [Manager.mstep];
      try (unfold Manager.on_keystore; destruct (on_first _ _ _ _ _) as [[x ks']|]; reflexivity).
    - exfalso. apply (N id eq_refl).
    - cbn [snd]. unfold Manager.clear_all. destruct cfix; [reflexivity|].
      destruct (m_cur m); [|reflexivity]. destruct (existsb _ _); reflexivity.
  Qed.

  (* ---------------------------------------------------------------- (a) locked and wiped *)
  Lemma cleared_wiped (st : amstate sk) : wiped (clear_priv_keys sk st).
  Proof. repeat split. Qed.

  Lemma wiped_locked (st : amstate sk) : wiped st -> locked st.
  Proof. intros [L _]. exact L. Qed.

  Lemma locked_same (a b : amstate sk) : same_but_mk a b -> locked a -> locked b.
  Proof.
    intros (E1 & E2 & E3 & E4 & _) (L1 & L2 & L3 & L4). unfold locked. rewrite <- E1, <- E2, <- E3, <- E4. auto.
  Qed.

  (* the checks of export, reveal and the removal gate on a locked keystore touch masterKeyPriv.Key only *)
  Lemma locked_step_same cfg st o : s_unlocked st = false ->
    match o with OExport _ | OMnemonic _ | OCheck _ => True | _ => False end ->
    same_but_mk st (ustep_st cfg st o).
  Proof.
    intros U NS. unfold Unlock.step_st. destruct o; try contradiction; cbn [Unlock.step];
      unfold Unlock.export_keystore, Unlock.get_mnemonic, Unlock.safely_check, Unlock.check_password;
      rewrite ?U;
      repeat match goal with
             | |- context [if ?b then _ else _] => destruct b
             | |- context [match ?x with Some _ => _ | None => _ end] => destruct x
             end;
      cbn [fst snd s_unlocked set_mk]; rewrite ?U;
      repeat match goal with
             | |- context [if ?b then _ else _] => destruct b
             end; repeat split.
  Qed.

  Hypothesis Cfix : cfix = true.

  Lemma clear_all_wipes m : Forall (fun e => wiped (e_st e)) (m_ks (clear_all m)).
  Proof.
    unfold Manager.clear_all. rewrite Cfix. cbn [m_ks]. apply Forall_forall. intros e He.
    apply in_map_iff in He. destruct He as (a & <- & _). apply cleared_wiped.
  Qed.

  (* SignRawTx with nothing in use is refused and changes nothing *)
  Theorem sign_raw_nothing_in_use m p ins last : current m = None ->
    sign_raw m p ins last = (MRefused MNoWalletInUse, m).
  Proof. intros C. unfold Manager.sign_raw. rewrite C. reflexivity. Qed.

  (* every other SignRawTx — signed or refused at any input, with any passphrase, whatever keystores
     signed, whatever the selection was and however it changed in between — leaves EVERY managed
     keystore locked and wiped, in ANY manager state it is called in *)
  Theorem sign_raw_wipes_all m p ins last : current m <> None ->
    Forall (fun e => wiped (e_st e)) (m_ks (snd (sign_raw m p ins last))).
  Proof.
    intros C. unfold Manager.sign_raw. destruct (current m); [|contradiction]. cbn [snd]. apply clear_all_wipes.
  Qed.

  Lemma sign_inputs_not_nwiu m p ins : fst (sign_inputs m p ins) <> MRefused MNoWalletInUse.
  Proof.
    revert m. induction ins as [|[[[sw1 sw2] n] h] r IH]; intros m; cbn [Manager.sign_inputs]; [discriminate|].
    destruct (current (use_all sw1 m)) as [c|]; [|discriminate].
    destruct (negb (has_addr n c)); [discriminate|].
    destruct (current (use_all sw2 (use_all sw1 m))) as [c'|]; [|discriminate].
    destruct (negb (has_addr n c')); [discriminate|].
    destruct (mstep (use_all sw2 (use_all sw1 m)) (MSign p n h)) as [x m2] eqn:E.
    assert (X : x <> MRefused MNoWalletInUse).
    { cbn [Manager.mstep] in E. unfold Manager.on_keystore in E.
      destruct (on_first _ _ _ _ _) as [[y ks']|]; inversion E; discriminate. }
    destruct x as [[s|ex|en| |e]|l|e]; try exact X.
    specialize (IH m2). destruct (sign_inputs m2 p r) as [y m3]. cbn [fst] in *. destruct y; auto; discriminate.
  Qed.

  (* the same read off the outcome *)
  Theorem sign_raw_outcome m p ins last :
    fst (sign_raw m p ins last) <> MRefused MNoWalletInUse ->
    Forall (fun e => wiped (e_st e)) (m_ks (snd (sign_raw m p ins last))).
  Proof.
    intros H. apply sign_raw_wipes_all. intros C. apply H. rewrite (sign_raw_nothing_in_use m p ins last C). reflexivity.
  Qed.

  (* ClearPrivKey itself *)
  Theorem clear_wipes_all m : Forall (fun e => wiped (e_st e)) (m_ks (snd (mstep m MClear))).
  Proof. apply clear_all_wipes. Qed.

  (* a refused SignRawTx unlocks nothing and leaves every keystore either as it was or wiped *)
  Theorem sign_raw_refusal m p ins last : is_refusal (fst (sign_raw m p ins last)) = true ->
    Forall2 (fun a b => same_key a b /\ (e_st b = e_st a \/ wiped (e_st b))) (m_ks m) (m_ks (snd (sign_raw m p ins last))).
  Proof.
    intros _. destruct (current m) eqn:C.
    - pose proof (sign_raw_wipes_all m p ins last) as W. rewrite C in W. specialize (W ltac:(discriminate)).
      assert (K : Forall2 same_key (m_ks m) (m_ks (snd (sign_raw m p ins last)))).
      { assert (E : map key (m_ks (snd (sign_raw m p ins last))) = map key (m_ks m)).
        { apply (wstep_kept (fun x => map key (m_ks x) = map key (m_ks m)) (WSignRaw p ins last));
            [apply keys_kept|reflexivity]. }
        clear W C. revert E. generalize (m_ks (snd (sign_raw m p ins last))). generalize (m_ks m).
        induction l as [|a r IH]; intros [|b r'] E; cbn in E; try discriminate; constructor.
        - unfold key in E. inversion E. split; auto.
        - apply IH. inversion E. auto. }
      clear C. revert W K. generalize (m_ks (snd (sign_raw m p ins last))). generalize (m_ks m).
      induction l as [|a r IH]; intros l' W K; inversion K; subst; constructor.
      + inversion W; subst. split; auto.
      + inversion W; subst. apply IH; auto.
    - rewrite (sign_raw_nothing_in_use m p ins last C). cbn [snd].
      apply Forall2_refl_gen. intros a. split; [split; reflexivity|left; reflexivity].
  Qed.

  (* through the WalletManager's own calls (UseWallet, SignRawTx with any interleaved UseWallet,
     ExportWallet, GetMnemonic, RemoveWallet's gate; not the bare SignHash) every managed keystore
     is locked with nothing derived or cached between any two calls *)
  Lemma wallet_call_locked m o : wallet_call o = true ->
    Forall (fun e => locked (e_st e)) (m_ks m) -> Forall (fun e => locked (e_st e)) (m_ks (snd (wstep m o))).
  Proof.
    intros W H. destruct o as [o|p ins last]; cbn [Manager.wstep].
    - eapply Forall2_Forall_transport; [| |exact H].
      + apply (mstep_rel (fun a b => locked (e_st a) -> locked (e_st b))); auto.
        * intros _ e _. apply wiped_locked, cleared_wiped.
        * intros e _ T _ L. cbn [e_st set_st]. destruct o; try discriminate; cbn [op_on];
            (eapply locked_same; [apply locked_step_same; [apply L|exact I]|exact L]).
      + cbn. auto.
    - destruct (current m) eqn:C.
      + eapply Forall_impl; [|apply sign_raw_wipes_all; rewrite C; discriminate]. intros x. apply wiped_locked.
      + rewrite (sign_raw_nothing_in_use m p ins last C). exact H.
  Qed.

  Theorem wallet_calls_end_locked l ops : forallb wallet_call ops = true ->
    Forall (fun e => locked (e_st e)) (m_ks (wrun (fresh l) ops)).
  Proof.
    assert (G : forall ops m, forallb wallet_call ops = true -> Forall (fun e => locked (e_st e)) (m_ks m) ->
                Forall (fun e => locked (e_st e)) (m_ks (wrun m ops))).
    { induction ops0 as [|o r IH]; intros m F H; [exact H|]. cbn in F. apply andb_true_iff in F.
      destruct F as [F1 F2]. cbn [Manager.wrun]. apply IH; [exact F2|]. apply wallet_call_locked; auto. }
    intros F. apply G; [exact F|]. unfold fresh. cbn [m_ks]. apply Forall_forall. intros e He.
    apply in_map_iff in He. destruct He as ([i c] & <- & _). cbn. repeat split.
  Qed.

  (* ---------------------------------------------------------------- (b) refusals. Every managed
     keystore has its own passphrase, account key, entropy and address keys *)
  Definition lawful (c : amcfg) : Prop :=
    exists right acct ent sk_of, unlock_laws kdf digest shash open_box sk branch_ok derive_sk c right acct ent sk_of.

  Hypothesis Sfix : sfix = true.
  Hypothesis Nfix : nfix = true.

  (* the frame of refusals of the single keystore, for any request (also a signing request for an
     address the keystore does not have or a hash of another length) *)
  Lemma refusal_frames_any cfg st o e : lawful cfg -> ureachable cfg st ->
    ustep_out cfg st o = OutErr e -> same_but_mk st (ustep_st cfg st o).
  Proof.
    intros (right & acct & ent & sk_of & laws) R E.
    assert (D : op_ready cfg o \/ ustep_st cfg st o = st).
    { destruct o as [p a h|p|p|p|a b|np|]; try (left; intros p' a' h' Q; discriminate).
      destruct (known cfg a) eqn:K.
      - destruct (length h =? 32)%nat eqn:L.
        + left. intros p' a' h' Q. inversion Q; subst. split; [exact K|apply Nat.eqb_eq, L].
        + right. unfold Unlock.step_st. cbn [Unlock.step]. rewrite K. cbn [negb]. unfold Unlock.sign_btcec.
          rewrite L. reflexivity.
      - right. unfold Unlock.step_st. cbn [Unlock.step]. rewrite K. reflexivity. }
    destruct D as [D|D].
    - eapply refusal_frames; eauto.
    - rewrite D. apply same_refl.
  Qed.

  Lemma reachable_lawful l m e : Forall (fun ic => lawful (snd ic)) l -> mreachable l m ->
    In e (m_ks m) -> lawful (e_cfg e) /\ kreach e.
  Proof.
    intros L R Ie. split.
    - pose proof (reachable_keys l m R) as K. rewrite Forall_forall in L.
      apply (L (key e)). rewrite <- K. apply in_map, Ie.
    - pose proof (keystores_reachable l m R) as K. rewrite Forall_forall in K. apply K, Ie.
  Qed.

  (* a refused KeystoreManager call — wrong passphrase or any other error, any keystore, in use or
     not, in ANY reachable manager state — leaves the selection and every keystore's unlocked flag,
     salted passphrase hash, branch keys, cached private keys and salt as they were (only the content
     of masterKeyPriv.Key of the one keystore asked may differ): it unlocks none *)
  Theorem manager_refusal_frames l m o e : Forall (fun ic => lawful (snd ic)) l -> mreachable l m ->
    fst (mstep m o) = MRes (OutErr e) ->
    m_cur (snd (mstep m o)) = m_cur m /\
    Forall2 (fun a b => same_key a b /\ same_but_mk (e_st a) (e_st b)) (m_ks m) (m_ks (snd (mstep m o))).
  Proof.
    intros L R E. split.
    - destruct o as [id|p n h|  |id p|id p|id p]; try (apply selection_frame; intros; discriminate).
      cbn [Manager.mstep] in *. destruct (existsb (has_id id) (m_ks m)); [discriminate|reflexivity].
    - apply (mstep_rel (fun a b => same_key a b /\ same_but_mk (e_st a) (e_st b))).
      + intros a. split; [split; reflexivity|apply same_refl].
      + intros -> a. cbn in E. discriminate.
      + intros a Ia _ Ex. split; [apply set_st_key|]. cbn [e_st set_st].
        destruct (reachable_lawful l m a L R Ia) as [La Ka].
        rewrite E in Ex. injection Ex as Ex. eapply refusal_frames_any; eauto.
  Qed.

  (* ---------------------------------------------------------------- the gate, for every managed
     keystore, in use or not, in every reachable manager state *)
  Lemma refusal_ok (x : out sig) : is_refusal (MRes x) = negb (is_ok x).
  Proof. destruct x; reflexivity. Qed.

  Lemma find_known n e a : path_of n e = Some a -> known (e_cfg e) a = true.
  Proof.
    unfold Manager.path_of, known. intros F. apply find_some in F. destruct F as [Ia _].
    apply existsb_exists. exists a. split; [exact Ia|]. unfold addr_eqb. rewrite !Z.eqb_refl. reflexivity.
  Qed.

  Theorem manager_gate l m e0 right acct ent sk_of p o :
    zfix = true -> mreachable l m ->
    unlock_laws kdf digest shash open_box sk branch_ok derive_sk (e_cfg e0) right acct ent sk_of ->
    ((exists id, find (has_id id) (m_ks m) = Some e0 /\ (o = MExport id p \/ o = MMnemonic id p \/ o = MCheck id p)) \/
     (exists n h, find (has_addr n) (m_ks m) = Some e0 /\ length h = 32%nat /\ o = MSign p n h)) ->
    (is_refusal (fst (mstep m o)) = false <-> p = right) /\
    (p <> right -> fst (mstep m o) = MRes (OutErr EInvalidPassphrase)).
  Proof.
    intros Z R laws H.
    assert (K : exists uo, fst (mstep m o) = MRes (ustep_out (e_cfg e0) (e_st e0) uo) /\
                          needs_secret uo = Some p /\ op_ready (e_cfg e0) uo /\ In e0 (m_ks m)).
    { destruct H as [[id [F Ho]]|[n [h [F [Lh Ho]]]]]; [destruct Ho as [Ho|[Ho|Ho]]|]; subst o;
        cbn [Manager.mstep]; unfold Manager.on_keystore.
      - destruct (on_first_find (has_id id) (lift (fun _ => OExport p)) _ _ F) as (l' & ->).
        exists (OExport p). split; [reflexivity|]. split; [reflexivity|].
        split; [intros ? ? ? Q; discriminate|apply (find_some _ _ F)].
      - destruct (on_first_find (has_id id) (lift (fun _ => OMnemonic p)) _ _ F) as (l' & ->).
        exists (OMnemonic p). split; [reflexivity|]. split; [reflexivity|].
        split; [intros ? ? ? Q; discriminate|apply (find_some _ _ F)].
      - destruct (on_first_find (has_id id) (lift (fun _ => OCheck p)) _ _ F) as (l' & ->).
        exists (OCheck p). split; [reflexivity|]. split; [reflexivity|].
        split; [intros ? ? ? Q; discriminate|apply (find_some _ _ F)].
      - match goal with |- context [on_first _ _ _ (lift ?f) _] =>
          destruct (on_first_find (has_addr n) (lift f) _ _ F) as (l' & ->) end.
        pose proof (find_some _ _ F) as [Ie Ha]. unfold Manager.has_addr in Ha.
        destruct (path_of n e0) as [a|] eqn:P; [|discriminate].
        exists (OSign p a h). split; [cbn [fst]; unfold Manager.lift; rewrite P; reflexivity|].
        split; [reflexivity|]. split; [|exact Ie].
        intros p' a' h' Q. inversion Q; subst. split; [apply (find_known n e0 a' P)|exact Lh]. }
    destruct K as (uo & -> & N & Rd & Ie). rewrite refusal_ok.
    assert (Ke : kreach e0).
    { pose proof (keystores_reachable l m R) as K. rewrite Forall_forall in K. apply K, Ie. }
    destruct (gate_fixed kdf digest shash open_box sk sig branch_ok derive_sk sign zfix sfix nfix (e_cfg e0)
                right acct ent sk_of laws Sfix Nfix (e_st e0) uo p Z Ke N Rd) as [G1 G2].
    split.
    - rewrite negb_false_iff. exact G1.
    - intros Hp. rewrite (G2 Hp). reflexivity.
  Qed.
End Proofs.

(* ------------------------------------------------------------------ (d) the variant "ClearPrivKey
   clears only the keystore in use" ([cfix] = false): closed witnesses over the perfect-cryptography
   instance of Keys/Toy.v. Two keystores with passphrases "1" and "2", one address each. *)
Definition w_name (id : kid) (a : addr) : aname := id * 1000 + fst a * 100 + snd a.
Definition w_ks : list (kid * amcfg) :=
  [(1, Toy.cfg [49] [1; 2; 3] [4; 5; 6] [(0, 0)]); (2, Toy.cfg [50] [1; 2; 3] [4; 5; 6] [(0, 0)])].
Definition w_hash : bytes := repeat 7 32.
Definition w_run (cfix : bool) (ops : list (wop )) : mstate Toy.sk :=
  wrun Toy.kdf Toy.digest Toy.shash Toy.open_box Toy.sk bytes Toy.branch_ok Toy.derive_sk Toy.sign
       true true true cfix w_name (fresh w_ks) ops.
Definition w_out (cfix : bool) (ops : list wop) (o : wop) : mout bytes :=
  fst (wstep Toy.kdf Toy.digest Toy.shash Toy.open_box Toy.sk bytes Toy.branch_ok Toy.derive_sk Toy.sign
             true true true cfix w_name (w_run cfix ops) o).
(* wallet 1 in use; SignRawTx of one coin of wallet 1 with its passphrase; another request selects
   wallet 2 after the signature, before the deferred clearing *)
Definition w_switch : list wop := [WOp (MUse 1); WSignRaw [49] [([], [], w_name 1 (0, 0), w_hash)] [2]].
(* wallet 1 in use; SignHash with a key of wallet 2; then an ordinary SignRawTx of wallet 1 *)
Definition w_other : list wop :=
  [WOp (MUse 1); WOp (MSign [50] (w_name 2 (0, 0)) w_hash); WSignRaw [49] [([], [], w_name 1 (0, 0), w_hash)] []].

Definition stays_unlocked (m : mstate Toy.sk) : Prop :=
  exists e, In e (m_ks m) /\ m_cur m <> Some (e_id e) /\
            s_unlocked (e_st e) = true /\ s_mk (e_st e) <> zero32 /\ s_hashed (e_st e) <> zero64 /\
            s_branch (e_st e) <> None /\ s_cached (e_st e) <> [].

Theorem clear_in_use_only_refuted :
  (forallb wallet_call w_switch = true /\ stays_unlocked (w_run false w_switch)) /\
  stays_unlocked (w_run false w_other).
Proof.
  split; [split; [reflexivity|]|].
  - vm_compute. eexists. split; [left; reflexivity|]. cbn. repeat split; discriminate.
  - vm_compute. eexists. split; [right; left; reflexivity|]. cbn. repeat split; discriminate.
Qed.

(* non-vacuity of the theorems about the code as it is: the same two histories sign (the SignRawTx
   returns its signature) and end with every keystore wiped; in between a keystore WAS unlocked *)
Lemma manager_example :
  Forall (fun e => wiped (e_st e)) (m_ks (w_run true w_switch)) /\
  Forall (fun e => wiped (e_st e)) (m_ks (w_run true w_other)) /\
  m_cur (w_run true w_switch) = Some 2 /\
  (exists s, w_out true [WOp (MUse 1)] (WSignRaw [49] [([], [], w_name 1 (0, 0), w_hash)] [2]) = MSigs [s]) /\
  stays_unlocked (w_run true (firstn 2 w_other)) /\
  w_out true w_other (WOp (MExport 2 [49])) = MRes (OutErr EInvalidPassphrase).
Proof.
  split; [|split; [|split; [|split; [|split]]]].
  - vm_compute. repeat constructor.
  - vm_compute. repeat constructor.
  - reflexivity.
  - vm_compute. eexists. reflexivity.
  - vm_compute. eexists. split; [right; left; reflexivity|]. cbn. repeat split; discriminate.
  - reflexivity.
Qed.
