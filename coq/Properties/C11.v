(* Property C11 — the wallet database gives atomic, isolated, ordered key/value transactions.
   Only statements here; each is closed by [exact] of a lemma proved in KV/Proofs.v and followed by
   Print Assumptions.  Model: KV/Model.v (masswallet/db/db.go BytesPrefix/Update, masswallet/db/ldb/leveldb.go). *)
From Coq Require Import List ZArith.
Import ListNotations.
Open Scope Z_scope.
Require Import MW.KV.Model MW.KV.Proofs.

(* db.BytesPrefix: the range [prefix, limit) holds exactly the byte strings that have the prefix — also for
   prefixes that end in, or consist of, 0xff bytes and for the empty prefix (limit absent) *)
Theorem C11_bytes_prefix : forall p k, bytes_ok p -> bytes_ok k ->
  in_range (fst (bytes_prefix p)) (snd (bytes_prefix p)) k = has_prefix p k.
Proof. exact bytes_prefix_range. Qed.
Print Assumptions C11_bytes_prefix.
