(* Property C11 — the wallet database gives atomic, isolated, ordered key/value transactions.
   Only statements here; each is closed by [exact] of a lemma proved in KV/Proofs.v (Proofs2.v: bucket index invariant
   and exact listing, Proofs3.v: nested-map refinement, Proofs4.v: no orphans, Proofs5.v + Proofs6.v: iterators of write
   transactions) and followed by Print Assumptions.
   Model: KV/Model.v — masswallet/db/db.go (BytesPrefix, Update) and masswallet/db/ldb/leveldb.go (batch, transaction,
   levelBucket, batchIterator, levelIterator), one Gallina function per Go method.  goleveldb is environment:
   DB.Get = [s_get], DB.Write(batch) = [apply_log] (atomic, in recording order), a range iterator = the ascending
   entries of [lo,hi) of a snapshot ([range_entries]).
   Vocabulary: [bytes_ok] / [keys_bytes] say "every element is a byte (0..255)" — the typing of Go's []byte, not a
   restriction; [keys_sorted s] is the representation invariant of the store (an ordered map), [batch_wf b] the
   invariant of ldb.batch (its puts/deletes/seq summary agrees with the recorded log); both hold in every state
   reachable by any op sequence (C11_invariant_all_sequences). *)
From Coq Require Import List ZArith Sorted.
Import ListNotations.
Open Scope Z_scope.
Require Import MW.KV.Model MW.KV.Proofs MW.KV.Proofs2 MW.KV.Proofs3 MW.KV.Proofs4 MW.KV.Proofs5 MW.KV.Proofs6 MW.KV.Spec MW.KV.Refine.

(* ---- atomicity *)
(* Commit applies exactly the recorded log, Rollback nothing; db.Update with a failing function leaves the store as it
   was, a succeeding one applies the whole log of what the function did *)
Theorem C11_commit_all_or_nothing :
  (forall s b, commit s b = apply_log s (b_log b)) /\
  (forall s b, rollback s b = s) /\
  (forall A (f : store -> batch -> result A * batch) s,
     (forall e s', update s f = (Err e, s') -> s' = s) /\
     (forall a s', update s f = (Ok a, s') -> s' = apply_log s (b_log (snd (f s empty_batch))))).
Proof. exact (conj commit_is_apply_log (conj rollback_unchanged update_all_or_nothing)). Qed.
Print Assumptions C11_commit_all_or_nothing.

(* along ANY sequence of operations of the op language (bucket create/delete, put, delete, clear, reads, iterators,
   commit, rollback, Update with or without error, reopen) the committed store changes at a commit only, and then by
   the whole log at once: nothing of a write transaction is visible before, everything after *)
Theorem C11_store_changes_only_at_commit : forall snap st o,
  st_store (fst (step_gen snap st o)) = st_store st \/
  exists b, st_wtx st = Some b /\ (o = OCommit \/ o = OUEnd false) /\
            st_store (fst (step_gen snap st o)) = apply_log (st_store st) (b_log b).
Proof. exact store_changes_only_at_commit. Qed.
Print Assumptions C11_store_changes_only_at_commit.

(* the invariants the other theorems assume hold after every op sequence *)
Theorem C11_invariant_all_sequences : forall ops,
  keys_sorted (st_store (run ops)) /\
  match st_wtx (run ops) with Some b => batch_wf b | None => True end /\
  match st_rtx (run ops) with Some s0 => keys_sorted s0 | None => True end.
Proof. exact run_inv. Qed.
Print Assumptions C11_invariant_all_sequences.

(* ---- read your writes *)
(* the (last put, last delete, seq) summary the code keeps decides the log: batch.Get answers by the LAST operation
   recorded for the key (put -> its value, delete -> deleted, none -> untouched) *)
Theorem C11_summary_sound : forall b k, batch_ok b -> batch_view b k = view_of_rlog (b_rlog b) k.
Proof. exact summary_sound. Qed.
Print Assumptions C11_summary_sound.

(* a point read inside a write transaction = a lookup in the store as it would be if the log so far were applied *)
Theorem C11_read_your_writes : forall s b h k, batch_ok b -> k <> [] ->
  bucket_get s (Some b) h k = s_get (inner_key (h_path h) k) (apply_log s (b_log b)).
Proof. exact read_your_writes_get. Qed.
Print Assumptions C11_read_your_writes.

(* a prefix read inside a write transaction = as a set, the entries with that prefix in the store as it would be
   after commit (own puts and overwrites included, own deletes excluded) *)
Theorem C11_read_your_writes_prefix : forall s b h prefix, keys_sorted s -> keys_bytes s -> batch_wf b ->
  bytes_ok (h_path h) -> bytes_ok prefix ->
  forall k v, In (k, v) (get_by_prefix s (Some b) h prefix) <->
              has_prefix prefix k = true /\ s_get (inner_key (h_path h) k) (apply_log s (b_log b)) = Some v.
Proof. exact read_your_writes_prefix. Qed.
Print Assumptions C11_read_your_writes_prefix.

(* ... and it returns every key once *)
Theorem C11_read_your_writes_prefix_once : forall s b h prefix, keys_sorted s -> keys_bytes s -> batch_wf b ->
  bytes_ok (h_path h) -> bytes_ok prefix -> NoDup (map fst (get_by_prefix s (Some b) h prefix)).
Proof. exact get_by_prefix_nodup. Qed.
Print Assumptions C11_read_your_writes_prefix_once.

(* (subsumed by C11_bucket_names_exact below; kept because other files may use it)  Whenever a bucket listing inside a
   write transaction succeeds it is, as a set, the values of the bucket index entries under the listing prefix in the
   store as it would be after commit. *)
Theorem C11_read_your_writes_names_partial : forall s b pfx d l, keys_sorted s -> keys_bytes s -> batch_wf b -> bytes_ok pfx ->
  names_scan s (Some b) pfx d = Ok l ->
  forall name, In name l <-> exists key, has_prefix pfx key = true /\ s_get key (apply_log s (b_log b)) = Some name.
Proof. exact read_your_writes_names_scan. Qed.
Print Assumptions C11_read_your_writes_names_partial.

(* ---- the store-wide well-formedness invariant of the bucket index.
   [entry_ok k v] (Proofs2): the stored entry is either a bucket index entry
       "b_<depth>_<name1>_..._<nameDepth>" -> nameDepth          ([index_entry])
   or a data entry
       "<depth>_<name1>_..._<nameDepth>_<key>" -> value, key and value non-empty   ([data_entry])
   with depth = the number of names >= 1 and every name legal (non-empty, at most 256 bytes, no '_', bytes).
   [store_ok s]: every entry of the store is [entry_ok].  [batch_idx_ok b]: every put the open batch has recorded (in
   its summary and in its log) is [entry_ok].  [handle_ok h]: the handle's path is the canonical path of a legal name
   tuple and its depth is the tuple's length.  [op_bytes o]: the byte-string arguments of the operation are []byte
   (typing of the op language, not a restriction).
   The invariant holds in EVERY state reachable from the empty database by ANY typed operation sequence (bucket
   create / delete (recursive) / put / delete / clear / commit / rollback / db.Update with and without error / read
   transactions / reopen, at every nesting depth, with the code as it is now and as first found): for the committed
   store, for the open write transaction (its batch, and the store as it would be after commit), for the store a read
   transaction captured, and for every bucket handle the API has handed out. *)
Theorem C11_index_invariant : forall snap ops, Forall op_bytes ops ->
  let st := exec snap init_state ops in
  store_ok (st_store st) /\
  match st_wtx st with Some b => batch_idx_ok b /\ store_ok (commit (st_store st) b) | None => True end /\
  match st_rtx st with Some s0 => store_ok s0 | None => True end /\
  Forall (fun o : option (bool * handle) => match o with Some (_, h) => handle_ok h | None => True end) (st_bs st).
Proof. exact run_idx_inv_explicit. Qed.
Print Assumptions C11_index_invariant.

(* it is inductive: every single operation preserves it ([idx_inv] = [inv] of C11_invariant_all_sequences + the above) *)
Theorem C11_index_invariant_step : forall snap st o, idx_inv st -> op_bytes o -> idx_inv (fst (step_gen snap st o)).
Proof. exact step_idx_inv. Qed.
Print Assumptions C11_index_invariant_step.

(* ... and so does every model function by itself (any committed store, any batch satisfying the invariant) *)
Theorem C11_index_invariant_ops :
  (forall s b name, bytes_ok name -> batch_idx_ok b -> batch_idx_ok (snd (create_top_level s b name))) /\
  (forall s ob h name, handle_ok h -> bytes_ok name -> obatch_ok ob -> obatch_ok (snd (new_bucket s ob h name))) /\
  (forall s ob h name, obatch_ok ob -> obatch_ok (snd (delete_bucket s ob h name))) /\
  (forall ob h k v, handle_ok h -> bytes_ok k -> obatch_ok ob -> obatch_ok (snd (bucket_put ob h k v))) /\
  (forall ob h k, obatch_ok ob -> obatch_ok (snd (bucket_delete ob h k))) /\
  (forall s ob h, obatch_ok ob -> obatch_ok (snd (clear s ob h))) /\
  (forall s b, store_ok s -> batch_idx_ok b -> store_ok (commit s b)) /\
  (forall s b, store_ok s -> store_ok (rollback s b)).
Proof. exact idx_ops_preserve. Qed.
Print Assumptions C11_index_invariant_ops.

(* ---- the listing, at full strength.
   [view_store s ob]: the store as the transaction sees it = the committed store with the transaction's own log
   applied (write transaction, ob = Some b), or the store itself (read transaction, ob = None).
   [child_exists V ns name]: name is a legal bucket name and the index entry of the bucket (ns ++ [name]) is in V.
   For any store and batch satisfying the invariants (that is: in every reachable state) and any handle of the
   canonical form, levelBucket.BucketNames — and transaction.BucketNames for the top level — never answers
   ErrIllegalValue (nor any error), lists every name once, and lists EXACTLY the children that exist in the
   transaction's own view: created and not deleted since, whether committed or pending. *)
Theorem C11_bucket_names_exact :
  (forall s ob h ns, keys_sorted s -> store_ok s -> obwf ob -> obatch_ok ob ->
     names_ok ns -> h_path h = path_of ns -> h_depth h = length ns ->
     exists l, bucket_names s ob h = Ok l /\ NoDup l /\ forall name, In name l <-> child_exists (view_store s ob) ns name) /\
  (forall s ob, keys_sorted s -> store_ok s -> obwf ob -> obatch_ok ob ->
     exists l, tx_bucket_names s ob = Ok l /\ NoDup l /\ forall name, In name l <-> child_exists (view_store s ob) [] name).
Proof. exact (conj bucket_names_exact tx_bucket_names_exact). Qed.
Print Assumptions C11_bucket_names_exact.

(* the same, for the states reachable by any typed operation sequence, through any bucket slot and any open
   transaction (write or read; for a read transaction [vs] is the store it captured when it began): the result of the
   listing operation of the op language *)
Theorem C11_bucket_names_exact_reachable : forall snap ops, Forall op_bytes ops ->
  let st := exec snap init_state ops in
  (forall src w h vs ob, slot_view snap st src = Some (w, h, vs, ob) ->
     exists ns l, names_ok ns /\ h_path h = path_of ns /\ h_depth h = length ns /\
       snd (step_gen snap st (ONames src)) = RNames l /\ NoDup l /\
       forall name, In name l <-> child_exists (view_store vs ob) ns name) /\
  (forall w vs ob, tx_view snap st w = Some (vs, ob) ->
     exists l, snd (step_gen snap st (OTxNames w)) = RNames l /\ NoDup l /\
       forall name, In name l <-> child_exists (view_store vs ob) [] name).
Proof. exact run_names_exact. Qed.
Print Assumptions C11_bucket_names_exact_reachable.

(* Bucket(name) against the listing: it answers non-nil exactly for the children that are committed OR in the
   transaction's view.  So every listed child opens, in a read transaction lookup and listing agree, but in a write
   transaction Bucket(name) still answers for a committed child the transaction has deleted
   (C11_lookup_after_delete_refuted) *)
Theorem C11_bucket_lookup : forall s ob h ns name, obwf ob -> names_ok ns -> h_path h = path_of ns -> h_depth h = length ns ->
  (bucket s ob h name <> None <-> child_exists s ns name \/ child_exists (view_store s ob) ns name).
Proof. exact bucket_lookup_char. Qed.
Print Assumptions C11_bucket_lookup.

(* ---- recursive bucket deletion.  [vw s b] = the write transaction's view as a function from stored keys;
   [under q key]: key is the index entry or a data entry of a bucket whose name tuple extends q;
   [shrinks q f f']: view f' is view f with some keys [under q] removed and nothing else changed;
   [chain f q ms]: the buckets q+[m1], q+[m1;m2], ... all exist in f.
   DeleteBucket(name), whatever it answers, only removes, and only inside the child's subtree; when it answers nil
   and the child exists, every bucket connected to the child through existing buckets is gone with all its data. *)
Theorem C11_delete_bucket_effect : forall s b h ns n r b', keys_sorted s -> store_ok s -> binv b -> hnd h ns ->
  delete_bucket s (Some b) h n = (r, Some b') ->
  shrinks (ns ++ [n]) (vw s b) (vw s b') /\
  (r = Ok tt -> bkf (vw s b) (ns ++ [n]) ->
   forall ms key, names_wf ((ns ++ [n]) ++ ms) -> node_key ((ns ++ [n]) ++ ms) key -> chain (vw s b) (ns ++ [n]) ms ->
     vw s b' key = None).
Proof. exact delete_bucket_effect. Qed.
Print Assumptions C11_delete_bucket_effect.

(* ---- refinement to a nested map.
   [tree] = Node (entries : key -> option value) (children : name -> option tree).
   [rep f ns t]: t is the nested map that view f holds at and below the bucket with name tuple ns (ns = []: the
   database; its children are the top-level buckets): t's entries are the data entries of ns, t has a child for
   exactly the legal names whose bucket exists, recursively.  [abs_tree V] is the abstraction function: it takes EVERY
   store to its nested map, which is unique up to extensional equality [teq]. *)
Theorem C11_abstraction :
  (forall V, rep (sget V) [] (abs_tree V)) /\
  (forall t1 f ns t2, rep f ns t1 -> rep f ns t2 -> teq t1 t2) /\
  (forall f p pre t, rep f pre t -> valid_names p -> (t_at t p <> None <-> chain f pre p)).
Proof. exact (conj abs_tree_rep (conj rep_unique t_at_chain)). Qed.
Print Assumptions C11_abstraction.

(* every operation of an open write transaction (committed store s, batch b, both satisfying the invariants — i.e. in
   every reachable state) commutes with the tree operation: with t = the nested map of the transaction's view,
   - the listing of the top level / of a bucket that is in the tree = the names of the node's children, Get = the
     node's entry;
   - Put / Delete / Clear / NewBucket / CreateTopLevelBucket / DeleteBucket (recursive) take t to
     t_put / t_delete / t_clear / t_create / t_create / t_remove of t (update of the entries / an added empty child /
     a dropped child with its whole subtree, at the node of the handle; no effect when the handle's bucket is not in
     the tree), up to [teq].
   Commit makes the view the committed store, Rollback leaves the committed store (C11_store_changes_only_at_commit), so
   the committed nested map becomes t, respectively stays.
   The create clauses need that nothing is stored under the new bucket's name ([fresh]) unless the bucket is there:
   that holds when handles are not used after their bucket was deleted, see C11_nested_map_refinement_reachable. *)
Theorem C11_nested_map_refinement : forall s b, keys_sorted s -> store_ok s -> binv b ->
  let t := abs_tree (commit s b) in
  rep (sget (commit s b)) [] t /\
  (exists l, tx_bucket_names s (Some b) = Ok l /\ NoDup l /\ forall n, In n l <-> t_kids t n <> None) /\
  (forall n h' b', create_top_level s b n = (Ok h', b') ->
     bkf (sget (commit s b)) [n] \/ fresh (sget (commit s b)) [n] ->
     teq (abs_tree (commit s b')) (t_create t [] n)) /\
  forall h ns, hnd h ns ->
    (forall tn, t_at t ns = Some tn ->
       (forall key, key <> [] -> bucket_get s (Some b) h key = t_ents tn key) /\
       (exists l, bucket_names s (Some b) h = Ok l /\ NoDup l /\ forall n, In n l <-> t_kids tn n <> None)) /\
    (forall key v b', bucket_put (Some b) h key v = (Ok tt, Some b') -> teq (abs_tree (commit s b')) (t_put t ns key v)) /\
    (forall key b', key <> [] -> bucket_delete (Some b) h key = (Ok tt, Some b') -> teq (abs_tree (commit s b')) (t_delete t ns key)) /\
    (forall b', clear s (Some b) h = (Ok tt, Some b') -> teq (abs_tree (commit s b')) (t_clear t ns)) /\
    (forall n sub b', new_bucket s (Some b) h n = (Ok sub, Some b') ->
       bkf (sget (commit s b)) (ns ++ [n]) \/ fresh (sget (commit s b)) (ns ++ [n]) ->
       teq (abs_tree (commit s b')) (t_create t ns n)) /\
    (forall n b', delete_bucket s (Some b) h n = (Ok tt, Some b') -> teq (abs_tree (commit s b')) (t_remove t ns n)).
Proof. exact nested_map_refinement. Qed.
Print Assumptions C11_nested_map_refinement.

(* [live_use]: NewBucket and Put go through handles whose bucket exists in the write transaction's view;
   [disciplined snap st ops]: every operation of the sequence is a [live_use] in the state it is executed in.
   Along every typed, disciplined operation sequence there are no orphans — every stored bucket's parent and every
   stored entry's bucket exist ([closed]) — in the committed store, in the write transaction's view and in the store
   a read transaction captured ... *)
Theorem C11_no_orphans_disciplined : forall snap ops, Forall op_bytes ops -> disciplined snap init_state ops ->
  let st := exec snap init_state ops in
  closed (sget (st_store st)) /\
  match st_wtx st with Some b => closed (vw (st_store st) b) | None => True end /\
  match st_rtx st with Some s0 => closed (sget s0) | None => True end.
Proof. exact run_closed. Qed.
Print Assumptions C11_no_orphans_disciplined.

(* ... and there the refinement holds without side conditions *)
Theorem C11_nested_map_refinement_reachable : forall snap ops, Forall op_bytes ops -> disciplined snap init_state ops ->
  let st := exec snap init_state ops in
  forall b, st_wtx st = Some b ->
  let s := st_store st in
  let t := abs_tree (commit s b) in
  rep (sget (commit s b)) [] t /\
  (exists l, tx_bucket_names s (Some b) = Ok l /\ NoDup l /\ forall n, In n l <-> t_kids t n <> None) /\
  (forall n h' b', create_top_level s b n = (Ok h', b') -> teq (abs_tree (commit s b')) (t_create t [] n)) /\
  forall h ns, hnd h ns ->
    (forall tn, t_at t ns = Some tn ->
       (forall key, key <> [] -> bucket_get s (Some b) h key = t_ents tn key) /\
       (exists l, bucket_names s (Some b) h = Ok l /\ NoDup l /\ forall n, In n l <-> t_kids tn n <> None)) /\
    (forall key v b', bucket_put (Some b) h key v = (Ok tt, Some b') -> teq (abs_tree (commit s b')) (t_put t ns key v)) /\
    (forall key b', key <> [] -> bucket_delete (Some b) h key = (Ok tt, Some b') -> teq (abs_tree (commit s b')) (t_delete t ns key)) /\
    (forall b', clear s (Some b) h = (Ok tt, Some b') -> teq (abs_tree (commit s b')) (t_clear t ns)) /\
    (forall n sub b', new_bucket s (Some b) h n = (Ok sub, Some b') -> teq (abs_tree (commit s b')) (t_create t ns n)) /\
    (forall n b', delete_bucket s (Some b) h n = (Ok tt, Some b') -> teq (abs_tree (commit s b')) (t_remove t ns n)).
Proof. exact nested_map_refinement_run. Qed.
Print Assumptions C11_nested_map_refinement_reachable.

(* ---- what is NOT invariant (closed witnesses; all three reproduce on the Go code)
   "every bucket's parent exists" fails without the discipline: a handle kept after DeleteBucket of its bucket still
   creates sub-buckets and stores data (Proofs2.orphan_ops: create a, a.NewBucket x, a.DeleteBucket x, x.NewBucket y,
   x.Put k v, commit): the committed store holds b_3_a_x_y and 2_a_x_k but not b_2_a_x ... *)
Theorem C11_parent_exists_refuted :
  exists ops ns n, Forall op_bytes ops /\ ns <> [] /\
    s_get (index_key (path_of (ns ++ [n]))) (st_store (run ops)) <> None /\
    s_get (index_key (path_of ns)) (st_store (run ops)) = None.
Proof. exact parent_exists_refuted. Qed.
Print Assumptions C11_parent_exists_refuted.
(* ... and a bucket x created afresh afterwards is born with the sub-bucket y and the key k *)
Theorem C11_fresh_bucket_not_empty_refuted :
  Forall op_bytes resurrect_ops /\
  snd (step (run orphan_ops) (ODump)) <> RSkip /\
  snd (step (run resurrect_ops) (ONames 1)) = RNames [n_y] /\
  snd (step (run resurrect_ops) (OGet 1 [107])) = RVal [118].
Proof. exact fresh_bucket_not_empty_refuted. Qed.
Print Assumptions C11_fresh_bucket_not_empty_refuted.
(* Bucket(x) right after DeleteBucket(x) of a committed bucket, same write transaction: the listing is empty, the lookup answers *)
Theorem C11_lookup_after_delete_refuted :
  Forall op_bytes lookup_ops /\
  snd (step (run lookup_ops) (ONames 0)) = RNames [] /\
  snd (step (run lookup_ops) (OBucket 1 0 n_x)) = ROk.
Proof. exact lookup_after_delete_refuted. Qed.
Print Assumptions C11_lookup_after_delete_refuted.
(* NewBucket(x) twice in one write transaction succeeds twice; after a commit the second is refused with ErrBucketExist *)
Theorem C11_create_twice_refuted :
  snd (step (run twice_ops) (ONew 2 0 n_x)) = ROk /\
  snd (step (run (twice_ops ++ [OCommit; OBegin true; OTop true 0 n_a])) (ONew 2 0 n_x)) = RErr EBucketExist.
Proof. exact create_twice_refuted. Qed.
Print Assumptions C11_create_twice_refuted.

(* the read functions handed a store [s] and no batch (that is what a read transaction calls) return exactly [s]'s content *)
Theorem C11_read_functions_on_store : forall s h,
  (forall k, k <> [] -> bucket_get s None h k = s_get (inner_key (h_path h) k) s) /\
  (keys_sorted s -> keys_bytes s -> bytes_ok (h_path h) -> forall prefix, bytes_ok prefix ->
   forall k v, In (k, v) (get_by_prefix s None h prefix) <->
               has_prefix prefix k = true /\ s_get (inner_key (h_path h) k) s = Some v).
Proof.
  exact (fun s h => conj (read_only_get s h) (fun Hs Hb Hp prefix Hpre => read_only_prefix s h prefix Hs Hb Hp Hpre)).
Qed.
Print Assumptions C11_read_functions_on_store.

(* ---- a read transaction reads one snapshot (the database half of C17).
   [step] = [step_gen true] is the code as it is now (BeginReadTx takes a goleveldb snapshot, every read of the
   transaction is served from it); [step_unrepaired] = [step_gen false] the code as first found. *)
(* BeginReadTx captures the store committed at that moment ... *)
Theorem C11_read_tx_begin_captures : forall snap st, st_rtx st = None -> st_open st = true ->
  st_rtx (fst (step_gen snap st (OBegin false))) = Some (st_store st) /\ snd (step_gen snap st (OBegin false)) = ROk.
Proof. exact begin_read_captures. Qed.
Print Assumptions C11_read_tx_begin_captures.

(* ... and over ANY interleaving [ops] of further operations that does not end the read transaction — write
   transactions that commit, db.Update blocks, other reads, iterators — every read through it (bucket lookups,
   listings, point reads, prefix reads, new iterators) is the read function applied to THAT store *)
Theorem C11_read_tx_snapshot : forall st s0 ops, st_rtx st = Some s0 -> Forall (fun o => o <> OREnd) ops ->
  let st' := exec true st ops in
  (forall dst name, snd (step st' (OTop false dst name)) =
                    match top_level_bucket s0 None name with Some _ => ROk | None => RNil end) /\
  snd (step st' (OTxNames false)) = match tx_bucket_names s0 None with Ok l => RNames l | Err e => RErr e end /\
  forall src h, get_slot src (st_bs st') = Some (false, h) ->
    (forall k, snd (step st' (OGet src k)) = match bucket_get s0 None h k with Some v => RVal v | None => RNil end) /\
    (forall p, snd (step st' (OPfx src p)) = REntries (get_by_prefix s0 None h p)) /\
    snd (step st' (ONames src)) = match bucket_names s0 None h with Ok l => RNames l | Err e => RErr e end /\
    (forall dst name, snd (step st' (OBucket dst src name)) = match bucket s0 None h name with Some _ => ROk | None => RNil end) /\
    (forall dst a l, st_is (fst (step st' (OIter dst src 1 a l))) =
                     set_nth dst (Some (false, new_iterator s0 None h a l)) (st_is st')).
Proof. exact read_tx_reads_snapshot. Qed.
Print Assumptions C11_read_tx_snapshot.

(* hence: a read transaction sees exactly the store committed when it began, whatever is committed later
   ([st_store (exec true st ops)] is unconstrained) *)
Theorem C11_read_only_reads : forall st s0 ops, inv st -> st_rtx st = Some s0 -> Forall (fun o => o <> OREnd) ops ->
  let st' := exec true st ops in
  forall src h, get_slot src (st_bs st') = Some (false, h) ->
    (forall k, k <> [] -> snd (step st' (OGet src k)) =
                          match s_get (inner_key (h_path h) k) s0 with Some v => RVal v | None => RNil end) /\
    (keys_bytes s0 -> bytes_ok (h_path h) -> forall p, bytes_ok p ->
       exists l, snd (step st' (OPfx src p)) = REntries l /\
                 forall k v, In (k, v) l <-> has_prefix p k = true /\ s_get (inner_key (h_path h) k) s0 = Some v).
Proof. exact read_tx_sees_begin_store. Qed.
Print Assumptions C11_read_only_reads.

(* the code as first found violates this: the same point read, executed twice inside one read transaction with a
   committing write transaction in between, answers nil and then the new value (witness: Proofs.refute_pre/_mid);
   the repaired code answers the same both times.  Repaired in /repo by commit 2763853. *)
Theorem C11_read_tx_unrepaired_refuted :
  exists pre mid o,
    st_rtx (exec false init_state pre) <> None /\ Forall (fun o => o <> OREnd) mid /\
    snd (step_unrepaired (exec false init_state pre) o) <> snd (step_unrepaired (exec false init_state (pre ++ mid)) o) /\
    snd (step (exec true init_state pre) o) = snd (step (exec true init_state (pre ++ mid)) o).
Proof. exact unrepaired_read_tx_refuted. Qed.
Print Assumptions C11_read_tx_unrepaired_refuted.

(* ---- isolation between buckets *)
(* for the paths the API hands out ("<depth>_<name1>_..._<nameDepth>", names non-empty and free of '_') the stored key
   determines the bucket and the user key, for ALL user keys: separators, digits that mimic a depth prefix, 0x00, 0xff *)
Theorem C11_isolation : forall p1 p2 k1 k2, valid_path p1 -> valid_path p2 ->
  inner_key p1 k1 = inner_key p2 k2 -> p1 = p2 /\ k1 = k2.
Proof. exact inner_key_injective. Qed.
Print Assumptions C11_isolation.

Theorem C11_prefix_scan_stays_in_bucket : forall p1 p2 pre k, valid_path p1 -> valid_path p2 ->
  has_prefix (inner_key p1 pre) (inner_key p2 k) = true -> p1 = p2 /\ has_prefix pre k = true.
Proof. exact prefix_scan_in_bucket. Qed.
Print Assumptions C11_prefix_scan_stays_in_bucket.

(* bucket index entries and data entries never collide; handles produced by the API keep the canonical path form *)
Theorem C11_index_data_disjoint : forall p1 p2 k, valid_path p2 -> index_key p1 <> inner_key p2 k.
Proof. exact index_data_disjoint. Qed.
Print Assumptions C11_index_data_disjoint.

Theorem C11_handles_canonical :
  (forall name, is_valid_bucket_name name = true -> handle_wf (mkHandle (top_path name) 1)) /\
  (forall h name sub, handle_wf h -> sub_bucket h name = Ok sub -> handle_wf sub) /\
  (forall h, handle_wf h -> valid_path (h_path h)).
Proof. exact (conj top_handle_wf (conj sub_bucket_handle_wf handle_wf_valid_path)). Qed.
Print Assumptions C11_handles_canonical.

(* ---- ordered iteration *)
(* db.BytesPrefix: [prefix, limit) holds exactly the byte strings with the prefix — also for prefixes ending in, or made
   of, 0xff bytes and for the empty prefix (limit absent) *)
Theorem C11_bytes_prefix : forall p k, bytes_ok p -> bytes_ok k ->
  in_range (fst (bytes_prefix p)) (snd (bytes_prefix p)) k = has_prefix p k.
Proof. exact bytes_prefix_range. Qed.
Print Assumptions C11_bytes_prefix.

(* a read-only iterator over Range{start, limit} (empty limit = to the end of the bucket), advanced by Next() until it
   answers false, yields exactly the committed entries of that bucket with start <= key < limit; strictly ascending,
   hence each once *)
Theorem C11_iter_exact : forall s h start limit, keys_sorted s -> keys_bytes s -> bytes_ok (h_path h) ->
  let out := drain (S (length s)) (new_iterator s None h start limit) in
  (forall k v, In (k, v) out <-> s_get (inner_key (h_path h) k) s = Some v /\ user_range start limit k = true) /\
  StronglySorted (fun a b => blt (fst a) (fst b) = true) out.
Proof. exact iter_exact. Qed.
Print Assumptions C11_iter_exact.

(* the same through NewIterator(db.BytesPrefix(p)): exactly the committed entries whose key has prefix p *)
Theorem C11_iter_prefix_exact : forall s h p, keys_sorted s -> keys_bytes s -> bytes_ok (h_path h) -> bytes_ok p ->
  let out := drain (S (length s)) (new_iterator s None h (fst (prefix_slice p)) (snd (prefix_slice p))) in
  (forall k v, In (k, v) out <-> s_get (inner_key (h_path h) k) s = Some v /\ has_prefix p k = true) /\
  StronglySorted (fun a b => blt (fst a) (fst b) = true) out.
Proof. exact iter_prefix_exact. Qed.
Print Assumptions C11_iter_prefix_exact.

(* Seek(key) on such an iterator: the entry it lands on followed by everything Next() yields is exactly the committed
   entries of the bucket in the range with key' >= key, ascending; it answers true iff there is one *)
Theorem C11_seek : forall s h start limit key, keys_sorted s -> keys_bytes s -> bytes_ok (h_path h) ->
  let r := iter_seek (new_iterator s None h start limit) key in
  let out := iter_current (snd r) ++ drain (S (length s)) (snd r) in
  (forall k v, In (k, v) out <->
     s_get (inner_key (h_path h) k) s = Some v /\ user_range start limit k = true /\ ble key k = true) /\
  StronglySorted (fun a b => blt (fst a) (fst b) = true) out /\
  (fst r = true <-> out <> []).
Proof. exact seek_exact. Qed.
Print Assumptions C11_seek.

(* ---- iterators created INSIDE a write transaction (outside the property text, which speaks of committed entries).
   Three versions of the code, selected by two constant fields of the model's iterator:
     [new_iterator] = [new_iterator_gen true true], [step]: the code as it is now — levelIterator MERGES the goleveldb
       snapshot iterator over the committed range with the keys the batch had written when the iterator was created
       (batch.netChanges: net puts and net deletes), and shows the transaction's view: C11_write_iter_is_view below;
     [new_iterator_gen true false], [step_iter_unmerged] ([it_merge] = false): the code before that repair — the
       snapshot iterator as it is, followed by a batchIterator over the pending net puts (C11_seek_write_tx_unmerged,
       C11_write_iter_not_view_refuted), with batchIterator.Seek / Reset starting at max(seek key, range start);
     [new_iterator_gen false false], [step_seek_unrepaired] ([it_clamp] = false too): the code as first found. *)
(* THE CODE AS IT IS NOW.  An iterator of a write transaction shows the transaction's own view as of the iterator's creation
   (store s committed, batch b pending; [commit s b] is the store the transaction would commit):
   (1) Seek(key) followed by Next() until it answers false yields exactly the entries of the view in the bucket with
       start <= key' < limit and key' >= key — a committed key the batch deleted is not there, a committed key the batch
       overwrote is there once with the batch's value, keys only in the batch are there — strictly ascending, hence each
       once; Seek answers true iff there is one;
   (2) a fresh iterator advanced by Next() alone yields exactly the entries of the view with start <= key' < limit,
       strictly ascending.
   For every store, well-formed batch, bucket, range, key and every number of Next() calls (fuel) above
   |store| + |batch.puts| + |batch.deletes|; no premise on which keys the batch has touched (C11_seek_write_tx_view_unmerged
   needed "none of the committed keys of the range").  Proofs6: the index machine [mi_merge] computes the list merge
   [mrg] of what is left on both sides (merge_spec), and [mrg] of two ascending runs holds for every key the batch's word
   if the batch wrote the key and the committed entry otherwise (mrg_get), which is [commit] (commit_get). *)
Theorem C11_write_iter_is_view : forall s b h start limit key fuel,
  keys_sorted s -> keys_bytes s -> batch_wf b -> keys_bytes (b_puts b) -> bytes_ok (h_path h) ->
  (length s + length (b_puts b) + length (b_dels b) < fuel)%nat ->
  (let r := iter_seek (new_iterator s (Some b) h start limit) key in
   let out := iter_current (snd r) ++ drain fuel (snd r) in
   (forall k v, In (k, v) out <->
      s_get (inner_key (h_path h) k) (commit s b) = Some v /\ user_range start limit k = true /\ ble key k = true) /\
   StronglySorted (fun a b => blt (fst a) (fst b) = true) out /\
   (fst r = true <-> out <> [])) /\
  (let out := drain (S fuel) (new_iterator s (Some b) h start limit) in
   (forall k v, In (k, v) out <->
      s_get (inner_key (h_path h) k) (commit s b) = Some v /\ user_range start limit k = true) /\
   StronglySorted (fun a b => blt (fst a) (fst b) = true) out).
Proof.
  exact (fun s b h start limit key fuel Hs Hb Hwf Hbb Hp Hf =>
           conj (write_iter_is_view s b h start limit key fuel Hs Hb Hwf Hbb Hp Hf)
                (write_iter_is_view_fresh s b h start limit fuel Hs Hb Hwf Hbb Hp Hf)).
Qed.
Print Assumptions C11_write_iter_is_view.

(* THE CODE BEFORE THE MERGING REPAIR (kept as the description of what was found; restated for the switch-off model): *)
(* Seek(key) followed by Next() until false, on an iterator over Range{start, limit} created in a write transaction
   with committed store s and pending batch b, yields two runs one after the other — the Go code does not merge them
   by key:
     A = the COMMITTED entries of the bucket (values as committed) with start <= key' < limit and key' >= key, ascending;
     B = the pending net puts of the transaction (keys whose last operation in the batch is a put, with that value)
         with start <= key' < limit and key' >= key, ascending.
   Seek answers true iff there is any.  In particular nothing outside the range is ever yielded, whatever key is. *)
Theorem C11_seek_write_tx_unmerged : forall s b h start limit key,
  keys_sorted s -> keys_bytes s -> batch_wf b -> keys_bytes (b_puts b) -> bytes_ok (h_path h) ->
  let r := iter_seek (new_iterator_gen true false s (Some b) h start limit) key in
  let out := iter_current (snd r) ++ drain (S (length s + length (b_puts b))) (snd r) in
  exists A B, out = A ++ B /\
    (forall k v, In (k, v) A <->
       s_get (inner_key (h_path h) k) s = Some v /\ user_range start limit k = true /\ ble key k = true) /\
    (forall k v, In (k, v) B <->
       fst (batch_get b (inner_key (h_path h) k)) = Some v /\ user_range start limit k = true /\ ble key k = true) /\
    StronglySorted (fun a b => blt (fst a) (fst b) = true) A /\
    StronglySorted (fun a b => blt (fst a) (fst b) = true) B /\
    (fst r = true <-> out <> []).
Proof. exact seek_write_tx. Qed.
Print Assumptions C11_seek_write_tx_unmerged.

(* ... against the transaction's own view [commit s b] (committed entries overlaid with the batch's puts and deletes):
   every entry the transaction sees in the range at or after key IS yielded; everything yielded lies in the range at
   or after key and is a committed entry or an entry of the view; and if the batch has touched none of the committed
   keys of the range at or after key, the yield is exactly what the transaction sees, every key once.
   Without that premise "exactly", "ascending" and "each once" are all false: C11_write_iter_not_view_refuted.
   (The merging iterator needs no such premise: C11_write_iter_is_view.) *)
Theorem C11_seek_write_tx_view_unmerged : forall s b h start limit key,
  keys_sorted s -> keys_bytes s -> batch_wf b -> keys_bytes (b_puts b) -> bytes_ok (h_path h) ->
  let r := iter_seek (new_iterator_gen true false s (Some b) h start limit) key in
  let out := iter_current (snd r) ++ drain (S (length s + length (b_puts b))) (snd r) in
  let sees k v := s_get (inner_key (h_path h) k) (commit s b) = Some v /\ user_range start limit k = true /\ ble key k = true in
  (forall k v, sees k v -> In (k, v) out) /\
  (forall k v, In (k, v) out -> user_range start limit k = true /\ ble key k = true /\
                                (s_get (inner_key (h_path h) k) s = Some v \/ sees k v)) /\
  ((forall k v, s_get (inner_key (h_path h) k) s = Some v -> user_range start limit k = true -> ble key k = true ->
                batch_view b (inner_key (h_path h) k) = None) ->
   (forall k v, In (k, v) out <-> sees k v) /\ NoDup (map fst out)).
Proof. exact seek_write_tx_view. Qed.
Print Assumptions C11_seek_write_tx_view_unmerged.

(* the typing premises on the batch and the store follow from the index invariant (C11_index_invariant), and the
   switches are constants of the iterator: Seek and Next never change them, and [step_iter_unmerged] /
   [step_seek_unrepaired] (every iterator's switch(es) cleared after each step) is creating every iterator with
   [new_iterator_gen true false] / [new_iterator_gen false false] *)
Theorem C11_seek_write_tx_premises :
  (forall b, batch_idx_ok b -> keys_bytes (b_puts b)) /\ (forall s, store_ok s -> keys_bytes s) /\
  (forall it k, it_clamp (snd (iter_seek it k)) = it_clamp it) /\ (forall it, it_clamp (snd (iter_next it)) = it_clamp it) /\
  (forall it k, it_merge (snd (iter_seek it k)) = it_merge it) /\ (forall it, it_merge (snd (iter_next it)) = it_merge it) /\
  (forall s ob h a l, it_unclamp (new_iterator s ob h a l) = new_iterator_gen false false s ob h a l) /\
  (forall it, it_clamp it = false -> it_merge it = false -> it_unclamp it = it) /\
  (forall s ob h a l, it_unmerge (new_iterator s ob h a l) = new_iterator_gen true false s ob h a l) /\
  (forall it, it_merge it = false -> it_unmerge it = it).
Proof.
  exact (conj batch_idx_ok_keys_bytes (conj store_ok_keys_bytes (conj iter_seek_clamp (conj iter_next_clamp
         (conj iter_seek_merge (conj iter_next_merge
         (conj unclamp_new_iterator (conj unclamp_id (conj unmerge_new_iterator unmerge_id))))))))).
Qed.
Print Assumptions C11_seek_write_tx_premises.

(* the batchIterator as first found (Seek / Reset took the seek key as it is): inside db.Update, bucket "ab" with
   pending puts x = v and z = w, iterator over Range{"y", "{"}: Seek("a") answered x — OUTSIDE the range — and Next() z;
   the repaired code answers z and then the end, which is also what the same iterator answers in a read transaction
   once the puts are committed (goleveldb clamps a Seek below the range).  Witness: Proofs5.below_ops. *)
Theorem C11_seek_below_range_unfixed_refuted :
  Forall op_bytes below_ops /\
  snd (step_seek_unrepaired (exec_seek_unrepaired init_state below_ops) (OSeek 0 [97])) = RIter true (Some [120]) [118] /\
  user_range [121] [123] [120] = false /\
  snd (step_seek_unrepaired (exec_seek_unrepaired init_state (below_ops ++ [OSeek 0 [97]])) (ONext 0)) = RIter true (Some [122]) [119] /\
  snd (step (run below_ops) (OSeek 0 [97])) = RIter true (Some [122]) [119] /\
  snd (step (run (below_ops ++ [OSeek 0 [97]])) (ONext 0)) = RIter false None [] /\
  snd (step (run (below_ops ++ [OUEnd false; OBegin false; OTop false 5 [97; 98]; OIter 0 5 1 [121] [123]])) (OSeek 0 [97]))
    = RIter true (Some [122]) [119] /\
  snd (step (run (below_ops ++ [OUEnd false; OBegin false; OTop false 5 [97; 98]; OIter 0 5 1 [121] [123]; OSeek 0 [97]])) (ONext 0))
    = RIter false None [].
Proof. exact seek_below_range_unfixed_refuted. Qed.
Print Assumptions C11_seek_below_range_unfixed_refuted.

(* what the write-transaction iterator of the code BEFORE THE MERGING REPAIR was not (reproduced on the Go code, known
   finding write-tx-iterator-not-view until the repair).  Committed in bucket a: k = v, m = w.  A write transaction deletes
   k, overwrites m = x, puts b = y (Proofs5.stale_ops) and iterates the bucket: Get(k) = nil, Get(m) = x,
   GetByPrefix("") = {m = x, b = y}, but Seek("") and four Next() answered
   k = v (deleted), m = w (overwritten), b = y (a smaller key after a larger), m = x (m a second time), end.
   The merging iterator on the same history: b = y, m = x, end (also when drained by Next() without a Seek). *)
Theorem C11_write_iter_not_view_refuted :
  Forall op_bytes stale_ops /\
  snd (step_iter_unmerged (run_unmerged stale_ops) (OGet 0 [107])) = RNil /\
  snd (step_iter_unmerged (run_unmerged stale_ops) (OGet 0 [109])) = RVal [120] /\
  snd (step_iter_unmerged (run_unmerged stale_ops) (OPfx 0 [])) = REntries [([109], [120]); ([98], [121])] /\
  snd (step_iter_unmerged (run_unmerged stale_ops) (OSeek 0 [])) = RIter true (Some [107]) [118] /\
  snd (step_iter_unmerged (run_unmerged (stale_ops ++ [OSeek 0 []])) (ONext 0)) = RIter true (Some [109]) [119] /\
  snd (step_iter_unmerged (run_unmerged (stale_ops ++ [OSeek 0 []; ONext 0])) (ONext 0)) = RIter true (Some [98]) [121] /\
  snd (step_iter_unmerged (run_unmerged (stale_ops ++ [OSeek 0 []; ONext 0; ONext 0])) (ONext 0)) = RIter true (Some [109]) [120] /\
  snd (step_iter_unmerged (run_unmerged (stale_ops ++ [OSeek 0 []; ONext 0; ONext 0; ONext 0])) (ONext 0)) = RIter false None [] /\
  snd (step (run stale_ops) (OSeek 0 [])) = RIter true (Some [98]) [121] /\
  snd (step (run (stale_ops ++ [OSeek 0 []])) (ONext 0)) = RIter true (Some [109]) [120] /\
  snd (step (run (stale_ops ++ [OSeek 0 []; ONext 0])) (ONext 0)) = RIter false None [] /\
  snd (step (run (stale_ops ++ [OIter 1 0 0 [] []])) (ONext 1)) = RIter true (Some [98]) [121].
Proof. exact write_iter_not_view_refuted. Qed.
Print Assumptions C11_write_iter_not_view_refuted.

(* ---- non-vacuity: the hypotheses are met by concrete reachable states, and the model computes *)
Definition ex_ops : list op :=
  [OBegin true; OCreateTop 0 [97]; OPut 0 [107; 95; 255] [118]; ONew 1 0 [50]; OPut 1 [98; 95; 107] [119]; OCommit;
   OBegin true; OTop true 0 [97]; OPut 0 [107] [120]; ODel 0 [107; 95; 255]].
Example C11_ex_run :
  st_store (run ex_ops) =
    [([49; 95; 97; 95; 107; 95; 255], [118]);           (* "1_a_k_\xff" -> "v" *)
     ([50; 95; 97; 95; 50; 95; 98; 95; 107], [119]);    (* "2_a_2_b_k"  -> "w" *)
     ([98; 95; 49; 95; 97], [97]);                      (* "b_1_a"      -> "a" *)
     ([98; 95; 50; 95; 97; 95; 50], [50])]              (* "b_2_a_2"    -> "2" *)
  /\ (exists b, st_wtx (run ex_ops) = Some b /\ b_log b = [BPut [49; 95; 97; 95; 107] [120]; BDel [49; 95; 97; 95; 107; 95; 255]]
                /\ bucket_get (st_store (run ex_ops)) (Some b) (mkHandle [49; 95; 97] 1) [107] = Some [120]
                /\ bucket_get (st_store (run ex_ops)) (Some b) (mkHandle [49; 95; 97] 1) [107; 95; 255] = None
                /\ bucket_get (st_store (run ex_ops)) None (mkHandle [49; 95; 97] 1) [107; 95; 255] = Some [118]).
Proof. vm_compute. split; [reflexivity|]. eexists. repeat split. Qed.
Example C11_ex_closed :
  snd (step (exec true init_state [OClose]) (OBegin true)) = RErr EClosed /\
  snd (step (exec true init_state [OClose]) (OBegin false)) = RErr EClosed /\
  snd (step (exec true init_state [OClose; OReopen]) (OBegin true)) = ROk.
Proof. vm_compute. repeat split. Qed.
Example C11_ex_valid_path : valid_path [50; 95; 97; 95; 50] /\ handle_wf (mkHandle [50; 95; 97; 95; 50] 2).
Proof.
  split.
  - exists [[97]; [50]]. split; [discriminate|]. split; [repeat constructor|reflexivity].
  - exists [[97]; [50]]. split; [discriminate|]. split; [repeat constructor|]. split; reflexivity.
Qed.
Example C11_ex_bytes_prefix :
  bytes_prefix [97; 255; 255] = ([97; 255; 255], Some [98]) /\ bytes_prefix [255; 255] = ([255; 255], None) /\
  bytes_prefix [] = ([], None) /\ bytes_prefix [97; 255; 98] = ([97; 255; 98], Some [97; 255; 99]).
Proof. vm_compute. repeat split. Qed.
Example C11_ex_iter :
  drain 10 (new_iterator (st_store (run ex_ops)) None (mkHandle [49; 95; 97] 1) [] []) = [([107; 95; 255], [118])].
Proof. vm_compute. reflexivity. Qed.

(* ---- non-vacuity of the index invariant, the exact listing and the refinement *)
(* committed: a, a/x, a/y, a/x/z with z.k = v;  then, in an open write transaction: DeleteBucket a/x (recursive), NewBucket a/w *)
Definition ex2_pre : list op :=
  [OBegin true; OCreateTop 0 [97]; ONew 1 0 [120]; ONew 2 0 [121]; ONew 3 1 [122]; OPut 3 [107] [118]; OCommit].
Definition ex2_ops : list op := ex2_pre ++ [OBegin true; OTop true 0 [97]; ODelBucket 0 [120]; ONew 4 0 [119]].
Example C11_ex2_bytes : Forall op_bytes ex2_ops.
Proof. unfold ex2_ops, ex2_pre. cbn [app]. repeat (apply Forall_cons; [cbn [op_bytes]; solve_bytes|]). apply Forall_nil. Qed.
(* the listing of a inside the write transaction: y (committed) and w (pending), not x (committed, deleted here);
   the committed store still lists x and y, and the recursive delete has taken a/x/z and its data from the view *)
Example C11_ex2_names :
  snd (step (run ex2_ops) (ONames 0)) = RNames [[121]; [119]] /\
  tx_bucket_names (st_store (run ex2_ops)) None = Ok [[97]] /\
  bucket_names (st_store (run ex2_ops)) None (mkHandle [49; 95; 97] 1) = Ok [[120]; [121]] /\
  (exists b, st_wtx (run ex2_ops) = Some b /\
     vw (st_store (run ex2_ops)) b (index_key (path_of [[97]; [120]; [122]])) = None /\
     vw (st_store (run ex2_ops)) b (inner_key (path_of [[97]; [120]; [122]]) [107]) = None /\
     s_get (inner_key (path_of [[97]; [120]; [122]]) [107]) (st_store (run ex2_ops)) = Some [118]).
Proof. vm_compute. repeat split. eexists. repeat split. Qed.
(* the hypotheses of C11_bucket_names_exact / C11_nested_map_refinement are met by that state (non-empty store, non-empty batch) *)
Example C11_ex2_hyps :
  exists b, st_wtx (run ex2_ops) = Some b /\ b_log b <> [] /\ st_store (run ex2_ops) <> [] /\
    keys_sorted (st_store (run ex2_ops)) /\ store_ok (st_store (run ex2_ops)) /\ binv b /\
    hnd (mkHandle [49; 95; 97] 1) [[97]] /\ get_slot 0 (st_bs (run ex2_ops)) = Some (true, mkHandle [49; 95; 97] 1).
Proof.
  pose proof (run_idx_inv true ex2_ops C11_ex2_bytes) as [[Hsorted [Hwf _]] [Hs [Hidx _]]].
  unfold run.
  destruct (st_wtx (exec true init_state ex2_ops)) as [b|] eqn:E; [|vm_compute in E; discriminate].
  exists b. split; [reflexivity|]. split; [intros Hl; vm_compute in E; inversion E; subst b; vm_compute in Hl; discriminate|].
  split; [vm_compute; discriminate|]. split; [exact Hsorted|]. split; [exact Hs|]. split; [split; [exact Hwf|exact Hidx]|].
  split; [|vm_compute; reflexivity].
  split; [split; [discriminate|split; [repeat constructor|solve_bytes]]|split; vm_compute; reflexivity].
Qed.
(* the nested map of the committed store of ex2_pre: a -> { x -> { z -> {k = v} }, y -> {} } *)
Example C11_ex2_tree :
  let t := abs_tree (st_store (run ex2_pre)) in
  (match t_at t [[97]; [120]; [122]] with Some tn => t_ents tn [107] | None => None end) = Some [118] /\
  (match t_at t [[97]] with Some tn => (match t_kids tn [120], t_kids tn [121], t_kids tn [122] with Some _, Some _, None => true | _, _, _ => false end) | None => false end) = true /\
  (match t_at t [[97]; [121]] with Some tn => (match t_kids tn [120] with None => true | Some _ => false end) | None => false end) = true /\
  (match t_at t [[97]; [119]] with Some _ => false | None => true end) = true.
Proof. vm_compute. repeat split. Qed.
(* a disciplined sequence (the premise of C11_no_orphans_disciplined / C11_nested_map_refinement_reachable) *)
Definition ex3_ops : list op := [OBegin true; OCreateTop 0 [97]; ONew 1 0 [120]; OPut 1 [107] [118]].
Example C11_ex3_disciplined : Forall op_bytes ex3_ops /\ disciplined true init_state ex3_ops /\
  exists b, st_wtx (exec true init_state ex3_ops) = Some b /\ b_log b <> [].
Proof.
  split; [unfold ex3_ops; repeat (apply Forall_cons; [cbn [op_bytes]; solve_bytes|]); apply Forall_nil|].
  split.
  - unfold ex3_ops. cbn [disciplined live_use]. split; [exact I|]. split; [exact I|]. split; [|split; [|exact I]].
    + intros h vs b H. vm_compute in H. inversion H; subst. exists [[97]].
      split; [split; [split; [discriminate|split; [repeat constructor|solve_bytes]]|split; vm_compute; reflexivity]|vm_compute; discriminate].
    + intros h vs b H. vm_compute in H. inversion H; subst. exists [[97]; [120]].
      split; [split; [split; [discriminate|split; [repeat constructor|solve_bytes]]|split; vm_compute; reflexivity]|vm_compute; discriminate].
  - vm_compute. eexists. split; [reflexivity|discriminate].
Qed.

(* ---- non-vacuity of C11_seek_write_tx_unmerged and C11_write_iter_is_view: the state of Proofs5.stale_ops (non-empty
   committed store, open write transaction with puts and a delete) meets their hypotheses; there the two runs of the
   code before the merging repair are A = [k = v; m = w] and B = [b = y; m = x], and the merging iterator yields the
   transaction's view [b = y; m = x] *)
Example C11_ex_seek_write_tx :
  exists b, st_wtx (run stale_ops) = Some b /\ b_log b <> [] /\ st_store (run stale_ops) <> [] /\
    keys_sorted (st_store (run stale_ops)) /\ keys_bytes (st_store (run stale_ops)) /\ batch_wf b /\ keys_bytes (b_puts b) /\
    (let r := iter_seek (new_iterator_gen true false (st_store (run stale_ops)) (Some b) (mkHandle [49; 95; 97] 1) [] []) [] in
     iter_current (snd r) ++ drain 10 (snd r) = [([107], [118]); ([109], [119])] ++ [([98], [121]); ([109], [120])]) /\
    (let r := iter_seek (new_iterator (st_store (run stale_ops)) (Some b) (mkHandle [49; 95; 97] 1) [] []) [] in
     iter_current (snd r) ++ drain 10 (snd r) = [([98], [121]); ([109], [120])]).
Proof.
  destruct write_iter_not_view_refuted as [Hbytes _].
  pose proof (run_idx_inv true stale_ops Hbytes) as [[Hsorted [Hwf _]] [Hs [Hidx _]]].
  unfold run.
  destruct (st_wtx (exec true init_state stale_ops)) as [b|] eqn:E; [|vm_compute in E; discriminate].
  exists b. split; [reflexivity|]. split; [intros Hl; vm_compute in E; inversion E; subst b; vm_compute in Hl; discriminate|].
  split; [vm_compute; discriminate|]. split; [exact Hsorted|]. split; [apply store_ok_keys_bytes; exact Hs|].
  split; [exact Hwf|]. split; [apply batch_idx_ok_keys_bytes; apply Hidx|].
  vm_compute in E. inversion E; subst b. vm_compute. split; reflexivity.
Qed.

(* ---- THE WHOLE-SEQUENCE STATEMENT: the model refines an abstract map (KV/Spec.v: definitions, KV/Refine.v: proofs).
   KV/Spec.v [spec_step] is the specification: a set of existing buckets and per bucket a map key -> value ([content]);
   a write transaction works on a copy of the committed content, Commit installs the copy, Rollback / a failing Update
   drops it; a read transaction reads the content committed when it began; GetByPrefix / iterators return the matching
   entries of that content in ascending key order; close / reopen keeps the committed content.  It runs over the same
   [op] and [res] as the model's [step]; [Unspecified] is its answer where the property text is silent.
   [spec_run ss ops]: the specification's results up to the first unspecified step; [outs st ops]: the model's results;
   [res_equiv]: equal, except that two GetByPrefix / BucketNames listings are compared as sets (Permutation);
   [R]: the abstraction relation (committed store decoded through the inner-key encoding = committed content; store after
   committing the open batch = the working copy; the store a read transaction captured = its snapshot content; slots
   hold handles of the same buckets / iterators with the same entries left; and the specification's own invariant [sinv]:
   none of its contents has orphans — a nested bucket's parent exists, entries are in existing buckets).
   For EVERY typed operation sequence: the model's results agree with the specification's on the whole specified
   prefix, R relates the two states after every specified prefix, and (non-vacuity of the prefix formulation) when no step
   is unspecified the prefix is the whole sequence.
   SPECIFIED — the whole operation language: BeginTx / BeginReadTx / Commit / Rollback / read-transaction end /
   db.Update begin and end with or without error / Close / Reopen / TopLevelBucket / CreateTopLevelBucket /
   DeleteTopLevelBucket / Put / Delete / Clear / Get / GetByPrefix / NewIterator (nil, Range, BytesPrefix) / Seek / Next /
   Release — in read AND write transactions, iterators of a write transaction also after later writes (they keep
   showing the view as of their creation) / db.BytesPrefix; and over NESTED buckets at every depth: NewBucket, Bucket,
   FetchBucket, DeleteBucket (recursive: the child and everything below it leaves the working copy, [remove_tree]; sibling
   buckets whose names are prefixes of one another are untouched), BucketNames of a bucket and of a transaction
   ([children]: exactly the existing children, each once), and the harness' dump of the committed content.
   UNSPECIFIED (the step is [Unspecified], the theorem is silent from there on), exactly where the harness taints or the
   theorems above are refuted: NewBucket under a parent that no longer exists in the transaction; NewBucket of a bucket the
   same transaction has already created (C11_create_twice_refuted: it succeeds, after a commit it is refused); a Put through
   the handle of a bucket that does not exist in the transaction; a lookup (TopLevelBucket / Bucket / FetchBucket) of a
   committed bucket the transaction itself deleted (C11_lookup_after_delete_refuted); and — a bound of the MODEL, not of the
   code — DeleteBucket of a subtree nested [delete_fuel] = 64 or more levels deep (the model's recursion then answers an
   error; the dump likewise shows [dump_fuel] = 12 levels, on both sides). *)
Theorem C11_refines_abstract_map : forall ops, Forall op_bytes ops ->
  Forall2 res_equiv (firstn (length (spec_run spec_init ops)) (outs init_state ops)) (spec_run spec_init ops) /\
  (forall n, match spec_exec spec_init (firstn n ops) with
             | Some ss' => R (run (firstn n ops)) ss'
             | None => True
             end) /\
  (spec_exec spec_init ops <> None -> length (spec_run spec_init ops) = length ops).
Proof. exact refines_abstract_map. Qed.
Print Assumptions C11_refines_abstract_map.

(* one step of it (the simulation square) *)
Theorem C11_refinement_step : forall st ss o ss' r, R st ss -> op_bytes o -> spec_step ss o = (ss', Spec r) ->
  R (fst (step st o)) ss' /\ res_equiv (snd (step st o)) r.
Proof. exact step_sim. Qed.
Print Assumptions C11_refinement_step.

(* the specification's invariant by itself: no specified step creates an orphan, so in particular the bucket a specified
   NewBucket creates is empty (no entries, no sub-buckets) — also when it replaces a bucket deleted earlier *)
Theorem C11_spec_no_orphans : forall ss o ss' r, sinv ss -> spec_step ss o = (ss', Spec r) -> sinv ss'.
Proof. exact spec_step_sinv. Qed.
Print Assumptions C11_spec_no_orphans.
Theorem C11_spec_new_bucket_empty : forall c q, cclosed c -> has_bucket c q = false -> q <> [] ->
  entries (add_bucket c q) q = [] /\ children (add_bucket c q) q = [].
Proof. exact new_bucket_is_empty. Qed.
Print Assumptions C11_spec_new_bucket_empty.

(* DeleteBucket answers nil whenever the model's recursion bound covers the subtree: [shallow f ns d] = fewer than d
   nesting levels exist below the bucket ns in view f (this is what makes the specification's "nil" provable) *)
Theorem C11_delete_bucket_total : forall s b h ns n, keys_sorted s -> store_ok s -> binv b -> hnd h ns ->
  shallow (vw s b) (ns ++ [n]) delete_fuel -> fst (delete_bucket s (Some b) h n) = Ok tt.
Proof. exact delete_bucket_total. Qed.
Print Assumptions C11_delete_bucket_total.

(* non-vacuity: on the history Refine.ex_ref_ops (a committed put, a read transaction spanning a later commit, a write
   transaction that deletes / overwrites / puts, reads back, iterates and is rolled back, close / reopen) every step is
   specified, and both sides compute the same 38 results (the one listing inside the write transaction in a different order) *)
Example C11_ex_refinement :
  Forall op_bytes ex_ref_ops /\ length (spec_run spec_init ex_ref_ops) = length ex_ref_ops /\
  spec_run spec_init ex_ref_ops = ex_ref_outs [([98], [121]); ([109], [120])] /\
  outs init_state ex_ref_ops = ex_ref_outs [([109], [120]); ([98], [121])].
Proof. split; [exact ex_ref_bytes|]. vm_compute. repeat split. Qed.
(* nested buckets, Refine.ex_nest_ops: create a, a/b, a/bc (one name a prefix of the other), put k in both, look up and list,
   delete a/b, list again, read a/bc (still there) and a/b through the stale handle (gone), commit, close, reopen; a read
   transaction lists, reads, fetches; a write transaction deletes the committed a/bc, creates it again (empty) and is rolled
   back: every step is specified and both sides compute the same 35 results (one listing in a different order) *)
Example C11_ex_refinement_nested :
  Forall op_bytes ex_nest_ops /\ length (spec_run spec_init ex_nest_ops) = length ex_nest_ops /\
  spec_run spec_init ex_nest_ops = ex_nest_outs [[98; 99]; [98]] /\
  outs init_state ex_nest_ops = ex_nest_outs [[98]; [98; 99]] /\
  snd (spec_step spec_init ODump) = Spec (RDump []) /\
  (forall ss', spec_exec spec_init (firstn 15 ex_nest_ops) = Some ss' ->
     snd (spec_step ss' ODump) = Spec (RDump [([49; 95; 97], Ok []); ([50; 95; 97; 95; 98; 99], Ok [([107], [119])])]) /\
     snd (step (run (firstn 15 ex_nest_ops)) ODump) = RDump [([49; 95; 97], Ok []); ([50; 95; 97; 95; 98; 99], Ok [([107], [119])])]).
Proof.
  split; [exact ex_nest_bytes|]. split; [vm_compute; reflexivity|]. split; [vm_compute; reflexivity|].
  split; [vm_compute; reflexivity|]. split; [vm_compute; reflexivity|].
  intros ss' E. vm_compute in E. inversion E; subst ss'. vm_compute. split; reflexivity.
Qed.
(* the theorem instantiated on them, premise-free *)
Example C11_ex_refinement_thm :
  Forall2 res_equiv (outs init_state ex_ref_ops) (spec_run spec_init ex_ref_ops) /\
  exists ss', spec_exec spec_init ex_ref_ops = Some ss' /\ R (run ex_ref_ops) ss'.
Proof.
  destruct (C11_refines_abstract_map ex_ref_ops ex_ref_bytes) as [H1 [H2 _]]. split.
  - replace (outs init_state ex_ref_ops) with (firstn (length (spec_run spec_init ex_ref_ops)) (outs init_state ex_ref_ops)); [exact H1|].
    vm_compute. reflexivity.
  - specialize (H2 (length ex_ref_ops)). rewrite firstn_all in H2.
    destruct (spec_exec spec_init ex_ref_ops) as [ss'|] eqn:E; [exists ss'; auto|]. vm_compute in E. discriminate.
Qed.
Print Assumptions C11_ex_refinement_thm.
Example C11_ex_refinement_nested_thm :
  Forall2 res_equiv (outs init_state ex_nest_ops) (spec_run spec_init ex_nest_ops) /\
  exists ss', spec_exec spec_init ex_nest_ops = Some ss' /\ R (run ex_nest_ops) ss'.
Proof.
  destruct (C11_refines_abstract_map ex_nest_ops ex_nest_bytes) as [H1 [H2 _]]. split.
  - replace (outs init_state ex_nest_ops) with (firstn (length (spec_run spec_init ex_nest_ops)) (outs init_state ex_nest_ops)); [exact H1|].
    vm_compute. reflexivity.
  - specialize (H2 (length ex_nest_ops)). rewrite firstn_all in H2.
    destruct (spec_exec spec_init ex_nest_ops) as [ss'|] eqn:E; [exists ss'; auto|]. vm_compute in E. discriminate.
Qed.
Print Assumptions C11_ex_refinement_nested_thm.
