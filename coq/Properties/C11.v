(* Property C11 — the wallet database gives atomic, isolated, ordered key/value transactions.
   Only statements here; each is closed by [exact] of a lemma proved in KV/Proofs.v and followed by
   Print Assumptions.
   Model: KV/Model.v — masswallet/db/db.go (BytesPrefix, Update) and masswallet/db/ldb/leveldb.go (batch, transaction,
   levelBucket, batchIterator, levelIterator), one Gallina function per Go method.  goleveldb is environment:
   DB.Get = [s_get], DB.Write(batch) = [apply_log] (atomic, in recording order), a range iterator = the ascending
   entries of [lo,hi) of a snapshot ([range_entries]).
   Vocabulary: [bytes_ok] / [keys_bytes] say "every element is a byte (0..255)" — the typing of Go's []byte, not a
   restriction; [keys_sorted s] is the representation invariant of the store (an ordered map), [batch_wf b] the
   invariant of ldb.batch (its puts/deletes/seq summary agrees with the recorded log); both hold in every state
   reachable by any op sequence (C11_invariant_all_sequences). *)
From Coq Require Import List ZArith Sorted.
Import ListNotations.
Open Scope Z_scope.
Require Import MW.KV.Model MW.KV.Proofs.

(* ---- atomicity *)
(* Commit applies exactly the recorded log, Rollback nothing; db.Update with a failing function leaves the store as it
   was, a succeeding one applies the whole log of what the function did *)
Theorem C11_commit_all_or_nothing :
  (forall s b, commit s b = apply_log s (b_log b)) /\
  (forall s b, rollback s b = s) /\
  (forall A (f : store -> batch -> result A * batch) s,
     (forall e s', update s f = (Err e, s') -> s' = s) /\
     (forall a s', update s f = (Ok a, s') -> s' = apply_log s (b_log (snd (f s empty_batch))))).
Proof. exact (conj commit_is_apply_log (conj rollback_unchanged update_all_or_nothing)). Qed.
Print Assumptions C11_commit_all_or_nothing.

(* along ANY sequence of operations of the op language (bucket create/delete, put, delete, clear, reads, iterators,
   commit, rollback, Update with or without error, reopen) the committed store changes at a commit only, and then by
   the whole log at once: nothing of a write transaction is visible before, everything after *)
Theorem C11_store_changes_only_at_commit : forall snap st o,
  st_store (fst (step_gen snap st o)) = st_store st \/
  exists b, st_wtx st = Some b /\ (o = OCommit \/ o = OUEnd false) /\
            st_store (fst (step_gen snap st o)) = apply_log (st_store st) (b_log b).
Proof. exact store_changes_only_at_commit. Qed.
Print Assumptions C11_store_changes_only_at_commit.

(* the invariants the other theorems assume hold after every op sequence *)
Theorem C11_invariant_all_sequences : forall ops,
  keys_sorted (st_store (run ops)) /\
  match st_wtx (run ops) with Some b => batch_wf b | None => True end /\
  match st_rtx (run ops) with Some s0 => keys_sorted s0 | None => True end.
Proof. exact run_inv. Qed.
Print Assumptions C11_invariant_all_sequences.

(* ---- read your writes *)
(* the (last put, last delete, seq) summary the code keeps decides the log: batch.Get answers by the LAST operation
   recorded for the key (put -> its value, delete -> deleted, none -> untouched) *)
Theorem C11_summary_sound : forall b k, batch_ok b -> batch_view b k = view_of_rlog (b_rlog b) k.
Proof. exact summary_sound. Qed.
Print Assumptions C11_summary_sound.

(* a point read inside a write transaction = a lookup in the store as it would be if the log so far were applied *)
Theorem C11_read_your_writes : forall s b h k, batch_ok b -> k <> [] ->
  bucket_get s (Some b) h k = s_get (inner_key (h_path h) k) (apply_log s (b_log b)).
Proof. exact read_your_writes_get. Qed.
Print Assumptions C11_read_your_writes.

(* a prefix read inside a write transaction = as a set, the entries with that prefix in the store as it would be
   after commit (own puts and overwrites included, own deletes excluded) *)
Theorem C11_read_your_writes_prefix : forall s b h prefix, keys_sorted s -> keys_bytes s -> batch_wf b ->
  bytes_ok (h_path h) -> bytes_ok prefix ->
  forall k v, In (k, v) (get_by_prefix s (Some b) h prefix) <->
              has_prefix prefix k = true /\ s_get (inner_key (h_path h) k) (apply_log s (b_log b)) = Some v.
Proof. exact read_your_writes_prefix. Qed.
Print Assumptions C11_read_your_writes_prefix.

(* ... and it returns every key once *)
Theorem C11_read_your_writes_prefix_once : forall s b h prefix, keys_sorted s -> keys_bytes s -> batch_wf b ->
  bytes_ok (h_path h) -> bytes_ok prefix -> NoDup (map fst (get_by_prefix s (Some b) h prefix)).
Proof. exact get_by_prefix_nodup. Qed.
Print Assumptions C11_read_your_writes_prefix_once.

(* partial: whenever a bucket listing inside a write transaction succeeds it is, as a set, the values of the bucket
   index entries under the listing prefix in the store as it would be after commit.  Missing for full strength: that
   the listing never answers ErrIllegalValue in reachable states and that those entries are exactly the children
   "b_<depth+1>_<path>_<name>" — this needs a store-wide well-formedness invariant of the index that is not proved;
   the correspondence runs and the reference map cover it. *)
Theorem C11_read_your_writes_names_partial : forall s b pfx d l, keys_sorted s -> keys_bytes s -> batch_wf b -> bytes_ok pfx ->
  names_scan s (Some b) pfx d = Ok l ->
  forall name, In name l <-> exists key, has_prefix pfx key = true /\ s_get key (apply_log s (b_log b)) = Some name.
Proof. exact read_your_writes_names_scan. Qed.
Print Assumptions C11_read_your_writes_names_partial.

(* the read functions handed a store [s] and no batch (that is what a read transaction calls) return exactly [s]'s content *)
Theorem C11_read_functions_on_store : forall s h,
  (forall k, k <> [] -> bucket_get s None h k = s_get (inner_key (h_path h) k) s) /\
  (keys_sorted s -> keys_bytes s -> bytes_ok (h_path h) -> forall prefix, bytes_ok prefix ->
   forall k v, In (k, v) (get_by_prefix s None h prefix) <->
               has_prefix prefix k = true /\ s_get (inner_key (h_path h) k) s = Some v).
Proof.
  exact (fun s h => conj (read_only_get s h) (fun Hs Hb Hp prefix Hpre => read_only_prefix s h prefix Hs Hb Hp Hpre)).
Qed.
Print Assumptions C11_read_functions_on_store.

(* ---- a read transaction reads one snapshot (the database half of C17).
   [step] = [step_gen true] is the code as it is now (BeginReadTx takes a goleveldb snapshot, every read of the
   transaction is served from it); [step_unrepaired] = [step_gen false] the code as first found. *)
(* BeginReadTx captures the store committed at that moment ... *)
Theorem C11_read_tx_begin_captures : forall snap st, st_rtx st = None -> st_open st = true ->
  st_rtx (fst (step_gen snap st (OBegin false))) = Some (st_store st) /\ snd (step_gen snap st (OBegin false)) = ROk.
Proof. exact begin_read_captures. Qed.
Print Assumptions C11_read_tx_begin_captures.

(* ... and over ANY interleaving [ops] of further operations that does not end the read transaction — write
   transactions that commit, db.Update blocks, other reads, iterators — every read through it (bucket lookups,
   listings, point reads, prefix reads, new iterators) is the read function applied to THAT store *)
Theorem C11_read_tx_snapshot : forall st s0 ops, st_rtx st = Some s0 -> Forall (fun o => o <> OREnd) ops ->
  let st' := exec true st ops in
  (forall dst name, snd (step st' (OTop false dst name)) =
                    match top_level_bucket s0 None name with Some _ => ROk | None => RNil end) /\
  snd (step st' (OTxNames false)) = match tx_bucket_names s0 None with Ok l => RNames l | Err e => RErr e end /\
  forall src h, get_slot src (st_bs st') = Some (false, h) ->
    (forall k, snd (step st' (OGet src k)) = match bucket_get s0 None h k with Some v => RVal v | None => RNil end) /\
    (forall p, snd (step st' (OPfx src p)) = REntries (get_by_prefix s0 None h p)) /\
    snd (step st' (ONames src)) = match bucket_names s0 None h with Ok l => RNames l | Err e => RErr e end /\
    (forall dst name, snd (step st' (OBucket dst src name)) = match bucket s0 None h name with Some _ => ROk | None => RNil end) /\
    (forall dst a l, st_is (fst (step st' (OIter dst src 1 a l))) =
                     set_nth dst (Some (false, new_iterator s0 None h a l)) (st_is st')).
Proof. exact read_tx_reads_snapshot. Qed.
Print Assumptions C11_read_tx_snapshot.

(* hence: a read transaction sees exactly the store committed when it began, whatever is committed later
   ([st_store (exec true st ops)] is unconstrained) *)
Theorem C11_read_only_reads : forall st s0 ops, inv st -> st_rtx st = Some s0 -> Forall (fun o => o <> OREnd) ops ->
  let st' := exec true st ops in
  forall src h, get_slot src (st_bs st') = Some (false, h) ->
    (forall k, k <> [] -> snd (step st' (OGet src k)) =
                          match s_get (inner_key (h_path h) k) s0 with Some v => RVal v | None => RNil end) /\
    (keys_bytes s0 -> bytes_ok (h_path h) -> forall p, bytes_ok p ->
       exists l, snd (step st' (OPfx src p)) = REntries l /\
                 forall k v, In (k, v) l <-> has_prefix p k = true /\ s_get (inner_key (h_path h) k) s0 = Some v).
Proof. exact read_tx_sees_begin_store. Qed.
Print Assumptions C11_read_only_reads.

(* the code as first found violates this: the same point read, executed twice inside one read transaction with a
   committing write transaction in between, answers nil and then the new value (witness: Proofs.refute_pre/_mid);
   the repaired code answers the same both times.  Repaired in /repo by commit 2763853. *)
Theorem C11_read_tx_unrepaired_refuted :
  exists pre mid o,
    st_rtx (exec false init_state pre) <> None /\ Forall (fun o => o <> OREnd) mid /\
    snd (step_unrepaired (exec false init_state pre) o) <> snd (step_unrepaired (exec false init_state (pre ++ mid)) o) /\
    snd (step (exec true init_state pre) o) = snd (step (exec true init_state (pre ++ mid)) o).
Proof. exact unrepaired_read_tx_refuted. Qed.
Print Assumptions C11_read_tx_unrepaired_refuted.

(* ---- isolation between buckets *)
(* for the paths the API hands out ("<depth>_<name1>_..._<nameDepth>", names non-empty and free of '_') the stored key
   determines the bucket and the user key, for ALL user keys: separators, digits that mimic a depth prefix, 0x00, 0xff *)
Theorem C11_isolation : forall p1 p2 k1 k2, valid_path p1 -> valid_path p2 ->
  inner_key p1 k1 = inner_key p2 k2 -> p1 = p2 /\ k1 = k2.
Proof. exact inner_key_injective. Qed.
Print Assumptions C11_isolation.

Theorem C11_prefix_scan_stays_in_bucket : forall p1 p2 pre k, valid_path p1 -> valid_path p2 ->
  has_prefix (inner_key p1 pre) (inner_key p2 k) = true -> p1 = p2 /\ has_prefix pre k = true.
Proof. exact prefix_scan_in_bucket. Qed.
Print Assumptions C11_prefix_scan_stays_in_bucket.

(* bucket index entries and data entries never collide; handles produced by the API keep the canonical path form *)
Theorem C11_index_data_disjoint : forall p1 p2 k, valid_path p2 -> index_key p1 <> inner_key p2 k.
Proof. exact index_data_disjoint. Qed.
Print Assumptions C11_index_data_disjoint.

Theorem C11_handles_canonical :
  (forall name, is_valid_bucket_name name = true -> handle_wf (mkHandle (top_path name) 1)) /\
  (forall h name sub, handle_wf h -> sub_bucket h name = Ok sub -> handle_wf sub) /\
  (forall h, handle_wf h -> valid_path (h_path h)).
Proof. exact (conj top_handle_wf (conj sub_bucket_handle_wf handle_wf_valid_path)). Qed.
Print Assumptions C11_handles_canonical.

(* ---- ordered iteration *)
(* db.BytesPrefix: [prefix, limit) holds exactly the byte strings with the prefix — also for prefixes ending in, or made
   of, 0xff bytes and for the empty prefix (limit absent) *)
Theorem C11_bytes_prefix : forall p k, bytes_ok p -> bytes_ok k ->
  in_range (fst (bytes_prefix p)) (snd (bytes_prefix p)) k = has_prefix p k.
Proof. exact bytes_prefix_range. Qed.
Print Assumptions C11_bytes_prefix.

(* a read-only iterator over Range{start, limit} (empty limit = to the end of the bucket), advanced by Next() until it
   answers false, yields exactly the committed entries of that bucket with start <= key < limit; strictly ascending,
   hence each once *)
Theorem C11_iter_exact : forall s h start limit, keys_sorted s -> keys_bytes s -> bytes_ok (h_path h) ->
  let out := drain (S (length s)) (new_iterator s None h start limit) in
  (forall k v, In (k, v) out <-> s_get (inner_key (h_path h) k) s = Some v /\ user_range start limit k = true) /\
  StronglySorted (fun a b => blt (fst a) (fst b) = true) out.
Proof. exact iter_exact. Qed.
Print Assumptions C11_iter_exact.

(* the same through NewIterator(db.BytesPrefix(p)): exactly the committed entries whose key has prefix p *)
Theorem C11_iter_prefix_exact : forall s h p, keys_sorted s -> keys_bytes s -> bytes_ok (h_path h) -> bytes_ok p ->
  let out := drain (S (length s)) (new_iterator s None h (fst (prefix_slice p)) (snd (prefix_slice p))) in
  (forall k v, In (k, v) out <-> s_get (inner_key (h_path h) k) s = Some v /\ has_prefix p k = true) /\
  StronglySorted (fun a b => blt (fst a) (fst b) = true) out.
Proof. exact iter_prefix_exact. Qed.
Print Assumptions C11_iter_prefix_exact.

(* Seek(key) on such an iterator: the entry it lands on followed by everything Next() yields is exactly the committed
   entries of the bucket in the range with key' >= key, ascending; it answers true iff there is one *)
Theorem C11_seek : forall s h start limit key, keys_sorted s -> keys_bytes s -> bytes_ok (h_path h) ->
  let r := iter_seek (new_iterator s None h start limit) key in
  let out := iter_current (snd r) ++ drain (S (length s)) (snd r) in
  (forall k v, In (k, v) out <->
     s_get (inner_key (h_path h) k) s = Some v /\ user_range start limit k = true /\ ble key k = true) /\
  StronglySorted (fun a b => blt (fst a) (fst b) = true) out /\
  (fst r = true <-> out <> []).
Proof. exact seek_exact. Qed.
Print Assumptions C11_seek.

(* ---- non-vacuity: the hypotheses are met by concrete reachable states, and the model computes *)
Definition ex_ops : list op :=
  [OBegin true; OCreateTop 0 [97]; OPut 0 [107; 95; 255] [118]; ONew 1 0 [50]; OPut 1 [98; 95; 107] [119]; OCommit;
   OBegin true; OTop true 0 [97]; OPut 0 [107] [120]; ODel 0 [107; 95; 255]].
Example C11_ex_run :
  st_store (run ex_ops) =
    [([49; 95; 97; 95; 107; 95; 255], [118]);           (* "1_a_k_\xff" -> "v" *)
     ([50; 95; 97; 95; 50; 95; 98; 95; 107], [119]);    (* "2_a_2_b_k"  -> "w" *)
     ([98; 95; 49; 95; 97], [97]);                      (* "b_1_a"      -> "a" *)
     ([98; 95; 50; 95; 97; 95; 50], [50])]              (* "b_2_a_2"    -> "2" *)
  /\ (exists b, st_wtx (run ex_ops) = Some b /\ b_log b = [BPut [49; 95; 97; 95; 107] [120]; BDel [49; 95; 97; 95; 107; 95; 255]]
                /\ bucket_get (st_store (run ex_ops)) (Some b) (mkHandle [49; 95; 97] 1) [107] = Some [120]
                /\ bucket_get (st_store (run ex_ops)) (Some b) (mkHandle [49; 95; 97] 1) [107; 95; 255] = None
                /\ bucket_get (st_store (run ex_ops)) None (mkHandle [49; 95; 97] 1) [107; 95; 255] = Some [118]).
Proof. vm_compute. split; [reflexivity|]. eexists. repeat split. Qed.
Example C11_ex_closed :
  snd (step (exec true init_state [OClose]) (OBegin true)) = RErr EClosed /\
  snd (step (exec true init_state [OClose]) (OBegin false)) = RErr EClosed /\
  snd (step (exec true init_state [OClose; OReopen]) (OBegin true)) = ROk.
Proof. vm_compute. repeat split. Qed.
Example C11_ex_valid_path : valid_path [50; 95; 97; 95; 50] /\ handle_wf (mkHandle [50; 95; 97; 95; 50] 2).
Proof.
  split.
  - exists [[97]; [50]]. split; [discriminate|]. split; [repeat constructor|reflexivity].
  - exists [[97]; [50]]. split; [discriminate|]. split; [repeat constructor|]. split; reflexivity.
Qed.
Example C11_ex_bytes_prefix :
  bytes_prefix [97; 255; 255] = ([97; 255; 255], Some [98]) /\ bytes_prefix [255; 255] = ([255; 255], None) /\
  bytes_prefix [] = ([], None) /\ bytes_prefix [97; 255; 98] = ([97; 255; 98], Some [97; 255; 99]).
Proof. vm_compute. repeat split. Qed.
Example C11_ex_iter :
  drain 10 (new_iterator (st_store (run ex_ops)) None (mkHandle [49; 95; 97] 1) [] []) = [([107; 95; 255], [118])].
Proof. vm_compute. reflexivity. Qed.
