(* Property C07 — a restored wallet recovers its full history, even while the chain moves.
   Only statements here; proofs are in Ledger/ImportProofs.v.
   Model: Ledger/Import.v (status ready | importing cursor | removing; owner function restricted to
   ready wallets; [import_batch] = one commit of asyncImport over the heights (cursor, min(cursor+B, best)],
   parametric in the batch size B; ErrImportingContinuable / ErrChainReorg = retry,
   ErrUnexpectedCreditNotFound = the worker drops the task; cursor pull-back in [xrollback]);
   histories: Ledger/Remove.v [xrun]; specification: Ledger/Spec.v. *)
From Coq Require Import List ZArith NArith Bool.
Import ListNotations.
Open Scope Z_scope.
Require Import MW.Ledger.Model MW.Ledger.Spec MW.Ledger.Run MW.Ledger.WF MW.Ledger.Import MW.Ledger.Remove.
Require Import MW.Ledger.Proofs MW.Ledger.ImportProofs.

(* ------------------------------------------------------------------ T1: import = live *)

(* [importing p c w own k st]: wallet w is importing with cursor k; the credits in the store are
   exactly those of the chain's first k+1 blocks for its addresses [own]; the store is synced to c;
   every block record names a block of c.  ImportWallet(WithMnemonic) in an instance that has just
   started on the node's chain establishes it with k = 0 (C07_import_start).

   C07_import_equals_live_partial: on a well-formed chain c, for EVERY batch size B > 0 and EVERY
   number j of rescan batches:
   - if the wallet is ready, its ledger is EXACTLY the ledger of a wallet with the same addresses that
     followed c live from genesis ([ledger_of_chain], C01), and its report equals the chain
     specification (balances, spendable/withdrawable amounts, every unspent coin with confirmations
     and maturity; the mined staking/binding rows are a view of the same credits);
   - after more than height/B batches it IS ready;
   - until then it cannot be selected.
   _partial: the node's chain is c during the whole rescan and the wallet database holds no other
   wallet's credits.  Reorganisations and new tips processed between batches, batches that read a
   chain the handler has not been told about yet, and other wallets in the same database are
   covered by the correspondence check (harness/cmd/c07), by C07_cursor_pull_back and
   C07_unready_until_done, and — where the code fails — by C07_import_abandoned_refuted. *)
Theorem C07_import_equals_live_partial : forall fx p B c w own st0 j,
  wf_chain c -> 0 < B -> importing p c w own 0 st0 ->
  let st := batches fx p B c st0 w j in
  (status_of st w = Some WReady ->
     ledger_of_chain p true own c = Ok (x_w st) /\ xreport st w = spec_report p own c w) /\
  (chain_height c < Z.of_nat j * B -> status_of st w = Some WReady) /\
  (status_of st w <> Some WReady -> use_wallet st w = UUnready).
Proof. exact import_equals_live. Qed.
Print Assumptions C07_import_equals_live_partial.

Theorem C07_import_start : forall p c w pass sh shs st0,
  wf_chain c -> import_start (xinit c) w pass (sh :: shs) = Some st0 ->
  importing p c w (own_w st0 w) 0 st0.
Proof. exact import_start_importing. Qed.
Print Assumptions C07_import_start.

(* one batch, any cursor: the step the theorem above iterates *)
Theorem C07_batch_step : forall fx p B c w own k st,
  wf_chain c -> 0 < B -> importing p c w own k st ->
  let stop := Z.min (k + B) (chain_height c) in
  exists st',
    import_batch fx p B c st w = (st', IOk) /\
    credits (x_w st') = E p own (ptxs (upto stop c)) /\ synced (x_w st') = synced_of c /\
    (if stop =? chain_height c then status_of st' w = Some WReady else importing p c w own stop st').
Proof. exact import_batch_step. Qed.
Print Assumptions C07_batch_step.

(* ------------------------------------------------------------------ T2: unready until done *)

(* while importing: UseWallet is refused, the wallet is not in the ready set, and no script hash is
   attributed to it when blocks are filtered *)
Theorem C07_unready_until_done : forall st w k,
  status_of st w = Some (WImporting k) ->
  use_wallet st w = UUnready /\ is_ready st w = false /\ (forall sh, ready_own st sh <> Some w).
Proof. exact importing_is_unready. Qed.
Print Assumptions C07_unready_until_done.

(* only a committed batch whose range reaches the handler's tip hands the wallet over — for any node
   state, any store *)
Theorem C07_handover_only_at_tip : forall fx p B n st w k st' o,
  status_of st w = Some (WImporting k) ->
  import_batch fx p B n st w = (st', o) ->
  status_of st' w = Some WReady ->
  o = IOk /\ fst (tip (x_w st)) <= k + B.
Proof. exact batch_ready_only_at_tip. Qed.
Print Assumptions C07_handover_only_at_tip.

(* a batch that fails (retry or dropped task) leaves ledger, status and block records untouched *)
Theorem C07_failed_batch_changes_nothing : forall fx p B n st w st' o,
  import_batch fx p B n st w = (st', o) -> o <> IOk ->
  x_w st' = x_w st /\ x_status st' = x_status st /\ x_brecs st' = x_brecs st.
Proof. exact batch_failed_keeps_ledger. Qed.
Print Assumptions C07_failed_batch_changes_nothing.

(* disconnecting blocks pulls the cursor of an importing wallet back below the disconnected height
   and leaves every other status alone *)
Theorem C07_cursor_pull_back : forall fx st h st' w k,
  xrollback fx st h = XOk st' -> status_of st w = Some (WImporting k) ->
  status_of st' w = Some (WImporting (Z.min k (h - 1))).
Proof. exact rollback_pulls_cursor_back. Qed.
Print Assumptions C07_cursor_pull_back.

(* ------------------------------------------------------------------ the code as found failed here *)

(* batch size 2.  Old chain 1-2-3-4 (block 1 pays the wallet); the twin has imported heights 1..2.
   The node reorganises from height 1: 2' pays the wallet (transaction 12), 3' spends that coin
   (transaction 13), 4', 5'.  The announcement is still queued when the next batch runs: it reads
   heights 3..4 of the NEW branch, meets the spend of a coin it never imported
   (ErrUnexpectedCreditNotFound) and the worker drops the task.  The announcement is then processed
   (cursor pulled back to 1), more batches are scheduled — none runs: the wallet stays importing. *)
Definition p0 : params := {| p_cbmat := 4; p_bindlock := 4294967294 |}.
Definition g0 : block := {| b_id := 0; b_prev := 0; b_height := 0; b_txs := [] |}.
Definition cb (id : N) (outs : list txout) : tx := {| t_id := id; t_cb := true; t_ins := []; t_outs := outs |}.
Definition pay (sh : N) (v : Z) : txout := {| o_sh := sh; o_val := v; o_class := CStd |}.
Definition old_chain : list block :=
  [ g0;
    {| b_id := 1; b_prev := 0; b_height := 1; b_txs := [cb 1 [pay 1 10; pay 9 1000]] |};
    {| b_id := 2; b_prev := 1; b_height := 2; b_txs := [cb 2 []] |};
    {| b_id := 3; b_prev := 2; b_height := 3; b_txs := [cb 3 []] |};
    {| b_id := 4; b_prev := 3; b_height := 4; b_txs := [cb 4 []] |} ].
Definition b2' := {| b_id := 12; b_prev := 1; b_height := 2;
                     b_txs := [cb 11 []; {| t_id := 12; t_cb := false; t_ins := [(1, 1)%N]; t_outs := [pay 1 1000] |}] |}.
Definition b3' := {| b_id := 13; b_prev := 12; b_height := 3;
                     b_txs := [cb 14 []; {| t_id := 13; t_cb := false; t_ins := [(12, 0)%N]; t_outs := [pay 9 1000] |}] |}.
Definition b4' := {| b_id := 14; b_prev := 13; b_height := 4; b_txs := [cb 15 []] |}.
Definition b5' := {| b_id := 15; b_prev := 14; b_height := 5; b_txs := [cb 16 []] |}.
Definition hist_abandon : list xevent :=
  [XImportStart 1 7 [1%N]; XBatch 1;
   XDetach; XDetach; XDetach; XAttach b2'; XAttach b3'; XAttach b4'; XAttach b5';
   XBatch 1; XProcess b5'; XBatch 1; XBatch 1; XBatch 1].

Theorem C07_import_abandoned_refuted :
  let s := xrun as_found p0 2 20000 old_chain hist_abandon in
  wf_chain (xs_node s) /\
  fst (tip (x_w (xs_st s))) = chain_height (xs_node s) /\
  status_of (xs_st s) 1 = Some (WImporting 1) /\ use_wallet (xs_st s) 1 = UUnready /\
  x_dead (xs_st s) = [1%N].
Proof.
  cbv zeta. split; [|vm_compute; repeat split; reflexivity].
  constructor.
  - eexists. eexists. vm_compute. repeat split; reflexivity.
  - vm_compute. repeat constructor; cbn; intuition discriminate.
  - vm_compute. repeat constructor; cbn; intuition discriminate.
  - vm_compute. repeat split; try discriminate.
    + intros _ op [<-|[]]. eexists. split; [left; reflexivity|]. cbn. split; [reflexivity|auto with arith].
    + intros _ op [<-|[]]. eexists. split; [right; right; left; reflexivity|]. cbn. split; [reflexivity|auto with arith].
  - vm_compute. repeat constructor; cbn; intuition discriminate.
Qed.
Print Assumptions C07_import_abandoned_refuted.

(* a restart re-creates the task from the status row: the same history followed by a restart and two
   batches ends ready and correct *)
Example C07_abandoned_import_resumes_after_restart :
  let s := xrun as_found p0 2 20000 old_chain (hist_abandon ++ [XRestart; XBatch 1; XBatch 1; XBatch 1]) in
  status_of (xs_st s) 1 = Some WReady /\
  xreport (xs_st s) 1 = spec_report p0 (key_owner (xs_st s)) (xs_node s) 1.
Proof. vm_compute. split; reflexivity. Qed.

(* repaired (the failed batch is retried): the same history ends ready and correct without a restart *)
Example C07_retry_repaired_on_witness :
  let s := xrun repaired p0 2 20000 old_chain hist_abandon in
  status_of (xs_st s) 1 = Some WReady /\
  xreport (xs_st s) 1 = spec_report p0 (key_owner (xs_st s)) (xs_node s) 1.
Proof. vm_compute. split; reflexivity. Qed.

(* ------------------------------------------------------------------ rescan + reorg: block-record order *)

(* Wallet 1 is ready.  Block 2 holds transaction 3 (pays script hash 2, nobody's yet) and transaction 4
   (spends 3's output, pays wallet 1): only 4 is recorded.  Wallet 2 (owner of script hash 2) is then
   restored: the rescan appends 3 to block 2's record AFTER 4 and marks 3's output spent by 4.  Block 2
   is reorganised away: Rollback walks the record backwards, deletes 3's credit first and fails on 4's
   debit — the announcement is refused, and so is every later one: the wallet no longer follows the chain. *)
Definition hist_order : list xevent :=
  let b1 := {| b_id := 1; b_prev := 0; b_height := 1; b_txs := [cb 1 [pay 9 100]] |} in
  let b2 := {| b_id := 2; b_prev := 1; b_height := 2;
               b_txs := [cb 2 []; {| t_id := 3; t_cb := false; t_ins := [(1, 0)%N]; t_outs := [pay 2 100] |};
                         {| t_id := 4; t_cb := false; t_ins := [(3, 0)%N]; t_outs := [pay 1 100] |}] |} in
  let b2' := {| b_id := 3; b_prev := 1; b_height := 2; b_txs := [cb 5 []] |} in
  let b3' := {| b_id := 4; b_prev := 3; b_height := 3; b_txs := [cb 6 []] |} in
  [XNewWallet 1 11; XNewAddr 1 1; XAttach b1; XProcess b1; XAttach b2; XProcess b2;
   XImportStart 2 22 [2%N]; XBatch 2;
   XDetach; XAttach b2'; XAttach b3'; XProcess b3'].

Theorem C07_rescan_then_reorg_refused_refuted :
  let s := xrun {| f_removable := true; f_rollback := true; f_import_retry := true; f_start_reorg := true;
                   f_rollback_order := false |} p0 1000 20000 [g0] hist_order in
  status_of (xs_st s) 2 = Some WReady /\
  x_brecs (xs_st s) = [{| br_h := 2; br_bid := 2; br_txs := [4; 3]%N |}] /\
  fst (tip (x_w (xs_st s))) = 2 /\ chain_height (xs_node s) = 3 /\
  r_total (xreport (xs_st s) 1) = 100 /\
  r_total (spec_report p0 (key_owner (xs_st s)) (xs_node s) 1) = 0.
Proof. vm_compute. repeat split; reflexivity. Qed.
Print Assumptions C07_rescan_then_reorg_refused_refuted.

Example C07_rescan_then_reorg_repaired_on_witness :
  let s := xrun repaired p0 1000 20000 [g0] hist_order in
  fst (tip (x_w (xs_st s))) = 3 /\
  xreport (xs_st s) 1 = spec_report p0 (key_owner (xs_st s)) (xs_node s) 1 /\
  xreport (xs_st s) 2 = spec_report p0 (key_owner (xs_st s)) (xs_node s) 2.
Proof. vm_compute. repeat split; reflexivity. Qed.

(* the hypotheses of T1 are met by a non-trivial reachable state: the old chain, batch size 2 *)
Example C07_T1_instance :
  let s := xrun repaired p0 2 20000 old_chain [XImportStart 1 7 [1%N]; XBatch 1; XBatch 1] in
  status_of (xs_st s) 1 = Some WReady /\ r_total (xreport (xs_st s) 1) = 10.
Proof. vm_compute. split; reflexivity. Qed.
