(* Property C07 — a restored wallet recovers its full history, even while the chain moves.
   Only statements here; proofs are in Ledger/ImportProofs.v (static chain) and Ledger/ImportProofs2.v
   (moving chain).
   Model: Ledger/Import.v (status ready | importing cursor | removing; owner function restricted to
   ready wallets; [import_batch] = one commit of asyncImport over the heights (cursor, min(cursor+B, best)],
   parametric in the batch size B; ErrImportingContinuable / ErrChainReorg = retry,
   ErrUnexpectedCreditNotFound = the worker drops the task (as found; repaired: retry); repaired: a batch is
   refused and retried unless the node's block at the batch's upper height is the handler's synced block of
   that height ([node_on_synced], switch f_import_tipcheck); cursor pull-back in [xrollback]);
   histories: Ledger/Remove.v [xrun]; specification: Ledger/Spec.v. *)
From Coq Require Import List ZArith NArith Bool Permutation.
Import ListNotations.
Open Scope Z_scope.
Require Import MW.Ledger.Model MW.Ledger.Spec MW.Ledger.Run MW.Ledger.WF MW.Ledger.Import MW.Ledger.Remove.
Require Import MW.Ledger.Proofs MW.Ledger.ImportProofs.
Require Import MW.Ledger.Proofs3 MW.Ledger.Proofs4 MW.Ledger.Proofs5 MW.Ledger.ImportProofs2.
Require Import MW.Ledger.RemoveProofs MW.Ledger.ImportProofs3.
Require Import MW.Ledger.ImportProofs4 MW.Ledger.ImportProofs5 MW.Ledger.ImportProofs6.

(* ------------------------------------------------------------------ T1: import = live *)

(* [importing p c w own k st]: wallet w is importing with cursor k; the credits in the store are
   exactly those of the chain's first k+1 blocks for its addresses [own]; the store is synced to c;
   every block record names a block of c.  ImportWallet(WithMnemonic) in an instance that has just
   started on the node's chain establishes it with k = 0 (C07_import_start).

   C07_import_equals_live_partial: on a well-formed chain c, for EVERY batch size B > 0 and EVERY
   number j of rescan batches:
   - if the wallet is ready, its ledger is EXACTLY the ledger of a wallet with the same addresses that
     followed c live from genesis ([ledger_of_chain], C01), and its report equals the chain
     specification (balances, spendable/withdrawable amounts, every unspent coin with confirmations
     and maturity; the mined staking/binding rows are a view of the same credits);
   - after more than height/B batches it IS ready;
   - until then it cannot be selected.
   _partial: the node's chain is c during the whole rescan and the wallet database holds no other
   wallet's credits.  SUBSUMED (for the repaired code) by C07_import_equals_live / C07_import_live
   below, which let the chain move: blocks connected and disconnected on the node (also blocks it had
   left before), announcements processed (extensions, reorganisations with the cursor pull-back,
   roll-backs to an old block) between batches, batches that find the node on a chain the handler has
   not been told about yet.  Other wallets in the same database (with their own history, and transactions
   SHARED with the restored wallet): C07_import_equals_live_multi / C07_import_frame_* near the end of this file;
   the start state of those reached from genesis: C07_import_equals_live_from_genesis; a shared transaction is
   recorded once: C07_records_once_multi; a SECOND wallet restored while the first rescan runs: C07_two_imports_equal_live. *)
Theorem C07_import_equals_live_partial : forall fx p B c w own st0 j,
  wf_chain c -> 0 < B -> importing p c w own 0 st0 ->
  let st := batches fx p B c st0 w j in
  (status_of st w = Some WReady ->
     ledger_of_chain p true own c = Ok (x_w st) /\ xreport st w = spec_report p own c w) /\
  (chain_height c < Z.of_nat j * B -> status_of st w = Some WReady) /\
  (status_of st w <> Some WReady -> use_wallet st w = UUnready).
Proof. exact import_equals_live. Qed.
Print Assumptions C07_import_equals_live_partial.

Theorem C07_import_start : forall p c w pass sh shs st0,
  wf_chain c -> import_start (xinit c) w pass (sh :: shs) = Some st0 ->
  importing p c w (own_w st0 w) 0 st0.
Proof. exact import_start_importing. Qed.
Print Assumptions C07_import_start.

(* one batch, any cursor: the step the theorem above iterates *)
Theorem C07_batch_step : forall fx p B c w own k st,
  wf_chain c -> 0 < B -> importing p c w own k st ->
  let stop := Z.min (k + B) (chain_height c) in
  exists st',
    import_batch fx p B c st w = (st', IOk) /\
    credits (x_w st') = E p own (ptxs (upto stop c)) /\ synced (x_w st') = synced_of c /\
    (if stop =? chain_height c then status_of st' w = Some WReady else importing p c w own stop st').
Proof. exact import_batch_step. Qed.
Print Assumptions C07_batch_step.

(* ------------------------------------------------------------------ T2: unready until done *)

(* while importing: UseWallet is refused, the wallet is not in the ready set, and no script hash is
   attributed to it when blocks are filtered *)
Theorem C07_unready_until_done : forall st w k,
  status_of st w = Some (WImporting k) ->
  use_wallet st w = UUnready /\ is_ready st w = false /\ (forall sh, ready_own st sh <> Some w).
Proof. exact importing_is_unready. Qed.
Print Assumptions C07_unready_until_done.

(* only a committed batch whose range reaches the handler's tip hands the wallet over — for any node
   state, any store *)
Theorem C07_handover_only_at_tip : forall fx p B n st w k st' o,
  status_of st w = Some (WImporting k) ->
  import_batch fx p B n st w = (st', o) ->
  status_of st' w = Some WReady ->
  o = IOk /\ fst (tip (x_w st)) <= k + B.
Proof. exact batch_ready_only_at_tip. Qed.
Print Assumptions C07_handover_only_at_tip.

(* a batch that fails (retry or dropped task) leaves ledger, status and block records untouched *)
Theorem C07_failed_batch_changes_nothing : forall fx p B n st w st' o,
  import_batch fx p B n st w = (st', o) -> o <> IOk ->
  x_w st' = x_w st /\ x_status st' = x_status st /\ x_brecs st' = x_brecs st.
Proof. exact batch_failed_keeps_ledger. Qed.
Print Assumptions C07_failed_batch_changes_nothing.

(* disconnecting blocks pulls the cursor of an importing wallet back below the disconnected height
   and leaves every other status alone *)
Theorem C07_cursor_pull_back : forall fx st h st' w k,
  xrollback fx st h = XOk st' -> status_of st w = Some (WImporting k) ->
  status_of st' w = Some (WImporting (Z.min k (h - 1))).
Proof. exact rollback_pulls_cursor_back. Qed.
Print Assumptions C07_cursor_pull_back.

(* ------------------------------------------------------------------ the code as found failed here *)

(* batch size 2.  Old chain 1-2-3-4 (block 1 pays the wallet); the twin has imported heights 1..2.
   The node reorganises from height 1: 2' pays the wallet (transaction 12), 3' spends that coin
   (transaction 13), 4', 5'.  The announcement is still queued when the next batch runs: it reads
   heights 3..4 of the NEW branch, meets the spend of a coin it never imported
   (ErrUnexpectedCreditNotFound) and the worker drops the task.  The announcement is then processed
   (cursor pulled back to 1), more batches are scheduled — none runs: the wallet stays importing. *)
Definition p0 : params := {| p_cbmat := 4; p_bindlock := 4294967294 |}.
Definition g0 : block := {| b_id := 0; b_prev := 0; b_height := 0; b_txs := [] |}.
Definition cb (id : N) (outs : list txout) : tx := {| t_id := id; t_cb := true; t_ins := []; t_outs := outs |}.
Definition pay (sh : N) (v : Z) : txout := {| o_sh := sh; o_val := v; o_class := CStd |}.
Definition old_chain : list block :=
  [ g0;
    {| b_id := 1; b_prev := 0; b_height := 1; b_txs := [cb 1 [pay 1 10; pay 9 1000]] |};
    {| b_id := 2; b_prev := 1; b_height := 2; b_txs := [cb 2 []] |};
    {| b_id := 3; b_prev := 2; b_height := 3; b_txs := [cb 3 []] |};
    {| b_id := 4; b_prev := 3; b_height := 4; b_txs := [cb 4 []] |} ].
Definition b2' := {| b_id := 12; b_prev := 1; b_height := 2;
                     b_txs := [cb 11 []; {| t_id := 12; t_cb := false; t_ins := [(1, 1)%N]; t_outs := [pay 1 1000] |}] |}.
Definition b3' := {| b_id := 13; b_prev := 12; b_height := 3;
                     b_txs := [cb 14 []; {| t_id := 13; t_cb := false; t_ins := [(12, 0)%N]; t_outs := [pay 9 1000] |}] |}.
Definition b4' := {| b_id := 14; b_prev := 13; b_height := 4; b_txs := [cb 15 []] |}.
Definition b5' := {| b_id := 15; b_prev := 14; b_height := 5; b_txs := [cb 16 []] |}.
Definition hist_abandon : list xevent :=
  [XImportStart 1 7 [1%N]; XBatch 1;
   XDetach; XDetach; XDetach; XAttach b2'; XAttach b3'; XAttach b4'; XAttach b5';
   XBatch 1; XProcess b5'; XBatch 1; XBatch 1; XBatch 1].

Theorem C07_import_abandoned_refuted :
  let s := xrun as_found p0 2 20000 old_chain hist_abandon in
  wf_chain (xs_node s) /\
  fst (tip (x_w (xs_st s))) = chain_height (xs_node s) /\
  status_of (xs_st s) 1 = Some (WImporting 1) /\ use_wallet (xs_st s) 1 = UUnready /\
  x_dead (xs_st s) = [1%N].
Proof.
  cbv zeta. split; [|vm_compute; repeat split; reflexivity].
  constructor.
  - eexists. eexists. vm_compute. repeat split; reflexivity.
  - vm_compute. repeat constructor; cbn; intuition discriminate.
  - vm_compute. repeat constructor; cbn; intuition discriminate.
  - vm_compute. repeat split; try discriminate.
    + intros _ op [<-|[]]. eexists. split; [left; reflexivity|]. cbn. split; [reflexivity|auto with arith].
    + intros _ op [<-|[]]. eexists. split; [right; right; left; reflexivity|]. cbn. split; [reflexivity|auto with arith].
  - vm_compute. repeat constructor; cbn; intuition discriminate.
Qed.
Print Assumptions C07_import_abandoned_refuted.

(* a restart re-creates the task from the status row: the same history followed by a restart and two
   batches ends ready and correct *)
Example C07_abandoned_import_resumes_after_restart :
  let s := xrun as_found p0 2 20000 old_chain (hist_abandon ++ [XRestart; XBatch 1; XBatch 1; XBatch 1]) in
  status_of (xs_st s) 1 = Some WReady /\
  xreport (xs_st s) 1 = spec_report p0 (key_owner (xs_st s)) (xs_node s) 1.
Proof. vm_compute. split; reflexivity. Qed.

(* repaired (the failed batch is retried): the same history ends ready and correct without a restart *)
Example C07_retry_repaired_on_witness :
  let s := xrun repaired p0 2 20000 old_chain hist_abandon in
  status_of (xs_st s) 1 = Some WReady /\
  xreport (xs_st s) 1 = spec_report p0 (key_owner (xs_st s)) (xs_node s) 1.
Proof. vm_compute. split; reflexivity. Qed.

(* ------------------------------------------------------------------ rescan + reorg: block-record order *)

(* Wallet 1 is ready.  Block 2 holds transaction 3 (pays script hash 2, nobody's yet) and transaction 4
   (spends 3's output, pays wallet 1): only 4 is recorded.  Wallet 2 (owner of script hash 2) is then
   restored: the rescan appends 3 to block 2's record AFTER 4 and marks 3's output spent by 4.  Block 2
   is reorganised away: Rollback walks the record backwards, deletes 3's credit first and fails on 4's
   debit — the announcement is refused, and so is every later one: the wallet no longer follows the chain. *)
Definition hist_order : list xevent :=
  let b1 := {| b_id := 1; b_prev := 0; b_height := 1; b_txs := [cb 1 [pay 9 100]] |} in
  let b2 := {| b_id := 2; b_prev := 1; b_height := 2;
               b_txs := [cb 2 []; {| t_id := 3; t_cb := false; t_ins := [(1, 0)%N]; t_outs := [pay 2 100] |};
                         {| t_id := 4; t_cb := false; t_ins := [(3, 0)%N]; t_outs := [pay 1 100] |}] |} in
  let b2' := {| b_id := 3; b_prev := 1; b_height := 2; b_txs := [cb 5 []] |} in
  let b3' := {| b_id := 4; b_prev := 3; b_height := 3; b_txs := [cb 6 []] |} in
  [XNewWallet 1 11; XNewAddr 1 1; XAttach b1; XProcess b1; XAttach b2; XProcess b2;
   XImportStart 2 22 [2%N]; XBatch 2;
   XDetach; XAttach b2'; XAttach b3'; XProcess b3'].

Theorem C07_rescan_then_reorg_refused_refuted :
  let s := xrun {| f_removable := true; f_rollback := true; f_import_retry := true; f_start_reorg := true;
                   f_rollback_order := false;
                   f_import_tipcheck := true; f_removable_debit := true; f_ff_check := true; f_keystore_undo := true |} p0 1000 20000 [g0] hist_order in
  status_of (xs_st s) 2 = Some WReady /\
  x_brecs (xs_st s) = [{| br_h := 2; br_bid := 2; br_txs := [4; 3]%N |}] /\
  fst (tip (x_w (xs_st s))) = 2 /\ chain_height (xs_node s) = 3 /\
  r_total (xreport (xs_st s) 1) = 100 /\
  r_total (spec_report p0 (key_owner (xs_st s)) (xs_node s) 1) = 0.
Proof. vm_compute. repeat split; reflexivity. Qed.
Print Assumptions C07_rescan_then_reorg_refused_refuted.

Example C07_rescan_then_reorg_repaired_on_witness :
  let s := xrun repaired p0 1000 20000 [g0] hist_order in
  fst (tip (x_w (xs_st s))) = 3 /\
  xreport (xs_st s) 1 = spec_report p0 (key_owner (xs_st s)) (xs_node s) 1 /\
  xreport (xs_st s) 2 = spec_report p0 (key_owner (xs_st s)) (xs_node s) 2.
Proof. vm_compute. repeat split; reflexivity. Qed.

(* the hypotheses of T1 are met by a non-trivial reachable state: the old chain, batch size 2 *)
Example C07_T1_instance :
  let s := xrun repaired p0 2 20000 old_chain [XImportStart 1 7 [1%N]; XBatch 1; XBatch 1] in
  status_of (xs_st s) 1 = Some WReady /\ r_total (xreport (xs_st s) 1) = 10.
Proof. vm_compute. split; reflexivity. Qed.

(* ================================================================== T1 in general: the chain moves *)

(* Histories.  [xrun repaired p B cap n0 (XImportStart w pass (sh :: shs) :: h)]: an instance starts on the
   node's chain n0 with no wallet, wallet w is restored (discovered script hashes sh :: shs), then the
   events of h happen in ANY order:
     XAttach b / XDetach   the node connects / disconnects a best block,
     XProcess b            the handler processes the (queued) announcement of b NOW — against whatever
                           chain the node has at that moment: extension, reorganisation (cursor pulled
                           back), roll-back to an old block of its own chain, or refusal,
     XBatch w              the worker runs one rescan batch — finding the node's chain as it is NOW,
                           which may be ahead of, or on another branch than, the handler's chain.
   [xwf p g U w B cap s0 h] (Ledger/ImportProofs2.v, [ev_ok]) is the environment assumption, event by event:
     blocks come from a universe U in which a block id names one block; the node's chain stays well formed
     ([wf_chain], C01's E1/E4); the genesis is never announced.  Nothing else: in particular the node MAY
     connect again a block it disconnected earlier while the handler still has it as synced (it leaves a
     branch and comes back before the handler is told).  For the code as found that assumption ("no bounce")
     was needed and the statement was false without it: C07_import_bounce_refuted below.
   Restriction kept from the partial theorem: the database holds no other wallet's keys — lifted by the
   *_multi theorems at the end of this file (Ledger/ImportProofs3.v).

   [sinv] is the invariant (a): the handler is not crashed, the node's chain is well formed, and for the
   chain c the handler follows ([xinv p g U w keys c st] — the node's chain does not occur in it): the
   store's synced chain is c; the import task is alive ([x_dead] empty); every credit and every spent mark
   is covered by a block record (so that the record-driven Rollback is [rollback_credits]); with top = the
   cursor (importing) or the height of c (ready), the credits are exactly those of the first top+1 blocks
   of c for the wallet's addresses ([importing] of the partial theorem, generalised) and every block record
   names a block of c.  It holds at EVERY point, not only when the handler is in step: a batch that finds
   the node's block at its upper height different from the handler's synced block of that height is refused
   (C07_batch_refused_off_chain), a batch that commits has read blocks of c only (C07_committed_batch_on_chain).
   A batch answers IOk (committed) or IRetry (nothing changed: not the handler's chain, previous transaction
   not found, block record of another block at that height, spend of a coin it does not have); never
   IAbandon (C07_batch_never_abandons). *)

(* (a) + (b): at every point of every such history the invariant holds; whenever the handler has processed
   the node's tip ([in_step]) and the wallet is ready, the WHOLE ledger is exactly the ledger of a wallet
   with the same addresses that followed the node's current chain live from genesis, and the report is the
   chain specification; until ready the wallet cannot be selected; the task is never dropped *)
Theorem C07_import_equals_live : forall p g U w pass sh shs B cap n0 h,
  (forall b1 b2, In b1 U -> In b2 U -> b_id b1 = b_id b2 -> b1 = b2) -> 0 < B ->
  wf_chain n0 -> from_g g n0 -> incl n0 U ->
  xwf p g U w B cap (xrun repaired p B cap n0 [XImportStart w pass (sh :: shs)]) h ->
  let s := xrun repaired p B cap n0 (XImportStart w pass (sh :: shs) :: h) in
  let own := own_w (xs_st s) w in
  sinv p g U w (keys_of w (sh :: shs)) s /\
  (in_step g s -> status_of (xs_st s) w = Some WReady ->
     ledger_of_chain p true own (xs_node s) = Ok (x_w (xs_st s)) /\
     xreport (xs_st s) w = spec_report p own (xs_node s) w) /\
  (status_of (xs_st s) w <> Some WReady -> use_wallet (xs_st s) w = UUnready) /\
  x_dead (xs_st s) = [] /\ xs_crashed s = false.
Proof. exact import_equals_live_moving. Qed.
Print Assumptions C07_import_equals_live.

(* the same invariant when the handler follows another chain (c0) than the node (n0) at the moment the
   wallet is restored *)
Theorem C07_import_moving_from : forall p g U w pass sh shs B cap c0 n0 all0 st1 h,
  (forall b1 b2, In b1 U -> In b2 U -> b_id b1 = b_id b2 -> b1 = b2) -> 0 < B ->
  wf_chain c0 -> from_g g c0 -> incl c0 U -> wf_chain n0 -> from_g g n0 -> incl n0 U ->
  import_start (xinit c0) w pass (sh :: shs) = Some st1 ->
  let s0 := {| xs_node := n0; xs_st := st1; xs_all := all0; xs_crashed := false |} in
  xwf p g U w B cap s0 h ->
  sinv p g U w (keys_of w (sh :: shs)) (fold_left (xstep repaired p B cap) h s0).
Proof. exact import_moving_from. Qed.
Print Assumptions C07_import_moving_from.

(* what (b) follows from: invariant + in step + ready *)
Theorem C07_invariant_gives_ledger : forall p g U w keys s,
  (forall b1 b2, In b1 U -> In b2 U -> b_id b1 = b_id b2 -> b1 = b2) ->
  sinv p g U w keys s -> in_step g s -> status_of (xs_st s) w = Some WReady ->
  let own := own_w (xs_st s) w in
  ledger_of_chain p true own (xs_node s) = Ok (x_w (xs_st s)) /\
  xreport (xs_st s) w = spec_report p own (xs_node s) w.
Proof. intros p g U w keys s Uids. exact (sinv_correct p g U Uids w keys s). Qed.
Print Assumptions C07_invariant_gives_ledger.

(* (a), in step: a wallet that is still importing is in the state [importing] of the partial theorem, for
   the node's current chain and its current cursor *)
Theorem C07_in_step_importing : forall p g U w keys s k,
  (forall b1 b2, In b1 U -> In b2 U -> b_id b1 = b_id b2 -> b1 = b2) ->
  sinv p g U w keys s -> in_step g s -> status_of (xs_st s) w = Some (WImporting k) ->
  importing p (xs_node s) w (own_w (xs_st s) w) k (xs_st s).
Proof. exact sinv_importing. Qed.
Print Assumptions C07_in_step_importing.

(* the handler side of liveness: from EVERY reachable state the announcement of the node's best block is
   accepted (as an extension or a reorganisation); afterwards the handler is in step, and a ready wallet has
   the ledger of the node's chain (C01's history theorem, for the restored wallet) *)
Theorem C07_process_tip_in_step : forall p g U w pass sh shs B cap n0 h b,
  (forall b1 b2, In b1 U -> In b2 U -> b_id b1 = b_id b2 -> b1 = b2) -> 0 < B ->
  wf_chain n0 -> from_g g n0 -> incl n0 U ->
  xwf p g U w B cap (xrun repaired p B cap n0 [XImportStart w pass (sh :: shs)]) h ->
  last (xs_node (xrun repaired p B cap n0 (XImportStart w pass (sh :: shs) :: h))) g = b -> b <> g ->
  let s := xrun repaired p B cap n0 (XImportStart w pass (sh :: shs) :: h ++ [XProcess b]) in
  let own := own_w (xs_st s) w in
  in_step g s /\
  (status_of (xs_st s) w = Some WReady ->
     ledger_of_chain p true own (xs_node s) = Ok (x_w (xs_st s)) /\
     xreport (xs_st s) w = spec_report p own (xs_node s) w).
Proof. exact import_moving_process_tip. Qed.
Print Assumptions C07_process_tip_in_step.

(* (c) liveness: from any reachable point where the handler is in step, if the chain stays as it is and m
   batches are scheduled, the wallet is ready — with the ledger of the node's chain — as soon as
   cursor + m * B exceeds the chain height, i.e. after at most (height - cursor) / B + 1 batches.
   No reachable state is dead: [x_dead] is empty and every batch in step commits (C07_batch_in_step). *)
Theorem C07_import_live : forall p g U w pass sh shs B cap n0 h m,
  (forall b1 b2, In b1 U -> In b2 U -> b_id b1 = b_id b2 -> b1 = b2) -> 0 < B ->
  wf_chain n0 -> from_g g n0 -> incl n0 U ->
  xwf p g U w B cap (xrun repaired p B cap n0 [XImportStart w pass (sh :: shs)]) h ->
  let s := xrun repaired p B cap n0 (XImportStart w pass (sh :: shs) :: h) in
  in_step g s ->
  (forall k, status_of (xs_st s) w = Some (WImporting k) -> chain_height (xs_node s) < k + Z.of_nat m * B) ->
  let s' := xrun repaired p B cap n0 (XImportStart w pass (sh :: shs) :: h ++ repeat (XBatch w) m) in
  let own := own_w (xs_st s') w in
  xs_node s' = xs_node s /\ in_step g s' /\ status_of (xs_st s') w = Some WReady /\
  ledger_of_chain p true own (xs_node s') = Ok (x_w (xs_st s')) /\
  xreport (xs_st s') w = spec_report p own (xs_node s') w.
Proof. exact import_live_moving. Qed.
Print Assumptions C07_import_live.

(* one batch in step: it commits, the cursor advances by B or the wallet is handed over *)
Theorem C07_batch_in_step : forall p g U w keys B n st k, 0 < B ->
  xinv p g U w keys n st -> status_of st w = Some (WImporting k) ->
  let stop := Z.min (k + B) (chain_height n) in
  snd (import_batch repaired p B n st w) = IOk /\
  status_of (fst (import_batch repaired p B n st w)) w =
    Some (if stop =? chain_height n then WReady else WImporting stop).
Proof. exact batch_progress. Qed.
Print Assumptions C07_batch_in_step.

(* the steps of the invariant, event by event *)
Theorem C07_batch_keeps_invariant : forall p g U, (forall b1 b2, In b1 U -> In b2 U -> b_id b1 = b_id b2 -> b1 = b2) ->
  forall w keys B c n st, ninv g U n -> 0 < B -> xinv p g U w keys c st ->
  xinv p g U w keys c (fst (import_batch repaired p B n st w)).
Proof. exact batch_inv. Qed.
Print Assumptions C07_batch_keeps_invariant.

Theorem C07_announcement_keeps_invariant : forall p g U, (forall b1 b2, In b1 U -> In b2 U -> b_id b1 = b_id b2 -> b1 = b2) ->
  forall w keys, (forall sh v, lookupN keys sh = Some v -> v = w) ->
  forall c n st b st', ninv g U n -> xinv p g U w keys c st -> In b U -> b <> g ->
  xprocess repaired p n st b = XOk st' ->
  exists c', xinv p g U w keys c' st' /\ incl c' (c ++ n).
Proof. exact xprocess_inv. Qed.
Print Assumptions C07_announcement_keeps_invariant.

Theorem C07_node_block_always_accepted : forall p g U, (forall b1 b2, In b1 U -> In b2 U -> b_id b1 = b_id b2 -> b1 = b2) ->
  forall w keys, (forall sh v, lookupN keys sh = Some v -> v = w) ->
  forall c n st b n1 n2, ninv g U n -> xinv p g U w keys c st -> n = n1 ++ b :: n2 -> n1 <> [] ->
  exists st', xprocess repaired p n st b = XOk st' /\ xinv p g U w keys (n1 ++ [b]) st'.
Proof. exact xprocess_on_node. Qed.
Print Assumptions C07_node_block_always_accepted.

Theorem C07_batch_never_abandons : forall p B n st w,
  snd (import_batch repaired p B n st w) <> IAbandon /\ x_dead (fst (import_batch repaired p B n st w)) = x_dead st.
Proof. exact batch_never_abandons. Qed.
Print Assumptions C07_batch_never_abandons.

(* the repair: a batch that finds the node's block at its upper height different from the handler's synced
   block of that height (or one of the two missing) commits nothing and is retried — any node state, any
   store *)
Theorem C07_batch_refused_off_chain : forall p B n st w k,
  status_of st w = Some (WImporting k) ->
  node_on_synced n (x_w st) (Z.min (k + B) (fst (tip (x_w st)))) = false ->
  import_batch repaired p B n st w = (st, if memN w (x_dead st) then IOk else IRetry).
Proof. exact batch_refused_off_chain. Qed.
Print Assumptions C07_batch_refused_off_chain.

(* ... and, under the invariant, a batch that commits has read blocks of the handler's chain only: up to the
   batch's upper height the node's chain IS the handler's chain *)
Theorem C07_committed_batch_on_chain : forall p g U, (forall b1 b2, In b1 U -> In b2 U -> b_id b1 = b_id b2 -> b1 = b2) ->
  forall w keys B c n st k, ninv g U n -> xinv p g U w keys c st ->
  status_of st w = Some (WImporting k) ->
  snd (import_batch repaired p B n st w) = IOk ->
  let stop := Z.min (k + B) (chain_height c) in
  stop <= chain_height n /\ upto stop c = upto stop n.
Proof. exact batch_ok_on_chain. Qed.
Print Assumptions C07_committed_batch_on_chain.

(* ------------------------------------------------------------------ the code as found failed here (the bounce) *)

(* Code as found in this respect ([no_tipcheck]: every other repair made), batch size 1000.  Chain g0-1-2-3-4
   (block 1 pays the wallet 10); the handler is in step.  The node reorganises to 1-2-3'-4' (3' pays the
   wallet 77): the announcements are queued.  The rescan batch runs now: it reads heights 1..4 of the node's
   chain — 3' and 4' — commits, and hands the wallet over (4 = the handler's height).  Before the handler is
   told anything the node goes back: 4' and 3' disconnected, 3, 4 and a new block 5 connected.  The handler
   then processes every announcement in the order they were queued: 3' and 4' are refused (no longer on the
   node), 3 is "already synced" (nothing above it is rolled back below height 4), 4 and 5 extend.  The
   handler is in step with the node, the wallet is ready — and holds the 77 of block 3', which is not on the
   chain.  Nothing repairs it later: no announcement ever makes the handler roll back below height 4.
   The history satisfies the environment assumption of the theorems above ([xwf]).  Reproduced on the real
   code by harness/cmd/c07 (bounce.go). *)
Definition no_tipcheck : fixes :=
  {| f_removable := true; f_rollback := true; f_import_retry := true; f_start_reorg := true; f_rollback_order := true;
     f_import_tipcheck := false; f_removable_debit := true; f_ff_check := true; f_keystore_undo := true |}.
Definition b3 := {| b_id := 3; b_prev := 2; b_height := 3; b_txs := [cb 3 []] |}.
Definition b4 := {| b_id := 4; b_prev := 3; b_height := 4; b_txs := [cb 4 []] |}.
Definition b5 := {| b_id := 5; b_prev := 4; b_height := 5; b_txs := [cb 5 []] |}.
Definition c3' := {| b_id := 13; b_prev := 2; b_height := 3; b_txs := [cb 13 [pay 1 77]] |}.
Definition c4' := {| b_id := 14; b_prev := 13; b_height := 4; b_txs := [cb 14 []] |}.
Definition c5' := {| b_id := 15; b_prev := 14; b_height := 5; b_txs := [cb 15 []] |}.
Definition U_bounce : list block := old_chain ++ [b5; c3'; c4'; c5'].
Definition hist_bounce : list xevent :=
  [XDetach; XDetach; XAttach c3'; XAttach c4'; XBatch 1; XDetach; XDetach;
   XAttach b3; XAttach b4; XAttach b5;
   XProcess c3'; XProcess c4'; XProcess b3; XProcess b4; XProcess b5; XBatch 1].

Theorem C07_import_bounce_refuted :
  let s := xrun no_tipcheck p0 1000 20000 old_chain (XImportStart 1 7 [1%N] :: hist_bounce) in
  (* the history is one of those the general theorems quantify over *)
  xwf p0 g0 U_bounce 1 1000 20000 (xrun repaired p0 1000 20000 old_chain [XImportStart 1 7 [1%N]]) hist_bounce /\
  (* at the end: *)
  wf_chain (xs_node s) /\ in_step g0 s /\ status_of (xs_st s) 1 = Some WReady /\
  r_total (xreport (xs_st s) 1) = 87 /\
  r_total (spec_report p0 (own_w (xs_st s) 1) (xs_node s) 1) = 10.
Proof.
  cbv zeta. split; [apply xwf_b_sound; vm_compute; reflexivity|].
  split; [apply wf_chain_b_sound; vm_compute; reflexivity|].
  vm_compute. repeat split; reflexivity.
Qed.
Print Assumptions C07_import_bounce_refuted.

(* the code as found altogether ([as_found]) fails on it in the same way *)
Example C07_import_bounce_as_found :
  let s := xrun as_found p0 1000 20000 old_chain (XImportStart 1 7 [1%N] :: hist_bounce) in
  in_step g0 s /\ status_of (xs_st s) 1 = Some WReady /\ r_total (xreport (xs_st s) 1) = 87.
Proof. vm_compute. repeat split; reflexivity. Qed.

(* repaired: the batch that finds the node on 3'-4' is refused (the wallet stays importing, nothing is
   stored); the last batch runs on the handler's chain: ready, in step, the report is the specification *)
Example C07_bounce_repaired_on_witness :
  (let s := xrun repaired p0 1000 20000 old_chain (XImportStart 1 7 [1%N] :: removelast hist_bounce) in
   in_step g0 s /\ status_of (xs_st s) 1 = Some (WImporting 0) /\ credits (x_w (xs_st s)) = []) /\
  (let s := xrun repaired p0 1000 20000 old_chain (XImportStart 1 7 [1%N] :: hist_bounce) in
   in_step g0 s /\ status_of (xs_st s) 1 = Some WReady /\
   xreport (xs_st s) 1 = spec_report p0 (own_w (xs_st s) 1) (xs_node s) 1 /\ r_total (xreport (xs_st s) 1) = 10).
Proof. vm_compute. repeat split; reflexivity. Qed.

(* ------------------------------------------------------------------ the hypotheses are satisfiable *)

(* batch size 2, the reorganisation of [hist_abandon] between batches: the second batch finds the node on the
   new branch before the handler is told and is refused; the announcement is processed (cursor pulled back
   to 1); three more batches: ready, in step, correct *)
Definition U_moving : list block := old_chain ++ [b2'; b3'; b4'; b5'].
Definition hist_moving : list xevent :=
  [XBatch 1; XDetach; XDetach; XDetach; XAttach b2'; XAttach b3'; XAttach b4'; XAttach b5';
   XBatch 1; XProcess b5'; XBatch 1; XBatch 1; XBatch 1].

Example C07_moving_instance :
  (forall b1 b2, In b1 U_moving -> In b2 U_moving -> b_id b1 = b_id b2 -> b1 = b2) /\
  wf_chain old_chain /\ from_g g0 old_chain /\ incl old_chain U_moving /\
  xwf p0 g0 U_moving 1 2 20000 (xrun repaired p0 2 20000 old_chain [XImportStart 1 7 [1%N]]) hist_moving /\
  let s := xrun repaired p0 2 20000 old_chain (XImportStart 1 7 [1%N] :: hist_moving) in
  in_step g0 s /\ status_of (xs_st s) 1 = Some WReady /\ chain_height (xs_node s) = 5 /\
  r_total (xreport (xs_st s) 1) = 10.
Proof.
  split; [apply ids_b_sound; vm_compute; reflexivity|].
  split; [apply wf_chain_b_sound; vm_compute; reflexivity|].
  split; [eexists; reflexivity|].
  split; [apply incl_appl; apply incl_refl|].
  split; [apply xwf_b_sound; vm_compute; reflexivity|].
  vm_compute. repeat split; reflexivity.
Qed.

(* batch size 1000: the first batch runs while the node is already on the other branch (3' pays the wallet
   77) and the handler is not: it is refused — still importing, nothing stored, not in step; the announcement
   of 5' reorganises the handler, the next batch commits: the ledger is that of the node's chain *)
Definition hist_other_branch : list xevent :=
  [XDetach; XDetach; XAttach c3'; XAttach c4'; XAttach c5'; XBatch 1; XProcess c5'; XBatch 1].

Example C07_moving_instance_other_branch :
  xwf p0 g0 U_bounce 1 1000 20000 (xrun repaired p0 1000 20000 old_chain [XImportStart 1 7 [1%N]]) hist_other_branch /\
  (let s := xrun repaired p0 1000 20000 old_chain (XImportStart 1 7 [1%N] :: firstn 6 hist_other_branch) in
   status_of (xs_st s) 1 = Some (WImporting 0) /\ fst (tip (x_w (xs_st s))) = 4 /\ ~ in_step g0 s /\
   credits (x_w (xs_st s)) = []) /\
  (let s := xrun repaired p0 1000 20000 old_chain (XImportStart 1 7 [1%N] :: hist_other_branch) in
   in_step g0 s /\ status_of (xs_st s) 1 = Some WReady /\
   xreport (xs_st s) 1 = spec_report p0 (own_w (xs_st s) 1) (xs_node s) 1 /\ r_total (xreport (xs_st s) 1) = 87).
Proof.
  split; [apply xwf_b_sound; vm_compute; reflexivity|].
  split; vm_compute; repeat split; try reflexivity. discriminate.
Qed.

(* ================================================================== T1 with OTHER wallets in the database *)

(* The theorems above speak of a database in which the restored wallet w is the only wallet.  Here the database
   already holds any number of OTHER ready wallets — keystore table [keys0] — that have followed the chain live
   ([minv p g U w keys0 c0 st0] with w absent: C07_multi_start gives it from a direct description: the store is
   the ledger [L p (lookupN keys0) c0] of their keys over the handler's chain c0, with its block records), and
   transactions SHARED between w and one of them (B paid A: the transaction record and the block record exist
   already when B's rescan reaches the block; the rescan must add B's debit and credits to them).
   w is restored ([import_start], script hashes sh :: shs, none of them in keys0); then ANY history h of the
   events of the theorems above (the node connects / disconnects / re-connects blocks, the handler processes
   announcements — extensions, reorganisations with the cursor pull-back, roll-backs —, rescan batches of any
   size that find the node wherever it is) — same environment assumption [xwf].

   [minv p g U w keysA c st] (Ledger/ImportProofs3.v) is the invariant, for the chain c the handler follows:
   store synced to c, import task alive, every credit and spent mark covered by a block record, every block
   record names a block of c, every wallet other than w that has keys is READY, and with top = the cursor
   (w importing) or the height of c (w ready):
     the credits of w      = exactly those of the first top+1 blocks of c for w's addresses, in chain order,
     the credits of others = exactly those of ALL of c for the other keys, in chain order
   (two projections of the ONE credit list; spent marks included).

   [equals_live_all p st n]: the database equals the live run of ALL wallets (all keys of the keystore table)
   over the chain n: [ledger_of_chain p true (key_owner st) n = Ok live] (C01's follower, every wallet ready
   from genesis), same synced chain, the credit list is a PERMUTATION of live's, every wallet's credits are
   live's IN THE SAME ORDER with the same spent marks, and every wallet's report is the chain specification. *)

(* (a) import = live for the whole database, the chain moving; until ready w cannot be selected; never dropped *)
Theorem C07_import_equals_live_multi : forall p g U, (forall b1 b2, In b1 U -> In b2 U -> b_id b1 = b_id b2 -> b1 = b2) ->
  forall w keys0 B cap, 0 < B -> forall pass sh shs c0 n0 all0 st0 st1,
  ninv g U n0 -> minv p g U w keys0 c0 st0 -> status_of st0 w = None -> (forall s, ownW w keys0 s = None) ->
  (forall s, In s (sh :: shs) -> lookupN keys0 s = None) ->
  import_start st0 w pass (sh :: shs) = Some st1 ->
  forall h, xwf p g U w B cap {| xs_node := n0; xs_st := st1; xs_all := all0; xs_crashed := false |} h ->
  let s := fold_left (xstep repaired p B cap) h {| xs_node := n0; xs_st := st1; xs_all := all0; xs_crashed := false |} in
  sinv_m p g U w (keys0 ++ keys_of w (sh :: shs)) s /\
  (in_step g s -> status_of (xs_st s) w = Some WReady -> equals_live_all p (xs_st s) (xs_node s)) /\
  (status_of (xs_st s) w <> Some WReady -> use_wallet (xs_st s) w = UUnready) /\
  x_dead (xs_st s) = [] /\ xs_crashed s = false.
Proof. exact import_equals_live_multi. Qed.
Print Assumptions C07_import_equals_live_multi.

(* (b) FRAME, absolute: at EVERY point of every such history (in step or not, w importing or ready) every other
   wallet's credits — spent marks included — and report are exactly those of the ledger of the OTHER wallets'
   keys alone over the chain c the handler follows: the rescan has not touched them *)
Theorem C07_import_frame_multi : forall p g U, (forall b1 b2, In b1 U -> In b2 U -> b_id b1 = b_id b2 -> b1 = b2) ->
  forall w keys0 B cap, 0 < B -> forall pass sh shs c0 n0 all0 st0 st1,
  ninv g U n0 -> minv p g U w keys0 c0 st0 -> status_of st0 w = None -> (forall s, ownW w keys0 s = None) ->
  import_start st0 w pass (sh :: shs) = Some st1 ->
  forall h, xwf p g U w B cap {| xs_node := n0; xs_st := st1; xs_all := all0; xs_crashed := false |} h ->
  let s := fold_left (xstep repaired p B cap) h {| xs_node := n0; xs_st := st1; xs_all := all0; xs_crashed := false |} in
  exists c, wf_chain c /\ synced (x_w (xs_st s)) = synced_of c /\
    forall v, v <> w ->
      proj v (credits (x_w (xs_st s))) = proj v (credits (L p (lookupN keys0) c)) /\
      xreport (xs_st s) v = spec_report p (lookupN keys0) c v.
Proof. exact import_frame_multi. Qed.
Print Assumptions C07_import_frame_multi.

(* (b) FRAME, relative: the same events applied to the database in which w was never restored (there a batch
   of w is a no-op): same synced chain; every other wallet has the same credits, spent marks and report *)
Theorem C07_import_frame_vs_no_import : forall p g U, (forall b1 b2, In b1 U -> In b2 U -> b_id b1 = b_id b2 -> b1 = b2) ->
  forall w keys0 B cap, 0 < B -> forall pass sh shs c0 n0 all0 st0 st1,
  ninv g U n0 -> minv p g U w keys0 c0 st0 -> status_of st0 w = None -> (forall s, ownW w keys0 s = None) ->
  import_start st0 w pass (sh :: shs) = Some st1 ->
  forall all0' h, xwf p g U w B cap {| xs_node := n0; xs_st := st1; xs_all := all0; xs_crashed := false |} h ->
  let s := fold_left (xstep repaired p B cap) h {| xs_node := n0; xs_st := st1; xs_all := all0; xs_crashed := false |} in
  let s2 := fold_left (xstep repaired p B cap) h {| xs_node := n0; xs_st := st0; xs_all := all0'; xs_crashed := false |} in
  xs_node s = xs_node s2 /\ synced (x_w (xs_st s)) = synced (x_w (xs_st s2)) /\
  forall v, v <> w ->
    proj v (credits (x_w (xs_st s))) = proj v (credits (x_w (xs_st s2))) /\
    xreport (xs_st s) v = xreport (xs_st s2) v.
Proof. exact import_frame_vs_no_import. Qed.
Print Assumptions C07_import_frame_vs_no_import.

(* (c) liveness: in step, chain static, m batches: ready as soon as cursor + m * B exceeds the height, and then
   the database is the live run of all wallets *)
Theorem C07_import_live_multi : forall p g U, (forall b1 b2, In b1 U -> In b2 U -> b_id b1 = b_id b2 -> b1 = b2) ->
  forall w keys0 B cap, 0 < B -> forall pass sh shs c0 n0 all0 st0 st1,
  ninv g U n0 -> minv p g U w keys0 c0 st0 -> status_of st0 w = None -> (forall s, ownW w keys0 s = None) ->
  (forall s, In s (sh :: shs) -> lookupN keys0 s = None) ->
  import_start st0 w pass (sh :: shs) = Some st1 ->
  forall h m, xwf p g U w B cap {| xs_node := n0; xs_st := st1; xs_all := all0; xs_crashed := false |} h ->
  let s := fold_left (xstep repaired p B cap) h {| xs_node := n0; xs_st := st1; xs_all := all0; xs_crashed := false |} in
  in_step g s ->
  (forall k, status_of (xs_st s) w = Some (WImporting k) -> chain_height (xs_node s) < k + Z.of_nat m * B) ->
  let s' := fold_left (xstep repaired p B cap) (h ++ repeat (XBatch w) m) {| xs_node := n0; xs_st := st1; xs_all := all0; xs_crashed := false |} in
  xs_node s' = xs_node s /\ in_step g s' /\ status_of (xs_st s') w = Some WReady /\
  equals_live_all p (xs_st s') (xs_node s').
Proof. exact import_live_multi. Qed.
Print Assumptions C07_import_live_multi.

(* the starting state, described directly *)
Theorem C07_multi_start : forall p g U w keys0 c st0,
  wf_chain c -> from_g g c -> incl c U ->
  x_w st0 = L p (lookupN keys0) c -> x_keys st0 = keys0 -> x_dead st0 = [] ->
  covered (x_brecs st0) (credits (x_w st0)) ->
  (forall sh v, lookupN keys0 sh = Some v -> v <> w /\ status_of st0 v = Some WReady) ->
  status_of st0 w = None ->
  brs_ok c (x_brecs st0) -> brs_le (chain_height c) (x_brecs st0) ->
  minv p g U w keys0 c st0 /\ (forall sh, ownW w keys0 sh = None).
Proof. exact minv_live_start. Qed.
Print Assumptions C07_multi_start.

(* the steps of the invariant *)
Theorem C07_batch_keeps_invariant_multi : forall p g U, (forall b1 b2, In b1 U -> In b2 U -> b_id b1 = b_id b2 -> b1 = b2) ->
  forall w keysA B c n st, ninv g U n -> 0 < B -> minv p g U w keysA c st ->
  minv p g U w keysA c (fst (import_batch repaired p B n st w)).
Proof. exact mbatch_inv. Qed.
Print Assumptions C07_batch_keeps_invariant_multi.

Theorem C07_announcement_keeps_invariant_multi : forall p g U, (forall b1 b2, In b1 U -> In b2 U -> b_id b1 = b_id b2 -> b1 = b2) ->
  forall w keysA c n st b st', ninv g U n -> minv p g U w keysA c st -> In b U -> b <> g ->
  xprocess repaired p n st b = XOk st' ->
  exists c', minv p g U w keysA c' st' /\ incl c' (c ++ n).
Proof. exact mprocess_inv. Qed.
Print Assumptions C07_announcement_keeps_invariant_multi.

Theorem C07_node_block_always_accepted_multi : forall p g U, (forall b1 b2, In b1 U -> In b2 U -> b_id b1 = b_id b2 -> b1 = b2) ->
  forall w keysA c n st b n1 n2, ninv g U n -> minv p g U w keysA c st -> n = n1 ++ b :: n2 -> n1 <> [] ->
  exists st', xprocess repaired p n st b = XOk st' /\ minv p g U w keysA (n1 ++ [b]) st'.
Proof. exact mprocess_on_node. Qed.
Print Assumptions C07_node_block_always_accepted_multi.

(* the invariant at any moment: every other wallet is exactly live (frame); in step and handed over, everybody is *)
Theorem C07_invariant_frame_multi : forall p g U w keysA c st v, minv p g U w keysA c st -> v <> w ->
  proj v (credits (x_w st)) = proj v (credits (L p (lookupN keysA) c)) /\
  xreport st v = spec_report p (lookupN keysA) c v.
Proof. exact minv_frame. Qed.
Print Assumptions C07_invariant_frame_multi.

(* ------------------------------------------------------------------ shared transactions *)

(* whenever the database equals the live run: EVERY credit's spent mark is the chain's — spent by the first
   transaction of the chain that spends its outpoint, whether or not that transaction's record was already in
   the database for another wallet; unspent iff no transaction of the chain spends it *)
Theorem C07_shared_tx_spent_marks : forall p st n, equals_live_all p st n -> wf_chain n ->
  forall cr, In cr (credits (x_w st)) -> c_spent cr = spender_l (ptxs n) (c_tx cr, c_vout cr).
Proof. exact equals_live_spent_marks. Qed.
Print Assumptions C07_shared_tx_spent_marks.

(* Wallet 1 (A, script hash 1) is live and ready.  Block 1 pays script hash 2 (wallet B's, not in the database
   yet) 100; block 2 holds T = transaction 5: spends that coin, pays A 60 and B 40 change; block 3.  A's store:
   T's record, block 2's record, A's credit (5,0).  B is restored afterwards; one batch. *)
Definition sb1 := {| b_id := 1; b_prev := 0; b_height := 1; b_txs := [cb 1 [pay 2 100; pay 9 1000]] |}.
Definition sT : tx := {| t_id := 5; t_cb := false; t_ins := [(1, 0)%N]; t_outs := [pay 1 60; pay 2 40] |}.
Definition sb2 := {| b_id := 2; b_prev := 1; b_height := 2; b_txs := [cb 2 []; sT] |}.
Definition sb3 := {| b_id := 3; b_prev := 2; b_height := 3; b_txs := [cb 3 []] |}.
Definition hist_shared_pre : list xevent :=
  [XNewWallet 1 11; XNewAddr 1 1; XAttach sb1; XProcess sb1; XAttach sb2; XProcess sb2; XAttach sb3; XProcess sb3].
Definition shared_chain : list block := [g0; sb1; sb2; sb3].

(* the hypotheses of the *_multi theorems hold of it (U = the chain itself), and at the end: B's coin spent by
   T is marked spent by T, B's balance is what the chain says (40), T is listed ONCE in block 2's record, A's
   credit from T is untouched *)
Example C07_multi_shared_instance :
  let s_pre := xrun repaired p0 1000 20000 [g0] hist_shared_pre in
  let st0 := xs_st s_pre in
  (forall b1 b2, In b1 shared_chain -> In b2 shared_chain -> b_id b1 = b_id b2 -> b1 = b2) /\
  xs_node s_pre = shared_chain /\ ninv g0 shared_chain shared_chain /\
  minv p0 g0 shared_chain 2 [(1, 1)%N] shared_chain st0 /\ status_of st0 2 = None /\
  (forall s, ownW 2 [(1, 1)%N] s = None) /\ (forall s, In s [2%N] -> lookupN [(1, 1)%N] s = None) /\
  exists st1, import_start st0 2 22 [2%N] = Some st1 /\
    xwf p0 g0 shared_chain 2 1000 20000 {| xs_node := shared_chain; xs_st := st1; xs_all := []; xs_crashed := false |} [XBatch 2] /\
    let s := fold_left (xstep repaired p0 1000 20000) [XBatch 2] {| xs_node := shared_chain; xs_st := st1; xs_all := []; xs_crashed := false |} in
    in_step g0 s /\ status_of (xs_st s) 2 = Some WReady /\
    map (fun c => (c_tx c, c_vout c, c_amount c, c_spent c)) (proj 2 (credits (x_w (xs_st s)))) =
      [(1%N, 0%N, 100, Some (5%N, 0%N, 2)); (5%N, 1%N, 40, None)] /\
    r_total (xreport (xs_st s) 2) = 40 /\ r_total (spec_report p0 (key_owner (xs_st s)) shared_chain 2) = 40 /\
    x_brecs (xs_st s) = [{| br_h := 2; br_bid := 2; br_txs := [5%N] |}; {| br_h := 1; br_bid := 1; br_txs := [1%N] |}] /\
    proj 1 (credits (x_w (xs_st s))) = proj 1 (credits (x_w st0)) /\ r_total (xreport (xs_st s) 1) = 60.
Proof.
  cbv zeta.
  assert (Hwf : wf_chain shared_chain) by (apply wf_chain_b_sound; vm_compute; reflexivity).
  split; [apply ids_b_sound; vm_compute; reflexivity|].
  split; [vm_compute; reflexivity|].
  split; [split; [exact Hwf|split; [eexists; reflexivity|apply incl_refl]]|].
  assert (Hm : minv p0 g0 shared_chain 2 [(1, 1)%N] shared_chain (xs_st (xrun repaired p0 1000 20000 [g0] hist_shared_pre)) /\
               (forall s, ownW 2 [(1, 1)%N] s = None)).
  { apply C07_multi_start.
    - exact Hwf.
    - eexists; reflexivity.
    - apply incl_refl.
    - vm_compute. reflexivity.
    - vm_compute. reflexivity.
    - vm_compute. reflexivity.
    - apply covered_b_sound. vm_compute. reflexivity.
    - change [(1, 1)%N] with (x_keys (xs_st (xrun repaired p0 1000 20000 [g0] hist_shared_pre))).
      apply keys_ready_b_sound. vm_compute. reflexivity.
    - vm_compute. reflexivity.
    - apply brs_ok_b_sound. vm_compute. reflexivity.
    - apply brs_le_b_sound. vm_compute. reflexivity. }
  destruct Hm as [Hm Hnk].
  split; [exact Hm|]. split; [vm_compute; reflexivity|]. split; [exact Hnk|].
  split; [intros s [<-|[]]; vm_compute; reflexivity|].
  eexists. split; [vm_compute; reflexivity|].
  split; [apply xwf_b_sound; vm_compute; reflexivity|].
  vm_compute. repeat split; reflexivity.
Qed.

(* the mutation: the rescan skips a transaction whose record already exists (T, recorded for A).  Same history:
   B is handed over with its coin of block 1 UNSPENT and without its change: balance 100 where the chain says 40
   ([import_batch_skip], Ledger/ImportProofs3.v; the model's rescan is [import_batch], of which the theorems
   above speak) *)
Theorem C07_import_skips_recorded_tx_refuted :
  let s_pre := xrun repaired p0 1000 20000 [g0] hist_shared_pre in
  exists st1, import_start (xs_st s_pre) 2 22 [2%N] = Some st1 /\
    let st := fst (import_batch_skip repaired p0 1000 (xs_node s_pre) st1 2) in
    status_of st 2 = Some WReady /\
    map (fun c => (c_tx c, c_vout c, c_amount c, c_spent c)) (proj 2 (credits (x_w st))) = [(1%N, 0%N, 100, None)] /\
    r_total (xreport st 2) = 100 /\
    r_total (spec_report p0 (key_owner st) (xs_node s_pre) 2) = 40 /\
    (* the model's rescan on the same state: *)
    r_total (xreport (fst (import_batch repaired p0 1000 (xs_node s_pre) st1 2)) 2) = 40.
Proof. cbv zeta. eexists. split; [vm_compute; reflexivity|]. vm_compute. repeat split; reflexivity. Qed.
Print Assumptions C07_import_skips_recorded_tx_refuted.

(* ================================================================== the start state is REACHABLE (Ledger/ImportProofs4.v) *)

(* The *_multi theorems above take the start state as a premise ([minv] with w absent).  Here: EVERY state reached
   from the initial state (no wallet, synced to the node's chain n0) by ANY history of
     XNewWallet v pass     CreateWallet (a name in use: refused, nothing changes),
     XNewAddr sh v         NewAddress for a wallet that exists (status ready), the address not paid by any block
                           the node has had so far (A = n0 and every block attached since: E3 of C01,
                           [owners_before_paid]: an address is issued before a block pays it),
     XAttach b / XDetach / XProcess b   as in [xwf],
     XBatch v              (a no-op: every wallet is ready)
   — [gwf p g U B cap A s h], the environment assumption event by event — satisfies that premise for EVERY wallet
   name w that is absent, for the chain c the handler follows. *)
Theorem C07_reachable_start : forall p g U, (forall b1 b2, In b1 U -> In b2 U -> b_id b1 = b_id b2 -> b1 = b2) ->
  forall B cap n0 h, ninv g U n0 -> gwf p g U B cap n0 (xinit_sim n0) h ->
  let s := xrun repaired p B cap n0 h in
  forall w, status_of (xs_st s) w = None ->
  exists c, minv p g U w (x_keys (xs_st s)) c (xs_st s) /\ (forall sh, ownW w (x_keys (xs_st s)) sh = None) /\
            ninv g U (xs_node s) /\ xs_crashed s = false.
Proof. exact reach_minv. Qed.
Print Assumptions C07_reachable_start.

(* ... and its block records list no transaction twice and hold one record per height *)
Theorem C07_reachable_records_nodup : forall p g U, (forall b1 b2, In b1 U -> In b2 U -> b_id b1 = b_id b2 -> b1 = b2) ->
  forall B cap n0 h, ninv g U n0 -> gwf p g U B cap n0 (xinit_sim n0) h ->
  brs_nodup (x_brecs (xs_st (xrun repaired p B cap n0 h))).
Proof. exact reach_brs_nodup. Qed.
Print Assumptions C07_reachable_records_nodup.

(* import = live with other wallets, from genesis: h1 creates the other wallets, issues their addresses and lets
   them follow the moving chain; then w (absent so far, its script hashes unknown to the keystore table) is
   restored; then ANY history h2 of [xwf].  No premise about the state is left. *)
Theorem C07_import_equals_live_from_genesis : forall p g U, (forall b1 b2, In b1 U -> In b2 U -> b_id b1 = b_id b2 -> b1 = b2) ->
  forall B cap, 0 < B -> forall n0 h1, ninv g U n0 -> gwf p g U B cap n0 (xinit_sim n0) h1 ->
  forall w pass sh shs, status_of (xs_st (xrun repaired p B cap n0 h1)) w = None ->
  (forall s, In s (sh :: shs) -> lookupN (x_keys (xs_st (xrun repaired p B cap n0 h1))) s = None) ->
  forall h2, xwf p g U w B cap (xstep repaired p B cap (xrun repaired p B cap n0 h1) (XImportStart w pass (sh :: shs))) h2 ->
  let keys0 := x_keys (xs_st (xrun repaired p B cap n0 h1)) in
  let s := xrun repaired p B cap n0 (h1 ++ XImportStart w pass (sh :: shs) :: h2) in
  sinv_m p g U w (keys0 ++ keys_of w (sh :: shs)) s /\
  (in_step g s -> status_of (xs_st s) w = Some WReady -> equals_live_all p (xs_st s) (xs_node s)) /\
  (status_of (xs_st s) w <> Some WReady -> use_wallet (xs_st s) w = UUnready) /\
  x_dead (xs_st s) = [] /\ xs_crashed s = false.
Proof. exact import_equals_live_from_genesis. Qed.
Print Assumptions C07_import_equals_live_from_genesis.

Theorem C07_import_live_from_genesis : forall p g U, (forall b1 b2, In b1 U -> In b2 U -> b_id b1 = b_id b2 -> b1 = b2) ->
  forall B cap, 0 < B -> forall n0 h1, ninv g U n0 -> gwf p g U B cap n0 (xinit_sim n0) h1 ->
  forall w pass sh shs, status_of (xs_st (xrun repaired p B cap n0 h1)) w = None ->
  (forall s, In s (sh :: shs) -> lookupN (x_keys (xs_st (xrun repaired p B cap n0 h1))) s = None) ->
  forall h2 m, xwf p g U w B cap (xstep repaired p B cap (xrun repaired p B cap n0 h1) (XImportStart w pass (sh :: shs))) h2 ->
  let s := xrun repaired p B cap n0 (h1 ++ XImportStart w pass (sh :: shs) :: h2) in
  in_step g s ->
  (forall k, status_of (xs_st s) w = Some (WImporting k) -> chain_height (xs_node s) < k + Z.of_nat m * B) ->
  let s' := xrun repaired p B cap n0 (h1 ++ XImportStart w pass (sh :: shs) :: h2 ++ repeat (XBatch w) m) in
  xs_node s' = xs_node s /\ in_step g s' /\ status_of (xs_st s') w = Some WReady /\
  equals_live_all p (xs_st s') (xs_node s').
Proof. exact import_live_from_genesis. Qed.
Print Assumptions C07_import_live_from_genesis.

(* the history that builds the database of the shared-transaction example is one of them *)
Example C07_reachable_instance :
  ninv g0 shared_chain [g0] /\ gwf p0 g0 shared_chain 1000 20000 [g0] (xinit_sim [g0]) hist_shared_pre /\
  status_of (xs_st (xrun repaired p0 1000 20000 [g0] hist_shared_pre)) 2 = None.
Proof.
  split; [|split; [apply gwf_b_sound; vm_compute; reflexivity|vm_compute; reflexivity]].
  split; [apply wf_chain_b_sound; vm_compute; reflexivity|]. split; [exists []; reflexivity|].
  intros z [<-|[]]. left. reflexivity.
Qed.

(* ================================================================== a shared transaction is recorded ONCE (Ledger/ImportProofs5.v) *)

(* [brs_nodup brs]: at most one block record per height, and no record lists a transaction id twice.  It is kept
   by every operation that writes block records, for ANY store and any node (no invariant needed): *)
Theorem C07_add_ids_nodup : forall brs h bid ids, brs_nodup brs -> NoDup ids -> brs_nodup (add_ids brs h bid ids).
Proof. exact add_ids_nodup. Qed.
Print Assumptions C07_add_ids_nodup.

Theorem C07_batch_keeps_records_nodup : forall fx p B n st w,
  brs_nodup (x_brecs st) -> brs_nodup (x_brecs (fst (import_batch fx p B n st w))).
Proof. exact import_batch_nodup. Qed.
Print Assumptions C07_batch_keeps_records_nodup.

Theorem C07_rollback_keeps_records_nodup : forall fx st h st',
  xrollback fx st h = XOk st' -> brs_nodup (x_brecs st) -> brs_nodup (x_brecs st').
Proof. exact xrollback_nodup. Qed.
Print Assumptions C07_rollback_keeps_records_nodup.

(* announcements: the blocks connected are blocks of the node's (well-formed) chain *)
Theorem C07_announcement_keeps_records_nodup : forall g U, (forall b1 b2, In b1 U -> In b2 U -> b_id b1 = b_id b2 -> b1 = b2) ->
  forall fx p n st b st', ninv g U n -> In b U ->
  xprocess fx p n st b = XOk st' -> brs_nodup (x_brecs st) -> brs_nodup (x_brecs st').
Proof. exact xprocess_nodup. Qed.
Print Assumptions C07_announcement_keeps_records_nodup.

(* [recorded_once brs h bid t]: t occurs exactly once (count_occ = 1) in the records of height h, there is exactly
   one record of that height, it names block bid and lists t.
   The packaged theorem, with the extra premise that the start state's records are duplicate-free
   (C07_reachable_records_nodup gives it for the states reached from genesis): at EVERY point of every history
   (i) the records are duplicate-free, (ii) the creating transaction of every credit and the spender of every
   spent mark is recorded once in the record of its block; (iii) in step and handed over: EVERY transaction of the
   node's chain that is relevant to some wallet of the database — it pays a keystore-known script hash
   ([pays_db]), or a credit of the store carries its spent mark ([spends_marked]), or one of its inputs spends an
   output of an earlier chain transaction that belongs to a keystore-known script hash ([spends_chain]) — is
   recorded exactly once in the record of its block: also a transaction shared by several wallets.
   NOT claimed: that only relevant transactions are listed (it does not follow from the invariant). *)
Theorem C07_records_once_multi : forall p g U, (forall b1 b2, In b1 U -> In b2 U -> b_id b1 = b_id b2 -> b1 = b2) ->
  forall w keys0 B cap, 0 < B -> forall pass sh shs c0 n0 all0 st0 st1,
  ninv g U n0 -> minv p g U w keys0 c0 st0 -> status_of st0 w = None -> (forall s, ownW w keys0 s = None) ->
  import_start st0 w pass (sh :: shs) = Some st1 -> brs_nodup (x_brecs st0) ->
  forall h, xwf p g U w B cap {| xs_node := n0; xs_st := st1; xs_all := all0; xs_crashed := false |} h ->
  let s := fold_left (xstep repaired p B cap) h {| xs_node := n0; xs_st := st1; xs_all := all0; xs_crashed := false |} in
  brs_nodup (x_brecs (xs_st s)) /\
  (exists c, minv p g U w (keys0 ++ keys_of w (sh :: shs)) c (xs_st s) /\
     forall cr b, In cr (credits (x_w (xs_st s))) -> In b c ->
       (c_height cr = b_height b -> recorded_once (x_brecs (xs_st s)) (b_height b) (b_id b) (c_tx cr)) /\
       (forall tid i, c_spent cr = Some (tid, i, b_height b) -> recorded_once (x_brecs (xs_st s)) (b_height b) (b_id b) tid)) /\
  (in_step g s -> status_of (xs_st s) w = Some WReady ->
   forall b t, In b (xs_node s) -> In t (b_txs b) ->
     pays_db (xs_st s) t \/ spends_marked (xs_st s) b t \/ spends_chain (xs_st s) (xs_node s) t ->
     recorded_once (x_brecs (xs_st s)) (b_height b) (b_id b) (t_id t)).
Proof. exact import_records_once_multi. Qed.
Print Assumptions C07_records_once_multi.

(* the shared-transaction example above: T (id 5) pays A and B and spends B's coin; after B's rescan it is
   recorded once in block 2's record *)
Example C07_records_once_instance :
  let s_pre := xrun repaired p0 1000 20000 [g0] hist_shared_pre in
  brs_nodup (x_brecs (xs_st s_pre)) /\
  exists st1, import_start (xs_st s_pre) 2 22 [2%N] = Some st1 /\
    recorded_once (x_brecs (fst (import_batch repaired p0 1000 shared_chain st1 2))) 2 2 5.
Proof.
  cbv zeta. split; [apply brs_nodup_b_sound; vm_compute; reflexivity|].
  eexists. split; [vm_compute; reflexivity|]. apply recorded_once_b_sound. vm_compute. reflexivity.
Qed.

(* ================================================================== TWO wallets restored concurrently (Ledger/ImportProofs6.v) *)

(* w1 is restored into a database of ready wallets (the start state of the *_multi theorems); ANY history h1 of
   [xwf] (chain events, batches of w1); while the rescan of w1 may still be running, w2 is restored; then ANY
   history h2 of [xwf2]: the events of [xwf] with rescan batches of EITHER wallet, in any interleaving with each
   other and with the chain events (the node connects / disconnects / re-connects blocks; announcements:
   extensions, reorganisations that pull BOTH cursors back, roll-backs; batches that find the node anywhere).
   [minv2 p g U w1 w2 keysA c st] is the invariant: as [minv], with a cursor of its own for each importing wallet:
     the credits of w_i    = exactly those of the first top_i+1 blocks of c for w_i's addresses (top_i = cursor
                             of w_i while importing, height of c once ready), in chain order, spent marks included,
     the credits of others = exactly those of ALL of c, in chain order
   (three projections of the ONE credit list).  It holds at EVERY point; in step and both handed over, the whole
   database equals the live run of ALL wallets; until handed over neither can be selected; no task is dropped. *)
Theorem C07_two_imports_equal_live : forall p g U, (forall b1 b2, In b1 U -> In b2 U -> b_id b1 = b_id b2 -> b1 = b2) ->
  forall w1 w2, w1 <> w2 -> forall keys0 B cap, 0 < B ->
  forall pass1 sh1 shs1 pass2 sh2 shs2 c0 n0 all0 st0 st1,
  ninv g U n0 -> minv p g U w1 keys0 c0 st0 -> status_of st0 w1 = None -> (forall s, ownW w1 keys0 s = None) ->
  (forall s, In s (sh1 :: shs1) -> lookupN keys0 s = None) ->
  import_start st0 w1 pass1 (sh1 :: shs1) = Some st1 ->
  forall h1, xwf p g U w1 B cap {| xs_node := n0; xs_st := st1; xs_all := all0; xs_crashed := false |} h1 ->
  let s1 := fold_left (xstep repaired p B cap) h1 {| xs_node := n0; xs_st := st1; xs_all := all0; xs_crashed := false |} in
  forall st2, import_start (xs_st s1) w2 pass2 (sh2 :: shs2) = Some st2 ->
  (forall s, In s (sh2 :: shs2) -> lookupN (keys0 ++ keys_of w1 (sh1 :: shs1)) s = None) ->
  let s1' := {| xs_node := xs_node s1; xs_st := st2; xs_all := xs_all s1; xs_crashed := false |} in
  forall h2, xwf2 p g U w1 w2 B cap s1' h2 ->
  let s := fold_left (xstep repaired p B cap) h2 s1' in
  sinv2 p g U w1 w2 ((keys0 ++ keys_of w1 (sh1 :: shs1)) ++ keys_of w2 (sh2 :: shs2)) s /\
  (in_step g s -> status_of (xs_st s) w1 = Some WReady -> status_of (xs_st s) w2 = Some WReady ->
     equals_live_all p (xs_st s) (xs_node s)) /\
  (forall v, v = w1 \/ v = w2 -> status_of (xs_st s) v <> Some WReady -> use_wallet (xs_st s) v = UUnready) /\
  x_dead (xs_st s) = [] /\ xs_crashed s = false.
Proof. exact two_imports_equal_live. Qed.
Print Assumptions C07_two_imports_equal_live.

(* the steps of the invariant *)
Theorem C07_two_batch_keeps_invariant : forall p g U, (forall b1 b2, In b1 U -> In b2 U -> b_id b1 = b_id b2 -> b1 = b2) ->
  forall w1 w2, w1 <> w2 -> forall keysA B c n st, ninv g U n -> 0 < B -> minv2 p g U w1 w2 keysA c st ->
  minv2 p g U w1 w2 keysA c (fst (import_batch repaired p B n st w1)) /\
  minv2 p g U w1 w2 keysA c (fst (import_batch repaired p B n st w2)).
Proof.
  intros p g U Uids w1 w2 H12 keysA B c n st Hn HB Hinv.
  split; [apply mbatch2_inv|apply mbatch2_inv_2]; assumption.
Qed.
Print Assumptions C07_two_batch_keeps_invariant.

Theorem C07_two_announcement_keeps_invariant : forall p g U, (forall b1 b2, In b1 U -> In b2 U -> b_id b1 = b_id b2 -> b1 = b2) ->
  forall w1 w2, w1 <> w2 -> forall keysA c n st b st', ninv g U n -> minv2 p g U w1 w2 keysA c st -> In b U -> b <> g ->
  xprocess repaired p n st b = XOk st' ->
  exists c', minv2 p g U w1 w2 keysA c' st' /\ incl c' (c ++ n).
Proof. exact mprocess2_inv. Qed.
Print Assumptions C07_two_announcement_keeps_invariant.

Theorem C07_two_node_block_always_accepted : forall p g U, (forall b1 b2, In b1 U -> In b2 U -> b_id b1 = b_id b2 -> b1 = b2) ->
  forall w1 w2, w1 <> w2 -> forall keysA c n st b n1 n2, ninv g U n -> minv2 p g U w1 w2 keysA c st -> n = n1 ++ b :: n2 -> n1 <> [] ->
  exists st', xprocess repaired p n st b = XOk st' /\ minv2 p g U w1 w2 keysA (n1 ++ [b]) st'.
Proof. exact mprocess2_on_node. Qed.
Print Assumptions C07_two_node_block_always_accepted.

(* in step a batch of w1 commits and advances its cursor by B (or hands w1 over), wherever the rescan of w2 is *)
Theorem C07_two_batch_in_step : forall p g U w1 w2, w1 <> w2 -> forall keysA B n st k, ninv g U n -> 0 < B -> minv2 p g U w1 w2 keysA n st ->
  status_of st w1 = Some (WImporting k) ->
  let stop := Z.min (k + B) (chain_height n) in
  status_of (fst (import_batch repaired p B n st w1)) w1 = Some (if stop =? chain_height n then WReady else WImporting stop).
Proof. exact mbatch2_progress. Qed.
Print Assumptions C07_two_batch_in_step.

(* the one-rescan invariant is the case "w2 absent"; restoring w2 keeps the invariant *)
Theorem C07_two_start : forall p g U w1 w2 keysA c st, w1 <> w2 ->
  minv p g U w1 keysA c st -> status_of st w2 = None -> (forall sh, ownW w2 keysA sh = None) ->
  minv2 p g U w1 w2 keysA c st.
Proof. exact minv_minv2. Qed.
Print Assumptions C07_two_start.

Theorem C07_two_second_import_start : forall p g U w1 w2 keys0 c st0 pass sh shs st1, w1 <> w2 ->
  minv2 p g U w1 w2 keys0 c st0 -> status_of st0 w2 = None -> (forall s, ownW w2 keys0 s = None) ->
  import_start st0 w2 pass (sh :: shs) = Some st1 ->
  minv2 p g U w1 w2 (keys0 ++ keys_of w2 (sh :: shs)) c st1.
Proof. exact minv2_import_start. Qed.
Print Assumptions C07_two_second_import_start.

(* The database of the shared-transaction example (wallet 1 live; block 1's coinbase pays script hash 2 AND script
   hash 9; T in block 2).  Batch size 1.  Wallet 2 (script hash 2) is restored, one batch (cursor 1); wallet 3
   (script hash 9) is restored while 2 is importing.  Then: a batch of 3, a batch of 2 (cursors 1 and 2); the node
   reorganises block 3 away (3' pays wallet 3 another 5); a batch of 2 finds the node off the handler's chain and
   is refused; the announcement of 3' is processed (both cursors stay <= 2); batches of 3, 2, 3, 3.  The
   hypotheses of C07_two_imports_equal_live hold; at the end the handler is in step, all three wallets are
   ready with the balances of the chain, and the coinbase of block 1 — shared by the two restored wallets — is
   listed once. *)
Definition tb3' := {| b_id := 13; b_prev := 2; b_height := 3; b_txs := [cb 13 [pay 9 5]] |}.
Definition U_two : list block := shared_chain ++ [tb3'].
Definition hist_two : list xevent :=
  [XBatch 3; XBatch 2; XDetach; XAttach tb3'; XBatch 2; XProcess tb3'; XBatch 3; XBatch 2; XBatch 3; XBatch 3].

Example C07_two_imports_instance :
  let st0 := xs_st (xrun repaired p0 1000 20000 [g0] hist_shared_pre) in
  (forall b1 b2, In b1 U_two -> In b2 U_two -> b_id b1 = b_id b2 -> b1 = b2) /\
  ninv g0 U_two shared_chain /\
  minv p0 g0 U_two 2 [(1, 1)%N] shared_chain st0 /\ status_of st0 2 = None /\
  (forall s, ownW 2 [(1, 1)%N] s = None) /\ (forall s, In s [2%N] -> lookupN [(1, 1)%N] s = None) /\
  exists st1, import_start st0 2 22 [2%N] = Some st1 /\
    let s0 := {| xs_node := shared_chain; xs_st := st1; xs_all := []; xs_crashed := false |} in
    xwf p0 g0 U_two 2 1 20000 s0 [XBatch 2] /\
    let s1 := fold_left (xstep repaired p0 1 20000) [XBatch 2] s0 in
    status_of (xs_st s1) 2 = Some (WImporting 1) /\
    exists st2, import_start (xs_st s1) 3 33 [9%N] = Some st2 /\
      (forall s, In s [9%N] -> lookupN ([(1, 1)%N] ++ keys_of 2 [2%N]) s = None) /\
      let s1' := {| xs_node := xs_node s1; xs_st := st2; xs_all := xs_all s1; xs_crashed := false |} in
      xwf2 p0 g0 U_two 2 3 1 20000 s1' hist_two /\
      let s := fold_left (xstep repaired p0 1 20000) hist_two s1' in
      in_step g0 s /\ chain_height (xs_node s) = 3 /\
      status_of (xs_st s) 2 = Some WReady /\ status_of (xs_st s) 3 = Some WReady /\
      r_total (xreport (xs_st s) 1) = 60 /\ r_total (xreport (xs_st s) 2) = 40 /\ r_total (xreport (xs_st s) 3) = 1005 /\
      x_brecs (xs_st s) = [{| br_h := 2; br_bid := 2; br_txs := [5%N] |}; {| br_h := 1; br_bid := 1; br_txs := [1%N] |};
                           {| br_h := 3; br_bid := 13; br_txs := [13%N] |}].
Proof.
  cbv zeta.
  assert (Hwf : wf_chain shared_chain) by (apply wf_chain_b_sound; vm_compute; reflexivity).
  assert (HU : incl shared_chain U_two) by (apply incl_appl; apply incl_refl).
  split; [apply ids_b_sound; vm_compute; reflexivity|].
  split; [split; [exact Hwf|split; [eexists; reflexivity|exact HU]]|].
  assert (Hm : minv p0 g0 U_two 2 [(1, 1)%N] shared_chain (xs_st (xrun repaired p0 1000 20000 [g0] hist_shared_pre)) /\
               (forall s, ownW 2 [(1, 1)%N] s = None)).
  { apply C07_multi_start.
    - exact Hwf.
    - eexists; reflexivity.
    - exact HU.
    - vm_compute. reflexivity.
    - vm_compute. reflexivity.
    - vm_compute. reflexivity.
    - apply covered_b_sound. vm_compute. reflexivity.
    - change [(1, 1)%N] with (x_keys (xs_st (xrun repaired p0 1000 20000 [g0] hist_shared_pre))).
      apply keys_ready_b_sound. vm_compute. reflexivity.
    - vm_compute. reflexivity.
    - apply brs_ok_b_sound. vm_compute. reflexivity.
    - apply brs_le_b_sound. vm_compute. reflexivity. }
  destruct Hm as [Hm Hnk].
  split; [exact Hm|]. split; [vm_compute; reflexivity|]. split; [exact Hnk|].
  split; [intros s [<-|[]]; vm_compute; reflexivity|].
  eexists. split; [vm_compute; reflexivity|].
  split; [apply xwf_b_sound; vm_compute; reflexivity|].
  split; [vm_compute; reflexivity|].
  eexists. split; [vm_compute; reflexivity|].
  split; [intros s [<-|[]]; vm_compute; reflexivity|].
  split; [apply xwf2_b_sound; vm_compute; reflexivity|].
  vm_compute. repeat split; reflexivity.
Qed.

(* ================================================================== two concurrent imports, continued (Ledger/ImportProofs7.v) *)
Require Import MW.Ledger.ImportProofs7.

(* (1) LIVENESS for two rescans.  The setting of C07_two_imports_equal_live; s is ANY point of any history h2 of
   [xwf2] at which the handler is in step.  Then the worker runs batches for the wallets of the list vs — each
   element w1 or w2, in ANY interleaving — with no chain event in between ([map XBatch vs]).  The node does not
   move, the handler stays in step; wallet w_i is READY as soon as its cursor plus (the number of ITS batches in
   vs) * B exceeds the chain height (nothing is asked of a wallet that is ready already), whatever the other
   rescan does; and when both are ready the whole database equals the live run of all wallets. *)
Theorem C07_two_imports_live : forall p g U, (forall b1 b2, In b1 U -> In b2 U -> b_id b1 = b_id b2 -> b1 = b2) ->
  forall w1 w2, w1 <> w2 -> forall keys0 B cap, 0 < B ->
  forall pass1 sh1 shs1 pass2 sh2 shs2 c0 n0 all0 st0 st1,
  ninv g U n0 -> minv p g U w1 keys0 c0 st0 -> status_of st0 w1 = None -> (forall s, ownW w1 keys0 s = None) ->
  (forall s, In s (sh1 :: shs1) -> lookupN keys0 s = None) ->
  import_start st0 w1 pass1 (sh1 :: shs1) = Some st1 ->
  forall h1, xwf p g U w1 B cap {| xs_node := n0; xs_st := st1; xs_all := all0; xs_crashed := false |} h1 ->
  let s1 := fold_left (xstep repaired p B cap) h1 {| xs_node := n0; xs_st := st1; xs_all := all0; xs_crashed := false |} in
  forall st2, import_start (xs_st s1) w2 pass2 (sh2 :: shs2) = Some st2 ->
  (forall s, In s (sh2 :: shs2) -> lookupN (keys0 ++ keys_of w1 (sh1 :: shs1)) s = None) ->
  let s1' := {| xs_node := xs_node s1; xs_st := st2; xs_all := xs_all s1; xs_crashed := false |} in
  forall h2 vs, xwf2 p g U w1 w2 B cap s1' h2 ->
  let s := fold_left (xstep repaired p B cap) h2 s1' in
  in_step g s -> (forall v, In v vs -> v = w1 \/ v = w2) ->
  let s' := fold_left (xstep repaired p B cap) (h2 ++ map XBatch vs) s1' in
  xs_node s' = xs_node s /\ in_step g s' /\
  (forall v, v = w1 \/ v = w2 ->
     (forall k, status_of (xs_st s) v = Some (WImporting k) ->
                chain_height (xs_node s) < k + Z.of_nat (count_occ N.eq_dec vs v) * B) ->
     status_of (xs_st s') v = Some WReady) /\
  (status_of (xs_st s') w1 = Some WReady -> status_of (xs_st s') w2 = Some WReady ->
     equals_live_all p (xs_st s') (xs_node s')).
Proof. exact two_imports_live. Qed.
Print Assumptions C07_two_imports_live.

(* the same with the exact bound: m >= 1 batches of its own and cursor + m * B >= height suffice (the form above
   follows: a cursor never exceeds the height) *)
Theorem C07_two_imports_live_tight : forall p g U, (forall b1 b2, In b1 U -> In b2 U -> b_id b1 = b_id b2 -> b1 = b2) ->
  forall w1 w2, w1 <> w2 -> forall keys0 B cap, 0 < B ->
  forall pass1 sh1 shs1 pass2 sh2 shs2 c0 n0 all0 st0 st1,
  ninv g U n0 -> minv p g U w1 keys0 c0 st0 -> status_of st0 w1 = None -> (forall s, ownW w1 keys0 s = None) ->
  (forall s, In s (sh1 :: shs1) -> lookupN keys0 s = None) ->
  import_start st0 w1 pass1 (sh1 :: shs1) = Some st1 ->
  forall h1, xwf p g U w1 B cap {| xs_node := n0; xs_st := st1; xs_all := all0; xs_crashed := false |} h1 ->
  let s1 := fold_left (xstep repaired p B cap) h1 {| xs_node := n0; xs_st := st1; xs_all := all0; xs_crashed := false |} in
  forall st2, import_start (xs_st s1) w2 pass2 (sh2 :: shs2) = Some st2 ->
  (forall s, In s (sh2 :: shs2) -> lookupN (keys0 ++ keys_of w1 (sh1 :: shs1)) s = None) ->
  let s1' := {| xs_node := xs_node s1; xs_st := st2; xs_all := xs_all s1; xs_crashed := false |} in
  forall h2 vs, xwf2 p g U w1 w2 B cap s1' h2 ->
  let s := fold_left (xstep repaired p B cap) h2 s1' in
  in_step g s -> (forall v, In v vs -> v = w1 \/ v = w2) ->
  let s' := fold_left (xstep repaired p B cap) (h2 ++ map XBatch vs) s1' in
  xs_node s' = xs_node s /\ in_step g s' /\
  (forall v, v = w1 \/ v = w2 ->
     (forall k, status_of (xs_st s) v = Some (WImporting k) ->
                (0 < count_occ N.eq_dec vs v)%nat /\
                chain_height (xs_node s) <= k + Z.of_nat (count_occ N.eq_dec vs v) * B) ->
     status_of (xs_st s') v = Some WReady) /\
  (status_of (xs_st s') w1 = Some WReady -> status_of (xs_st s') w2 = Some WReady ->
     equals_live_all p (xs_st s') (xs_node s')).
Proof. exact two_imports_live_tight. Qed.
Print Assumptions C07_two_imports_live_tight.

(* the step behind it, on the invariant: in step, the batches of w1 among vs advance ITS cursor by B each *)
Theorem C07_two_batches_in_step : forall p g U, (forall b1 b2, In b1 U -> In b2 U -> b_id b1 = b_id b2 -> b1 = b2) ->
  forall keysA B, 0 < B -> forall w1 w2, w1 <> w2 -> forall n vs st, ninv g U n -> (forall v, In v vs -> v = w1 \/ v = w2) ->
  minv2 p g U w1 w2 keysA n st ->
  (status_of st w1 = Some WReady \/
   exists k, status_of st w1 = Some (WImporting k) /\ (0 < count_occ N.eq_dec vs w1)%nat /\
             chain_height n <= k + Z.of_nat (count_occ N.eq_dec vs w1) * B) ->
  status_of (bruns p B n st vs) w1 = Some WReady.
Proof. exact bruns_live_1. Qed.
Print Assumptions C07_two_batches_in_step.

(* (2) FRAME for two imports, absolute, on the invariant: at any moment every wallet v other than w1 and w2 holds
   exactly its credits (spent marks included) of the chain c the handler follows and reports what c says *)
Theorem C07_two_invariant_frame : forall p g U w1 w2 keysA c st v, minv2 p g U w1 w2 keysA c st -> v <> w1 -> v <> w2 ->
  proj v (credits (x_w st)) = proj v (credits (L p (lookupN keysA) c)) /\
  xreport st v = spec_report p (lookupN keysA) c v.
Proof. exact minv2_frame. Qed.
Print Assumptions C07_two_invariant_frame.

(* ... along every history: the ledger of the keys the database had BEFORE the two restores (keys0) *)
Theorem C07_two_imports_frame : forall p g U, (forall b1 b2, In b1 U -> In b2 U -> b_id b1 = b_id b2 -> b1 = b2) ->
  forall w1 w2, w1 <> w2 -> forall keys0 B cap, 0 < B ->
  forall pass1 sh1 shs1 pass2 sh2 shs2 c0 n0 all0 st0 st1,
  ninv g U n0 -> minv p g U w1 keys0 c0 st0 -> status_of st0 w1 = None -> (forall s, ownW w1 keys0 s = None) ->
  (forall s, In s (sh1 :: shs1) -> lookupN keys0 s = None) ->
  import_start st0 w1 pass1 (sh1 :: shs1) = Some st1 ->
  forall h1, xwf p g U w1 B cap {| xs_node := n0; xs_st := st1; xs_all := all0; xs_crashed := false |} h1 ->
  let s1 := fold_left (xstep repaired p B cap) h1 {| xs_node := n0; xs_st := st1; xs_all := all0; xs_crashed := false |} in
  forall st2, import_start (xs_st s1) w2 pass2 (sh2 :: shs2) = Some st2 ->
  (forall s, In s (sh2 :: shs2) -> lookupN (keys0 ++ keys_of w1 (sh1 :: shs1)) s = None) ->
  let s1' := {| xs_node := xs_node s1; xs_st := st2; xs_all := xs_all s1; xs_crashed := false |} in
  forall h2, xwf2 p g U w1 w2 B cap s1' h2 ->
  let s := fold_left (xstep repaired p B cap) h2 s1' in
  exists c, wf_chain c /\ synced (x_w (xs_st s)) = synced_of c /\
    forall v, v <> w1 -> v <> w2 ->
      proj v (credits (x_w (xs_st s))) = proj v (credits (L p (lookupN keys0) c)) /\
      xreport (xs_st s) v = spec_report p (lookupN keys0) c v.
Proof. exact two_imports_frame. Qed.
Print Assumptions C07_two_imports_frame.

(* (2) FRAME, relative: sN is the SAME history (h1, then h2: the same chain events, the same batch events) applied
   to the database st0 in which NEITHER wallet was restored — both ImportWallet calls left out; the batches of w1
   and w2 are no-ops there.  At the end of every h2: same node, same synced chain, and every wallet other than
   w1 and w2 has the same credits (spent marks included) and the same report.  (That w2 is unknown to st0 is not
   assumed: it follows from the second restore being accepted.) *)
Theorem C07_two_imports_frame_vs_no_import : forall p g U, (forall b1 b2, In b1 U -> In b2 U -> b_id b1 = b_id b2 -> b1 = b2) ->
  forall w1 w2, w1 <> w2 -> forall keys0 B cap, 0 < B ->
  forall pass1 sh1 shs1 pass2 sh2 shs2 c0 n0 all0 st0 st1,
  ninv g U n0 -> minv p g U w1 keys0 c0 st0 -> status_of st0 w1 = None -> (forall s, ownW w1 keys0 s = None) ->
  import_start st0 w1 pass1 (sh1 :: shs1) = Some st1 ->
  forall h1, xwf p g U w1 B cap {| xs_node := n0; xs_st := st1; xs_all := all0; xs_crashed := false |} h1 ->
  let s1 := fold_left (xstep repaired p B cap) h1 {| xs_node := n0; xs_st := st1; xs_all := all0; xs_crashed := false |} in
  forall st2, import_start (xs_st s1) w2 pass2 (sh2 :: shs2) = Some st2 ->
  let s1' := {| xs_node := xs_node s1; xs_st := st2; xs_all := xs_all s1; xs_crashed := false |} in
  forall all0' h2, xwf2 p g U w1 w2 B cap s1' h2 ->
  let s := fold_left (xstep repaired p B cap) h2 s1' in
  let sN := fold_left (xstep repaired p B cap) (h1 ++ h2) {| xs_node := n0; xs_st := st0; xs_all := all0'; xs_crashed := false |} in
  xs_node s = xs_node sN /\ synced (x_w (xs_st s)) = synced (x_w (xs_st sN)) /\
  forall v, v <> w1 -> v <> w2 ->
    proj v (credits (x_w (xs_st s))) = proj v (credits (x_w (xs_st sN))) /\
    xreport (xs_st s) v = xreport (xs_st sN) v.
Proof. exact two_imports_frame_vs_no_import. Qed.
Print Assumptions C07_two_imports_frame_vs_no_import.

(* the pair invariant behind it is kept by every event of [xwf2]; an announcement moves both runs to the same chain *)
Theorem C07_two_pair_step : forall p g U, (forall b1 b2, In b1 U -> In b2 U -> b_id b1 = b_id b2 -> b1 = b2) ->
  forall w1 w2, w1 <> w2 -> forall B cap, 0 < B -> forall keys0 keysX s s2 e,
  pinv2 p g U w1 w2 keys0 keysX s s2 -> ev_ok2 g U w1 w2 s e ->
  pinv2 p g U w1 w2 keys0 keysX (xstep repaired p B cap s e) (xstep repaired p B cap s2 e).
Proof. exact pinv2_step. Qed.
Print Assumptions C07_two_pair_step.

(* (3) a shared transaction is recorded ONCE, two rescans running: C07_records_once_multi for [xwf2] histories
   (extra premise as there: the records of the database the wallets are restored into are duplicate-free;
   C07_reachable_records_nodup gives it from genesis).  (i) duplicate-free records at EVERY point; (ii) at every
   point the creator of every credit and the spender of every spent mark is recorded once in the record of its
   block of the handler's chain; (iii) in step and both handed over: every transaction of the node's chain that is
   relevant to some wallet of the database is recorded exactly once — also one shared by the two restored wallets. *)
Theorem C07_records_once_two : forall p g U, (forall b1 b2, In b1 U -> In b2 U -> b_id b1 = b_id b2 -> b1 = b2) ->
  forall w1 w2, w1 <> w2 -> forall keys0 B cap, 0 < B ->
  forall pass1 sh1 shs1 pass2 sh2 shs2 c0 n0 all0 st0 st1,
  ninv g U n0 -> minv p g U w1 keys0 c0 st0 -> status_of st0 w1 = None -> (forall s, ownW w1 keys0 s = None) ->
  (forall s, In s (sh1 :: shs1) -> lookupN keys0 s = None) ->
  import_start st0 w1 pass1 (sh1 :: shs1) = Some st1 ->
  forall h1, xwf p g U w1 B cap {| xs_node := n0; xs_st := st1; xs_all := all0; xs_crashed := false |} h1 ->
  let s1 := fold_left (xstep repaired p B cap) h1 {| xs_node := n0; xs_st := st1; xs_all := all0; xs_crashed := false |} in
  forall st2, import_start (xs_st s1) w2 pass2 (sh2 :: shs2) = Some st2 ->
  (forall s, In s (sh2 :: shs2) -> lookupN (keys0 ++ keys_of w1 (sh1 :: shs1)) s = None) ->
  brs_nodup (x_brecs st0) ->
  let s1' := {| xs_node := xs_node s1; xs_st := st2; xs_all := xs_all s1; xs_crashed := false |} in
  forall h2, xwf2 p g U w1 w2 B cap s1' h2 ->
  let s := fold_left (xstep repaired p B cap) h2 s1' in
  brs_nodup (x_brecs (xs_st s)) /\
  (exists c, minv2 p g U w1 w2 ((keys0 ++ keys_of w1 (sh1 :: shs1)) ++ keys_of w2 (sh2 :: shs2)) c (xs_st s) /\
     forall cr b, In cr (credits (x_w (xs_st s))) -> In b c ->
       (c_height cr = b_height b -> recorded_once (x_brecs (xs_st s)) (b_height b) (b_id b) (c_tx cr)) /\
       (forall tid i, c_spent cr = Some (tid, i, b_height b) -> recorded_once (x_brecs (xs_st s)) (b_height b) (b_id b) tid)) /\
  (in_step g s -> status_of (xs_st s) w1 = Some WReady -> status_of (xs_st s) w2 = Some WReady ->
   forall b t, In b (xs_node s) -> In t (b_txs b) ->
     pays_db (xs_st s) t \/ spends_marked (xs_st s) b t \/ spends_chain (xs_st s) (xs_node s) t ->
     recorded_once (x_brecs (xs_st s)) (b_height b) (b_id b) (t_id t)).
Proof. exact two_imports_records_once. Qed.
Print Assumptions C07_records_once_two.

(* (4) FROM GENESIS: no premise about the database is left.  hg ([gwf], C07_reachable_start) creates the other
   wallets, issues their addresses and lets them follow the moving chain from the empty instance; w1 (absent so
   far, its script hashes unknown) is restored; ANY history h1 of [xwf]; w2 (absent at that moment — whether or
   not the rescan of w1 is still running —, its script hashes unknown) is restored: the request is ACCEPTED (part of
   the proof); ANY history h2 of [xwf2].  Conclusions of C07_two_imports_equal_live. *)
Theorem C07_two_imports_from_genesis : forall p g U, (forall b1 b2, In b1 U -> In b2 U -> b_id b1 = b_id b2 -> b1 = b2) ->
  forall B cap, 0 < B -> forall n0 hg, ninv g U n0 -> gwf p g U B cap n0 (xinit_sim n0) hg ->
  forall w1 w2, w1 <> w2 -> forall pass1 sh1 shs1 pass2 sh2 shs2,
  let sg := xrun repaired p B cap n0 hg in
  status_of (xs_st sg) w1 = None ->
  (forall s, In s (sh1 :: shs1) -> lookupN (x_keys (xs_st sg)) s = None) ->
  let sa := xstep repaired p B cap sg (XImportStart w1 pass1 (sh1 :: shs1)) in
  forall h1, xwf p g U w1 B cap sa h1 ->
  let s1 := fold_left (xstep repaired p B cap) h1 sa in
  status_of (xs_st s1) w2 = None ->
  (forall s, In s (sh2 :: shs2) -> lookupN (x_keys (xs_st sg) ++ keys_of w1 (sh1 :: shs1)) s = None) ->
  forall h2, xwf2 p g U w1 w2 B cap (xstep repaired p B cap s1 (XImportStart w2 pass2 (sh2 :: shs2))) h2 ->
  let s := xrun repaired p B cap n0 (hg ++ XImportStart w1 pass1 (sh1 :: shs1) :: h1 ++ XImportStart w2 pass2 (sh2 :: shs2) :: h2) in
  sinv2 p g U w1 w2 ((x_keys (xs_st sg) ++ keys_of w1 (sh1 :: shs1)) ++ keys_of w2 (sh2 :: shs2)) s /\
  (in_step g s -> status_of (xs_st s) w1 = Some WReady -> status_of (xs_st s) w2 = Some WReady ->
     equals_live_all p (xs_st s) (xs_node s)) /\
  (forall v, v = w1 \/ v = w2 -> status_of (xs_st s) v <> Some WReady -> use_wallet (xs_st s) v = UUnready) /\
  x_dead (xs_st s) = [] /\ xs_crashed s = false.
Proof. exact two_imports_from_genesis. Qed.
Print Assumptions C07_two_imports_from_genesis.

(* ... with the liveness of (1) *)
Theorem C07_two_imports_live_from_genesis : forall p g U, (forall b1 b2, In b1 U -> In b2 U -> b_id b1 = b_id b2 -> b1 = b2) ->
  forall B cap, 0 < B -> forall n0 hg, ninv g U n0 -> gwf p g U B cap n0 (xinit_sim n0) hg ->
  forall w1 w2, w1 <> w2 -> forall pass1 sh1 shs1 pass2 sh2 shs2,
  let sg := xrun repaired p B cap n0 hg in
  status_of (xs_st sg) w1 = None ->
  (forall s, In s (sh1 :: shs1) -> lookupN (x_keys (xs_st sg)) s = None) ->
  let sa := xstep repaired p B cap sg (XImportStart w1 pass1 (sh1 :: shs1)) in
  forall h1, xwf p g U w1 B cap sa h1 ->
  let s1 := fold_left (xstep repaired p B cap) h1 sa in
  status_of (xs_st s1) w2 = None ->
  (forall s, In s (sh2 :: shs2) -> lookupN (x_keys (xs_st sg) ++ keys_of w1 (sh1 :: shs1)) s = None) ->
  forall h2 vs, xwf2 p g U w1 w2 B cap (xstep repaired p B cap s1 (XImportStart w2 pass2 (sh2 :: shs2))) h2 ->
  let s := xrun repaired p B cap n0 (hg ++ XImportStart w1 pass1 (sh1 :: shs1) :: h1 ++ XImportStart w2 pass2 (sh2 :: shs2) :: h2) in
  in_step g s -> (forall v, In v vs -> v = w1 \/ v = w2) ->
  let s' := xrun repaired p B cap n0 (hg ++ XImportStart w1 pass1 (sh1 :: shs1) :: h1 ++ XImportStart w2 pass2 (sh2 :: shs2) :: h2 ++ map XBatch vs) in
  xs_node s' = xs_node s /\ in_step g s' /\
  (forall v, v = w1 \/ v = w2 ->
     (forall k, status_of (xs_st s) v = Some (WImporting k) ->
                chain_height (xs_node s) < k + Z.of_nat (count_occ N.eq_dec vs v) * B) ->
     status_of (xs_st s') v = Some WReady) /\
  (status_of (xs_st s') w1 = Some WReady -> status_of (xs_st s') w2 = Some WReady ->
     equals_live_all p (xs_st s') (xs_node s')).
Proof. exact two_imports_live_from_genesis. Qed.
Print Assumptions C07_two_imports_live_from_genesis.

Theorem C07_two_imports_live_tight_from_genesis : forall p g U, (forall b1 b2, In b1 U -> In b2 U -> b_id b1 = b_id b2 -> b1 = b2) ->
  forall B cap, 0 < B -> forall n0 hg, ninv g U n0 -> gwf p g U B cap n0 (xinit_sim n0) hg ->
  forall w1 w2, w1 <> w2 -> forall pass1 sh1 shs1 pass2 sh2 shs2,
  let sg := xrun repaired p B cap n0 hg in
  status_of (xs_st sg) w1 = None ->
  (forall s, In s (sh1 :: shs1) -> lookupN (x_keys (xs_st sg)) s = None) ->
  let sa := xstep repaired p B cap sg (XImportStart w1 pass1 (sh1 :: shs1)) in
  forall h1, xwf p g U w1 B cap sa h1 ->
  let s1 := fold_left (xstep repaired p B cap) h1 sa in
  status_of (xs_st s1) w2 = None ->
  (forall s, In s (sh2 :: shs2) -> lookupN (x_keys (xs_st sg) ++ keys_of w1 (sh1 :: shs1)) s = None) ->
  forall h2 vs, xwf2 p g U w1 w2 B cap (xstep repaired p B cap s1 (XImportStart w2 pass2 (sh2 :: shs2))) h2 ->
  let s := xrun repaired p B cap n0 (hg ++ XImportStart w1 pass1 (sh1 :: shs1) :: h1 ++ XImportStart w2 pass2 (sh2 :: shs2) :: h2) in
  in_step g s -> (forall v, In v vs -> v = w1 \/ v = w2) ->
  let s' := xrun repaired p B cap n0 (hg ++ XImportStart w1 pass1 (sh1 :: shs1) :: h1 ++ XImportStart w2 pass2 (sh2 :: shs2) :: h2 ++ map XBatch vs) in
  xs_node s' = xs_node s /\ in_step g s' /\
  (forall v, v = w1 \/ v = w2 ->
     (forall k, status_of (xs_st s) v = Some (WImporting k) ->
                (0 < count_occ N.eq_dec vs v)%nat /\
                chain_height (xs_node s) <= k + Z.of_nat (count_occ N.eq_dec vs v) * B) ->
     status_of (xs_st s') v = Some WReady) /\
  (status_of (xs_st s') w1 = Some WReady -> status_of (xs_st s') w2 = Some WReady ->
     equals_live_all p (xs_st s') (xs_node s')).
Proof. exact two_imports_live_tight_from_genesis. Qed.
Print Assumptions C07_two_imports_live_tight_from_genesis.

(* the hypotheses of the from-genesis theorems are satisfiable: the history of C07_two_imports_instance, started
   from the empty instance on [g0] (batch size 1 throughout); and the liveness premise: at the point after the
   reorganisation was processed (first 6 events of hist_two) the handler is in step, the cursors are at 2 and 1,
   the height is 3, and the rest of hist_two is [map XBatch [3; 2; 3; 3]]: the premise of the exact form of (1) holds for both
   (wallet 2: one batch of its own, 3 <= 2 + 1; wallet 3: three, 3 <= 1 + 3) *)
Example C07_two_from_genesis_instance :
  ninv g0 U_two [g0] /\ gwf p0 g0 U_two 1 20000 [g0] (xinit_sim [g0]) hist_shared_pre /\
  let sg := xrun repaired p0 1 20000 [g0] hist_shared_pre in
  status_of (xs_st sg) 2 = None /\ (forall s, In s [2%N] -> lookupN (x_keys (xs_st sg)) s = None) /\
  let sa := xstep repaired p0 1 20000 sg (XImportStart 2 22 [2%N]) in
  xwf p0 g0 U_two 2 1 20000 sa [XBatch 2] /\
  let s1 := fold_left (xstep repaired p0 1 20000) [XBatch 2] sa in
  status_of (xs_st s1) 2 = Some (WImporting 1) /\ status_of (xs_st s1) 3 = None /\
  (forall s, In s [9%N] -> lookupN (x_keys (xs_st sg) ++ keys_of 2 [2%N]) s = None) /\
  xwf2 p0 g0 U_two 2 3 1 20000 (xstep repaired p0 1 20000 s1 (XImportStart 3 33 [9%N])) hist_two /\
  (let s := xrun repaired p0 1 20000 [g0] (hist_shared_pre ++ XImportStart 2 22 [2%N] :: [XBatch 2] ++ XImportStart 3 33 [9%N] :: firstn 6 hist_two) in
   in_step g0 s /\ chain_height (xs_node s) = 3 /\
   status_of (xs_st s) 2 = Some (WImporting 2) /\ status_of (xs_st s) 3 = Some (WImporting 1) /\
   skipn 6 hist_two = map XBatch [3%N; 2%N; 3%N; 3%N] /\
   (0 < count_occ N.eq_dec [3%N; 2%N; 3%N; 3%N] 2%N)%nat /\ 3 <= 2 + Z.of_nat (count_occ N.eq_dec [3%N; 2%N; 3%N; 3%N] 2%N) * 1 /\
   (0 < count_occ N.eq_dec [3%N; 2%N; 3%N; 3%N] 3%N)%nat /\ 3 <= 1 + Z.of_nat (count_occ N.eq_dec [3%N; 2%N; 3%N; 3%N] 3%N) * 1) /\
  let s := xrun repaired p0 1 20000 [g0] (hist_shared_pre ++ XImportStart 2 22 [2%N] :: [XBatch 2] ++ XImportStart 3 33 [9%N] :: hist_two) in
  in_step g0 s /\ status_of (xs_st s) 2 = Some WReady /\ status_of (xs_st s) 3 = Some WReady /\
  r_total (xreport (xs_st s) 1) = 60 /\ r_total (xreport (xs_st s) 2) = 40 /\ r_total (xreport (xs_st s) 3) = 1005.
Proof.
  cbv zeta.
  split; [split; [apply wf_chain_b_sound; vm_compute; reflexivity|split; [exists []; reflexivity|intros z [<-|[]]; left; reflexivity]]|].
  split; [apply gwf_b_sound; vm_compute; reflexivity|].
  split; [vm_compute; reflexivity|].
  split; [intros s [<-|[]]; vm_compute; reflexivity|].
  split; [apply xwf_b_sound; vm_compute; reflexivity|].
  split; [vm_compute; reflexivity|]. split; [vm_compute; reflexivity|].
  split; [intros s [<-|[]]; vm_compute; reflexivity|].
  split; [apply xwf2_b_sound; vm_compute; reflexivity|].
  split; [|vm_compute; repeat split; reflexivity].
  repeat split; try (vm_compute; reflexivity); try (vm_compute; discriminate); vm_compute; repeat constructor.
Qed.

(* (5) THREE concurrent imports, a closed instance (no general theorem for n rescans is claimed).  The node has
   the chain of the shared-transaction example; the database is EMPTY (no wallet).  Batch size 1.  Wallet 1
   (script hash 1) is restored, one batch; wallet 2 (script hash 2) is restored, a batch of 2, a batch of 1;
   wallet 3 (script hash 9) is restored: now all three are importing (cursors 2, 1, 0); batches of 3 and 2; the node
   reorganises block 3 away (3' pays wallet 3 another 5); a batch of 1 finds the node off the handler's chain at
   height 3 and is refused, a batch of 3 (heights up to 2, common to both branches) is committed; the
   announcement of 3' is processed (all three cursors stay <= 2); batches of 3, 1, 2.  At the end the handler is
   in step, all three are ready, and the database equals the live run of all three wallets over the node's chain:
   same synced chain, the credit list is a permutation of the live ledger's (the ORDER differs: the rescans
   inserted in another order), every wallet's credits are the live ones in the same order with the same spent
   marks (wallet 2's coin of block 1, spent by T — a transaction that also pays wallet 1 —, is marked spent),
   every report is the chain specification; T and the coinbase of block 1 (shared by wallets 2 and 3) are
   recorded once. *)
Definition hist_three : list xevent :=
  [XImportStart 1 11 [1%N]; XBatch 1; XImportStart 2 22 [2%N]; XBatch 2; XBatch 1; XImportStart 3 33 [9%N]; XBatch 3;
   XBatch 2; XDetach; XAttach tb3'; XBatch 1; XBatch 3; XProcess tb3'; XBatch 3; XBatch 1; XBatch 2].

Example C07_three_imports_instance :
  (let s := xrun repaired p0 1 20000 shared_chain (firstn 6 hist_three) in
   x_status (xs_st s) = [(1%N, WImporting 2); (2%N, WImporting 1); (3%N, WImporting 0)]) /\
  (let s := xrun repaired p0 1 20000 shared_chain (firstn 11 hist_three) in
   ~ in_step g0 s /\ x_status (xs_st s) = [(1%N, WImporting 2); (2%N, WImporting 2); (3%N, WImporting 1)]) /\
  let s := xrun repaired p0 1 20000 shared_chain hist_three in
  in_step g0 s /\ xs_node s = [g0; sb1; sb2; tb3'] /\ xs_crashed s = false /\
  x_status (xs_st s) = [(1%N, WReady); (2%N, WReady); (3%N, WReady)] /\
  (exists live, ledger_of_chain p0 true (key_owner (xs_st s)) (xs_node s) = Ok live /\
     synced (x_w (xs_st s)) = synced live /\
     Permutation (credits (x_w (xs_st s))) (credits live) /\
     map c_tx (credits (x_w (xs_st s))) <> map c_tx (credits live) /\
     forall v, In v [1%N; 2%N; 3%N] ->
       proj v (credits (x_w (xs_st s))) = proj v (credits live) /\
       xreport (xs_st s) v = spec_report p0 (key_owner (xs_st s)) (xs_node s) v) /\
  r_total (xreport (xs_st s) 1) = 60 /\ r_total (xreport (xs_st s) 2) = 40 /\ r_total (xreport (xs_st s) 3) = 1005 /\
  x_brecs (xs_st s) = [{| br_h := 1; br_bid := 1; br_txs := [1%N] |}; {| br_h := 2; br_bid := 2; br_txs := [5%N] |};
                       {| br_h := 3; br_bid := 13; br_txs := [13%N] |}].
Proof.
  cbv zeta. split; [vm_compute; reflexivity|].
  split; [split; [vm_compute; discriminate|vm_compute; reflexivity]|].
  split; [vm_compute; reflexivity|]. split; [vm_compute; reflexivity|]. split; [vm_compute; reflexivity|].
  split; [vm_compute; reflexivity|].
  split.
  - eexists. split; [vm_compute; reflexivity|]. split; [vm_compute; reflexivity|]. split; [|split].
    + assert (Hd : forall x, isw 2 x = true -> isw 1 x = false) by (apply disj12; discriminate).
      eapply Permutation_trans; [apply (perm3 (isw 1) (isw 2) _ Hd)|].
      eapply Permutation_trans; [|apply Permutation_sym; apply (perm3 (isw 1) (isw 2) _ Hd)].
      vm_compute. apply Permutation_refl.
    + vm_compute. discriminate.
    + intros v [<-|[<-|[<-|[]]]]; vm_compute; split; reflexivity.
  - vm_compute. repeat split; reflexivity.
Qed.

(* ================================================================== a restore while ANOTHER wallet is being removed
   (Ledger/ImportRemoveProofs.v, Ledger/ImportRemoveExamples.v)

   All statements above require every other keyed wallet to be READY ([mi_others]); C08's theorems require that
   nobody is importing.  Here wallet r is being removed (status WRemoving, its keystore and part of its rows still
   there) while wallet w is restored.  [minv_r p g U w r keysS c st]: without r's remaining rows ([strip r st]) the
   database satisfies [minv] for the key table without r — w's credits = the ledger of w's keys up to its cursor,
   the ready wallets' credits = their ledger over the whole synced chain c, the block records cover these rows —;
   r's remaining rows are keyed by r's keystore and name real outputs (nothing more is known of them, as in C08's
   [StInv]); once phase 1 has run r has no balance row / pending game row.
   [xwf_r]: ANY interleaving of: the node attaches / detaches a block, an announcement is processed (tip
   extension, reorganisation with Rollback, stale block: Rollback re-creates nothing for r once phase 1 has run),
   a rescan batch of w, phase 1 of r's removal, a round of it (any cap; the last round deletes status, passphrase
   and keystore of r). *)
Require Import MW.Ledger.RemoveProofs4 MW.Ledger.ImportRemoveProofs MW.Ledger.ImportRemoveExamples.

(* a rescan batch of w on ANY node chain (committed, retried or refused) keeps the invariant *)
Theorem C07_rescan_batch_during_removal : forall p g U,
  (forall b1 b2, In b1 U -> In b2 U -> b_id b1 = b_id b2 -> b1 = b2) -> GU U ->
  forall w r, w <> r -> forall keysS B c n st, ninv g U n -> 0 < B -> minv_r p g U w r keysS c st ->
  minv_r p g U w r keysS c (fst (import_batch repaired p B n st w)).
Proof. exact rbatch_inv. Qed.
Print Assumptions C07_rescan_batch_during_removal.

(* an announcement that is processed (tip extension, reorganisation with Rollback to any depth, an old block of the
   handler's own chain) keeps it, for the chain the handler follows afterwards *)
Theorem C07_announcement_during_removal : forall p g U,
  (forall b1 b2, In b1 U -> In b2 U -> b_id b1 = b_id b2 -> b1 = b2) -> GU U ->
  forall w r, w <> r -> forall keysS c n st b st', ninv g U n -> minv_r p g U w r keysS c st -> In b U -> b <> g ->
  xprocess repaired p n st b = XOk st' -> exists c', minv_r p g U w r keysS c' st'.
Proof. exact rprocess_inv. Qed.
Print Assumptions C07_announcement_during_removal.

(* C07_import_during_removal.  Start: a database in which every wallet is ready ([minv] with w absent), r one of
   them, its passphrase passR.  RemoveWallet r is accepted, then ImportWallet w (addresses sh :: shs discovered, new
   to the keystore); then ANY history [xwf_r].  At EVERY point s of it:
   - the handler has not died;
   - (a) when r's removal has finished, w is ready and the handler is in step with the node: the database is the live
     run of every wallet of its key table over the node's chain — [equals_live_all]: synced chain, credits (up to
     order), every wallet's credit rows and report — and the key table is the initial one WITHOUT r's entries plus w's;
   - (b) when r's removal has finished: no record is keyed by r or by one of its script hashes (C08's [mentions]),
     r is not listed;
   - (c) frame: every other wallet v holds exactly the credit rows (with spent marks) and the report its keys earn
     over the chain c the handler follows — the run with neither the import nor the removal;
   - r cannot be selected from the request on (until it is gone); w cannot be selected until it is ready. *)
Theorem C07_import_during_removal : forall p g U,
  (forall b1 b2, In b1 U -> In b2 U -> b_id b1 = b_id b2 -> b1 = b2) -> GU U ->
  forall w r, w <> r -> forall keys0 B cap, 0 < B ->
  forall passR pass sh shs c0 n0 all0 st0,
  ninv g U n0 -> incl all0 (chain_txs U) ->
  minv p g U w keys0 c0 st0 -> status_of st0 w = None -> (forall s, ownW w keys0 s = None) ->
  NoDup (map fst keys0) ->
  status_of st0 r = Some WReady -> lookupN (x_pass st0) r = Some passR -> memN r (x_p1 st0) = false ->
  NoDup (sh :: shs) -> (forall s, In s (sh :: shs) -> lookupN keys0 s = None) ->
  forall stA2 h,
  import_start (fst (remove_request st0 r passR)) w pass (sh :: shs) = Some stA2 ->
  let s2 := {| xs_node := n0; xs_st := stA2; xs_all := all0; xs_crashed := false |} in
  xwf_r p g U w r B cap s2 h ->
  let s := fold_left (xstep repaired p B cap) h s2 in
  let st := xs_st s in
  let keysS := filter (fun e : N * N => negb (snd e =? r)%N) keys0 ++ keys_of w (sh :: shs) in
  xs_crashed s = false /\
  (in_step g s -> status_of st w = Some WReady -> status_of st r = None ->
     equals_live_all p st (xs_node s) /\ x_keys st = keysS) /\
  (status_of st r = None -> mentions st r (sh_of_wallet st0 r) = false /\ listed st r = false) /\
  (exists c, wf_chain c /\ synced (x_w st) = synced_of c /\
     forall v, v <> w -> v <> r ->
       proj v (credits (x_w st)) = proj v (credits (L p (lookupN keys0) c)) /\
       xreport st v = spec_report p (lookupN keys0) c v) /\
  (status_of st r <> None -> use_wallet st r = UUnready) /\
  (status_of st w <> Some WReady -> status_of st w <> None -> use_wallet st w = UUnready).
Proof. exact import_during_removal_A. Qed.
Print Assumptions C07_import_during_removal.

(* the premises are satisfiable and the history non-trivial: the shared-transaction history of
   Ledger/ImportRemoveExamples.v (wallet 1 removed, wallet 2 restored; T5 = 1 pays 2, T6 = 2 pays 1, T7 spends a coin of
   each) — the theorem applies to every checked history from the state after the two requests, e.g. [q_h1]
   (removal steps, batches and a reorganisation interleaved; at its end: in step, wallet 2 ready, wallet 1 gone) *)
Example C07_import_during_removal_instance : forall h,
  xwf_r_b q_p0 q_g0 q_U 2 1 1 1 q_s2 h = true ->
  ir_conclusion q_p0 q_g0 2 1 (x_keys (xs_st (xrun repaired q_p0 1 1 [q_g0] q_pre))) 2 []
                (xs_st (xrun repaired q_p0 1 1 [q_g0] q_pre)) (fold_left (xstep repaired q_p0 1 1) h q_s2).
Proof. exact shared_tx_instance. Qed.
Example C07_import_during_removal_history :
  xrun repaired q_p0 1 1 [q_g0] (q_pre ++ ordA) = q_s2 /\
  xwf_r_b q_p0 q_g0 q_U 2 1 1 1 q_s2 q_h1 = true /\
  let s := fold_left (xstep repaired q_p0 1 1) q_h1 q_s2 in
  snd (tip (x_w (xs_st s))) = b_id (last (xs_node s) q_g0) /\ status_of (xs_st s) 2 = Some WReady /\ status_of (xs_st s) 1 = None.
Proof. split; [exact shared_tx_start|exact shared_tx_instance_history]. Qed.
