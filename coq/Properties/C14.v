(* Property C14 — hierarchical key derivation is exactly BIP-32.
   Only statements here; each is closed by [exact] of a lemma proved in Codec/Bip32Proofs.v and
   followed (after the Section is closed) by Print Assumptions.
   Model: Codec/Bip32.v — [new_master], [child], [neuter], [to_string], [from_string] restate
   hdkeychain.NewMaster / Child / Neuter / String / NewKeyFromString with the key stored as the
   code stores it; [spec_master], [spec_ckd] (CKDpriv / CKDpub), [spec_neuter] (N), [spec_string],
   [spec_parse] are written from the BIP-32 text. [abs] maps a stored key to the extended key
   (k, c) / (K, c) it denotes, [abs_out] lifts it to results.
   The cryptographic primitives are the variables of the Section; what is assumed of them is the
   single hypothesis [laws : prim_laws ...] (Codec/Bip32Proofs.v, Part B). After the Section is
   closed every theorem is universally quantified over the primitives and that hypothesis.
   Last part (Section C14Obj): the keys as mutable OBJECTS — Codec/Bip32Obj.v (heap of buffers,
   Zero wiping in place, memoised pubKey, the OBJ / OBJN scripts), lemmas in Codec/Bip32ObjProofs.v. *)
From Coq Require Import List ZArith.
Import ListNotations.
Open Scope Z_scope.
Require Import MW.Codec.Bip32 MW.Codec.Bip32Proofs MW.Codec.Bip32Obj MW.Codec.Bip32ObjProofs.

Section C14.
  Variable hmac512 : bytes -> bytes -> bytes.
  Variable point : Type.
  Variable smulG : Z -> point.
  Variable padd : point -> point -> point.
  Variable ser_P : point -> bytes.
  Variable parse_pub : bytes -> option point.
  Variable coord_zero : point -> bool.
  Variable is_inf : point -> bool.
  Variable hash160 : bytes -> bytes.
  Variable dsha256 : bytes -> bytes.
  Variable b58enc : bytes -> bytes.
  Variable b58dec : bytes -> bytes.
  Hypothesis laws : prim_laws hmac512 smulG padd ser_P parse_pub coord_zero is_inf hash160 dsha256 b58enc b58dec.

  Local Notation new_master := (new_master hmac512).
  Local Notation child := (child hmac512 point smulG padd ser_P parse_pub coord_zero hash160).
  Local Notation child_data := (child_data point smulG ser_P).
  Local Notation derive_path := (derive_path hmac512 point smulG padd ser_P parse_pub coord_zero hash160).
  Local Notation neuter := (neuter point smulG ser_P).
  Local Notation to_string := (to_string point smulG ser_P dsha256 b58enc).
  Local Notation from_string := (from_string point parse_pub dsha256 b58dec).
  Local Notation from_string_unfixed := (from_string_unfixed point parse_pub dsha256 b58dec).
  Local Notation derive_coin_type_key := (derive_coin_type_key hmac512 point smulG padd ser_P parse_pub coord_zero hash160).
  Local Notation derive_account_key := (derive_account_key hmac512 point smulG padd ser_P parse_pub coord_zero hash160).
  Local Notation spec_master := (spec_master hmac512 point).
  Local Notation spec_ckd := (spec_ckd hmac512 point smulG padd ser_P is_inf hash160).
  Local Notation spec_derive_path := (spec_derive_path hmac512 point smulG padd ser_P is_inf hash160).
  Local Notation spec_parse := (spec_parse point parse_pub dsha256 b58dec).
  Local Notation abs := (abs point parse_pub).
  Local Notation abs_out := (abs_out point parse_pub).
  Local Notation wf_key := (wf_key point parse_pub).
  Local Notation step_guard := (step_guard hmac512 point smulG padd ser_P is_inf).
  Local Notation path_ok := (path_ok hmac512 point smulG padd ser_P parse_pub coord_zero is_inf hash160).

  (* the master key of every seed is the BIP-32 master key (or both refuse) *)
  Theorem C14_master_is_spec : forall ver seed, abs_out (new_master ver seed) = spec_master ver seed.
  Proof. exact (master_is_spec _ _ _ _ _ _ _ _ _ _ _ _ laws). Qed.

  (* one derivation step, private or public parent, hardened or normal index, all fields
     (key, chain code, depth, parent fingerprint, child number, version), errors included.
     [step_guard parent x i] excludes exactly: (a) the recorded finding — hardened index, private
     parent, stored key not 32 bytes ([key_len32]); (b) the events IL = 0, child scalar 0, child
     point at infinity ([degenerate], probability about 2^-256 each; see the three refutations) *)
  Theorem C14_child_is_spec : forall parent x i,
    wf_key parent -> abs parent = Some x -> step_guard parent x i ->
    abs_out (child parent i) = spec_ckd x i.
  Proof. exact (child_is_spec _ _ _ _ _ _ _ _ _ _ _ _ laws). Qed.

  (* any seed, any path: NewMaster then Child along the path is BIP-32's derivation, provided no
     step of the path is excluded by the guard *)
  Theorem C14_path_is_spec : forall ver seed path,
    (forall m, new_master ver seed = Ok m -> path_ok m path) ->
    abs_out (bind (new_master ver seed) (fun m => derive_path m path)) =
    bind (spec_master ver seed) (fun x => spec_derive_path x path).
  Proof. exact (seed_path_is_spec _ _ _ _ _ _ _ _ _ _ _ _ laws). Qed.

  (* public derivation of a normal child = neutering the privately derived child; no guard:
     it holds for short stored keys and in the degenerate events as well *)
  Theorem C14_pub_priv_commute : forall k kp i,
    wf_key k -> ek_priv k = true -> neuter k = Ok kp -> i < hardened_start ->
    bind (child k i) neuter = child kp i.
  Proof. exact (pub_priv_commute _ _ _ _ _ _ _ _ _ _ _ _ laws). Qed.

  (* parsing a serialised key returns [norm k]: k itself, except that a private scalar stored
     with fewer than 32 bytes comes back left-padded to 32 bytes ... *)
  Theorem C14_serialize_parse : forall k, wf_key k -> wf_ser k -> from_string (to_string k) = Ok (norm k).
  Proof. exact (serialize_parse _ _ _ _ _ _ _ _ _ _ _ _ laws). Qed.

  (* ... which is equal to k on every field other than the stored form of the key, has the same
     scalar, is k when the key had its 32 bytes (or is public), and denotes the same extended key *)
  Theorem C14_parsed_key_equal : forall k,
    (ek_chain (norm k) = ek_chain k /\ ek_depth (norm k) = ek_depth k /\ ek_fp (norm k) = ek_fp k /\
     ek_num (norm k) = ek_num k /\ ek_version (norm k) = ek_version k /\ ek_priv (norm k) = ek_priv k /\
     be2z (ek_key (norm k)) = be2z (ek_key k) /\
     (ek_priv k = true -> (length (ek_key k) <= 32)%nat ->
        ek_key (norm k) = repeat 0 (32 - length (ek_key k)) ++ ek_key k) /\
     (ek_priv k = false -> ek_key (norm k) = ek_key k)) /\
    ((ek_priv k = true -> key_len32 k) -> norm k = k) /\
    abs (norm k) = abs k.
  Proof. exact (fun k => conj (norm_fields k) (conj (norm_id k) (norm_abs point parse_pub k))). Qed.

  (* keys produced by NewMaster, Child (under the guard) and Neuter satisfy the hypotheses of the
     round trip *)
  Theorem C14_derived_keys_roundtrip :
    (forall ver seed m, length ver = 4%nat -> new_master ver seed = Ok m -> from_string (to_string m) = Ok m) /\
    (forall parent x i c, wf_key parent -> abs parent = Some x -> step_guard parent x i ->
       length (ek_version parent) = 4%nat -> 0 <= i < 2 ^ 32 ->
       child parent i = Ok c -> from_string (to_string c) = Ok (norm c)) /\
    (forall k kp, wf_key k -> wf_ser k -> ek_priv k = true -> neuter k = Ok kp -> from_string (to_string kp) = Ok kp).
  Proof.
    exact (conj (master_roundtrip _ _ _ _ _ _ _ _ _ _ _ _ laws)
          (conj (child_roundtrip _ _ _ _ _ _ _ _ _ _ _ _ laws) (neuter_roundtrip _ _ _ _ _ _ _ _ _ _ _ _ laws))).
  Qed.

  (* parsing is the specification's parsing, for every string *)
  Theorem C14_parse_is_spec : forall s, abs_out (from_string s) = spec_parse s.
  Proof. exact (parse_is_spec point parse_pub dsha256 b58dec). Qed.

  (* wrong length, bad checksum, private key 0 or >= n, public key data that is not a curve point
     (the decoder's verdict) or has X >= p: refused *)
  Theorem C14_parse_rejects : forall s,
    let d := b58dec s in
    let payload := firstn 78 d in
    let keydata := slice 45 78 payload in
    (length d <> 82%nat -> from_string s = Err EInvalidKeyLen) /\
    (length d = 82%nat -> skipn 78 d <> firstn 4 (dsha256 payload) -> from_string s = Err EBadChecksum) /\
    (length d = 82%nat -> skipn 78 d = firstn 4 (dsha256 payload) ->
       (nth 0 keydata 0 = 0 -> be2z (tl keydata) = 0 \/ curve_n <= be2z (tl keydata) ->
          from_string s = Err EUnusableSeed) /\
       (nth 0 keydata 0 <> 0 -> parse_pub keydata = None \/ curve_p <= be2z (tl keydata) ->
          from_string s = Err EPubKeyParse)).
  Proof. exact (parse_rejects point parse_pub dsha256 b58dec). Qed.

  (* conversely: whatever is accepted has the right length, a matching checksum and valid key material *)
  Theorem C14_parse_accepts_only : forall s k,
    from_string s = Ok k ->
    let d := b58dec s in
    length d = 82%nat /\ skipn 78 d = firstn 4 (dsha256 (firstn 78 d)) /\
    (if ek_priv k then length (ek_key k) = 32%nat /\ be2z (ek_key k) <> 0 /\ be2z (ek_key k) < curve_n
     else length (ek_key k) = 33%nat /\ (exists P, parse_pub (ek_key k) = Some P) /\
          nth 0 (ek_key k) 0 <> 0 /\ be2z (tl (ek_key k)) < curve_p).
  Proof. exact (parse_accepts_only point parse_pub dsha256 b58dec). Qed.

  (* the recorded finding, for every primitive: on a private parent whose stored key is the
     big.Int.Bytes() of a scalar with leading zero bytes and a hardened index, the message the
     code hands to HMAC-SHA512 is not 0x00 || ser256(k_par) || ser32(i) *)
  Theorem C14_short_parent_asks_different_hmac : forall key cc depth fp num ver i,
    Forall byte key -> (0 < length key < 32)%nat -> nth 0 key 0 <> 0 -> hardened_start <= i ->
    child_data (mkEK key cc depth fp num ver true) i <> 0 :: ser256 (be2z key) ++ ser32 i.
  Proof. exact (short_parent_data_differs point smulG ser_P). Qed.

  (* the code as first found (before /repo commit bc42b55) accepted public key data with X >= p *)
  Theorem C14_unfixed_accepts_x_ge_p : forall d K,
    length d = 82%nat -> skipn 78 d = firstn 4 (dsha256 (firstn 78 d)) ->
    let kd := slice 45 78 (firstn 78 d) in
    nth 0 kd 0 <> 0 -> parse_pub kd = Some K -> curve_p <= be2z (tl kd) ->
    (exists k, from_string_unfixed (b58enc d) = Ok k) /\
    from_string (b58enc d) = Err EPubKeyParse /\
    spec_parse (b58enc d) = Err EPubKeyParse.
  Proof. exact (unfixed_accepts_x_ge_p _ _ _ _ _ _ _ _ _ _ _ _ laws). Qed.

  (* keystore/hd.go: deriveCoinTypeKey then deriveAccountKey is the path m/purpose'/coin'/account';
     out-of-range coin types and account numbers are refused *)
  Theorem C14_wallet_path : forall m purpose coin account,
    0 <= purpose < hardened_start -> 0 <= coin <= max_coin_type -> 0 <= account <= max_account_num ->
    bind (derive_coin_type_key m purpose coin) (fun c => derive_account_key c account) =
    derive_path m [purpose + hardened_start; coin + hardened_start; account + hardened_start].
  Proof. exact (wallet_path hmac512 point smulG padd ser_P parse_pub coord_zero hash160). Qed.

  Theorem C14_wallet_path_rejects : forall m c purpose coin account,
    (max_coin_type < coin -> derive_coin_type_key m purpose coin = Err EInvalidCoinType) /\
    (max_account_num < account -> derive_account_key c account = Err EInvalidAccountNumber).
  Proof. exact (wallet_path_rejects hmac512 point smulG padd ser_P parse_pub coord_zero hash160). Qed.
End C14.

(* D2, closed witness over the toy instance of the primitives (which satisfies [prim_laws]): a
   well-formed private parent with a one-byte stored key, a hardened index, nothing degenerate,
   and the child differs from BIP-32's. On the real primitives the witness is BIP-32 test vector 4
   (replayed on the real code by the correspondence harness). *)
Theorem C14_short_parent_refuted :
  exists parent x i,
    Toy.wf_key parent /\ Toy.abs parent = Some x /\
    hardened_start <= i /\ ek_priv parent = true /\ (length (ek_key parent) < 32)%nat /\
    ~ Toy.degenerate Toy.hmac_copy x i /\
    Toy.abs_out (Toy.child Toy.hmac_copy parent i) <> Toy.spec_ckd Toy.hmac_copy x i.
Proof. exact short_parent_refuted. Qed.

(* why [degenerate] is in the guard: the code refuses IL = 0 where BIP-32 does not ... *)
Theorem C14_zero_il_refuted :
  exists parent x i,
    Toy.wf_key parent /\ Toy.abs parent = Some x /\ i < hardened_start /\
    Toy.abs_out (Toy.child Toy.hmac_copy parent i) = Err EInvalidChild /\
    exists c, Toy.spec_ckd Toy.hmac_copy x i = Ok c.
Proof. exact zero_il_refuted. Qed.

(* ... and returns a child with scalar 0 (stored as the empty byte string) where BIP-32 says invalid *)
Theorem C14_zero_child_refuted :
  exists parent x i c,
    Toy.wf_key parent /\ Toy.abs parent = Some x /\ i < hardened_start /\
    Toy.child Toy.hmac_key parent i = Ok c /\ ek_key c = [] /\
    Toy.spec_ckd Toy.hmac_key x i = Err EInvalidChild.
Proof. exact zero_child_refuted. Qed.

Print Assumptions C14_master_is_spec.
Print Assumptions C14_child_is_spec.
Print Assumptions C14_path_is_spec.
Print Assumptions C14_pub_priv_commute.
Print Assumptions C14_serialize_parse.
Print Assumptions C14_parsed_key_equal.
Print Assumptions C14_derived_keys_roundtrip.
Print Assumptions C14_parse_is_spec.
Print Assumptions C14_parse_rejects.
Print Assumptions C14_parse_accepts_only.
Print Assumptions C14_short_parent_asks_different_hmac.
Print Assumptions C14_unfixed_accepts_x_ge_p.
Print Assumptions C14_wallet_path.
Print Assumptions C14_wallet_path_rejects.
Print Assumptions C14_short_parent_refuted.
Print Assumptions C14_zero_il_refuted.
Print Assumptions C14_zero_child_refuted.

(* non-vacuity: the hypotheses on the primitives are satisfiable ... *)
Example C14_laws_consistent :
  prim_laws Toy.hmac_copy Toy.smulG Toy.padd Toy.ser_P Toy.parse_pub Toy.coord_zero Toy.is_inf
            Toy.hash160 Toy.dsha256 Toy.b58 Toy.b58.
Proof. exact Toy.laws_copy. Qed.

(* ... and the guard of C14_child_is_spec is met by a concrete parent (32-byte stored key, hardened
   index), on which the model computes a child equal to the specification's *)
Definition ex_parent : ExtendedKey :=
  mkEK (ser256 123456789) (repeat 7 32) 2 [1; 2; 3; 4] 5 hd_private_key_id true.
Example C14_ex_child :
  Toy.abs_out (Toy.child Toy.hmac_copy ex_parent (hardened_start + 3)) =
  Toy.spec_ckd Toy.hmac_copy (mkX (SPriv 123456789) (repeat 7 32) 2 [1; 2; 3; 4] 5 hd_private_key_id) (hardened_start + 3)
  /\ exists c, Toy.child Toy.hmac_copy ex_parent (hardened_start + 3) = Ok c /\ ek_depth c = 3.
Proof. split; [vm_compute; reflexivity|]. eexists; split; vm_compute; reflexivity. Qed.

(* ------------------------------------------------------------------ keys are objects, not values
   The theorems above speak of key VALUES. hdkeychain.ExtendedKey is a mutable object: byte slices
   into backing arrays, a memoised pubKey, and Zero() wiping the arrays in place.
   Codec/Bip32Obj.v: a heap of byte buffers and a table of key objects; [obs_at st a] = the stored
   fields key object a reads in state st; [o_child], [o_neuter nfix], [o_zero], [o_string],
   [o_pubkey] = the methods as heap transformers built from the value functions above
   ([nfix] = true: Neuter copies the three slices, /repo as repaired; false: as first found, the
   neutered key shares pubKey / chainCode / parentFP with the private key); [run_script] = the
   scripts of the OBJ / OBJN correspondence cases (derive siblings, neutered copies, grandchildren,
   use them, zero them, zero the parent; then observe key object B).
   No assumption on the primitives is needed here. *)
Section C14Obj.
  Variable hmac512 : bytes -> bytes -> bytes.
  Variable point : Type.
  Variable smulG : Z -> point.
  Variable padd : point -> point -> point.
  Variable ser_P : point -> bytes.
  Variable parse_pub : bytes -> option point.
  Variable coord_zero : point -> bool.
  Variable hash160 : bytes -> bytes.
  Variable dsha256 : bytes -> bytes.
  Variable b58enc : bytes -> bytes.

  Local Notation child := (child hmac512 point smulG padd ser_P parse_pub coord_zero hash160).
  Local Notation neuter := (neuter point smulG ser_P).
  Local Notation o_child := (o_child hmac512 point smulG padd ser_P parse_pub coord_zero hash160).
  Local Notation o_neuter := (o_neuter point smulG ser_P).
  Local Notation o_string := (o_string point smulG ser_P dsha256 b58enc).
  Local Notation o_pubkey := (o_pubkey point smulG ser_P).
  Local Notation memo_ok := (memo_ok point smulG ser_P).
  Local Notation reachable := (reachable hmac512 point smulG padd ser_P parse_pub coord_zero hash160 dsha256 b58enc).
  Local Notation run_script := (run_script hmac512 point smulG padd ser_P parse_pub coord_zero hash160 dsha256 b58enc).
  Local Notation val_script := (val_script hmac512 point smulG padd ser_P parse_pub coord_zero hash160).

  (* every reachable heap — keys created from field values on fresh slices, then any sequence of
     Child / Neuter (copying) / Zero / String / pubKeyBytes on keys of the table — is separated:
     buffer ids in range, the buffers of one key pairwise distinct, no buffer referenced by two
     keys; and the memoised public key of a private key is the public key of its stored scalar *)
  Theorem C14_key_objects_separate : forall st, reachable st -> sep st /\ memo_ok st.
  Proof. exact (reachable_inv hmac512 point smulG padd ser_P parse_pub coord_zero hash160 dsha256 b58enc). Qed.

  (* each single operation keeps the separation *)
  Theorem C14_ops_keep_separation : forall st a,
    sep st -> (a < length (objs_of st))%nat ->
    (forall f, sep (fst (new_obj st f))) /\
    (forall i, sep (fst (o_child st a i))) /\ sep (fst (o_neuter true st a)) /\
    sep (o_zero st a) /\ sep (fst (o_string st a)) /\ sep (fst (o_pubkey st a)).
  Proof. exact (op_sep hmac512 point smulG padd ser_P parse_pub coord_zero hash160 dsha256 b58enc). Qed.

  (* frame: in a separated heap, Zero of key a leaves every other key b as it was (and a reads as
     the zeroed value); Child, Neuter, String, pubKeyBytes on a change what no key reads, a
     included (the memoisation is invisible) *)
  Theorem C14_zero_frame : forall st a b,
    sep st -> (a < length (objs_of st))%nat -> (b < length (objs_of st))%nat ->
    (b <> a -> obs_at (o_zero st a) b = obs_at st b) /\
    obs_at (o_zero st a) a = v_zero (obs_at st a) /\
    (forall i, obs_at (fst (o_child st a i)) b = obs_at st b) /\
    obs_at (fst (o_neuter true st a)) b = obs_at st b /\
    obs_at (fst (o_string st a)) b = obs_at st b /\
    obs_at (fst (o_pubkey st a)) b = obs_at st b.
  Proof. exact (op_frame hmac512 point smulG padd ser_P parse_pub coord_zero hash160 dsha256 b58enc). Qed.

  (* the value semantics of key objects: for EVERY script, every parent and index, the key object B
     observed at the end reads exactly Child(parent, i) (OBJ) / Neuter(parent) (OBJN) — whatever was
     derived, used and zeroed before and after it, the parent included. [no_B_after_p]: B is not
     derived a second time from a parent the script zeroed before (the generated scripts derive B
     once) ... *)
  Theorem C14_key_object_value_semantics : forall neu f i script,
    no_B_after_p script = true ->
    run_script true neu f i script =
    if existsb is_B script then Some (if neu then neuter f else child f i) else None.
  Proof. exact (obj_value_semantics hmac512 point smulG padd ser_P parse_pub coord_zero hash160 dsha256 b58enc). Qed.

  (* ... and with no side condition at all: the object interpreter computes what the interpreter on
     values computes (there B derived from a zeroed parent is the child of the zeroed value) *)
  Theorem C14_key_object_scripts_on_values : forall neu f i script,
    run_script true neu f i script = val_script neu f i script.
  Proof. exact (run_script_is_val_script hmac512 point smulG padd ser_P parse_pub coord_zero hash160 dsha256 b58enc). Qed.
End C14Obj.

(* Neuter as first found (sharing): closed witnesses over the toy primitives. (1) OBJN script B.p,
   pub := priv.Neuter(); priv.Zero(): pub reads all zero; (2) OBJ script B.m: zeroing a neutered copy
   of B wipes B's chain code and parent fingerprint; (3) OBJ script n.B: zeroing a neutered copy of
   the parent before deriving B. With the copying Neuter each of them gives the value. *)
Theorem C14_neuter_sharing_refuted :
  (exists f script,
     Toy.wf_key f /\ no_B_after_p script = true /\
     ToyObj.run_script Toy.hmac_key true true f 0 script = Some (ToyObj.neuter f) /\
     ToyObj.run_script Toy.hmac_key false true f 0 script <> Some (ToyObj.neuter f) /\
     exists k, ToyObj.run_script Toy.hmac_key false true f 0 script = Some (Ok k) /\
               ek_key k = repeat 0 33 /\ ek_chain k = repeat 0 32 /\ ek_fp k = repeat 0 4) /\
  (exists f i script,
     Toy.wf_key f /\ no_B_after_p script = true /\
     ToyObj.run_script Toy.hmac_key true false f i script = Some (Toy.child Toy.hmac_key f i) /\
     ToyObj.run_script Toy.hmac_key false false f i script <> Some (Toy.child Toy.hmac_key f i) /\
     exists k, ToyObj.run_script Toy.hmac_key false false f i script = Some (Ok k) /\
               ek_chain k = repeat 0 32 /\ ek_fp k = repeat 0 4) /\
  (exists f i script,
     Toy.wf_key f /\ no_B_after_p script = true /\
     ToyObj.run_script Toy.hmac_key true false f i script = Some (Toy.child Toy.hmac_key f i) /\
     ToyObj.run_script Toy.hmac_key false false f i script <> Some (Toy.child Toy.hmac_key f i)).
Proof. exact obj_value_semantics_refuted. Qed.

Print Assumptions C14_key_objects_separate.
Print Assumptions C14_ops_keep_separation.
Print Assumptions C14_zero_frame.
Print Assumptions C14_key_object_value_semantics.
Print Assumptions C14_key_object_scripts_on_values.
Print Assumptions C14_neuter_sharing_refuted.

(* non-vacuity: a script with several operations before and after B — siblings derived and zeroed,
   a sibling kept and used, neutered copies of the parent and of B zeroed, a grandchild zeroed, the
   parent zeroed, a grandchild derived after that — on a well-formed private parent; the observed B
   is the child the value model computes (a key of depth 3), and the heap it ends in is separated *)
Definition ex_script : list op :=
  [OpA 3; OpN; OpU (hardened_start + 4); OpB; OpC 1; OpM; OpS; OpA 9; OpN; OpP; OpC (hardened_start + 2); OpS].
Example C14_ex_obj_script :
  Toy.wf_key ToyObj.parent /\ no_B_after_p ex_script = true /\ existsb is_B ex_script = true /\
  ToyObj.run_script Toy.hmac_key true false ToyObj.parent 7 ex_script = Some (Toy.child Toy.hmac_key ToyObj.parent 7) /\
  exists c, Toy.child Toy.hmac_key ToyObj.parent 7 = Ok c /\ ek_depth c = 3 /\ ek_priv c = true.
Proof.
  split; [exact ToyObj.parent_wf|]. split; [reflexivity|]. split; [reflexivity|].
  split; [vm_compute; reflexivity|]. eexists. split; [vm_compute; reflexivity|]. split; reflexivity.
Qed.
