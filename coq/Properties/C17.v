(* Property C17 — queries racing with synchronisation see one block boundary; no data races.
   Only statements here; each is closed by [exact] of a lemma proved in Sched/ReadsProofs.v or
   Sched/LocksProofs.v and followed by Print Assumptions.

   Read-placement half.  Model: Sched/Reads.v — a query (WalletBalance, AddressBalance, GetUtxo,
   the transaction-building coin selection) as the list of database reads the code makes
   (synced height, unspent iterator pinned at creation, one credit point read per row, ...), each
   served by the committed store current at that read; stores are states of the frozen Ledger
   model, produced by its [process] (connects and reorgs); confs in uint64 / uint32 as in the code.
   [snap = true] is the repaired semantics (commit 2763853: a read transaction works on one
   goleveldb snapshot taken by BeginReadTx), [snap = false] the code as found.
   Quantifiers: every sequence of stores, every schedule (placement of any number of commits
   between any two consecutive reads), every query, every key order of the iterator.

   Data-race half.  Sched/Locks.v over the table coq/Gen/Locks.v that translate/locks regenerates
   from the Go source on every run: (field, function, read/write, thread role, locks held) for the
   fields of NtfnsHandler, WalletManager, KeystoreManager, AddrManager, UtxoStore.
   Outside any Gallina model (remainder): the Go memory model itself (that two critical sections
   of one mutex, or the two sides of the hand-shake, are ordered), accesses the syntactic
   translator cannot see (interfaces, other packages, aliasing between instances), and whether
   the race detector's schedule ever meets a given pair — explored, not proved (race run). *)
From Coq Require Import List ZArith NArith Bool String.
Import ListNotations.
Require Import MW.Ledger.Model MW.Sched.Reads MW.Sched.ReadsProofs MW.Gen.Locks MW.Sched.Locks MW.Sched.LocksProofs.

(* repaired semantics: whatever is committed while the query runs, and wherever between its reads,
   the answer (and the number of reads) is that of the single block boundary at which the
   query's read transaction began — an index that lies between its start and its end *)
Theorem C17_single_boundary : forall ord ss sc q,
  answer ord true ss sc q = answer_at ord ss (idx sc 0) q /\
  nreads ord true ss sc q = fst (run_query ord (fun _ => store_at ss (idx sc 0)) q).
Proof. exact single_boundary_snapshot. Qed.
Print Assumptions C17_single_boundary.

(* without snapshots the same holds only when nothing is committed while the query runs *)
Theorem C17_single_boundary_quiet : forall ord ss j q, answer ord false ss [j] q = answer_at ord ss j q.
Proof. exact single_boundary_quiet. Qed.
Print Assumptions C17_single_boundary_quiet.

(* at a single boundary whose store keeps every credit at or below the tip, the coin selection
   of transaction building never offers an immature or still-locked coin (no wrap-around) *)
Theorem C17_spendable_mature_at_boundary : forall ord ss j w l c,
  heights_ok (store_at ss j) ->
  answer_at ord ss j (QSpendable w) = ACoins l -> In c l -> immature_at (store_at ss j) c = false.
Proof. exact spendable_mature_at_boundary. Qed.
Print Assumptions C17_spendable_mature_at_boundary.

(* CODE AS FOUND (DESIGN F2): stores produced by the Ledger model from a chain, a monotone
   schedule (height read, two block commits, iterator), and a query whose answer is the answer
   of no boundary between its start and its end and offers an immature coinbase for spending
   (confs = 1 - 3 + 1 wraps to 2^64-1, 4294967295 after truncation) *)
Theorem C17_single_boundary_refuted :
  exists (ord : N -> N) (ss : list wstate) (sc : list nat) (q : query),
    monotone sc = true /\
    (forall j, (j < List.length ss)%nat -> answer ord false ss sc q <> answer_at ord ss j q) /\
    exists c l, answer ord false ss sc q = ACoins l /\ In c l /\ eligible c = true /\
                forall j, (j < List.length ss)%nat -> immature_at (store_at ss j) c = true.
Proof. exact single_boundary_refuted. Qed.
Print Assumptions C17_single_boundary_refuted.

(* ... and one commit suffices for a balance that equals neither boundary (no wrap needed):
   a spent coin has left the iterator, its change is not yet counted against the stale height *)
Theorem C17_stale_height_refuted :
  monotone w2_sc = true /\ List.length w2_ss = 2%nat /\
  answer idN false w2_ss w2_sc (QAddressBalance 1 [1%N] 1) = ABal {| b_total := 0; b_spend := 0; b_wstake := 0; b_wbind := 0 |} /\
  answer_at idN w2_ss 0 (QAddressBalance 1 [1%N] 1) = ABal {| b_total := 5; b_spend := 5; b_wstake := 0; b_wbind := 0 |} /\
  answer_at idN w2_ss 1 (QAddressBalance 1 [1%N] 1) = ABal {| b_total := 4; b_spend := 4; b_wstake := 0; b_wbind := 0 |}.
Proof. exact refuted_stale. Qed.
Print Assumptions C17_stale_height_refuted.

(* every pair of conflicting accesses of the generated table shares a mutex (one side
   exclusively), or is ordered by the suspend/resume hand-shake, or its writer is one of the
   listed unprotected (variable, function) sites *)
Theorem C17_lock_discipline :
  forall a1 a2, In a1 lock_table -> In a2 lock_table -> conflicting a1 a2 = true ->
    by_mutex a1 a2 = true \/ ordered_by_handshake a1 a2 = true \/
    (a_write a1 = true /\ In (a_var a1, a_site a1) unprotected_pinned) \/
    (a_write a2 = true /\ In (a_var a2, a_site a2) unprotected_pinned).
Proof. exact lock_discipline. Qed.
Print Assumptions C17_lock_discipline.

(* each site of that list ([unprotected_pinned] = [unprotected_writers lock_table], computed from the
   table of the current tree) is a refutation of the discipline: a conflicting pair of the table
   with no common lock and no hand-shake.  The list is empty since commit c8404ce. *)
Theorem C17_lock_discipline_refuted :
  forall vw, In vw unprotected_pinned ->
    exists a1 a2, In a1 lock_table /\ In a2 lock_table /\ a_write a1 = true /\ (a_var a1, a_site a1) = vw /\
                  conflicting a1 a2 = true /\ protected a1 a2 = false.
Proof. exact lock_discipline_refuted. Qed.
Print Assumptions C17_lock_discipline_refuted.

(* CODE AS FOUND (before c8404ce): KeystoreManager.UpdateManagedKeystores touched managedKeystores
   without km.mu (worker goroutine, error paths) and AddrManager.updateManagedAddress wrote addrs
   without a.mu (API): the two conflicting pairs, taken from the table generated then, share no lock *)
Theorem C17_lock_discipline_found_refuted :
  unprotected_writers found_excerpt =
    [("KeystoreManager.managedKeystores", "KeystoreManager.updateManagedKeystore");
     ("AddrManager.addrs", "AddrManager.updateManagedAddress")]%string.
Proof. exact found_refuted. Qed.
Print Assumptions C17_lock_discipline_found_refuted.

(* non-vacuity *)
Example C17_ex_witness_stores_ok : forall j, (j < 3)%nat -> heights_ok (store_at w1_ss j).
Proof. exact w1_heights_ok. Qed.
Example C17_ex_table_nonempty : (100 <? Z.of_nat (List.length lock_table))%Z = true.
Proof. vm_compute. reflexivity. Qed.
