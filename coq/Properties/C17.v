(* Property C17 — queries racing with synchronisation see one block boundary; no data races.
   Only statements here; each is closed by [exact] of a lemma proved in Sched/ReadsProofs.v or
   Sched/LocksProofs.v and followed by Print Assumptions.

   Read-placement half.  Model: Sched/Reads.v — a query (WalletBalance, AddressBalance, GetUtxo,
   the transaction-building coin selection) as the list of database reads the code makes
   (synced height, unspent iterator pinned at creation, one credit point read per row, ...), each
   served by the committed store current at that read; stores are states of the frozen Ledger
   model, produced by its [process] (connects and reorgs); confs in uint64 / uint32 as in the code.
   [snap = true] is the repaired semantics (commit 2763853: a read transaction works on one
   goleveldb snapshot taken by BeginReadTx), [snap = false] the code as found.
   Quantifiers: every sequence of stores, every schedule (placement of any number of commits
   between any two consecutive reads), every query, every key order of the iterator.

   Transaction-building calls.  Model: Sched/Build.v — AutoCreateRawTransaction, CreateStakingTransaction,
   CreateBindingTransaction and the Estimate*TxFee calls are not one read transaction but a SEQUENCE of them:
   one per coin-selection round (each reads ONE snapshot: C17_single_boundary), one look-up of the previous
   transaction per selected coin for the size estimate of every round, one more per input when the inputs are
   added; [rd k] is the committed store serving read transaction k.  As in the code every round selects from
   scratch and the transaction is built from the last round's selection.  [keep = true] is the seeded variant
   (the picks of earlier rounds are kept, a later read only tops them up).  The judged predicate [tx_ok_at]
   (no input twice, every input an unspent / mature / standard / unreserved coin of the wallet at the boundary,
   inputs - outputs = reported fee) is the function the check evaluates on the implementation's transactions.
   Quantifiers: every function [rd] (any history of commits placed anywhere between the read transactions),
   every request, every reservation list, every node chain.

   Data-race half.  Sched/Locks.v over the table coq/Gen/Locks.v that translate/locks regenerates
   from the Go source on every run: (field, function, read/write, thread role, locks held) for the
   fields of NtfnsHandler, WalletManager, KeystoreManager, AddrManager, UtxoStore.
   Outside any Gallina model (remainder): the Go memory model itself (that two critical sections
   of one mutex, or the two sides of the hand-shake, are ordered), accesses the syntactic
   translator cannot see (interfaces, other packages, aliasing between instances), and whether
   the race detector's schedule ever meets a given pair — explored, not proved (race run). *)
From Coq Require Import List ZArith NArith Bool String.
Import ListNotations.
Require Import MW.Ledger.Model MW.Sched.Reads MW.Sched.ReadsProofs MW.Gen.Locks MW.Sched.Locks MW.Sched.LocksProofs.
Require Import MW.Sched.Build MW.Sched.BuildProofs.
Require MW.Tx.Select MW.Tx.Fee.

(* repaired semantics: whatever is committed while the query runs, and wherever between its reads,
   the answer (and the number of reads) is that of the single block boundary at which the
   query's read transaction began — an index that lies between its start and its end *)
Theorem C17_single_boundary : forall ord ss sc q,
  answer ord true ss sc q = answer_at ord ss (idx sc 0) q /\
  nreads ord true ss sc q = fst (run_query ord (fun _ => store_at ss (idx sc 0)) q).
Proof. exact single_boundary_snapshot. Qed.
Print Assumptions C17_single_boundary.

(* without snapshots the same holds only when nothing is committed while the query runs *)
Theorem C17_single_boundary_quiet : forall ord ss j q, answer ord false ss [j] q = answer_at ord ss j q.
Proof. exact single_boundary_quiet. Qed.
Print Assumptions C17_single_boundary_quiet.

(* at a single boundary whose store keeps every credit at or below the tip, the coin selection
   of transaction building never offers an immature or still-locked coin (no wrap-around) *)
Theorem C17_spendable_mature_at_boundary : forall ord ss j w l c,
  heights_ok (store_at ss j) ->
  answer_at ord ss j (QSpendable w) = ACoins l -> In c l -> immature_at (store_at ss j) c = false.
Proof. exact spendable_mature_at_boundary. Qed.
Print Assumptions C17_spendable_mature_at_boundary.

(* CODE AS FOUND (DESIGN F2): stores produced by the Ledger model from a chain, a monotone
   schedule (height read, two block commits, iterator), and a query whose answer is the answer
   of no boundary between its start and its end and offers an immature coinbase for spending
   (confs = 1 - 3 + 1 wraps to 2^64-1, 4294967295 after truncation) *)
Theorem C17_single_boundary_refuted :
  exists (ord : N -> N) (ss : list wstate) (sc : list nat) (q : query),
    monotone sc = true /\
    (forall j, (j < List.length ss)%nat -> answer ord false ss sc q <> answer_at ord ss j q) /\
    exists c l, answer ord false ss sc q = ACoins l /\ In c l /\ eligible c = true /\
                forall j, (j < List.length ss)%nat -> immature_at (store_at ss j) c = true.
Proof. exact single_boundary_refuted. Qed.
Print Assumptions C17_single_boundary_refuted.

(* ... and one commit suffices for a balance that equals neither boundary (no wrap needed):
   a spent coin has left the iterator, its change is not yet counted against the stale height *)
Theorem C17_stale_height_refuted :
  monotone w2_sc = true /\ List.length w2_ss = 2%nat /\
  answer idN false w2_ss w2_sc (QAddressBalance 1 [1%N] 1) = ABal {| b_total := 0; b_spend := 0; b_wstake := 0; b_wbind := 0 |} /\
  answer_at idN w2_ss 0 (QAddressBalance 1 [1%N] 1) = ABal {| b_total := 5; b_spend := 5; b_wstake := 0; b_wbind := 0 |} /\
  answer_at idN w2_ss 1 (QAddressBalance 1 [1%N] 1) = ABal {| b_total := 4; b_spend := 4; b_wstake := 0; b_wbind := 0 |}.
Proof. exact refuted_stale. Qed.
Print Assumptions C17_stale_height_refuted.

(* ---- transaction-building calls (several read transactions) *)

(* whatever stores serve the read transactions of a transaction-building call, a transaction that
   comes back is a correct answer at ONE of them — the store kb of the last selection round, a read
   transaction of the call —: no input twice, every input one of the coins eligible there, inputs -
   outputs = reported fee; the fee covers the user's / the relay minimum and the relay fee of the
   built size; every input was looked up successfully in the two passes after kb; k = kb + 1 + 2*inputs *)
Theorem C17_build_single_boundary : forall ord w sel reserved nd rd q k s ch fee,
  (forall j, store_ok (rd j) w) ->
  build_call ord w sel reserved nd rd false q = (k, BTx s ch fee) ->
  exists kb, (kb < k)%nat /\ k = (S kb + List.length s + List.length s)%nat /\
    tx_ok_at (cands ord w sel reserved (rd kb)) (map cr_op s) (q_out q + ch) fee = true /\
    (forall c, In c s -> In c (cands ord w sel reserved (rd kb))) /\
    NoDup (map cr_op s) /\ Select.sum_amt cr_amount s = (q_out q + ch + fee)%Z /\
    (init_target (q_userfee q) <= fee)%Z /\ (req_fee q (List.length s) ch <= fee)%Z /\ (ch = 0%Z \/ (Fee.min_relay <= ch)%Z) /\
    (forall i c, nth_error s i = Some c ->
       lookup_ok nd (rd (S kb + i)%nat) (cr_op c) = true /\ lookup_ok nd (rd (S kb + List.length s + i)%nat) (cr_op c) = true).
Proof. exact build_single_boundary. Qed.
Print Assumptions C17_build_single_boundary.

(* ... and at that boundary every input is spendable: mature at its tip (no wrap-around), its credit
   record not spent, standard class, not reserved by an earlier draft *)
Theorem C17_build_inputs_spendable : forall ord w sel reserved nd rd q k s ch fee,
  (forall j, store_ok (rd j) w) -> (forall j, heights_ok (rd j)) ->
  build_call ord w sel reserved nd rd false q = (k, BTx s ch fee) ->
  exists kb, (kb < k)%nat /\
    forall c, In c s -> immature_at (rd kb) c = false /\ cr_spent c = false /\ cr_class c = CStd /\ ~ In (cr_op c) reserved.
Proof. exact build_inputs_spendable. Qed.
Print Assumptions C17_build_inputs_spendable.

(* in terms of schedules over the committed stores: the boundary is a commit index between the one
   at which the call began and the one at which its last read transaction began, and the judged
   function finds one *)
Theorem C17_build_sched_single_boundary : forall ord w sel reserved nd ss sc q k s ch fee,
  monotone sc = true -> (forall j, store_ok (store_at ss j) w) ->
  build_sched ord w sel reserved nd false ss sc q = (k, BTx s ch fee) ->
  (exists b, (idx sc 0 <= b <= idx sc (k - 1))%nat /\
     tx_ok_at (cands ord w sel reserved (store_at ss b)) (map cr_op s) (q_out q + ch) fee = true) /\
  tx_boundary ord w sel reserved ss (idx sc 0) (idx sc (k - 1)) (map cr_op s) (q_out q + ch) fee <> None.
Proof. exact build_sched_single_boundary. Qed.
Print Assumptions C17_build_sched_single_boundary.

(* an insufficient-funds refusal is the refusal of ONE store of the call: there the K largest
   eligible coins do not cover the outputs, the largest fee target any pass can set and one
   MinRelayTxFee of dust slack *)
Theorem C17_build_refusal_boundary : forall ord w sel reserved nd rd q k ov nmax,
  (forall j, (j < k)%nat -> amounts_ok (rd j)) ->
  (forall j, (j < k)%nat -> (Z.of_nat (List.length (cands ord w sel reserved (rd j))) <= nmax)%Z) ->
  (0 <= q_out q)%Z -> (0 <= q_userfee q)%Z -> (0 <= q_nout q)%Z -> (0 <= q_payload q)%Z ->
  build_call ord w sel reserved nd rd false q = (k, BRefused ov) ->
  exists kb, (kb < k)%nat /\ refusal_ok_at (cands ord w sel reserved (rd kb)) q nmax = true.
Proof. exact build_refusal_boundary. Qed.
Print Assumptions C17_build_refusal_boundary.

Theorem C17_build_sched_refusal_boundary : forall ord w sel reserved nd ss sc q k ov,
  monotone sc = true -> (forall j, amounts_ok (store_at ss j)) ->
  (0 <= q_out q)%Z -> (0 <= q_userfee q)%Z -> (0 <= q_nout q)%Z -> (0 <= q_payload q)%Z ->
  build_sched ord w sel reserved nd false ss sc q = (k, BRefused ov) ->
  refusal_boundary ord w sel reserved ss (idx sc 0) (idx sc (k - 1)) q <> None.
Proof. exact build_sched_refusal_boundary. Qed.
Print Assumptions C17_build_sched_refusal_boundary.

(* the fuelled loops of the model are the Go loops: the fuel is never used up *)
Theorem C17_build_call_fuel : forall ord w sel reserved nd rd q k r,
  (0 <= q_nout q)%Z -> (0 <= q_payload q)%Z -> build_call ord w sel reserved nd rd false q = (k, r) -> r <> BFuel.
Proof. exact build_call_fuel. Qed.
Print Assumptions C17_build_call_fuel.

(* SEEDED VARIANT (keep the picks of earlier rounds, top up from a later read), refuted: stores
   produced by the Ledger model, a monotone schedule (first selection, block 7 spending the picked
   coin and paying the wallet, top-up), and a transaction that comes back spending the coin AND the
   coin its spender created: a correct answer at no boundary *)
Theorem C17_build_single_boundary_refuted :
  exists (ord : N -> N) (w : N) (sel : N -> bool) (reserved : list op) (nd : node) (ss : list wstate) (sc : list nat)
         (q : breq) (k : nat) (s : list coinrow) (ch fee : Z),
    monotone sc = true /\ (forall j, store_ok (store_at ss j) w) /\
    build_sched ord w sel reserved nd true ss sc q = (k, BTx s ch fee) /\
    (forall j, (j < List.length ss)%nat ->
       tx_ok_at (cands ord w sel reserved (store_at ss j)) (map cr_op s) (q_out q + ch) fee = false) /\
    tx_boundary ord w sel reserved ss (idx sc 0) (idx sc (k - 1)) (map cr_op s) (q_out q + ch) fee = None.
Proof. exact build_keep_refuted. Qed.
Print Assumptions C17_build_single_boundary_refuted.

(* CODE AS IT IS, what C17_build_refusal_boundary does not say: the amount asked in the refusing read
   transaction carries the dust adjustment (or the fee target) decided on ANOTHER store.  The call
   refuses (2 read transactions) although, run alone before block 7, it spends 1:0 and 1:1, and run
   alone after it, 20:0; the refusal is right at boundary 1 only with the slack of refusal_ok_at *)
Theorem C17_build_refusal_carried_refuted :
  monotone [0; 1]%nat = true /\ List.length br_ss = 2%nat /\
  build_sched idN 1 bw_all [] br_node false br_ss [0; 1]%nat bw_q = (2%nat, BRefused false) /\
  (exists s ch, build_sched idN 1 bw_all [] br_node false br_ss [0]%nat bw_q = (6%nat, BTx s ch 10000) /\
                map cr_op s = [(1%N, 0%N); (1%N, 1%N)]) /\
  (exists s, build_sched idN 1 bw_all [] br_node false br_ss [1]%nat bw_q = (3%nat, BTx s 0 10000) /\
             map cr_op s = [(20%N, 0%N)]) /\
  refusal_boundary idN 1 bw_all [] br_ss 0 1 bw_q = Some 1%nat.
Proof. exact build_refusal_carried_refuted. Qed.
Print Assumptions C17_build_refusal_carried_refuted.

(* explicit inputs (CreateRawTransaction): nothing is selected; every input is looked up once per pass
   (constructTxIn, EstimateManualTxFee without and with change).  While blocks are only connected, the
   inputs of a successful call can all be looked up in the store of its last read transaction.
   (With reorganisations in between the statement needs more than the three commits the check places:
   an input that leaves the chain makes a later pass fail.) *)
Theorem C17_manual_single_boundary_connects : forall nd rd ins rounds k1,
  (forall j j' o, (j <= j')%nat -> lookup_ok nd (rd j) o = true -> lookup_ok nd (rd j') o = true) ->
  manual_lookups nd rd (S rounds) 0 ins = (k1, true) ->
  forall o, In o ins -> lookup_ok nd (rd (k1 - 1)%nat) o = true.
Proof. exact manual_single_boundary_connects. Qed.
Print Assumptions C17_manual_single_boundary_connects.

(* every pair of conflicting accesses of the generated table shares a mutex (one side
   exclusively), or is ordered by the suspend/resume hand-shake, or its writer is one of the
   listed unprotected (variable, function) sites *)
Theorem C17_lock_discipline :
  forall a1 a2, In a1 lock_table -> In a2 lock_table -> conflicting a1 a2 = true ->
    by_mutex a1 a2 = true \/ ordered_by_handshake a1 a2 = true \/
    (a_write a1 = true /\ In (a_var a1, a_site a1) unprotected_pinned) \/
    (a_write a2 = true /\ In (a_var a2, a_site a2) unprotected_pinned).
Proof. exact lock_discipline. Qed.
Print Assumptions C17_lock_discipline.

(* each site of that list ([unprotected_pinned] = [unprotected_writers lock_table], computed from the
   table of the current tree) is a refutation of the discipline: a conflicting pair of the table
   with no common lock and no hand-shake.  The list is empty since commit c8404ce. *)
Theorem C17_lock_discipline_refuted :
  forall vw, In vw unprotected_pinned ->
    exists a1 a2, In a1 lock_table /\ In a2 lock_table /\ a_write a1 = true /\ (a_var a1, a_site a1) = vw /\
                  conflicting a1 a2 = true /\ protected a1 a2 = false.
Proof. exact lock_discipline_refuted. Qed.
Print Assumptions C17_lock_discipline_refuted.

(* CODE AS FOUND (before c8404ce): KeystoreManager.UpdateManagedKeystores touched managedKeystores
   without km.mu (worker goroutine, error paths) and AddrManager.updateManagedAddress wrote addrs
   without a.mu (API): the two conflicting pairs, taken from the table generated then, share no lock *)
Theorem C17_lock_discipline_found_refuted :
  unprotected_writers found_excerpt =
    [("KeystoreManager.managedKeystores", "KeystoreManager.updateManagedKeystore");
     ("AddrManager.addrs", "AddrManager.updateManagedAddress")]%string.
Proof. exact found_refuted. Qed.
Print Assumptions C17_lock_discipline_found_refuted.

(* non-vacuity *)
Example C17_ex_witness_stores_ok : forall j, (j < 3)%nat -> heights_ok (store_at w1_ss j).
Proof. exact w1_heights_ok. Qed.
Example C17_ex_build_witness_stores_ok : forall j, store_ok (store_at bw_ss j) 1.
Proof. exact bw_stores_ok. Qed.
Example C17_ex_table_nonempty : (100 <? Z.of_nat (List.length lock_table))%Z = true.
Proof. vm_compute. reflexivity. Qed.
