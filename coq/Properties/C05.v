(* Property C05 — secrets are never stored or returned in clear; only the right passphrase unlocks.
   Only statements here; each is closed by [exact] of a lemma proved in Keys/SecrecyProofs.v or
   Keys/UnlockProofs.v and followed (after the Section is closed) by Print Assumptions.

   Part 1 (symbolic): Keys/Store.v gives every row written under k/km/<id>/…, the exported
   keystore JSON, the error values and the signatures as terms of a Dolev–Yao algebra
   (Atom secret | Pub | Enc key t | Hash t | Kdf pass salt | Cat); Keys/Secrecy.v defines what an
   attacker derives from a set of terms and the histories (create, new address, sign, refused
   attempts, export, import of keystore / mnemonic, public-passphrase change, restart, removal,
   reveal, selection — and [SEnvFail o ...]: any of these FAILING with an error of the chain
   look-up, of another chain read or of the wallet database) that accumulate everything ever
   written or returned. The symbolic-crypto assumptions are the algebra itself: Enc opens only
   with its key, Hash / Kdf are one-way and free.
   Part 2 (unlock machine, Keys/Unlock.v): the gate, the frame of refusals, and the fate of the
   wrong key a failed scrypt check leaves in masterKeyPriv.
   Part 3 (keystore manager, Keys/Manager.v): several keystores in one KeystoreManager and the
   keystore in use — every keystore is relocked and wiped after use whatever the selection was and
   however it changed in between, refusals and operations on one keystore leave the others alone. *)
From Coq Require Import List ZArith Bool.
Import ListNotations.
Require Import MW.Codec.Bip32 MW.Keys.Store MW.Keys.Secrecy MW.Keys.SecrecyProofs
               MW.Keys.Unlock MW.Keys.UnlockProofs MW.Keys.Toy MW.Keys.SignWitness
               MW.Keys.Manager MW.Keys.ManagerProofs.
Open Scope Z_scope.

(* ------------------------------------------------------------------ Part 1 *)

(* After ANY history, no secret of any wallet that ever existed — entropy (= mnemonic words),
   private passphrase, seed, BIP-32 root, account and branch extended private keys, per-address
   private keys, the random crypto keys, the scrypt master key — is derivable from all rows ever
   written, all exported keystores, all error values, all signatures and every public passphrase.
   The histories contain environment failures at any step ([SEnvFail o f site ctx env]: operation
   [o] failed on the chain look-up / a chain read / the wallet database; its error value carries a
   constant text, ANY public context and ANY error text of the environment; the attacker is given
   everything the completed operation would have stored or returned on top of it), and [w_secret]
   also lists the secrets of wallets whose creation or import failed (C05_failed_attempt_secrets) *)
Theorem C05_no_plain_secret : forall ops s,
  In s (w_secret (srun init_world ops)) -> ~ derivable (knows (srun init_world ops)) s.
Proof. exact no_plain_secret. Qed.

(* [w_secret] is not a hand-picked list: it contains the secrets of every live keystore instance *)
Theorem C05_no_plain_secret_live : forall ops k s,
  In k (w_insts (srun init_world ops)) -> In s (secrets k) ->
  ~ derivable (knows (srun init_world ops)) s.
Proof. exact no_plain_secret_live. Qed.

(* a failed operation is rolled back (no new instance), the secrets it brought into being — the
   mnemonic and the passphrase of a wallet whose import or creation failed, held by NO instance —
   are among the secrets of C05_no_plain_secret, and the error value itself is public whatever the
   failing site, the public context and the environment's error text are *)
Theorem C05_failed_attempt_secrets : forall wd f site ctx env,
  (forall w coin el addrs,
     let wd' := sstep wd (SEnvFail (SImportMnemonic w coin el addrs) f site ctx env) in
     In (t_entropy w) (w_secret wd') /\ In (t_privpass w) (w_secret wd') /\ In (t_seed w) (w_secret wd') /\
     w_insts wd' = w_insts wd) /\
  (forall w coin el rl,
     let wd' := sstep wd (SEnvFail (SCreate w coin el rl) f site ctx env) in
     In (t_entropy w) (w_secret wd') /\ In (t_privpass w) (w_secret wd') /\ w_insts wd' = w_insts wd) /\
  (forall o, w_insts (sstep wd (SEnvFail o f site ctx env)) = w_insts wd /\
             w_secret (sstep wd (SEnvFail o f site ctx env)) = w_secret (sstep wd o) /\
             knows (sstep wd (SEnvFail o f site ctx env)) (env_error_term site ctx env) /\
             okb (env_error_term site ctx env) = true).
Proof.
  exact (fun wd f site ctx env =>
    conj (fun w coin el addrs => failed_import_secrets_listed wd w coin el addrs f site ctx env)
   (conj (fun w coin el rl => failed_create_secrets_listed wd w coin el rl f site ctx env)
         (fun o => conj (env_fail_rolls_back wd o f site ctx env)
                  (conj (env_fail_keeps_attempted_secrets wd o f site ctx env)
                        (env_fail_error_known wd o f site ctx env))))).
Qed.

(* the seeded regression ([pfix] = false: the error of a failed operation carries the operation's
   parameter record, as a "%v" of the WalletParams VALUE does): the mnemonic import whose chain
   look-up fails leaves no instance, and its error hands out the entropy (= the sentence) and the
   private passphrase; with the code as it is the same history gives the attacker public terms only *)
Theorem C05_error_carrying_parameters_refuted :
  let wd := srun_gen false init_world leak_history in
  w_insts wd = [] /\
  In (t_entropy 0) (w_secret wd) /\ derivable (knows wd) (t_entropy 0) /\
  In (t_privpass 0) (w_secret wd) /\ derivable (knows wd) (t_privpass 0) /\
  forallb okb (w_known (srun init_world leak_history)) = true.
Proof. exact error_carrying_parameters_refuted. Qed.

(* the argument: "the attacker may know it" is closed under derivation *)
Theorem C05_derivation_sound : forall (K : term -> Prop),
  (forall t, K t -> okb t = true) -> forall t, derivable K t -> okb t = true.
Proof. exact derivable_ok. Qed.

(* every stored row is fine to know, and a row's shape says "encrypted" exactly when its term is an
   encryption (the correspondence check compares these shapes with the raw LevelDB values) *)
Theorem C05_rows : forall k,
  Forall (fun r => okb (r_term r) = true) (rows k) /\ Forall (fun r => shape_agrees r = true) (rows k) /\
  okb (export_term k) = true /\ Forall (fun s => okb s = false) (secrets k).
Proof. exact (fun k => conj (rows_ok k) (conj (rows_shape_agree k) (conj (export_ok k) (secrets_not_ok k)))). Qed.

(* ------------------------------------------------------------------ Part 2 *)
Section C05.
  Variable kdf : bytes -> bytes -> bytes.
  Variable digest : bytes -> bytes.
  Variable shash : bytes -> bytes.
  Variable open_box : bytes -> bytes -> option bytes.
  Variable sk : Type.
  Variable sig : Type.
  Variable branch_ok : bytes -> bool.
  Variable derive_sk : bytes -> Z -> Z -> option sk.
  Variable sign : sk -> bytes -> sig.
  Variable zfix : bool.
  Variable sfix : bool.
  Variable nfix : bool.
  Variable cfg : amcfg.
  Variable right : bytes.
  Variable acct : bytes.
  Variable ent : bytes.
  Variable sk_of : addr -> sk.
  Hypothesis laws : unlock_laws kdf digest shash open_box sk branch_ok derive_sk cfg right acct ent sk_of.

  (* the salted buffer of checkPassword freshly allocated (see C05_salt_unfixed_refuted) *)
  Hypothesis Sfix : sfix = true.
  Hypothesis Nfix : nfix = true.

  Local Notation reachable := (reachable kdf digest shash open_box sk sig branch_ok derive_sk sign zfix sfix nfix cfg).
  Local Notation wreachable := (wreachable kdf digest shash open_box sk sig branch_ok derive_sk sign zfix sfix nfix cfg).
  Local Notation step_out := (step_out kdf digest shash open_box sk sig branch_ok derive_sk sign zfix sfix nfix cfg).
  Local Notation step_st := (step_st kdf digest shash open_box sk sig branch_ok derive_sk sign zfix sfix nfix cfg).
  Local Notation step_uses := (step_uses kdf digest shash open_box sk sig branch_ok derive_sk sign zfix sfix nfix cfg).

  (* the gate, in EVERY reachable state (any operations, any passphrases, before): an operation
     that needs a secret — sign, export, reveal mnemonic, the check guarding removal — succeeds
     exactly with the right passphrase, and any other passphrase gets the passphrase error.
     ([op_ready]: a signing request names an address of the keystore and a 32-byte hash.) *)
  Theorem C05_gate : forall st o p,
    zfix = true -> reachable st -> needs_secret o = Some p -> op_ready cfg o ->
    (is_ok (step_out st o) = true <-> p = right) /\
    (p <> right -> step_out st o = OutErr EInvalidPassphrase).
  Proof.
    exact (gate_fixed kdf digest shash open_box sk sig branch_ok derive_sk sign zfix sfix nfix cfg right acct ent sk_of laws Sfix Nfix).
  Qed.

  (* the same for the code as first found, restricted to the WalletManager's own calls other
     than the bare SignHash (SignRawTx always ends locked) *)
  Theorem C05_gate_wallet_level : forall st o p,
    wreachable st -> needs_secret o = Some p -> op_ready cfg o ->
    (is_ok (step_out st o) = true <-> p = right) /\
    (p <> right -> step_out st o = OutErr EInvalidPassphrase).
  Proof.
    exact (wgate kdf digest shash open_box sk sig branch_ok derive_sk sign zfix sfix nfix cfg right acct ent sk_of laws Sfix Nfix).
  Qed.

  (* the defect repaired by /repo commit 34102a8: as first found, after SignHash then
     ExportKeystore (both with the right passphrase) GetMnemonic with the right passphrase fails
     with a decryption error *)
  Theorem C05_gate_unfixed_refuted : forall a h,
    zfix = false -> sign_ready cfg a h ->
    exists st, reachable st /\ step_out st (OMnemonic right) = OutErr EDecryptFailed.
  Proof.
    exact (mnemonic_gate_refuted kdf digest shash open_box sk sig branch_ok derive_sk sign zfix sfix nfix cfg right acct ent sk_of laws Sfix Nfix).
  Qed.

  (* a refused attempt — whatever the error — neither unlocks nor alters anything: unlocked flag,
     salted passphrase hash, the salt, cached branch keys and cached private keys are unchanged (the store is
     not written by these operations at all); only the content of masterKeyPriv.Key may differ *)
  Theorem C05_refusal_frames : forall st o e,
    reachable st -> op_ready cfg o -> step_out st o = OutErr e -> same_but_mk sk st (step_st st o).
  Proof.
    exact (refusal_frames kdf digest shash open_box sk sig branch_ok derive_sk sign zfix sfix nfix cfg right acct ent sk_of laws Sfix Nfix).
  Qed.

  (* ... and that content — possibly the WRONG key a failed scrypt check left there — is never
     used: every decryption with masterKeyPriv.Key uses the right key or the zeroed key *)
  Theorem C05_wrong_key_never_used : forall st o k,
    reachable st -> op_ready cfg o -> In k (step_uses st o) -> k = good kdf cfg right \/ k = zero32.
  Proof.
    exact (wrong_key_never_used kdf digest shash open_box sk sig branch_ok derive_sk sign zfix sfix nfix cfg right acct ent sk_of laws Sfix Nfix).
  Qed.
End C05.

(* Finding empty-passphrase-zeroes-salt (the code as found, [sfix] = false): after SignHash with
   the right passphrase (manager unlocked) a refused attempt with the EMPTY passphrase zeroes the
   manager's salt; then export and reveal with the right passphrase answer the passphrase error.
   So both the frame of refusals and the gate fail for [sfix] = false. (Premises: the address is the
   keystore's, the hash has 32 bytes, the passphrase is not empty, and the salted SHA-512 of the
   passphrase differs for the zero salt and the manager's salt.) *)
Section C05Salt.
  Variable kdf : bytes -> bytes -> bytes.
  Variable digest : bytes -> bytes.
  Variable shash : bytes -> bytes.
  Variable open_box : bytes -> bytes -> option bytes.
  Variable sk : Type.
  Variable sig : Type.
  Variable branch_ok : bytes -> bool.
  Variable derive_sk : bytes -> Z -> Z -> option sk.
  Variable sign : sk -> bytes -> sig.
  Variable zfix : bool.
  Variable nfix : bool.
  Variable cfg : amcfg.
  Variable right : bytes.
  Variable acct : bytes.
  Variable ent : bytes.
  Variable sk_of : addr -> sk.
  Hypothesis laws : unlock_laws kdf digest shash open_box sk branch_ok derive_sk cfg right acct ent sk_of.

  Theorem C05_salt_unfixed_refuted : forall a h,
    sign_ready cfg a h -> right <> [] ->
    shash (zero32 ++ right) <> shash (c_run_salt cfg ++ right) ->
    exists st,
      reachable kdf digest shash open_box sk sig branch_ok derive_sk sign zfix false nfix cfg st /\
      s_unlocked st = true /\ s_salt st = zero32 /\
      step_out kdf digest shash open_box sk sig branch_ok derive_sk sign zfix false nfix cfg st (OExport right)
        = OutErr EInvalidPassphrase /\
      step_out kdf digest shash open_box sk sig branch_ok derive_sk sign zfix false nfix cfg st (OMnemonic right)
        = OutErr EInvalidPassphrase.
  Proof.
    exact (salt_defect_refuted kdf digest shash open_box sk sig branch_ok derive_sk sign zfix nfix cfg right acct ent sk_of laws).
  Qed.
End C05Salt.

(* Finding passphrase-trailing-nul-equivalent (the code as first found, [nfix] = false; repaired by
   /repo commit 30c1bd3): scrypt's HMAC zero-pads short keys, so the passphrase followed by a zero
   byte derives the same key; a locked manager then accepts it — e.g. the check guarding
   RemoveWallet, and export. (Premises: the stored digest is the digest of the passphrase's key,
   and the key derivation collides on the NUL-extended passphrase as HMAC does.) *)
Section C05Nul.
  Variable kdf : bytes -> bytes -> bytes.
  Variable digest : bytes -> bytes.
  Variable shash : bytes -> bytes.
  Variable open_box : bytes -> bytes -> option bytes.
  Variable sk : Type.
  Variable sig : Type.
  Variable branch_ok : bytes -> bool.
  Variable derive_sk : bytes -> Z -> Z -> option sk.
  Variable sign : sk -> bytes -> sig.
  Variable zfix sfix : bool.
  Variable cfg : amcfg.
  Variable right : bytes.

  Theorem C05_nul_unfixed_refuted :
    c_digest cfg = digest (kdf right (c_salt cfg)) ->
    kdf (right ++ [0]) (c_salt cfg) = kdf right (c_salt cfg) ->
    right ++ [0] <> right /\
    step_out kdf digest shash open_box sk sig branch_ok derive_sk sign zfix sfix false cfg
             (init_state cfg) (OCheck (right ++ [0])) = OutUnit /\
    step_out kdf digest shash open_box sk sig branch_ok derive_sk sign zfix sfix false cfg
             (init_state cfg) (OExport (right ++ [0])) = OutExport (export_of_cfg cfg).
  Proof.
    exact (nul_defect_refuted kdf digest shash open_box sk sig branch_ok derive_sk sign zfix sfix cfg right).
  Qed.
End C05Nul.


(* ------------------------------------------------------------------ Part 3: the keystore manager
   (Keys/Manager.v): the managed keystores (id, configuration, unlock state of Part 2 each) and the
   keystore in use. KeystoreManager calls [mop]: UseKeystoreForWallet, SignHash (the keystore is
   resolved from the address over ALL managed keystores), ClearPrivKey, ExportKeystore, GetMnemonic,
   CheckPrivPassphrase by id; callers' operations [wop]: any of these, or SignRawTx = per input (the
   look-up in the wallet in use, the script closure on the keystore in use, SignHash) and the
   deferred ClearPrivKey, with UseWallet requests of other callers interleaved at every point
   where the signing goroutine holds no lock. [mreachable l m]: m is reached from the freshly
   loaded keystores l by ANY list of callers' operations. *)
Section C05Manager.
  Variable kdf : bytes -> bytes -> bytes.
  Variable digest : bytes -> bytes.
  Variable shash : bytes -> bytes.
  Variable open_box : bytes -> bytes -> option bytes.
  Variable sk : Type.
  Variable sig : Type.
  Variable branch_ok : bytes -> bool.
  Variable derive_sk : bytes -> Z -> Z -> option sk.
  Variable sign : sk -> bytes -> sig.
  Variable zfix : bool.
  Variable sfix : bool.
  Variable nfix : bool.
  Variable cfix : bool.
  Variable name_of : kid -> addr -> aname.

  (* ClearPrivKey walks all managed keystores (see C05_manager_clear_in_use_only_refuted) *)
  Hypothesis Cfix : cfix = true.
  Hypothesis Sfix : sfix = true.
  Hypothesis Nfix : nfix = true.

  Local Notation mstep := (mstep kdf digest shash open_box sk sig branch_ok derive_sk sign zfix sfix nfix cfix name_of).
  Local Notation sign_raw := (sign_raw kdf digest shash open_box sk sig branch_ok derive_sk sign zfix sfix nfix cfix name_of).
  Local Notation wrun := (wrun kdf digest shash open_box sk sig branch_ok derive_sk sign zfix sfix nfix cfix name_of).
  Local Notation mreachable := (mreachable kdf digest shash open_box sk sig branch_ok derive_sk sign zfix sfix nfix cfix name_of).
  Local Notation lawful := (lawful kdf digest shash open_box sk branch_ok derive_sk).
  Local Notation reachable := (reachable kdf digest shash open_box sk sig branch_ok derive_sk sign zfix sfix nfix).

  (* (a) zeroing after use. In ANY manager state, every SignRawTx that gets past "no wallet in use"
     — signed, or refused at any input for any reason, any passphrase, whichever keystores signed,
     whatever keystore was in use and however the selection changed between the signatures and
     the deferred clearing — leaves EVERY managed keystore locked with the master key, the salted
     passphrase hash, the branch keys and the cached private keys gone *)
  Theorem C05_manager_sign_raw_wipes_all : forall m p ins last,
    fst (sign_raw m p ins last) <> MRefused MNoWalletInUse ->
    Forall (fun e => wiped (e_st e)) (m_ks (snd (sign_raw m p ins last))).
  Proof.
    exact (sign_raw_outcome kdf digest shash open_box sk sig branch_ok derive_sk sign zfix sfix nfix cfix name_of Cfix).
  Qed.

  (* ... with nothing in use SignRawTx is refused before anything is touched *)
  Theorem C05_manager_sign_raw_nothing_in_use : forall m p ins last,
    current m = None -> sign_raw m p ins last = (MRefused MNoWalletInUse, m).
  Proof.
    exact (sign_raw_nothing_in_use kdf digest shash open_box sk sig branch_ok derive_sk sign zfix sfix nfix cfix name_of).
  Qed.

  (* ... and so does ClearPrivKey called on its own *)
  Theorem C05_manager_clear_wipes_all : forall m,
    Forall (fun e => wiped (e_st e)) (m_ks (snd (mstep m MClear))).
  Proof.
    exact (clear_wipes_all kdf digest shash open_box sk sig branch_ok derive_sk sign zfix sfix nfix cfix name_of Cfix).
  Qed.

  (* for EVERY list of the WalletManager's own calls from freshly loaded keystores (UseWallet,
     SignRawTx with any interleaved UseWallet, ExportWallet, GetMnemonic, RemoveWallet's gate, any
     passphrases, any wallets; not the bare SignHash entry point, which never clears): between any
     two calls every managed keystore is locked with nothing derived or cached *)
  Theorem C05_manager_wallet_calls_end_locked : forall l ops,
    forallb wallet_call ops = true ->
    Forall (fun e => locked (e_st e)) (m_ks (wrun (fresh l) ops)).
  Proof.
    exact (wallet_calls_end_locked kdf digest shash open_box sk sig branch_ok derive_sk sign zfix sfix nfix cfix name_of Cfix).
  Qed.

  (* (b) in EVERY reachable manager state (any operations before, the bare SignHash included) a
     refused KeystoreManager call — any error, any keystore, in use or not — leaves the selection and
     every keystore's unlocked flag, salted hash, branch keys, cached keys and salt unchanged (only
     masterKeyPriv.Key of a locked keystore may hold the scratch value): it unlocks none.
     ([lawful]: each keystore has its own passphrase and secrets satisfying the laws of Part 2.) *)
  Theorem C05_manager_refusal_frames : forall l m o e,
    Forall (fun ic => lawful (snd ic)) l -> mreachable l m ->
    fst (mstep m o) = MRes (OutErr e) ->
    m_cur (snd (mstep m o)) = m_cur m /\
    Forall2 (fun a b => same_key sk a b /\ same_but_mk sk (e_st a) (e_st b)) (m_ks m) (m_ks (snd (mstep m o))).
  Proof.
    exact (manager_refusal_frames kdf digest shash open_box sk sig branch_ok derive_sk sign zfix sfix nfix cfix name_of Sfix Nfix).
  Qed.

  (* a refused SignRawTx leaves every keystore as it was or wiped: it unlocks none *)
  Theorem C05_manager_sign_raw_refusal : forall m p ins last,
    is_refusal (fst (sign_raw m p ins last)) = true ->
    Forall2 (fun a b => same_key sk a b /\ (e_st b = e_st a \/ wiped (e_st b)))
            (m_ks m) (m_ks (snd (sign_raw m p ins last))).
  Proof.
    exact (sign_raw_refusal kdf digest shash open_box sk sig branch_ok derive_sk sign zfix sfix nfix cfix name_of Cfix).
  Qed.

  (* (c) frame: a KeystoreManager call never changes an id or a configuration, and no keystore
     but one it may touch ([touches]: the keystore with the given id, a keystore that has the
     address; UseKeystoreForWallet none; ClearPrivKey all) ... *)
  Theorem C05_manager_keystore_frame : forall m o,
    Forall2 (fun a b => same_key sk a b /\ (touches sk name_of o a = false -> b = a))
            (m_ks m) (m_ks (snd (mstep m o))).
  Proof.
    exact (keystore_frame kdf digest shash open_box sk sig branch_ok derive_sk sign zfix sfix nfix cfix name_of).
  Qed.

  (* ... of those at most ONE, the first ... *)
  Theorem C05_manager_keystore_frame_one : forall m o, o <> MClear ->
    m_ks (snd (mstep m o)) = m_ks m \/
    exists l1 e e' l2, m_ks m = l1 ++ e :: l2 /\ m_ks (snd (mstep m o)) = l1 ++ e' :: l2 /\
                       touches sk name_of o e = true /\ same_key sk e e' /\
                       Forall (fun a => touches sk name_of o a = false) l1.
  Proof.
    exact (keystore_frame_one kdf digest shash open_box sk sig branch_ok derive_sk sign zfix sfix nfix cfix name_of).
  Qed.

  (* ... and only UseKeystoreForWallet changes the selection *)
  Theorem C05_manager_selection_frame : forall m o,
    (forall id, o <> MUse id) -> m_cur (snd (mstep m o)) = m_cur m.
  Proof.
    exact (selection_frame kdf digest shash open_box sk sig branch_ok derive_sk sign zfix sfix nfix cfix name_of).
  Qed.

  (* every managed keystore of every reachable manager state is in a reachable state of the
     single-keystore machine: the theorems of Part 2 hold for each of them, in use or not *)
  Theorem C05_manager_keystores_reachable : forall l m,
    mreachable l m -> Forall (fun e => reachable (e_cfg e) (e_st e)) (m_ks m).
  Proof.
    exact (keystores_reachable kdf digest shash open_box sk sig branch_ok derive_sk sign zfix sfix nfix cfix name_of).
  Qed.

  (* the gate at manager level: in every reachable manager state export, reveal, the removal gate
     (keystore found by id) and SignHash (keystore found through the address, 32-byte hash) succeed
     exactly with THAT keystore's passphrase and answer the passphrase error for any other —
     whether or not the keystore is in use, locked or left unlocked by an earlier SignHash *)
  Theorem C05_manager_gate : forall l m e0 right acct ent sk_of p o,
    zfix = true -> mreachable l m ->
    unlock_laws kdf digest shash open_box sk branch_ok derive_sk (e_cfg e0) right acct ent sk_of ->
    ((exists id, find (has_id id) (m_ks m) = Some e0 /\ (o = MExport id p \/ o = MMnemonic id p \/ o = MCheck id p)) \/
     (exists n h, find (has_addr sk name_of n) (m_ks m) = Some e0 /\ length h = 32%nat /\ o = MSign p n h)) ->
    (is_refusal (fst (mstep m o)) = false <-> p = right) /\
    (p <> right -> fst (mstep m o) = MRes (OutErr EInvalidPassphrase)).
  Proof.
    exact (manager_gate kdf digest shash open_box sk sig branch_ok derive_sk sign zfix sfix nfix cfix name_of Cfix Sfix Nfix).
  Qed.
End C05Manager.

(* (d) the variant "ClearPrivKey clears only the keystore in use" ([cfix] = false; seeded regression):
   two keystores, wallet 1 in use. (i) WalletManager calls only: SignRawTx signs a coin of wallet 1
   and another request selects wallet 2 before the deferred clearing — wallet 1 is not in use and
   stays unlocked with master key, salted hash, branch keys and a private key in memory;
   (ii) SignHash with a key of wallet 2, then an ordinary SignRawTx of wallet 1 — wallet 2 stays so. *)
Theorem C05_manager_clear_in_use_only_refuted :
  (forallb wallet_call w_switch = true /\ stays_unlocked (w_run false w_switch)) /\
  stays_unlocked (w_run false w_other).
Proof. exact clear_in_use_only_refuted. Qed.

Print Assumptions C05_no_plain_secret.
Print Assumptions C05_no_plain_secret_live.
Print Assumptions C05_failed_attempt_secrets.
Print Assumptions C05_error_carrying_parameters_refuted.
Print Assumptions C05_derivation_sound.
Print Assumptions C05_rows.
Print Assumptions C05_gate.
Print Assumptions C05_gate_wallet_level.
Print Assumptions C05_gate_unfixed_refuted.
Print Assumptions C05_refusal_frames.
Print Assumptions C05_wrong_key_never_used.
Print Assumptions C05_salt_unfixed_refuted.
Print Assumptions C05_nul_unfixed_refuted.
Print Assumptions C05_manager_sign_raw_wipes_all.
Print Assumptions C05_manager_sign_raw_nothing_in_use.
Print Assumptions C05_manager_clear_wipes_all.
Print Assumptions C05_manager_wallet_calls_end_locked.
Print Assumptions C05_manager_refusal_frames.
Print Assumptions C05_manager_sign_raw_refusal.
Print Assumptions C05_manager_keystore_frame.
Print Assumptions C05_manager_keystore_frame_one.
Print Assumptions C05_manager_selection_frame.
Print Assumptions C05_manager_keystores_reachable.
Print Assumptions C05_manager_gate.
Print Assumptions C05_manager_clear_in_use_only_refuted.

(* non-vacuity: the attacker holding the public passphrase does reach public material ... *)
Example C05_public_material_derivable :
  derivable (knows (srun init_world [SCreate 0 297 16 0])) (t_pubkey (t_acct 0 297)).
Proof. exact public_material_derivable. Qed.

(* ... the hypotheses of Part 2 are satisfiable ... *)
Example C05_laws_consistent :
  unlock_laws Toy.kdf Toy.digest Toy.shash Toy.open_box Toy.sk Toy.branch_ok Toy.derive_sk ex_cfg
              ex_right [4; 5; 6] [1; 2; 3] Toy.sk_of.
Proof. exact (proj1 ex_laws). Qed.

(* ... and a history with every kind of operation has secrets to protect *)
Example C05_ex_history :
  let wd := srun init_world [SCreate 0 297 16 3; SNewAddr 0 (0, 0); SSign 0 (0, 0) [1]; SRefused 7;
                             SExport 0; SImportKeystore 0; SChangePub; SRestart; SImportMnemonic 1 297 32 [(0, 0)]] in
  length (w_insts wd) = 3%nat /\ length (w_secret wd) = 36%nat /\
  forallb okb (w_known wd) = true /\ existsb okb (w_secret wd) = false.
Proof. vm_compute. repeat split; reflexivity. Qed.

(* ... also when operations fail on the environment in between (a failed creation, a failed mnemonic
   import on the chain look-up, a failed keystore import, export, signature, reveal, selection,
   passphrase change, removal and restart on the wallet database or a chain read): three instances
   again, MORE secrets (those of the two wallets that never came into being), nothing leaked *)
Example C05_ex_history_with_failures :
  let wd := srun init_world
     [SCreate 0 297 16 3; SEnvFail (SCreate 5 297 32 0) FStorage 13 [[1]] [100; 98];
      SNewAddr 0 (0, 0); SEnvFail (SNewAddr 0 (0, 1)) FStorage 2 [[101; 120]] [100];
      SSign 0 (0, 0) [1]; SEnvFail (SSign 0 (0, 0) [2]) FChainFetch 3 [] [99]; SRefused 7;
      SExport 0; SEnvFail (SExport 0) FStorage 9 [] [100]; SEnvFail (SReveal 0) FStorage 3 [] [100];
      SEnvFail (SUse 0) FStorage 4 [] [100];
      SImportKeystore 0; SEnvFail (SImportKeystore 0) FChainLookup 1 [] [99];
      SEnvFail SChangePub FStorage 7 [] [100]; SChangePub; SEnvFail SRestart FChainFetch 2 [] [99]; SRestart;
      SEnvFail (SImportMnemonic 6 297 24 [(0, 0); (1, 0)]) FChainLookup 12 [] [99];
      SEnvFail (SRemove 0) FStorage 10 [] [100];
      SImportMnemonic 1 297 32 [(0, 0)]] in
  length (w_insts wd) = 3%nat /\ (length (w_secret wd) > 36)%nat /\
  In (t_entropy 5) (w_secret wd) /\ In (t_entropy 6) (w_secret wd) /\
  forallb okb (w_known wd) = true /\ existsb okb (w_secret wd) = false.
Proof. vm_compute. repeat split; try reflexivity; try tauto. repeat constructor. Qed.

(* ... and the manager theorems are about histories that do sign: with the code as it is the two
   histories of C05_manager_clear_in_use_only_refuted return their signature and end with every
   keystore wiped (the selection having moved to wallet 2 in the first); in between wallet 2 WAS
   unlocked while not in use; and wallet 2 refuses wallet 1's passphrase *)
Example C05_manager_example :
  Forall (fun e => wiped (e_st e)) (m_ks (w_run true w_switch)) /\
  Forall (fun e => wiped (e_st e)) (m_ks (w_run true w_other)) /\
  m_cur (w_run true w_switch) = Some 2 /\
  (exists s, w_out true [WOp (MUse 1)] (WSignRaw [49] [([], [], w_name 1 (0, 0), w_hash)] [2]) = MSigs [s]) /\
  stays_unlocked (w_run true (firstn 2 w_other)) /\
  w_out true w_other (WOp (MExport 2 [49])) = MRes (OutErr EInvalidPassphrase).
Proof. exact manager_example. Qed.
