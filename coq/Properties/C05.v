(* Property C05 — secrets are never stored or returned in clear; only the right passphrase unlocks.
   Only statements here; each is closed by [exact] of a lemma proved in Keys/SecrecyProofs.v or
   Keys/UnlockProofs.v and followed (after the Section is closed) by Print Assumptions.

   Part 1 (symbolic): Keys/Store.v gives every row written under k/km/<id>/…, the exported
   keystore JSON, the error values and the signatures as terms of a Dolev–Yao algebra
   (Atom secret | Pub | Enc key t | Hash t | Kdf pass salt | Cat); Keys/Secrecy.v defines what an
   attacker derives from a set of terms and the histories (create, new address, sign, refused
   attempts, export, import of keystore / mnemonic, public-passphrase change, restart, removal)
   that accumulate everything ever written or returned. The symbolic-crypto assumptions are the
   algebra itself: Enc opens only with its key, Hash / Kdf are one-way and free.
   Part 2 (unlock machine, Keys/Unlock.v): the gate, the frame of refusals, and the fate of the
   wrong key a failed scrypt check leaves in masterKeyPriv. *)
From Coq Require Import List ZArith Bool.
Import ListNotations.
Require Import MW.Codec.Bip32 MW.Keys.Store MW.Keys.Secrecy MW.Keys.SecrecyProofs
               MW.Keys.Unlock MW.Keys.UnlockProofs MW.Keys.Toy MW.Keys.SignWitness.
Open Scope Z_scope.

(* ------------------------------------------------------------------ Part 1 *)

(* After ANY history, no secret of any wallet that ever existed — entropy (= mnemonic words),
   private passphrase, seed, BIP-32 root, account and branch extended private keys, per-address
   private keys, the random crypto keys, the scrypt master key — is derivable from all rows ever
   written, all exported keystores, all error values, all signatures and every public passphrase *)
Theorem C05_no_plain_secret : forall ops s,
  In s (w_secret (srun init_world ops)) -> ~ derivable (knows (srun init_world ops)) s.
Proof. exact no_plain_secret. Qed.

(* [w_secret] is not a hand-picked list: it contains the secrets of every live keystore instance *)
Theorem C05_no_plain_secret_live : forall ops k s,
  In k (w_insts (srun init_world ops)) -> In s (secrets k) ->
  ~ derivable (knows (srun init_world ops)) s.
Proof. exact no_plain_secret_live. Qed.

(* the argument: "the attacker may know it" is closed under derivation *)
Theorem C05_derivation_sound : forall (K : term -> Prop),
  (forall t, K t -> okb t = true) -> forall t, derivable K t -> okb t = true.
Proof. exact derivable_ok. Qed.

(* every stored row is fine to know, and a row's shape says "encrypted" exactly when its term is an
   encryption (the correspondence check compares these shapes with the raw LevelDB values) *)
Theorem C05_rows : forall k,
  Forall (fun r => okb (r_term r) = true) (rows k) /\ Forall (fun r => shape_agrees r = true) (rows k) /\
  okb (export_term k) = true /\ Forall (fun s => okb s = false) (secrets k).
Proof. exact (fun k => conj (rows_ok k) (conj (rows_shape_agree k) (conj (export_ok k) (secrets_not_ok k)))). Qed.

(* ------------------------------------------------------------------ Part 2 *)
Section C05.
  Variable kdf : bytes -> bytes -> bytes.
  Variable digest : bytes -> bytes.
  Variable shash : bytes -> bytes.
  Variable open_box : bytes -> bytes -> option bytes.
  Variable sk : Type.
  Variable sig : Type.
  Variable branch_ok : bytes -> bool.
  Variable derive_sk : bytes -> Z -> Z -> option sk.
  Variable sign : sk -> bytes -> sig.
  Variable zfix : bool.
  Variable sfix : bool.
  Variable nfix : bool.
  Variable cfg : amcfg.
  Variable right : bytes.
  Variable acct : bytes.
  Variable ent : bytes.
  Variable sk_of : addr -> sk.
  Hypothesis laws : unlock_laws kdf digest shash open_box sk branch_ok derive_sk cfg right acct ent sk_of.

  (* the salted buffer of checkPassword freshly allocated (see C05_salt_unfixed_refuted) *)
  Hypothesis Sfix : sfix = true.
  Hypothesis Nfix : nfix = true.

  Local Notation reachable := (reachable kdf digest shash open_box sk sig branch_ok derive_sk sign zfix sfix nfix cfg).
  Local Notation wreachable := (wreachable kdf digest shash open_box sk sig branch_ok derive_sk sign zfix sfix nfix cfg).
  Local Notation step_out := (step_out kdf digest shash open_box sk sig branch_ok derive_sk sign zfix sfix nfix cfg).
  Local Notation step_st := (step_st kdf digest shash open_box sk sig branch_ok derive_sk sign zfix sfix nfix cfg).
  Local Notation step_uses := (step_uses kdf digest shash open_box sk sig branch_ok derive_sk sign zfix sfix nfix cfg).

  (* the gate, in EVERY reachable state (any operations, any passphrases, before): an operation
     that needs a secret — sign, export, reveal mnemonic, the check guarding removal — succeeds
     exactly with the right passphrase, and any other passphrase gets the passphrase error.
     ([op_ready]: a signing request names an address of the keystore and a 32-byte hash.) *)
  Theorem C05_gate : forall st o p,
    zfix = true -> reachable st -> needs_secret o = Some p -> op_ready cfg o ->
    (is_ok (step_out st o) = true <-> p = right) /\
    (p <> right -> step_out st o = OutErr EInvalidPassphrase).
  Proof.
    exact (gate_fixed kdf digest shash open_box sk sig branch_ok derive_sk sign zfix sfix nfix cfg right acct ent sk_of laws Sfix Nfix).
  Qed.

  (* the same for the code as first found, restricted to the WalletManager's own calls other
     than the bare SignHash (SignRawTx always ends locked) *)
  Theorem C05_gate_wallet_level : forall st o p,
    wreachable st -> needs_secret o = Some p -> op_ready cfg o ->
    (is_ok (step_out st o) = true <-> p = right) /\
    (p <> right -> step_out st o = OutErr EInvalidPassphrase).
  Proof.
    exact (wgate kdf digest shash open_box sk sig branch_ok derive_sk sign zfix sfix nfix cfg right acct ent sk_of laws Sfix Nfix).
  Qed.

  (* the defect repaired by /repo commit 34102a8: as first found, after SignHash then
     ExportKeystore (both with the right passphrase) GetMnemonic with the right passphrase fails
     with a decryption error *)
  Theorem C05_gate_unfixed_refuted : forall a h,
    zfix = false -> sign_ready cfg a h ->
    exists st, reachable st /\ step_out st (OMnemonic right) = OutErr EDecryptFailed.
  Proof.
    exact (mnemonic_gate_refuted kdf digest shash open_box sk sig branch_ok derive_sk sign zfix sfix nfix cfg right acct ent sk_of laws Sfix Nfix).
  Qed.

  (* a refused attempt — whatever the error — neither unlocks nor alters anything: unlocked flag,
     salted passphrase hash, the salt, cached branch keys and cached private keys are unchanged (the store is
     not written by these operations at all); only the content of masterKeyPriv.Key may differ *)
  Theorem C05_refusal_frames : forall st o e,
    reachable st -> op_ready cfg o -> step_out st o = OutErr e -> same_but_mk sk st (step_st st o).
  Proof.
    exact (refusal_frames kdf digest shash open_box sk sig branch_ok derive_sk sign zfix sfix nfix cfg right acct ent sk_of laws Sfix Nfix).
  Qed.

  (* ... and that content — possibly the WRONG key a failed scrypt check left there — is never
     used: every decryption with masterKeyPriv.Key uses the right key or the zeroed key *)
  Theorem C05_wrong_key_never_used : forall st o k,
    reachable st -> op_ready cfg o -> In k (step_uses st o) -> k = good kdf cfg right \/ k = zero32.
  Proof.
    exact (wrong_key_never_used kdf digest shash open_box sk sig branch_ok derive_sk sign zfix sfix nfix cfg right acct ent sk_of laws Sfix Nfix).
  Qed.
End C05.

(* Finding empty-passphrase-zeroes-salt (the code as found, [sfix] = false): after SignHash with
   the right passphrase (manager unlocked) a refused attempt with the EMPTY passphrase zeroes the
   manager's salt; then export and reveal with the right passphrase answer the passphrase error.
   So both the frame of refusals and the gate fail for [sfix] = false. (Premises: the address is the
   keystore's, the hash has 32 bytes, the passphrase is not empty, and the salted SHA-512 of the
   passphrase differs for the zero salt and the manager's salt.) *)
Section C05Salt.
  Variable kdf : bytes -> bytes -> bytes.
  Variable digest : bytes -> bytes.
  Variable shash : bytes -> bytes.
  Variable open_box : bytes -> bytes -> option bytes.
  Variable sk : Type.
  Variable sig : Type.
  Variable branch_ok : bytes -> bool.
  Variable derive_sk : bytes -> Z -> Z -> option sk.
  Variable sign : sk -> bytes -> sig.
  Variable zfix : bool.
  Variable nfix : bool.
  Variable cfg : amcfg.
  Variable right : bytes.
  Variable acct : bytes.
  Variable ent : bytes.
  Variable sk_of : addr -> sk.
  Hypothesis laws : unlock_laws kdf digest shash open_box sk branch_ok derive_sk cfg right acct ent sk_of.

  Theorem C05_salt_unfixed_refuted : forall a h,
    sign_ready cfg a h -> right <> [] ->
    shash (zero32 ++ right) <> shash (c_run_salt cfg ++ right) ->
    exists st,
      reachable kdf digest shash open_box sk sig branch_ok derive_sk sign zfix false nfix cfg st /\
      s_unlocked st = true /\ s_salt st = zero32 /\
      step_out kdf digest shash open_box sk sig branch_ok derive_sk sign zfix false nfix cfg st (OExport right)
        = OutErr EInvalidPassphrase /\
      step_out kdf digest shash open_box sk sig branch_ok derive_sk sign zfix false nfix cfg st (OMnemonic right)
        = OutErr EInvalidPassphrase.
  Proof.
    exact (salt_defect_refuted kdf digest shash open_box sk sig branch_ok derive_sk sign zfix nfix cfg right acct ent sk_of laws).
  Qed.
End C05Salt.

(* Finding passphrase-trailing-nul-equivalent (the code as first found, [nfix] = false; repaired by
   /repo commit 30c1bd3): scrypt's HMAC zero-pads short keys, so the passphrase followed by a zero
   byte derives the same key; a locked manager then accepts it — e.g. the check guarding
   RemoveWallet, and export. (Premises: the stored digest is the digest of the passphrase's key,
   and the key derivation collides on the NUL-extended passphrase as HMAC does.) *)
Section C05Nul.
  Variable kdf : bytes -> bytes -> bytes.
  Variable digest : bytes -> bytes.
  Variable shash : bytes -> bytes.
  Variable open_box : bytes -> bytes -> option bytes.
  Variable sk : Type.
  Variable sig : Type.
  Variable branch_ok : bytes -> bool.
  Variable derive_sk : bytes -> Z -> Z -> option sk.
  Variable sign : sk -> bytes -> sig.
  Variable zfix sfix : bool.
  Variable cfg : amcfg.
  Variable right : bytes.

  Theorem C05_nul_unfixed_refuted :
    c_digest cfg = digest (kdf right (c_salt cfg)) ->
    kdf (right ++ [0]) (c_salt cfg) = kdf right (c_salt cfg) ->
    right ++ [0] <> right /\
    step_out kdf digest shash open_box sk sig branch_ok derive_sk sign zfix sfix false cfg
             (init_state cfg) (OCheck (right ++ [0])) = OutUnit /\
    step_out kdf digest shash open_box sk sig branch_ok derive_sk sign zfix sfix false cfg
             (init_state cfg) (OExport (right ++ [0])) = OutExport (export_of_cfg cfg).
  Proof.
    exact (nul_defect_refuted kdf digest shash open_box sk sig branch_ok derive_sk sign zfix sfix cfg right).
  Qed.
End C05Nul.

Print Assumptions C05_no_plain_secret.
Print Assumptions C05_no_plain_secret_live.
Print Assumptions C05_derivation_sound.
Print Assumptions C05_rows.
Print Assumptions C05_gate.
Print Assumptions C05_gate_wallet_level.
Print Assumptions C05_gate_unfixed_refuted.
Print Assumptions C05_refusal_frames.
Print Assumptions C05_wrong_key_never_used.
Print Assumptions C05_salt_unfixed_refuted.
Print Assumptions C05_nul_unfixed_refuted.

(* non-vacuity: the attacker holding the public passphrase does reach public material ... *)
Example C05_public_material_derivable :
  derivable (knows (srun init_world [SCreate 0 297 16 0])) (t_pubkey (t_acct 0 297)).
Proof. exact public_material_derivable. Qed.

(* ... the hypotheses of Part 2 are satisfiable ... *)
Example C05_laws_consistent :
  unlock_laws Toy.kdf Toy.digest Toy.shash Toy.open_box Toy.sk Toy.branch_ok Toy.derive_sk ex_cfg
              ex_right [4; 5; 6] [1; 2; 3] Toy.sk_of.
Proof. exact (proj1 ex_laws). Qed.

(* ... and a history with every kind of operation has secrets to protect *)
Example C05_ex_history :
  let wd := srun init_world [SCreate 0 297 16 3; SNewAddr 0 (0, 0); SSign 0 (0, 0) [1]; SRefused 7;
                             SExport 0; SImportKeystore 0; SChangePub; SRestart; SImportMnemonic 1 297 32 [(0, 0)]] in
  length (w_insts wd) = 3%nat /\ length (w_secret wd) = 36%nat /\
  forallb okb (w_known wd) = true /\ existsb okb (w_secret wd) = false.
Proof. vm_compute. repeat split; reflexivity. Qed.
