(* Property C10 — staking and binding deposits follow their lifecycle exactly.
   Only statements here; proofs are in Ledger/PendingProofs.v and Ledger/PendingProofs2.v.
   Model: Ledger/Pending.v (deposit rows of AddCredits / updateMinedBalance / Rollback, the history
   queries, eligibility of getUtxosExcludeBindingAndStaking, sequence assignment of constructTxIn /
   addTxIn, mass-core's CHECKSEQUENCEVERIFY operand and sequence-lock rule). *)
From Coq Require Import List ZArith NArith Bool.
Import ListNotations.
Open Scope Z_scope.
Require Import MW.Ledger.Model MW.Ledger.Spec MW.Ledger.Run MW.Ledger.WF MW.Ledger.Pending MW.Ledger.PendingProofs.
Require Import MW.Ledger.Proofs MW.Ledger.Proofs4 MW.Ledger.PendingProofs2.

(* ---- every deposit appears exactly once, with the right data, withdrawn iff spent *)

(* [rows_ok cs g]: the mined deposit rows g are exactly the staking/binding credits cs — every such credit
   has its row whose withdrawn bit is its spent mark, every row belongs to a credit, no row twice.
   Given that, the histories the wallet reports are exactly its deposit credits, each once, with the
   credit's amount / address / frozen period / height, withdrawn iff spent.  The link from credits to the
   best chain (a credit per output paying the wallet, spent iff a best-chain transaction spends it) is
   C01's theorem about the same [wstate].
   This statement is relative to [rows_ok]; it is now subsumed by C10_history_exact_reachable /
   C10_history_exact_chain below, which hold unconditionally in every reachable state. *)
Theorem C10_history_exact :
  forall n s w binding excl,
    rows_ok (credits (ps_w s)) (ps_game s) -> cred_unique (credits (ps_w s)) ->
    (forall c, In c (credits (ps_w s)) -> c_height c <> 0) ->
    (forall hr, In hr (mined_history n s w binding excl) <->
      exists c, In c (credits (ps_w s)) /\ c_wallet c = w /\ game_kind (c_class c) = Some binding /\
                (excl = true -> is_unspent c = true) /\
                (binding = true -> binding_tx_readable n s (c_tx c) (c_height c) = true) /\
                hr = hrow_of s c binding) /\
    NoDup (map (fun hr => (hr_tx hr, hr_height hr, hr_vout hr)) (mined_history n s w binding excl)).
Proof.
  intros n s w binding excl R U H. split; [apply mined_history_exact; assumption|apply mined_history_once; exact R].
Qed.
Print Assumptions C10_history_exact.

(* [rows_ok] is kept by every mined record (AddRelevantTx: updateMinedBalance flips the rows of the
   deposits it spends, AddCredits adds the rows of the deposits it creates); key uniqueness of the
   credits is C01's invariant and enters as a premise.  Subsumed by C10_rows_invariant below (every
   reachable state, connects AND Rollback, key uniqueness proved). *)
Theorem C10_history_rows_connect_partial :
  forall p h bid recs m m', m_apply_recs p h bid m recs = Some m' ->
    rows_ok (credits (m_w m)) (m_game m) ->
    (forall k mk, m_apply_recs p h bid m (firstn k recs) = Some mk -> cred_unique (credits (m_w mk))) ->
    rows_ok (credits (m_w m')) (m_game m').
Proof. exact m_apply_recs_rows_ok. Qed.
Print Assumptions C10_history_rows_connect_partial.

(* m_apply_recs is the mined side of the pending-aware connect (and its ledger part is C01's connect_block) *)
Theorem C10_history_rows_connect_is_the_store :
  forall p own h bid recs s s', p_apply_recs p own h bid s recs = POk s' ->
    m_apply_recs p h bid (mined s) recs = Some (mined s').
Proof. exact p_apply_recs_mined. Qed.
Print Assumptions C10_history_rows_connect_is_the_store.

(* Rollback of a withdrawal: exactly the rows of the deposits the rolled-back transaction had spent flip
   back to "not withdrawn"; no other row changes.  Step lemma; the invariant across whole Rollbacks is
   C10_rows_invariant below. *)
Theorem C10_rollback_rows_partial :
  forall idx cs g tid h g', unwithdraw_ins cs g tid h idx = POk g' ->
    (forall x, In x g' -> In x g \/ exists i c b, In i idx /\ debit_of cs tid i h = Some c /\ game_kind (c_class c) = Some b /\
                                       x = mk_grow (c_wallet c) b false (c_tx c) (c_height c) (c_vout c)) /\
    (forall x, In x g -> In x g' \/ exists i c b, In i idx /\ debit_of cs tid i h = Some c /\ game_kind (c_class c) = Some b /\
                                       x = mk_grow (c_wallet c) b true (c_tx c) (c_height c) (c_vout c)) /\
    (NoDup g -> NoDup g').
Proof. exact unwithdraw_ins_effect. Qed.
Print Assumptions C10_rollback_rows_partial.

(* ---- the row invariant in EVERY reachable state of EVERY well-formed history

   Histories: PvOwner (address issued), PvAttach / PvDetach (the node's best chain moves), PvProcess b
   (processConnectedBlock: connect, or Rollback to the fork point and connect the new branch, one commit
   or no change), PvReceive (an unconfirmed transaction is delivered), PvRestart.  [wf_phistory g h]
   (Ledger/PendingProofs2.v) is C01's [wf_history_gen] for these events — the node's chain is a [wf_chain]
   after every event, an address is issued (at any time) before an attached block pays it, a block id
   names one block, processed blocks were attached — plus: a transaction id names one transaction.
   Delivered unconfirmed transactions and restarts are unconstrained.  The state is the one after ANY
   prefix h1 of the history.

   The invariant is [rows_wk]: [rows_ok] with its third clause weakened, because [rows_ok] itself is
   FALSE in reachable states (C10_rows_ok_reachable_refuted): Rollback's coinbase branch deletes the
   credit of a coinbase transaction that paid a staking/binding script of the wallet but never its
   deposit row.  [rows_wk U own cs g]: every deposit credit has its row with withdrawn = spent; a row
   with the key of a credit is that credit's row; a row WITHOUT a credit is the unwithdrawn row of a
   coinbase deposit of a block of the history; no row twice.  Together with key uniqueness of the
   credits (NoDup of (tx, height, vout)), non-zero heights, and the ledger being C01's [L] of a
   well-formed chain made of blocks of the history. *)
Theorem C10_rows_invariant :
  forall p a3fix g h1 h2, wf_phistory g (h1 ++ h2) ->
    let q := prun p a3fix g h1 in
    let s := h_store (q_h q) in
    rows_wk (g :: pblocks_of_history (h1 ++ h2)) (own_of (q_own q)) (credits (ps_w s)) (ps_game s) /\
    cred_unique (credits (ps_w s)) /\
    (forall c, In c (credits (ps_w s)) -> c_height c <> 0) /\
    NoDup (ps_game s) /\
    exists c, wf_chain c /\ incl c (g :: pblocks_of_history (h1 ++ h2)) /\ ps_w s = L p (own_of (q_own q)) c.
Proof. exact rows_invariant. Qed.
Print Assumptions C10_rows_invariant.

(* plain [rows_ok] holds in every reachable state when no coinbase transaction of the history carries a
   staking/binding output *)
Theorem C10_rows_ok_reachable :
  forall p a3fix g h1 h2, wf_phistory g (h1 ++ h2) -> no_coinbase_deposit (g :: pblocks_of_history (h1 ++ h2)) ->
    let s := h_store (q_h (prun p a3fix g h1)) in
    rows_ok (credits (ps_w s)) (ps_game s).
Proof. exact rows_ok_reachable. Qed.
Print Assumptions C10_rows_ok_reachable.

(* ... and fails otherwise: g; address 1 of wallet 1; block 1 = [coinbase tx 1 paying (script 1, 5, staking 2)]
   attached and processed; detached; block 2 = [coinbase tx 2, standard] attached and processed.  The
   deposit row of tx 1 is still in the bucket, the only credit is that of tx 2.  (The row is not
   REPORTED: the history query finds no credit for it and skips it — see the next theorem.) *)
Theorem C10_rows_ok_reachable_refuted :
  exists p g evs, wf_phistory g evs /\
    let s := h_store (q_h (prun p true g evs)) in
    ~ rows_ok (credits (ps_w s)) (ps_game s) /\
    ps_game s = [mk_grow 1 false false 1 1 0] /\ map ckey (credits (ps_w s)) = [(2%N, 1, 0%N)].
Proof. exact rows_ok_reachable_refuted. Qed.
Print Assumptions C10_rows_ok_reachable_refuted.

(* ---- history exactness, unconditionally: in every reachable state the staking / binding history of
   wallet w lists exactly its deposit credits (amount, address, frozen period, height of the credit;
   withdrawn iff the credit is spent; flagged iff a pending spender is registered), each once *)
Theorem C10_history_exact_reachable :
  forall p a3fix g h1 h2, wf_phistory g (h1 ++ h2) ->
    let s := h_store (q_h (prun p a3fix g h1)) in
    forall n w binding excl,
      (forall hr, In hr (mined_history n s w binding excl) <->
        exists c, In c (credits (ps_w s)) /\ c_wallet c = w /\ game_kind (c_class c) = Some binding /\
                  (excl = true -> is_unspent c = true) /\
                  (binding = true -> binding_tx_readable n s (c_tx c) (c_height c) = true) /\
                  hr = hrow_of s c binding) /\
      NoDup (map (fun hr => (hr_tx hr, hr_height hr, hr_vout hr)) (mined_history n s w binding excl)).
Proof. exact history_exact_reachable. Qed.
Print Assumptions C10_history_exact_reachable.

(* the same read against the chain itself: the wallet follows a well-formed chain c of blocks of the
   history (its ledger is C01's L of c; c is the node's best chain whenever the node's tip was the last
   block processed successfully), and its histories list exactly the staking/binding outputs of c that
   pay wallet w — one row per output, with the output's amount, script hash, frozen period (maturity - 1)
   and block height, shown as withdrawn iff a transaction of c spends the output.  Reorganisations that
   roll back deposits and withdrawals and re-mine them are histories like any other. *)
Theorem C10_history_exact_chain :
  forall p a3fix g h1 h2, wf_phistory g (h1 ++ h2) ->
    let q := prun p a3fix g h1 in
    let s := h_store (q_h q) in
    let own := own_of (q_own q) in
    exists c, wf_chain c /\ from_g g c /\ incl c (g :: pblocks_of_history (h1 ++ h2)) /\ ps_w s = L p own c /\
      (forall n w binding excl,
        (forall hr, In hr (mined_history n s w binding excl) <->
           exists k, In k (coins_of_chain own c) /\ k_wallet k = w /\ game_kind (k_class k) = Some binding /\
                     (excl = true -> spent_in c (k_tx k, k_vout k) = false) /\
                     (binding = true -> binding_tx_readable n s (k_tx k) (k_height k) = true) /\
                     hr = hrow_of_coin p s c k binding) /\
        NoDup (map (fun hr => (hr_tx hr, hr_height hr, hr_vout hr)) (mined_history n s w binding excl))) /\
      (* the side condition on binding rows (GetBindingHistoryDetail re-reads the transaction from the node's
         block at that height) holds for every deposit whenever the wallet's chain is part of the node's *)
      (forall n k, wf_chain n -> incl c n -> In k (coins_of_chain own c) ->
                   binding_tx_readable n s (k_tx k) (k_height k) = true).
Proof. exact history_exact_chain. Qed.
Print Assumptions C10_history_exact_chain.

(* ---- excluded from ordinary funds and automatic selection *)

(* deposits are never chosen by automatic coin selection, nor are flagged, spent or immature coins *)
Theorem C10_excluded_from_selection :
  forall s w c, In c (eligible_list s w) ->
    In c (credits (ps_w s)) /\ c_wallet c = w /\
    is_std c = true /\ is_staking c = false /\ is_binding c = false /\ is_unspent c = true /\
    mature (ps_w s) c = true /\ spent_by_unmined s (credit_op c) = false.
Proof.
  intros s w c H. destruct (eligible_list_sound s w c H) as (H1 & H2 & H3).
  split; [exact H1|]. split; [exact H2|]. exact (eligible_is_standard s c H3).
Qed.
Print Assumptions C10_excluded_from_selection.

(* a deposit becomes withdrawable in the wallet's eyes exactly at the height from which consensus
   (CHECKSEQUENCEVERIFY operand + calcSequenceLock + SequenceLockActive) admits its withdrawal *)
Theorem C10_withdrawable_iff :
  forall p bp st c,
    c_maturity c = maturity_of p false (c_class c) ->
    bp_bindlock bp = p_bindlock p ->
    (match c_class c with
     | CStaking f => 0 <= f < 2 ^ 32 - 1
     | CBindingNew => bp_warmup bp <= c_height c
     | CBindingOld => c_height c < bp_warmup bp
     | _ => False
     end) ->
    0 <= p_bindlock p < 2 ^ 32 ->
    c_height c <= fst (tip st) ->
    let next := fst (tip st) + 1 in
    mature st c = true <->
    match csv_operand bp (c_class c) (c_height c) with
    | Some v => sequence_lock_active (c_height c) v next = true
    | None => True
    end.
Proof. exact mature_iff_consensus. Qed.
Print Assumptions C10_withdrawable_iff.

Theorem C10_withdrawable_staking :
  forall p st c f, c_class c = CStaking f -> c_maturity c = maturity_of p false (c_class c) ->
    (mature st c = true <-> c_height c + f + 1 <= fst (tip st) + 1).
Proof. exact staking_withdrawable_iff. Qed.
Print Assumptions C10_withdrawable_staking.

Theorem C10_new_binding_locked :
  forall p st c, c_class c = CBindingNew -> c_maturity c = maturity_of p false (c_class c) ->
    p_bindlock p = 2 ^ 32 - 2 ->
    mature st c = true -> c_height c + (2 ^ 32 - 2) <= fst (tip st) + 1.
Proof. exact new_binding_locked. Qed.
Print Assumptions C10_new_binding_locked.

(* a deposit made by a coinbase transaction is locked by the coinbase maturity and by its script *)
Theorem C10_withdrawable_coinbase_deposit :
  forall p st c, c_maturity c = maturity_of p true (c_class c) ->
    (mature st c = true <-> p_cbmat p <= confs st c /\ script_maturity p (c_class c) <= confs st c).
Proof. exact coinbase_deposit_both_locks. Qed.
Print Assumptions C10_withdrawable_coinbase_deposit.

(* the code as first found (repaired in 91b07dd) stored the coinbase maturity whatever the script says: the
   wallet called such a deposit withdrawable (and showed frozen period = coinbase maturity - 1) while
   consensus still locked it *)
Theorem C10_coinbase_deposit_unfixed_refuted :
  exists p bp st c,
    c_maturity c = maturity_as_found p true (c_class c) /\ c_class c = CStaking 10 /\
    mature st c = true /\
    match csv_operand bp (c_class c) (c_height c) with
    | Some v => sequence_lock_active (c_height c) v (fst (tip st) + 1) = false
    | None => False
    end.
Proof. exact coinbase_deposit_maturity_refuted. Qed.
Print Assumptions C10_coinbase_deposit_unfixed_refuted.

(* withdrawal inputs carry exactly the sequence the script engine demands for the lock (the least one) *)
Theorem C10_sequence :
  forall bp locktime cls h,
    0 <= bp_bindlock bp < 2 ^ 32 ->
    (forall f, cls = CStaking f -> 0 <= f < 2 ^ 32 - 1) ->
    match required_sequence bp cls h with
    | Some v => built_sequence bp locktime cls h = v /\ csv_ok (Some v) (built_sequence bp locktime cls h) = true /\
                (forall s, csv_ok (Some v) s = true -> 0 <= s -> v <= s)
    | None => True
    end.
Proof. exact built_sequence_required. Qed.
Print Assumptions C10_sequence.

(* ---- the statements are not vacuous: a deposit, its withdrawal, and the withdrawal reorganised away *)
Module Ex10.
  Definition p : params := {| p_cbmat := 1; p_bindlock := 4294967294 |}.
  Definition g : block := {| b_id := 0; b_prev := 0; b_height := 0; b_txs := [] |}.
  Definition cb (id : N) : tx := {| t_id := id; t_cb := true; t_ins := []; t_outs := [ {| o_sh := 1; o_val := 5; o_class := CStd |} ] |}.
  Definition dep : tx := {| t_id := 10; t_cb := false; t_ins := [(1, 0)%N]; t_outs := [ {| o_sh := 1; o_val := 5; o_class := CStaking 2 |} ] |}.
  Definition wd : tx := {| t_id := 11; t_cb := false; t_ins := [(10, 0)%N]; t_outs := [ {| o_sh := 1; o_val := 5; o_class := CStd |} ] |}.
  Definition b1 : block := {| b_id := 1; b_prev := 0; b_height := 1; b_txs := [cb 1] |}.
  Definition b2 : block := {| b_id := 2; b_prev := 1; b_height := 2; b_txs := [cb 2; dep] |}.
  Definition b3 : block := {| b_id := 3; b_prev := 2; b_height := 3; b_txs := [cb 3] |}.
  Definition b4 : block := {| b_id := 4; b_prev := 3; b_height := 4; b_txs := [cb 4] |}.
  Definition b5 : block := {| b_id := 5; b_prev := 4; b_height := 5; b_txs := [cb 5; wd] |}.
  Definition b5' : block := {| b_id := 6; b_prev := 4; b_height := 5; b_txs := [cb 6] |}.
  Definition upto4 : list pevent :=
    [PvOwner 1 1; PvAttach b1; PvProcess b1; PvAttach b2; PvProcess b2; PvAttach b3; PvProcess b3; PvAttach b4; PvProcess b4].
  Definition sim (evs : list pevent) := prun p true g evs.
  Definition hist (evs : list pevent) (excl : bool) :=
    map (fun r => (hr_tx r, hr_vout r, hr_amount r, hr_frozen r, hr_height r, hr_spent r, hr_pending r))
        (game_history (q_node (sim evs)) (h_store (q_h (sim evs))) 1%N false excl).
End Ex10.

(* deposited at height 2 with frozen period 2: listed once; not withdrawable at tip 3 (next height 4 < 2+2+1),
   withdrawable at tip 4 (next height 5) *)
Example C10_example_deposit :
  Ex10.hist Ex10.upto4 false = [(10%N, 0%N, 5, 2, 2, false, false)] /\
  bal_wstaking (ps_w (h_store (q_h (Ex10.sim (firstn 7 Ex10.upto4))))) 1%N = 0 /\
  bal_wstaking (ps_w (h_store (q_h (Ex10.sim Ex10.upto4)))) 1%N = 5 /\
  eligible_list (h_store (q_h (Ex10.sim Ex10.upto4))) 1%N <> [] /\
  Forall (fun c => is_std c = true) (eligible_list (h_store (q_h (Ex10.sim Ex10.upto4))) 1%N).
Proof.
  split; [vm_compute; reflexivity|]. split; [vm_compute; reflexivity|]. split; [vm_compute; reflexivity|].
  split; [vm_compute; discriminate|]. vm_compute. repeat constructor.
Qed.

(* withdrawn at height 5: shown as withdrawn, and absent from the "exclude withdrawn" list; when the
   withdrawal is reorganised away it is shown as not withdrawn again (and the withdrawal is pending) *)
Example C10_example_withdraw_and_reorg :
  Ex10.hist (Ex10.upto4 ++ [PvAttach Ex10.b5; PvProcess Ex10.b5]) false = [(10%N, 0%N, 5, 2, 2, true, false)] /\
  Ex10.hist (Ex10.upto4 ++ [PvAttach Ex10.b5; PvProcess Ex10.b5]) true = [] /\
  Ex10.hist (Ex10.upto4 ++ [PvAttach Ex10.b5; PvProcess Ex10.b5; PvDetach; PvAttach Ex10.b5'; PvProcess Ex10.b5']) true
    = [(10%N, 0%N, 5, 2, 2, false, false)] /\
  read_unmined (h_store (q_h (Ex10.sim (Ex10.upto4 ++ [PvAttach Ex10.b5; PvProcess Ex10.b5; PvDetach; PvAttach Ex10.b5'; PvProcess Ex10.b5'])))) 11%N
    = RdOk Ex10.wd.
Proof. vm_compute. repeat split; reflexivity. Qed.

(* the sequence the wallet writes for that withdrawal, and consensus admitting it exactly from height 5 on *)
Example C10_example_sequence :
  let bp := {| bp_warmup := 1398801; bp_bindlock := 4294967294 |} in
  built_sequence bp 0 (CStaking 2) 2 = 3 /\ required_sequence bp (CStaking 2) 2 = Some 3 /\
  sequence_lock_active 2 3 4 = false /\ sequence_lock_active 2 3 5 = true /\
  csv_ok (Some 3) max_sequence = false.
Proof. vm_compute. repeat split; reflexivity. Qed.

(* ---- the reachability theorems are not vacuous: the histories above are well formed, and so is a deep
   reorganisation that rolls back the deposit AND its withdrawal and re-mines both on another branch *)
Module Ex10r.
  Import Ex10.
  Definition full : list pevent := upto4 ++ [PvAttach b5; PvProcess b5; PvDetach; PvAttach b5'; PvProcess b5'].
  Definition c2 : block := {| b_id := 12; b_prev := 1; b_height := 2; b_txs := [cb 12] |}.
  Definition c3 : block := {| b_id := 13; b_prev := 12; b_height := 3; b_txs := [cb 13; dep] |}.
  Definition c4 : block := {| b_id := 14; b_prev := 13; b_height := 4; b_txs := [cb 14] |}.
  Definition c5 : block := {| b_id := 15; b_prev := 14; b_height := 5; b_txs := [cb 15] |}.
  Definition c6 : block := {| b_id := 16; b_prev := 15; b_height := 6; b_txs := [cb 16; wd] |}.
  (* the node drops b5', b4, b3, b2 and follows c2 … c6; the wallet is told about c3, then about c6 only *)
  Definition to_c3 : list pevent :=
    full ++ [PvDetach; PvDetach; PvDetach; PvDetach; PvAttach c2; PvAttach c3; PvProcess c3].
  Definition deep : list pevent := to_c3 ++ [PvAttach c4; PvAttach c5; PvAttach c6; PvProcess c6].
End Ex10r.

Example C10_example_histories_wf :
  wf_phistory Ex10.g Ex10r.full /\ wf_phistory Ex10.g Ex10r.deep.
Proof. split; apply wf_phistory_b_sound; vm_compute; reflexivity. Qed.

(* after the deep reorganisation reached c3: the deposit (rolled back from height 2, where it had been
   withdrawn and un-withdrawn) is listed once, at its new height 3, not withdrawn, and its old rows are gone;
   after c6: withdrawn again, by the re-mined withdrawal *)
Example C10_example_deep_reorg :
  Ex10.hist Ex10r.to_c3 false = [(10%N, 0%N, 5, 2, 3, false, false)] /\
  map (fun r => (g_tx r, g_height r, g_withdrawn r)) (ps_game (h_store (q_h (Ex10.sim Ex10r.to_c3)))) = [(10%N, 3, false)] /\
  Ex10.hist Ex10r.deep false = [(10%N, 0%N, 5, 2, 3, true, false)] /\
  Ex10.hist Ex10r.deep true = [] /\
  map (fun r => (g_tx r, g_height r, g_withdrawn r)) (ps_game (h_store (q_h (Ex10.sim Ex10r.deep)))) = [(10%N, 3, true)].
Proof. vm_compute. repeat split; reflexivity. Qed.
