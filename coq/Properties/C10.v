(* Property C10 — staking and binding deposits follow their lifecycle exactly.
   Only statements here; proofs are in Ledger/PendingProofs.v.
   Model: Ledger/Pending.v (deposit rows of AddCredits / updateMinedBalance / Rollback, the history
   queries, eligibility of getUtxosExcludeBindingAndStaking, sequence assignment of constructTxIn /
   addTxIn, mass-core's CHECKSEQUENCEVERIFY operand and sequence-lock rule). *)
From Coq Require Import List ZArith NArith Bool.
Import ListNotations.
Open Scope Z_scope.
Require Import MW.Ledger.Model MW.Ledger.Spec MW.Ledger.Run MW.Ledger.Pending MW.Ledger.PendingProofs.

(* ---- every deposit appears exactly once, with the right data, withdrawn iff spent *)

(* [rows_ok cs g]: the mined deposit rows g are exactly the staking/binding credits cs — every such credit
   has its row whose withdrawn bit is its spent mark, every row belongs to a credit, no row twice.
   Given that, the histories the wallet reports are exactly its deposit credits, each once, with the
   credit's amount / address / frozen period / height, withdrawn iff spent.  The link from credits to the
   best chain (a credit per output paying the wallet, spent iff a best-chain transaction spends it) is
   C01's theorem about the same [wstate]. *)
Theorem C10_history_exact :
  forall n s w binding excl,
    rows_ok (credits (ps_w s)) (ps_game s) -> cred_unique (credits (ps_w s)) ->
    (forall c, In c (credits (ps_w s)) -> c_height c <> 0) ->
    (forall hr, In hr (mined_history n s w binding excl) <->
      exists c, In c (credits (ps_w s)) /\ c_wallet c = w /\ game_kind (c_class c) = Some binding /\
                (excl = true -> is_unspent c = true) /\
                (binding = true -> binding_tx_readable n s (c_tx c) (c_height c) = true) /\
                hr = hrow_of s c binding) /\
    NoDup (map (fun hr => (hr_tx hr, hr_height hr, hr_vout hr)) (mined_history n s w binding excl)).
Proof.
  intros n s w binding excl R U H. split; [apply mined_history_exact; assumption|apply mined_history_once; exact R].
Qed.
Print Assumptions C10_history_exact.

(* [rows_ok] is kept by every mined record (AddRelevantTx: updateMinedBalance flips the rows of the
   deposits it spends, AddCredits adds the rows of the deposits it creates); key uniqueness of the
   credits is C01's invariant and enters as a premise.  The same for Rollback is NOT proved as an
   invariant (it needs C01's block-record invariant); C10_rollback_rows_partial is the step lemma, the
   correspondence check compares the buckets themselves across reorganisations. *)
Theorem C10_history_rows_connect_partial :
  forall p h bid recs m m', m_apply_recs p h bid m recs = Some m' ->
    rows_ok (credits (m_w m)) (m_game m) ->
    (forall k mk, m_apply_recs p h bid m (firstn k recs) = Some mk -> cred_unique (credits (m_w mk))) ->
    rows_ok (credits (m_w m')) (m_game m').
Proof. exact m_apply_recs_rows_ok. Qed.
Print Assumptions C10_history_rows_connect_partial.

(* m_apply_recs is the mined side of the pending-aware connect (and its ledger part is C01's connect_block) *)
Theorem C10_history_rows_connect_is_the_store :
  forall p own h bid recs s s', p_apply_recs p own h bid s recs = POk s' ->
    m_apply_recs p h bid (mined s) recs = Some (mined s').
Proof. exact p_apply_recs_mined. Qed.
Print Assumptions C10_history_rows_connect_is_the_store.

(* Rollback of a withdrawal: exactly the rows of the deposits the rolled-back transaction had spent flip
   back to "not withdrawn"; no other row changes *)
Theorem C10_rollback_rows_partial :
  forall idx cs g tid h g', unwithdraw_ins cs g tid h idx = POk g' ->
    (forall x, In x g' -> In x g \/ exists i c b, In i idx /\ debit_of cs tid i h = Some c /\ game_kind (c_class c) = Some b /\
                                       x = mk_grow (c_wallet c) b false (c_tx c) (c_height c) (c_vout c)) /\
    (forall x, In x g -> In x g' \/ exists i c b, In i idx /\ debit_of cs tid i h = Some c /\ game_kind (c_class c) = Some b /\
                                       x = mk_grow (c_wallet c) b true (c_tx c) (c_height c) (c_vout c)) /\
    (NoDup g -> NoDup g').
Proof. exact unwithdraw_ins_effect. Qed.
Print Assumptions C10_rollback_rows_partial.

(* ---- excluded from ordinary funds and automatic selection *)

(* deposits are never chosen by automatic coin selection, nor are flagged, spent or immature coins *)
Theorem C10_excluded_from_selection :
  forall s w c, In c (eligible_list s w) ->
    In c (credits (ps_w s)) /\ c_wallet c = w /\
    is_std c = true /\ is_staking c = false /\ is_binding c = false /\ is_unspent c = true /\
    mature (ps_w s) c = true /\ spent_by_unmined s (credit_op c) = false.
Proof.
  intros s w c H. destruct (eligible_list_sound s w c H) as (H1 & H2 & H3).
  split; [exact H1|]. split; [exact H2|]. exact (eligible_is_standard s c H3).
Qed.
Print Assumptions C10_excluded_from_selection.

(* a deposit becomes withdrawable in the wallet's eyes exactly at the height from which consensus
   (CHECKSEQUENCEVERIFY operand + calcSequenceLock + SequenceLockActive) admits its withdrawal *)
Theorem C10_withdrawable_iff :
  forall p bp st c,
    c_maturity c = maturity_of p false (c_class c) ->
    bp_bindlock bp = p_bindlock p ->
    (match c_class c with
     | CStaking f => 0 <= f < 2 ^ 32 - 1
     | CBindingNew => bp_warmup bp <= c_height c
     | CBindingOld => c_height c < bp_warmup bp
     | _ => False
     end) ->
    0 <= p_bindlock p < 2 ^ 32 ->
    c_height c <= fst (tip st) ->
    let next := fst (tip st) + 1 in
    mature st c = true <->
    match csv_operand bp (c_class c) (c_height c) with
    | Some v => sequence_lock_active (c_height c) v next = true
    | None => True
    end.
Proof. exact mature_iff_consensus. Qed.
Print Assumptions C10_withdrawable_iff.

Theorem C10_withdrawable_staking :
  forall p st c f, c_class c = CStaking f -> c_maturity c = maturity_of p false (c_class c) ->
    (mature st c = true <-> c_height c + f + 1 <= fst (tip st) + 1).
Proof. exact staking_withdrawable_iff. Qed.
Print Assumptions C10_withdrawable_staking.

Theorem C10_new_binding_locked :
  forall p st c, c_class c = CBindingNew -> c_maturity c = maturity_of p false (c_class c) ->
    p_bindlock p = 2 ^ 32 - 2 ->
    mature st c = true -> c_height c + (2 ^ 32 - 2) <= fst (tip st) + 1.
Proof. exact new_binding_locked. Qed.
Print Assumptions C10_new_binding_locked.

(* a deposit made by a coinbase transaction is locked by the coinbase maturity and by its script *)
Theorem C10_withdrawable_coinbase_deposit :
  forall p st c, c_maturity c = maturity_of p true (c_class c) ->
    (mature st c = true <-> p_cbmat p <= confs st c /\ script_maturity p (c_class c) <= confs st c).
Proof. exact coinbase_deposit_both_locks. Qed.
Print Assumptions C10_withdrawable_coinbase_deposit.

(* the code as first found (repaired in 91b07dd) stored the coinbase maturity whatever the script says: the
   wallet called such a deposit withdrawable (and showed frozen period = coinbase maturity - 1) while
   consensus still locked it *)
Theorem C10_coinbase_deposit_unfixed_refuted :
  exists p bp st c,
    c_maturity c = maturity_as_found p true (c_class c) /\ c_class c = CStaking 10 /\
    mature st c = true /\
    match csv_operand bp (c_class c) (c_height c) with
    | Some v => sequence_lock_active (c_height c) v (fst (tip st) + 1) = false
    | None => False
    end.
Proof. exact coinbase_deposit_maturity_refuted. Qed.
Print Assumptions C10_coinbase_deposit_unfixed_refuted.

(* withdrawal inputs carry exactly the sequence the script engine demands for the lock (the least one) *)
Theorem C10_sequence :
  forall bp locktime cls h,
    0 <= bp_bindlock bp < 2 ^ 32 ->
    (forall f, cls = CStaking f -> 0 <= f < 2 ^ 32 - 1) ->
    match required_sequence bp cls h with
    | Some v => built_sequence bp locktime cls h = v /\ csv_ok (Some v) (built_sequence bp locktime cls h) = true /\
                (forall s, csv_ok (Some v) s = true -> 0 <= s -> v <= s)
    | None => True
    end.
Proof. exact built_sequence_required. Qed.
Print Assumptions C10_sequence.

(* ---- the statements are not vacuous: a deposit, its withdrawal, and the withdrawal reorganised away *)
Module Ex10.
  Definition p : params := {| p_cbmat := 1; p_bindlock := 4294967294 |}.
  Definition g : block := {| b_id := 0; b_prev := 0; b_height := 0; b_txs := [] |}.
  Definition cb (id : N) : tx := {| t_id := id; t_cb := true; t_ins := []; t_outs := [ {| o_sh := 1; o_val := 5; o_class := CStd |} ] |}.
  Definition dep : tx := {| t_id := 10; t_cb := false; t_ins := [(1, 0)%N]; t_outs := [ {| o_sh := 1; o_val := 5; o_class := CStaking 2 |} ] |}.
  Definition wd : tx := {| t_id := 11; t_cb := false; t_ins := [(10, 0)%N]; t_outs := [ {| o_sh := 1; o_val := 5; o_class := CStd |} ] |}.
  Definition b1 : block := {| b_id := 1; b_prev := 0; b_height := 1; b_txs := [cb 1] |}.
  Definition b2 : block := {| b_id := 2; b_prev := 1; b_height := 2; b_txs := [cb 2; dep] |}.
  Definition b3 : block := {| b_id := 3; b_prev := 2; b_height := 3; b_txs := [cb 3] |}.
  Definition b4 : block := {| b_id := 4; b_prev := 3; b_height := 4; b_txs := [cb 4] |}.
  Definition b5 : block := {| b_id := 5; b_prev := 4; b_height := 5; b_txs := [cb 5; wd] |}.
  Definition b5' : block := {| b_id := 6; b_prev := 4; b_height := 5; b_txs := [cb 6] |}.
  Definition upto4 : list pevent :=
    [PvOwner 1 1; PvAttach b1; PvProcess b1; PvAttach b2; PvProcess b2; PvAttach b3; PvProcess b3; PvAttach b4; PvProcess b4].
  Definition sim (evs : list pevent) := prun p true g evs.
  Definition hist (evs : list pevent) (excl : bool) :=
    map (fun r => (hr_tx r, hr_vout r, hr_amount r, hr_frozen r, hr_height r, hr_spent r, hr_pending r))
        (game_history (q_node (sim evs)) (h_store (q_h (sim evs))) 1%N false excl).
End Ex10.

(* deposited at height 2 with frozen period 2: listed once; not withdrawable at tip 3 (next height 4 < 2+2+1),
   withdrawable at tip 4 (next height 5) *)
Example C10_example_deposit :
  Ex10.hist Ex10.upto4 false = [(10%N, 0%N, 5, 2, 2, false, false)] /\
  bal_wstaking (ps_w (h_store (q_h (Ex10.sim (firstn 7 Ex10.upto4))))) 1%N = 0 /\
  bal_wstaking (ps_w (h_store (q_h (Ex10.sim Ex10.upto4)))) 1%N = 5 /\
  eligible_list (h_store (q_h (Ex10.sim Ex10.upto4))) 1%N <> [] /\
  Forall (fun c => is_std c = true) (eligible_list (h_store (q_h (Ex10.sim Ex10.upto4))) 1%N).
Proof.
  split; [vm_compute; reflexivity|]. split; [vm_compute; reflexivity|]. split; [vm_compute; reflexivity|].
  split; [vm_compute; discriminate|]. vm_compute. repeat constructor.
Qed.

(* withdrawn at height 5: shown as withdrawn, and absent from the "exclude withdrawn" list; when the
   withdrawal is reorganised away it is shown as not withdrawn again (and the withdrawal is pending) *)
Example C10_example_withdraw_and_reorg :
  Ex10.hist (Ex10.upto4 ++ [PvAttach Ex10.b5; PvProcess Ex10.b5]) false = [(10%N, 0%N, 5, 2, 2, true, false)] /\
  Ex10.hist (Ex10.upto4 ++ [PvAttach Ex10.b5; PvProcess Ex10.b5]) true = [] /\
  Ex10.hist (Ex10.upto4 ++ [PvAttach Ex10.b5; PvProcess Ex10.b5; PvDetach; PvAttach Ex10.b5'; PvProcess Ex10.b5']) true
    = [(10%N, 0%N, 5, 2, 2, false, false)] /\
  read_unmined (h_store (q_h (Ex10.sim (Ex10.upto4 ++ [PvAttach Ex10.b5; PvProcess Ex10.b5; PvDetach; PvAttach Ex10.b5'; PvProcess Ex10.b5'])))) 11%N
    = RdOk Ex10.wd.
Proof. vm_compute. repeat split; reflexivity. Qed.

(* the sequence the wallet writes for that withdrawal, and consensus admitting it exactly from height 5 on *)
Example C10_example_sequence :
  let bp := {| bp_warmup := 1398801; bp_bindlock := 4294967294 |} in
  built_sequence bp 0 (CStaking 2) 2 = 3 /\ required_sequence bp (CStaking 2) 2 = Some 3 /\
  sequence_lock_active 2 3 4 = false /\ sequence_lock_active 2 3 5 = true /\
  csv_ok (Some 3) max_sequence = false.
Proof. vm_compute. repeat split; reflexivity. Qed.
