(* Property C10 — staking and binding deposits follow their lifecycle exactly.
   Only statements here; proofs are in Ledger/PendingProofs.v.
   Model: Ledger/Pending.v (deposit rows of AddCredits / updateMinedBalance / Rollback, the history
   queries, eligibility of getUtxosExcludeBindingAndStaking, sequence assignment of constructTxIn /
   addTxIn, mass-core's CHECKSEQUENCEVERIFY operand and sequence-lock rule). *)
From Coq Require Import List ZArith NArith Bool.
Import ListNotations.
Open Scope Z_scope.
Require Import MW.Ledger.Model MW.Ledger.Spec MW.Ledger.Run MW.Ledger.Pending MW.Ledger.PendingProofs.

(* deposits are never chosen by automatic coin selection, nor are flagged, spent or immature coins *)
Theorem C10_excluded_from_selection :
  forall s w c, In c (eligible_list s w) ->
    In c (credits (ps_w s)) /\ c_wallet c = w /\
    is_std c = true /\ is_staking c = false /\ is_binding c = false /\ is_unspent c = true /\
    mature (ps_w s) c = true /\ spent_by_unmined s (credit_op c) = false.
Proof.
  intros s w c H. destruct (eligible_list_sound s w c H) as (H1 & H2 & H3).
  split; [exact H1|]. split; [exact H2|]. exact (eligible_is_standard s c H3).
Qed.
Print Assumptions C10_excluded_from_selection.

(* a deposit becomes withdrawable in the wallet's eyes exactly at the height from which consensus
   (CHECKSEQUENCEVERIFY operand + calcSequenceLock + SequenceLockActive) admits its withdrawal *)
Theorem C10_withdrawable_iff :
  forall p bp st c,
    c_maturity c = maturity_of p false (c_class c) ->
    bp_bindlock bp = p_bindlock p ->
    (match c_class c with
     | CStaking f => 0 <= f < 2 ^ 32 - 1
     | CBindingNew => bp_warmup bp <= c_height c
     | CBindingOld => c_height c < bp_warmup bp
     | _ => False
     end) ->
    0 <= p_bindlock p < 2 ^ 32 ->
    c_height c <= fst (tip st) ->
    let next := fst (tip st) + 1 in
    mature st c = true <->
    match csv_operand bp (c_class c) (c_height c) with
    | Some v => sequence_lock_active (c_height c) v next = true
    | None => True
    end.
Proof. exact mature_iff_consensus. Qed.
Print Assumptions C10_withdrawable_iff.

Theorem C10_withdrawable_staking :
  forall p st c f, c_class c = CStaking f -> c_maturity c = maturity_of p false (c_class c) ->
    (mature st c = true <-> c_height c + f + 1 <= fst (tip st) + 1).
Proof. exact staking_withdrawable_iff. Qed.
Print Assumptions C10_withdrawable_staking.

Theorem C10_new_binding_locked :
  forall p st c, c_class c = CBindingNew -> c_maturity c = maturity_of p false (c_class c) ->
    p_bindlock p = 2 ^ 32 - 2 ->
    mature st c = true -> c_height c + (2 ^ 32 - 2) <= fst (tip st) + 1.
Proof. exact new_binding_locked. Qed.
Print Assumptions C10_new_binding_locked.

(* the rule is wrong for deposits made by a coinbase transaction: the stored maturity is the coinbase
   maturity, so the wallet calls such a deposit withdrawable (and shows frozen period = coinbase
   maturity - 1) while consensus still locks it *)
Theorem C10_coinbase_deposit_refuted :
  exists p bp st c,
    c_maturity c = maturity_of p true (c_class c) /\ c_class c = CStaking 10 /\
    mature st c = true /\
    match csv_operand bp (c_class c) (c_height c) with
    | Some v => sequence_lock_active (c_height c) v (fst (tip st) + 1) = false
    | None => False
    end.
Proof. exact coinbase_deposit_maturity_refuted. Qed.
Print Assumptions C10_coinbase_deposit_refuted.

(* withdrawal inputs carry exactly the sequence the script engine demands for the lock (the least one) *)
Theorem C10_sequence :
  forall bp locktime cls h,
    0 <= bp_bindlock bp < 2 ^ 32 ->
    (forall f, cls = CStaking f -> 0 <= f < 2 ^ 32 - 1) ->
    match required_sequence bp cls h with
    | Some v => built_sequence bp locktime cls h = v /\ csv_ok (Some v) (built_sequence bp locktime cls h) = true /\
                (forall s, csv_ok (Some v) s = true -> 0 <= s -> v <= s)
    | None => True
    end.
Proof. exact built_sequence_required. Qed.
Print Assumptions C10_sequence.
