(* Property C13 — mnemonic encoding is exactly BIP-39.
   Only statements here; each is closed by [exact] of a lemma proved in Codec/Bip39Proofs.v and
   followed by Print Assumptions.
   Model: Codec/Bip39.v (keystore.NewMnemonic, EntropyFromMnemonic, MnemonicToByteArray,
   IsMnemonicValid, NewSeed, NewSeedWithErrorChecking with math/big, strings.Fields/TrimSpace and
   the mask/shift tables as written in mnemonic.go).
   Specification, written from the BIP-39 text at the level of bit strings:
     spec_encode H e       = words of the 11-bit groups of  bits(e) ++ first |e|*8/32 bits of H(e), joined by ' '
     valid_sentence H ws e = ws has 12/15/18/21/24 words, all on the list, and the concatenation of their
                             11-bit indexes is  bits(e) ++ checksum bits of e   (spec_decode = its executable form)
     bip39_seed            = PBKDF2(sentence joined by single spaces, "mnemonic" ++ NFKD(passphrase), 2048, 64)
   H (SHA-256), PBKDF2 and NFKD are universally quantified: the theorems hold for every function;
   [hash_wf H] only says that H returns at least one byte (value 0..255).
   The word list is coq/Gen/Wordlist.v, regenerated from wordlists/english.go on every run. *)
From Coq Require Import List ZArith Lia.
Import ListNotations.
Open Scope Z_scope.
Require Import MW.Gen.Wordlist MW.Codec.Bip39 MW.Codec.Bip39Proofs.

(* the generated list has 2048 distinct entries (so an 11-bit group always names one word, and a word one group) *)
Theorem C13_wordlist : len wordlist = 2048 /\ NoDup wordlist.
Proof. exact (conj wordlist_len wordlist_nodup). Qed.
Print Assumptions C13_wordlist.

(* NewMnemonic computes exactly the BIP-39 encoding: every byte string, all five sizes (any leading zero
   bytes), and the same error for every other size *)
Theorem C13_encode_is_spec : forall H, hash_wf H -> forall e : bytes,
  bytes_ok e -> new_mnemonic H e = spec_encode H e.
Proof. exact new_mnemonic_is_spec. Qed.
Print Assumptions C13_encode_is_spec.

(* ... which for a legal size is a single-space-joined sentence that is a valid mnemonic of e *)
Theorem C13_encode_valid : forall H, hash_wf H -> forall e : bytes, legal_len e -> bytes_ok e ->
  exists ws, new_mnemonic H e = Ok (join_sp ws) /\ valid_sentence H ws e /\ fields (join_sp ws) = ws.
Proof. exact new_mnemonic_valid. Qed.
Print Assumptions C13_encode_valid.

Theorem C13_encode_rejects : forall H (e : bytes), ~ legal_len e -> new_mnemonic H e = Err ErrEntropyLengthInvalid.
Proof. exact new_mnemonic_rejects. Qed.
Print Assumptions C13_encode_rejects.

(* decoding the produced mnemonic returns the same entropy (both decoders) *)
Theorem C13_roundtrip : forall H, hash_wf H -> forall e : bytes, legal_len e -> bytes_ok e ->
  exists m, new_mnemonic H e = Ok m /\ entropy_from_mnemonic H m = Ok e.
Proof. exact roundtrip. Qed.
Print Assumptions C13_roundtrip.

Theorem C13_roundtrip_byte_array : forall H, hash_wf H -> forall e : bytes, legal_len e -> bytes_ok e ->
  exists m, new_mnemonic H e = Ok m /\ mnemonic_to_byte_array H true m = Ok e /\ is_mnemonic_valid m = true.
Proof. exact roundtrip_byte_array. Qed.
Print Assumptions C13_roundtrip_byte_array.

(* acceptance, for every byte string s: EntropyFromMnemonic returns e exactly when the strings.Fields split
   of s has a legal count, only list words and the correct checksum for e *)
Theorem C13_accept_iff : forall H, hash_wf H -> forall (s : str) (e : bytes),
  entropy_from_mnemonic H s = Ok e <-> valid_sentence H (fields s) e.
Proof. exact efm_accept_iff. Qed.
Print Assumptions C13_accept_iff.

(* the same for MnemonicToByteArray(s, true) ... *)
Theorem C13_byte_array_accept_iff : forall H, hash_wf H -> forall (s : str) (e : bytes),
  mnemonic_to_byte_array H true s = Ok e <-> valid_sentence H (fields s) e.
Proof. exact mtba_raw_accept_iff. Qed.
Print Assumptions C13_byte_array_accept_iff.

(* ... and without the flag: same acceptance, the value is the ENT+CS bit string as a number on |e|+1 bytes *)
Theorem C13_byte_array_checksummed : forall H, hash_wf H -> forall (s : str) (b : bytes),
  mnemonic_to_byte_array H false s = Ok b <->
  exists e, valid_sentence H (fields s) e /\
            b = pad_bytes (be_bytes (bits_val (bits e ++ checksum_bits H e))) (len e + 1).
Proof. exact mtba_accept_iff. Qed.
Print Assumptions C13_byte_array_checksummed.

(* the declarative acceptance predicate is what the executable bit-level decoder computes; a sentence has at most one entropy *)
Theorem C13_spec_decode_iff : forall H, hash_wf H -> forall (ws : list str) (e : bytes),
  spec_decode H ws = Some e <-> valid_sentence H ws e.
Proof. exact spec_decode_iff. Qed.
Print Assumptions C13_spec_decode_iff.

Theorem C13_entropy_unique : forall H, hash_wf H -> forall (ws : list str) (e1 e2 : bytes),
  valid_sentence H ws e1 -> valid_sentence H ws e2 -> e1 = e2.
Proof. exact valid_sentence_functional. Qed.
Print Assumptions C13_entropy_unique.

(* IsMnemonicValid is what it is: word count and membership, no checksum (see C13_ex_valid_no_checksum) *)
Theorem C13_is_mnemonic_valid : forall s : str,
  is_mnemonic_valid s = true <->
  (length (fields s) = 12 \/ length (fields s) = 15 \/ length (fields s) = 18 \/
   length (fields s) = 21 \/ length (fields s) = 24)%nat /\
  Forall (fun w => In w wordlist) (fields s).
Proof. exact is_mnemonic_valid_spec. Qed.
Print Assumptions C13_is_mnemonic_valid.

(* strings.TrimSpace before strings.Fields changes nothing (MnemonicToByteArray splits that way) *)
Theorem C13_fields_trim_space : forall s : str, fields (trim_space s) = fields s.
Proof. exact fields_trim_space. Qed.
Print Assumptions C13_fields_trim_space.

(* seed (repaired code: the white space of the sentence is normalised first): the BIP-39 seed of the words of
   ANY string, for every passphrase that is already in NFKD form (every ASCII passphrase) *)
Theorem C13_seed_is_bip39 : forall (PBKDF2 : bytes -> bytes -> Z -> Z -> bytes) (NFKD : bytes -> bytes) (m p : str),
  NFKD p = p -> new_seed PBKDF2 m p = bip39_seed PBKDF2 NFKD (fields m) p.
Proof. exact new_seed_is_bip39. Qed.
Print Assumptions C13_seed_is_bip39.

(* NewSeedWithErrorChecking succeeds exactly on the valid sentences and returns that seed *)
Theorem C13_seed_checked : forall H, hash_wf H ->
  forall (PBKDF2 : bytes -> bytes -> Z -> Z -> bytes) (m p : str) (sd : bytes),
  new_seed_with_error_checking H PBKDF2 m p = Ok sd <->
  (exists e, valid_sentence H (fields m) e) /\ sd = PBKDF2 (join_sp (fields m)) (mnemonic_lit ++ p) 2048 64.
Proof. exact new_seed_checked_iff. Qed.
Print Assumptions C13_seed_checked.

(* the code as first found (raw string as PBKDF2 password) violates the seed clause: for every entropy there is
   an accepted sentence (its mnemonic with one leading space) whose seed differs from the BIP-39 seed of its
   words, for every collision-free key-derivation function. Repaired in /repo (KNOWN_FINDINGS.txt, fixed:). *)
Theorem C13_seed_unfixed_refuted : forall H, hash_wf H ->
  forall (PBKDF2 : bytes -> bytes -> Z -> Z -> bytes) (NFKD : bytes -> bytes) (e : bytes),
  legal_len e -> bytes_ok e ->
  exists m, entropy_from_mnemonic H m = Ok e /\
    forall p, NFKD p = p ->
      (forall a b s i k, PBKDF2 a s i k = PBKDF2 b s i k -> a = b) ->
      new_seed_unfixed PBKDF2 m p <> bip39_seed PBKDF2 NFKD (fields m) p.
Proof. exact new_seed_unfixed_refuted. Qed.
Print Assumptions C13_seed_unfixed_refuted.

(* ---------------------------------------------------------------- non-vacuity: concrete values.
   H0 answers 0x37 = the first byte of SHA-256(16 zero bytes), so the first example is official vector 1. *)
Definition H0 : bytes -> bytes := fun _ => [55].
Definition w_abandon : str := [97; 98; 97; 110; 100; 111; 110].
Definition w_about : str := [97; 98; 111; 117; 116].
Definition zeros16 : bytes := repeat 0 16.
Definition vector1 : str := join_sp (repeat w_abandon 11 ++ [w_about]).

Example C13_ex_hash_wf : hash_wf H0.
Proof. intros d. exists 55, []. split; [reflexivity|lia]. Qed.
Example C13_ex_encode : new_mnemonic H0 zeros16 = Ok vector1 /\ legal_len zeros16 /\ bytes_ok zeros16.
Proof.
  split; [vm_compute; reflexivity|]. split; [left; reflexivity|].
  unfold zeros16. cbn [repeat]. repeat constructor; unfold is_byte; lia.
Qed.
(* tabs, double spaces, a leading U+3000 and a trailing newline: same words, same entropy *)
Example C13_ex_respaced :
  entropy_from_mnemonic H0 ([227; 128; 128] ++ w_abandon ++ [32; 9; 32] ++ vector1 ++ [10]) = Err ErrInvalidMnemonic /\
  entropy_from_mnemonic H0 ([227; 128; 128] ++ join_sp (repeat w_abandon 10) ++ [32; 9; 32] ++ w_abandon ++ [32; 32] ++ w_about ++ [10]) = Ok zeros16.
Proof. split; vm_compute; reflexivity. Qed.
(* twelve list words with a wrong checksum: IsMnemonicValid says true, both decoders reject *)
Example C13_ex_valid_no_checksum :
  is_mnemonic_valid (join_sp (repeat w_abandon 12)) = true /\
  entropy_from_mnemonic H0 (join_sp (repeat w_abandon 12)) = Err ErrChecksumIncorrect /\
  mnemonic_to_byte_array H0 true (join_sp (repeat w_abandon 12)) = Err ErrChecksumIncorrect.
Proof. repeat split; vm_compute; reflexivity. Qed.
