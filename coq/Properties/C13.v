(* Property C13 — mnemonic encoding is exactly BIP-39 (statements only). *)
From Coq Require Import List ZArith.
Import ListNotations.
Open Scope Z_scope.
Require Import MW.Gen.Wordlist MW.Codec.Bip39 MW.Codec.Bip39Proofs.

Theorem C13_seed_is_bip39 : forall (PBKDF2 : bytes -> bytes -> Z -> Z -> bytes) (NFKD : bytes -> bytes) m p,
  NFKD p = p -> new_seed PBKDF2 m p = bip39_seed PBKDF2 NFKD (fields m) p.
Proof. exact new_seed_is_bip39. Qed.
Print Assumptions C13_seed_is_bip39.
