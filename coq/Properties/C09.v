(* Property C09 — pending transactions are tracked exactly: flagged, not reused, settled once.
   Only statements here; proofs are in Ledger/PendingProofs.v, Ledger/PendingProofs3.v (the index of
   pending spenders is complete for wallet coins along every history: rollback keeps registrations, the
   conflict clause for reachable states) and Ledger/PendingProofs4.v (the conflict clause stated with the coin
   of the store the mined transaction spends, descendants of any depth, the reorganisation as one statement).
   Model: Ledger/Pending.v (filterTx for unconfirmed transactions, insertMemPoolTx, addUnminedCredits,
   insertUnminedInputs, insertMinedTx's settle part, removeDoubleSpends, removeConflict, Rollback's move
   back to the unmined bucket, deleteUnminedInputs, the handler's volatile set, the flag and selection
   queries) wrapped around the frozen mined-side model Ledger/Model.v.

   Environment assumptions that appear as premises:
   - [tx_ordered] / [event_ordered]: a transaction spends outputs of transactions created before it
     (ids are assigned in creation order; E4 of DESIGN.md appendix A);
   - [node_knows n b]: the node can produce the previous transaction of every input of a block it
     announces (E1).
   The model is the code after the repairs 626fe73 (deleteUnminedInputs removes only the transaction's
   own hash), 0bc4560 (a transaction already recorded as mined is not stored as pending) and cb8fee8
   (Rollback stores the serialized transaction); the code as first found is kept in
   del_inputs_of_found / receive_store_gen false / rollback with a3fix = false for the _refuted theorems. *)
From Coq Require Import List ZArith NArith Bool.
Import ListNotations.
Open Scope Z_scope.
Require Import MW.Ledger.Model MW.Ledger.Spec MW.Ledger.Run MW.Ledger.WF MW.Ledger.Pending MW.Ledger.PendingProofs.
Require Import MW.Ledger.PendingProofs2 MW.Ledger.PendingProofs3 MW.Ledger.PendingProofs4.

(* ---- flagged, not reused *)

(* once an unconfirmed transaction is accepted, every coin it spends that the wallet can recognise as its
   own is reported spent_by_unmined and is not eligible for automatic selection; the transaction can be
   read back from the pending set *)
Theorem C09_flag :
  forall p own n s t s', receive_store p own n s t = POk (Some s') ->
    pend s (t_id t) = None -> tx_recorded s (t_id t) = false ->
    read_unmined s' (t_id t) = RdOk t /\
    forall ph pv pt o w, In (ph, pv) (t_ins t) ->
      lookup_pending n (ps_unmined s) ph = Some pt -> nth_error (t_outs pt) (N.to_nat pv) = Some o ->
      o_class o <> CUnsupported -> own (o_sh o) = Some w ->
      In (t_id t) (ui_get (ps_uinputs s') (ph, pv)) /\ spent_by_unmined s' (ph, pv) = true /\
      forall c, credit_op c = (ph, pv) -> eligible s' c = false.
Proof. exact receive_flags. Qed.
Print Assumptions C09_flag.

(* the flag stays while the transaction stays pending: a mined record removes no registration of a
   transaction that is still pending afterwards *)
Theorem C09_flag_kept :
  forall p own h bid s r s', p_apply_rec p own h bid s r = POk s' ->
    forall o sp, In sp (ui_get (ps_uinputs s) o) -> pend s' sp <> None -> In sp (ui_get (ps_uinputs s') o).
Proof. exact flag_kept_by_mined_record. Qed.
Print Assumptions C09_flag_kept.

Theorem C09_flagged_not_eligible :
  forall s c, spent_by_unmined s (credit_op c) = true -> eligible s c = false.
Proof. exact eligible_not_flagged. Qed.
Print Assumptions C09_flagged_not_eligible.

(* ---- not counted as confirmed *)

Theorem C09_not_counted :
  forall p own n hs t,
    let hs' := fst (receive_tx p own n hs t) in
    ps_w (h_store hs') = ps_w (h_store hs) /\ ps_game (h_store hs') = ps_game (h_store hs) /\
    ps_blocks (h_store hs') = ps_blocks (h_store hs) /\
    forall w, model_report (ps_w (h_store hs')) w = model_report (ps_w (h_store hs)) w.
Proof. exact receive_tx_not_counted. Qed.
Print Assumptions C09_not_counted.

(* ---- settled once *)

(* mining a pending transaction leaves exactly the mined state (credits, balances, block records, mined
   deposit rows) that mining it without ever having seen it pending leaves — the function
   m_connect_block of the mined side alone, whose ledger part is C01's connect_block — and removes it
   from the pending set *)
Theorem C09_settle_once :
  forall p own n s t s1 b sa ida sb idb,
    node_knows n b ->
    receive_store p own n s t = POk (Some s1) ->
    p_connect_block p own n (ps_unmined s1) s1 b = POk (sa, ida) ->
    p_connect_block p own n (ps_unmined s) s b = POk (sb, idb) ->
    mined sa = mined sb /\ ida = idb /\
    m_connect_block p own n (mined s) b = Some (mined sa, ida) /\
    connect_block p true own (credits (ps_w s)) (node_tx n) (ps_w s) b = Ok (ps_w sa) /\
    (In (t_id t) ida -> um_get (ps_unmined sa) (t_id t) = None).
Proof. exact settle_once. Qed.
Print Assumptions C09_settle_once.

(* every relevant record of a connected block leaves the pending set, its unmined credits go with it,
   and connecting never adds a pending record *)
Theorem C09_settled_records :
  forall p own h bid s r s', p_apply_rec p own h bid s r = POk s' ->
    shrinks s s' /\ um_get (ps_unmined s') (t_id (rr_tx r)) = None /\
    (um_get (ps_unmined s) (t_id (rr_tx r)) <> None ->
     forall i, In i (out_indexes (rr_tx r)) -> uc_get (ps_ucredits s') (t_id (rr_tx r), i) = None).
Proof. exact p_apply_rec_settles. Qed.
Print Assumptions C09_settled_records.

(* ---- a conflicting transaction confirms *)

(* relative to the index of pending spenders (bucket "mi"); C09_registered_complete and
   C09_conflict_vanishes_history below show that the index is complete for wallet coins in every
   reachable state, which turns this into a statement about the transactions that SPEND the coin *)
Theorem C09_conflict_purges_descendants :
  forall own s r s', remove_double_spends own s r = POk s' ->
    (forall ri T, In ri (rr_ins r) -> In T (ui_get (ps_uinputs s) (ri_prev ri)) ->
        pend s' T = None /\ forall D, desc s T D -> pend s' D = None) /\
    (forall X tX o, pend s X = Some (USer tX) -> pend s' X = None -> In o (t_ins tX) -> ~ In X (ui_get (ps_uinputs s') o)) /\
    (forall o sp, In sp (ui_get (ps_uinputs s) o) -> pend s' sp <> None -> sp <> t_id (rr_tx r) -> In sp (ui_get (ps_uinputs s') o)) /\
    shrinks s s'.
Proof. exact conflict_purges_descendants. Qed.
Print Assumptions C09_conflict_purges_descendants.

(* removeConflict itself: the transaction, its registrations and its unmined credits are gone *)
Theorem C09_conflict_removed :
  forall fuel own s h t s', remove_conflict fuel own s h t = POk s' ->
    um_get (ps_unmined s') h = None /\
    (forall o, In o (t_ins t) -> ~ In h (ui_get (ps_uinputs s') o)) /\
    (forall i, In i (out_indexes t) -> uc_get (ps_ucredits s') (h, i) = None).
Proof. exact remove_conflict_removes. Qed.
Print Assumptions C09_conflict_removed.

(* the recursion of removeConflict terminates: the fuel the model passes is never exhausted, in any
   state reachable by any history of ordered transactions *)
Theorem C09_conflict_fuel :
  forall p a3fix g evs b, block_ordered g -> Forall event_ordered evs -> block_ordered b ->
    let s := prun p a3fix g evs in
    pprocess p a3fix (own_of (q_own s)) (q_node s) (q_h s) b <> PErr EOutOfFuel.
Proof. exact process_never_out_of_fuel. Qed.
Print Assumptions C09_conflict_fuel.

(* ---- reorganised away: back in the pending set, readable *)

(* the rolled-back transaction itself; what happens to the OTHER spenders registered under the same
   outpoints is C09_rollback_keeps_registrations below *)
Theorem C09_rollback_readable :
  forall cs s r s' ops,
    NoDup (map t_id (br_txs r)) ->
    rollback_move true cs s r = POk (s', ops) ->
    forall t, In t (br_txs r) -> t_cb t = false ->
      read_unmined s' (t_id t) = RdOk t /\ forall o, In o (t_ins t) -> In (t_id t) (ui_get (ps_uinputs s') o).
Proof. exact rollback_readable. Qed.
Print Assumptions C09_rollback_readable.

(* the code as first found (Rollback stored the 28-byte location; repaired in /repo, cb8fee8) *)
Theorem C09_rollback_readable_unfixed_refuted :
  exists cs s r s' ops t,
    rollback_move false cs s r = POk (s', ops) /\ In t (br_txs r) /\ t_cb t = false /\
    read_unmined s' (t_id t) <> RdOk t.
Proof. exact rollback_readable_unfixed_refuted. Qed.
Print Assumptions C09_rollback_readable_unfixed_refuted.

(* two pending transactions sharing a wallet coin, one of them conflicted through its other input: the
   other one stays pending and the coin stays flagged and unselectable (the scenario of the repaired finding
   flag-lost:shared-input-key) *)
Theorem C09_shared_input_keeps_flag :
  let s := h_store (q_h (prun SharedKey.p true SharedKey.g SharedKey.evs)) in
  read_unmined s 10%N = RdNone /\ read_unmined s 11%N = RdOk SharedKey.t2 /\
  spent_by_unmined s (1, 0)%N = true /\ spent_by_unmined s (3, 0)%N = true /\
  map credit_op (eligible_list s 1%N) = [(4, 0)%N].
Proof. exact shared_input_keeps_flag. Qed.
Print Assumptions C09_shared_input_keeps_flag.

(* the code as first found deleted the whole unmined-inputs entry of every input of a removed transaction *)
Theorem C09_whole_key_unfixed_refuted :
  exists ui t o sp, In sp (ui_get ui o) /\ sp <> t_id t /\ ~ In sp (ui_get (del_inputs_of_found ui t) o) /\
                    In sp (ui_get (del_inputs_of ui t (t_id t)) o).
Proof. exact flag_lost_whole_key_refuted. Qed.
Print Assumptions C09_whole_key_unfixed_refuted.

(* a transaction already recorded as mined that is delivered as unconfirmed is reported relevant and nothing
   is stored; the code as first found stored it as pending again *)
Theorem C09_already_mined_not_stored :
  forall p own n s t s', receive_store p own n s t = POk (Some s') ->
    pend s (t_id t) = None -> tx_recorded s (t_id t) = true -> s' = s.
Proof. exact receive_already_mined. Qed.
Print Assumptions C09_already_mined_not_stored.

Theorem C09_pending_while_mined_unfixed_refuted :
  let q := MinedThenDelivered.sim in
  let s := h_store (q_h q) in
  tx_recorded s 10%N = true /\
  (exists s', receive_store_gen false MinedThenDelivered.p (own_of (q_own q)) (q_node q) s MinedThenDelivered.t = POk (Some s') /\
              read_unmined s' 10%N = RdOk MinedThenDelivered.t) /\
  receive_store MinedThenDelivered.p (own_of (q_own q)) (q_node q) s MinedThenDelivered.t = POk (Some s).
Proof. exact pending_while_mined_refuted. Qed.
Print Assumptions C09_pending_while_mined_unfixed_refuted.

(* ---- the statements are not vacuous: a concrete history *)
Module Ex.
  Definition p : params := {| p_cbmat := 1; p_bindlock := 4294967294 |}.
  Definition g : block := {| b_id := 0; b_prev := 0; b_height := 0; b_txs := [] |}.
  Definition cb (id : N) : tx := {| t_id := id; t_cb := true; t_ins := []; t_outs := [ {| o_sh := 1; o_val := 5; o_class := CStd |} ] |}.
  Definition b1 : block := {| b_id := 1; b_prev := 0; b_height := 1; b_txs := [cb 1] |}.
  Definition b2 : block := {| b_id := 2; b_prev := 1; b_height := 2; b_txs := [cb 2] |}.
  (* t10 spends the wallet coin (1,0) and pays the wallet a staking deposit and a stranger *)
  Definition t10 : tx := {| t_id := 10; t_cb := false; t_ins := [(1, 0)%N];
                            t_outs := [ {| o_sh := 1; o_val := 3; o_class := CStaking 2 |}; {| o_sh := 9; o_val := 2; o_class := CStd |} ] |}.
  (* t11 double-spends (1,0) *)
  Definition t11 : tx := {| t_id := 11; t_cb := false; t_ins := [(1, 0)%N]; t_outs := [ {| o_sh := 9; o_val := 5; o_class := CStd |} ] |}.
  Definition b3 : block := {| b_id := 3; b_prev := 2; b_height := 3; b_txs := [cb 3; t10] |}.
  Definition b3' : block := {| b_id := 4; b_prev := 2; b_height := 3; b_txs := [cb 4; t11] |}.
  Definition pre : list pevent := [PvOwner 1 1; PvAttach b1; PvProcess b1; PvAttach b2; PvProcess b2; PvReceive t10].
  Definition st (evs : list pevent) : pstate := h_store (q_h (prun p true g evs)).
End Ex.

(* received: flagged, not eligible, readable, a pending staking row, balances unchanged *)
Example C09_example_pending :
  let s := Ex.st Ex.pre in
  read_unmined s 10%N = RdOk Ex.t10 /\ spent_by_unmined s (1, 0)%N = true /\
  map credit_op (eligible_list s 1%N) = [(2, 0)%N] /\
  map (fun r => (hr_tx r, hr_vout r, hr_amount r, hr_frozen r, hr_pending r)) (game_history (q_node (prun Ex.p true Ex.g Ex.pre)) s 1%N false false)
    = [(10%N, 0%N, 3, 2, true)] /\
  gross_balance (ps_w s) 1%N = 10.
Proof.
  vm_compute. repeat split; reflexivity.
Qed.

(* mined: an ordinary ledger entry, no longer pending, the deposit row is a mined one *)
Example C09_example_settled :
  let s := Ex.st (Ex.pre ++ [PvAttach Ex.b3; PvProcess Ex.b3]) in
  read_unmined s 10%N = RdNone /\ ps_ucredits s = [] /\ ps_uinputs s = [] /\ ps_ugame s = [] /\
  map (fun r => (g_tx r, g_vout r, g_height r, g_withdrawn r)) (ps_game s) = [(10%N, 0%N, 3, false)] /\
  gross_balance (ps_w s) 1%N = 13.
Proof. vm_compute. repeat split; reflexivity. Qed.

(* the conflicting transaction confirms instead: the pending transaction vanishes, the coin it held is gone
   with the conflict (spent on the chain), nothing of it remains in any pending bucket *)
Example C09_example_conflict :
  let s := Ex.st (Ex.pre ++ [PvAttach Ex.b3'; PvProcess Ex.b3']) in
  read_unmined s 10%N = RdNone /\ ps_ucredits s = [] /\ ps_uinputs s = [] /\ ps_ugame s = [] /\ ps_game s = [] /\
  gross_balance (ps_w s) 1%N = 10.
Proof. vm_compute. repeat split; reflexivity. Qed.

(* mined, then reorganised away: pending again, readable, flagged again *)
Example C09_example_rollback :
  let s := Ex.st (Ex.pre ++ [PvAttach Ex.b3; PvProcess Ex.b3; PvDetach; PvAttach {| b_id := 5; b_prev := 2; b_height := 3; b_txs := [Ex.cb 6] |};
                             PvProcess {| b_id := 5; b_prev := 2; b_height := 3; b_txs := [Ex.cb 6] |}]) in
  read_unmined s 10%N = RdOk Ex.t10 /\ spent_by_unmined s (1, 0)%N = true /\ ps_game s = [] /\
  map (fun r => (ug_tx r, ug_vout r)) (ps_ugame s) = [(10%N, 0%N)].
Proof. vm_compute. repeat split; reflexivity. Qed.

(* ================================================================ the index of pending spenders is complete *)

(* ---- Rollback keeps registrations *)

(* the move-back loop of Rollback (putRawUnminedInput: read, append, write) keeps every registration that
   was there, whatever it adds under the same outpoint, and nothing leaves the pending set *)
Theorem C09_rollback_keeps_registrations :
  forall a3fix cs s r s' ops, rollback_move a3fix cs s r = POk (s', ops) ->
    (forall o sp, In sp (ui_get (ps_uinputs s) o) -> In sp (ui_get (ps_uinputs s') o)) /\
    (forall k, pend s k <> None -> pend s' k <> None).
Proof. exact rollback_keeps_registrations. Qed.
Print Assumptions C09_rollback_keeps_registrations.

(* Rollback of one block, including the purge of the spenders of its coinbase outputs: the registrations of
   every transaction that is still pending afterwards are kept *)
Theorem C09_rollback_one_keeps_registrations :
  forall a3fix own cs s h s', p_rollback_one a3fix own cs s h = POk s' ->
    forall o sp, In sp (ui_get (ps_uinputs s) o) -> pend s' sp <> None -> In sp (ui_get (ps_uinputs s') o).
Proof. exact rollback_one_keeps_registrations. Qed.
Print Assumptions C09_rollback_one_keeps_registrations.

(* a Rollback that OVERWRITES the entry (Put(outpoint, hash) instead of read-append-write;
   PendingProofs3.rollback_tx_overwrite, everything else as in the model): T (10) is mined spending (1,0);
   the node switches forks; U (11), spending (1,0) and (2,0), is delivered before the wallet processes the
   new fork; the wallet rolls T's block back; T is mined again.  In the model U is found under (1,0) and
   removed, (2,0) is free again; in the variant the rollback lost U's registration under (1,0): U stays
   pending and (2,0) stays flagged, with the same ledger. *)
Theorem C09_rollback_overwrite_refuted :
  let sm := h_store (q_h (prun Overwrite.p true Overwrite.g Overwrite.evs)) in
  let sv := h_store (q_h (prun_overwrite Overwrite.p true Overwrite.g Overwrite.evs)) in
  let sm0 := h_store (q_h (prun Overwrite.p true Overwrite.g Overwrite.before_remine)) in
  let sv0 := h_store (q_h (prun_overwrite Overwrite.p true Overwrite.g Overwrite.before_remine)) in
  (read_unmined sm0 10%N = RdOk Overwrite.T /\ read_unmined sm0 11%N = RdOk Overwrite.U /\
   ui_get (ps_uinputs sm0) (1, 0)%N = [11; 10]%N) /\
  (read_unmined sv0 10%N = RdOk Overwrite.T /\ read_unmined sv0 11%N = RdOk Overwrite.U /\
   ui_get (ps_uinputs sv0) (1, 0)%N = [10]%N) /\
  (read_unmined sm 11%N = RdNone /\ spent_by_unmined sm (2, 0)%N = false /\ ps_uinputs sm = []) /\
  (read_unmined sv 11%N = RdOk Overwrite.U /\ spent_by_unmined sv (2, 0)%N = true /\
   credits (ps_w sv) = credits (ps_w sm) /\ tx_recorded sv 10%N = true).
Proof. exact rollback_overwrite_refuted. Qed.
Print Assumptions C09_rollback_overwrite_refuted.

Theorem C09_rollback_overwrite_loses_registration :
  exists cs s r s' ops o sp,
    rollback_move_w rollback_tx_overwrite true cs s r = POk (s', ops) /\
    In sp (ui_get (ps_uinputs s) o) /\ pend s' sp <> None /\ ~ In sp (ui_get (ps_uinputs s') o).
Proof. exact rollback_overwrite_loses_registration. Qed.
Print Assumptions C09_rollback_overwrite_loses_registration.

(* the variant run with the model's own step is the model's run (the variant differs in nothing else) *)
Theorem C09_variant_run_is_model_run :
  forall p a3fix g h, prun_w rollback_tx p a3fix g h = prun p a3fix g h.
Proof. exact prun_w_model. Qed.
Print Assumptions C09_variant_run_is_model_run.

(* ---- the whole-history invariant *)

(* Premises (environment):
   - [powners_before_seen g h]: an address is issued before any transaction paying it is shown to the wallet,
     in an attached block, an announced block or as an unconfirmed transaction (E3; [powners_before_paid] of
     wf_phistory is the part about attached blocks);
   - [seen_ids_agree g h]: a transaction id names one transaction among all those shown to the wallet (E1/E4;
     wfp_txids of wf_phistory is the part about blocks).
   [wallet_out own P i]: output i of P exists, has a supported script class and pays a ready wallet. *)

(* in every state a history reaches, every input of a readable pending transaction is registered under its
   outpoint, or spends an output of a transaction shown to the wallet that is NOT a wallet output
   (finding stale-pending:foreign-input: those are not registered) *)
Theorem C09_registered_or_foreign :
  forall p a3fix g h, powners_before_seen g h ->
    let q := prun p a3fix g h in
    let s := h_store (q_h q) in
    forall X tX o, pend s X = Some (USer tX) -> In o (t_ins tX) ->
      In X (ui_get (ps_uinputs s) o) \/
      exists pt, In pt (b_txs g ++ seen_txs h) /\ t_id pt = fst o /\ ~ wallet_out (own_of (q_own q)) pt (snd o).
Proof. intros p a3fix g h Hown q s. exact (sv_regd _ _ _ (proj2 (prun_qinv p a3fix g h Hown))). Qed.
Print Assumptions C09_registered_or_foreign.

(* hence: a readable pending transaction is registered under every input that spends a wallet output of a
   transaction the wallet has been shown, and that outpoint is reported spent_by_unmined *)
Theorem C09_registered_complete :
  forall p a3fix g h, powners_before_seen g h -> seen_ids_agree g h ->
    let q := prun p a3fix g h in
    let s := h_store (q_h q) in
    forall X tX o P, pend s X = Some (USer tX) -> In o (t_ins tX) ->
      In P (b_txs g ++ seen_txs h) -> t_id P = fst o -> wallet_out (own_of (q_own q)) P (snd o) ->
      In X (ui_get (ps_uinputs s) o) /\ spent_by_unmined s o = true.
Proof. exact registered_complete. Qed.
Print Assumptions C09_registered_complete.

(* and for the coins of the store: every credit of the ledger that a readable pending transaction spends is
   registered under it, reported spent_by_unmined and not eligible for new transactions *)
Theorem C09_registered_complete_credits :
  forall p a3fix g h, wf_phistory g h -> powners_before_seen g h -> seen_ids_agree g h ->
    let s := h_store (q_h (prun p a3fix g h)) in
    forall X tX c, pend s X = Some (USer tX) -> In c (credits (ps_w s)) -> In (credit_op c) (t_ins tX) ->
      In X (ui_get (ps_uinputs s) (credit_op c)) /\ spent_by_unmined s (credit_op c) = true /\ eligible s c = false.
Proof. exact registered_complete_credits. Qed.
Print Assumptions C09_registered_complete_credits.

(* ---- a conflicting transaction confirms, in reachable states *)

(* [vanished s s' confirmed X tX]: X is not pending in s'; nor is any registered descendant of X (through
   pending transactions outside [confirmed]); X is registered under none of its inputs; an input only X was
   registered under is not flagged; nothing was added to the pending buckets.
   The relevant transaction M of the block and the wallet coin it spends appear as the record r filterBlock
   makes for M and its recognised input ri (ri_prev ri is the outpoint).  The form without records ("M spends
   the outpoint of a credit of the store") is C09_conflict_on_credit_vanishes below, by the bridge
   C09_spend_of_credit_recognised; descendants of any depth: C09_conflict_full_descendants. *)
Theorem C09_conflict_vanishes_history :
  forall p a3fix g h b, powners_before_seen g h -> seen_ids_agree g (h ++ [PvProcess b]) ->
    let q := prun p a3fix g h in
    let s := h_store (q_h q) in
    let own := own_of (q_own q) in
    forall recs s' ids,
      filter_block_txs own (credits (ps_w s)) (lookup_pending (q_node q) (ps_unmined s)) [] (b_txs b) = Ok recs ->
      p_connect_block p own (q_node q) (ps_unmined s) s b = POk (s', ids) ->
      forall X tX r ri, pend s X = Some (USer tX) -> ~ In X ids ->
        In r recs -> In ri (rr_ins r) -> In (ri_prev ri) (t_ins tX) ->
        vanished s s' (fun k => In k ids) X tX.
Proof. exact conflict_vanishes_history. Qed.
Print Assumptions C09_conflict_vanishes_history.

(* processConnectedBlock for a block extending the wallet's tip *)
Theorem C09_conflict_vanishes_process :
  forall p a3fix g h b, powners_before_seen g h -> seen_ids_agree g (h ++ [PvProcess b]) ->
    let q := prun p a3fix g h in
    let s := h_store (q_h q) in
    let own := own_of (q_own q) in
    forall hs', (snd (tip (ps_w s)) =? b_prev b)%N = true ->
      pprocess p a3fix own (q_node q) (q_h q) b = POk hs' ->
      exists recs,
        filter_block_txs own (credits (ps_w s)) (lookup_pending (q_node q) (ps_unmined s)) [] (b_txs b) = Ok recs /\
        forall X tX r ri, pend s X = Some (USer tX) -> ~ In X (rec_ids recs) ->
          In r recs -> In ri (rr_ins r) -> In (ri_prev ri) (t_ins tX) ->
          vanished s (h_store hs') (fun k => In k (rec_ids recs)) X tX.
Proof. exact conflict_vanishes_process. Qed.
Print Assumptions C09_conflict_vanishes_process.

(* every block connected during a reorganisation: the same for any state satisfying the invariant [sinv]
   (which Rollback and every connected block keep: PendingProofs3.p_rollback_to_sinv, p_connect_block_sinv);
   s0 is the committed state the look-up reads *)
Theorem C09_connect_block_conflict :
  forall S p own n s0 s b s' ids recs,
    ids_agree_on S -> node_in S n -> (forall t, In t (b_txs b) -> In t S) -> sinv S own s0 -> sinv S own s ->
    filter_block_txs own (credits (ps_w s)) (lookup_pending n (ps_unmined s0)) [] (b_txs b) = Ok recs ->
    p_connect_block p own n (ps_unmined s0) s b = POk (s', ids) ->
    ids = rec_ids recs /\
    forall X tX r ri, pend s X = Some (USer tX) -> ~ In X ids ->
      In r recs -> In ri (rr_ins r) -> In (ri_prev ri) (t_ins tX) ->
      vanished s s' (fun k => In k ids) X tX.
Proof. exact connect_block_conflict. Qed.
Print Assumptions C09_connect_block_conflict.

(* processConnectedBlock as a whole (rollback of any depth, then every block of the new branch) keeps both
   invariants, from any state: [sinv] (pending inputs registered or foreign) and [ginv] (registrations
   belong to pending spenders) *)
Theorem C09_invariant_kept_by_process :
  forall S p own n hs b hs', ids_agree_on S -> node_in S n -> (forall t, In t (b_txs b) -> In t S) ->
    sinv S own (h_store hs) -> ginv (h_store hs) -> pprocess p true own n hs b = POk hs' ->
    sinv S own (h_store hs') /\ ginv (h_store hs').
Proof.
  intros S p own n hs b hs' Hid Hn Hb Hs Hg H.
  split; [exact (pprocess_sinv S p true own n hs b hs' Hn Hb Hs H)|exact (pprocess_ginv S p own n hs b hs' Hid Hn Hb Hs Hg H)].
Qed.
Print Assumptions C09_invariant_kept_by_process.

(* the registered descendants are the real ones as far as wallet outputs go: a pending D that spends a
   wallet output of a pending X is a registered child of X (a child hanging on a NON-wallet output of X is
   not registered: finding stale-pending:foreign-input) *)
Theorem C09_wallet_child_registered :
  forall p a3fix g h, powners_before_seen g h -> seen_ids_agree g h ->
    let q := prun p a3fix g h in
    let s := h_store (q_h q) in
    forall (avoid : N -> Prop) X tX D tD i,
      pend s X = Some (USer tX) -> pend s D = Some (USer tD) -> In (X, i) (t_ins tD) ->
      wallet_out (own_of (q_own q)) tX i -> ~ avoid X -> cdesc s avoid X D.
Proof. exact wallet_child_registered_history. Qed.
Print Assumptions C09_wallet_child_registered.

(* when no pending transaction is in [avoid], cdesc is PendingProofs.desc *)
Theorem C09_cdesc_is_desc :
  forall s (avoid : N -> Prop) X D, (forall k, avoid k -> pend s k = None) -> (desc s X D <-> cdesc s avoid X D).
Proof. intros s avoid X D Ha. split; [apply desc_cdesc; exact Ha|apply cdesc_desc]. Qed.
Print Assumptions C09_cdesc_is_desc.

(* the converse of C09_registered_complete: whatever is registered under an outpoint is a readable pending
   transaction that spends it (the flag is never stale) *)
Theorem C09_registrations_are_pending :
  forall p g h, powners_before_seen g h -> seen_ids_agree g h ->
    let s := h_store (q_h (prun p true g h)) in
    forall o sp, In sp (ui_get (ps_uinputs s) o) -> exists t, pend s sp = Some (USer t) /\ In o (t_ins t).
Proof. exact prun_ginv. Qed.
Print Assumptions C09_registrations_are_pending.

(* "the coins they held are free again": after the block, an input of the vanished X is still flagged only
   if another transaction, pending before and still pending, spends it *)
Theorem C09_conflict_frees_coins :
  forall p g h b, powners_before_seen g h -> seen_ids_agree g (h ++ [PvProcess b]) ->
    let q := prun p true g h in
    let s := h_store (q_h q) in
    let own := own_of (q_own q) in
    forall recs s' ids,
      filter_block_txs own (credits (ps_w s)) (lookup_pending (q_node q) (ps_unmined s)) [] (b_txs b) = Ok recs ->
      p_connect_block p own (q_node q) (ps_unmined s) s b = POk (s', ids) ->
      forall X tX r ri, pend s X = Some (USer tX) -> ~ In X ids ->
        In r recs -> In ri (rr_ins r) -> In (ri_prev ri) (t_ins tX) ->
        forall o, In o (t_ins tX) -> spent_by_unmined s' o = true ->
          exists Y tY, Y <> X /\ pend s' Y = Some (USer tY) /\ In o (t_ins tY) /\ pend s Y = Some (USer tY).
Proof. exact conflict_frees_coins. Qed.
Print Assumptions C09_conflict_frees_coins.

(* the premise about delivered transactions cannot be dropped: wf_phistory (which constrains blocks only) and
   seen_ids_agree hold, an address is issued AFTER an unconfirmed transaction paying it was delivered, and a
   pending transaction ends up spending a coin of the store that is neither flagged nor excluded from
   selection (PendingProofs3.LateOwner) *)
Theorem C09_registered_complete_without_owner_premise_refuted :
  exists p g h X tX c,
    wf_phistory g h /\ seen_ids_agree g h /\ ~ powners_before_seen g h /\
    let s := h_store (q_h (prun p true g h)) in
    pend s X = Some (USer tX) /\ In c (credits (ps_w s)) /\ In (credit_op c) (t_ins tX) /\
    spent_by_unmined s (credit_op c) = false /\ eligible s c = true.
Proof. exact registered_complete_without_owner_premise_refuted. Qed.
Print Assumptions C09_registered_complete_without_owner_premise_refuted.

(* ---- not vacuous: t10 mined in b3; the node switches to b3e; t12, spending (1,0) like t10 and (2,0), is
   delivered while the wallet still has t10 mined; the wallet processes b3e (b3 rolled back, t10 pending
   again next to t12); t10 is mined again in b4e *)
Module ExR.
  Definition t12 : tx := {| t_id := 12; t_cb := false; t_ins := [(1, 0)%N; (2, 0)%N]; t_outs := [ {| o_sh := 9; o_val := 10; o_class := CStd |} ] |}.
  Definition b3e : block := {| b_id := 6; b_prev := 2; b_height := 3; b_txs := [Ex.cb 6] |}.
  Definition b4e : block := {| b_id := 7; b_prev := 6; b_height := 4; b_txs := [Ex.cb 7; Ex.t10] |}.
  Definition before : list pevent :=
    [PvOwner 1 1; PvAttach Ex.b1; PvProcess Ex.b1; PvAttach Ex.b2; PvProcess Ex.b2; PvAttach Ex.b3; PvProcess Ex.b3;
     PvDetach; PvAttach b3e; PvReceive t12; PvProcess b3e; PvAttach b4e].
  Definition evs : list pevent := before ++ [PvProcess b4e].
End ExR.

(* the premises of the history theorems hold for it *)
Example C09_example_reorg_premises :
  wf_phistory Ex.g ExR.evs /\ powners_before_seen Ex.g ExR.evs /\ seen_ids_agree Ex.g ExR.evs /\
  block_ordered Ex.g /\ Forall event_ordered ExR.evs.
Proof.
  split; [apply wf_phistory_b_sound; vm_compute; reflexivity|].
  split; [apply powners_before_seen_b_sound; vm_compute; reflexivity|].
  split; [apply seen_ids_agree_b_sound; vm_compute; reflexivity|].
  split; [intros t []|].
  repeat constructor.
  all: cbn [event_ordered]; unfold block_ordered, tx_ordered; intros;
    repeat match goal with
           | H : False |- _ => destruct H
           | H : _ \/ _ |- _ => destruct H as [<-|H]
           | H : In _ _ |- _ => cbn in H; first [destruct H as [<-|H]|destruct H]
           end; reflexivity.
Qed.

(* before t10 is mined again: t10 and t12 are both pending and both registered under (1,0), every wallet
   coin they spend is flagged; the hypotheses of C09_conflict_vanishes_process hold for t12 against b4e *)
Example C09_example_reorg_before :
  let q := prun Ex.p true Ex.g ExR.before in
  let s := h_store (q_h q) in
  let own := own_of (q_own q) in
  read_unmined s 10%N = RdOk Ex.t10 /\ read_unmined s 12%N = RdOk ExR.t12 /\
  ui_get (ps_uinputs s) (1, 0)%N = [12; 10]%N /\ ui_get (ps_uinputs s) (2, 0)%N = [12]%N /\
  map credit_op (eligible_list s 1%N) = [(6, 0)%N] /\
  (snd (tip (ps_w s)) =? b_prev ExR.b4e)%N = true /\
  exists hs' recs r ri,
    pprocess Ex.p true own (q_node q) (q_h q) ExR.b4e = POk hs' /\
    filter_block_txs own (credits (ps_w s)) (lookup_pending (q_node q) (ps_unmined s)) [] (b_txs ExR.b4e) = Ok recs /\
    pend s 12%N = Some (USer ExR.t12) /\ ~ In 12%N (rec_ids recs) /\
    In r recs /\ In ri (rr_ins r) /\ In (ri_prev ri) (t_ins ExR.t12).
Proof.
  cbv zeta. split; [vm_compute; reflexivity|]. split; [vm_compute; reflexivity|]. split; [vm_compute; reflexivity|].
  split; [vm_compute; reflexivity|]. split; [vm_compute; reflexivity|]. split; [vm_compute; reflexivity|].
  eexists. eexists.
  exists {| rr_tx := Ex.t10; rr_ins := [ {| ri_index := 0; ri_prev := (1, 0)%N; ri_wallet := 1 |} ];
            rr_outs := [ {| ro_index := 0; ro_out := {| o_sh := 1; o_val := 3; o_class := CStaking 2 |}; ro_wallet := 1 |} ] |}.
  exists {| ri_index := 0; ri_prev := (1, 0)%N; ri_wallet := 1 |}.
  split; [vm_compute; reflexivity|]. split; [vm_compute; reflexivity|]. split; [vm_compute; reflexivity|].
  split; [vm_compute; intros [H|[H|[]]]; discriminate H|].
  split; [right; left; reflexivity|]. split; [left; reflexivity|left; reflexivity].
Qed.

(* t10 mined again: t12 is gone, nothing is registered any more, the coin only t12 held, (2,0), is free
   and selectable again; t10 is an ordinary ledger entry *)
Example C09_example_reorg_after :
  let s := Ex.st ExR.evs in
  read_unmined s 12%N = RdNone /\ read_unmined s 10%N = RdNone /\ ps_uinputs s = [] /\ ps_ucredits s = [] /\
  spent_by_unmined s (2, 0)%N = false /\ In (2, 0)%N (map credit_op (eligible_list s 1%N)) /\
  tx_recorded s 10%N = true /\
  map (fun r => (g_tx r, g_vout r, g_height r, g_withdrawn r)) (ps_game s) = [(10%N, 0%N, 4, false)].
Proof. vm_compute. repeat split; try reflexivity. tauto. Qed.

(* ================================================================ the conflict clause as the property speaks it *)

(* ---- "a conflicting transaction M confirms": M spends a coin of the store *)

(* the bridge from the coin to the record: in every state a well-formed history reaches, when filterBlock of an
   announced block succeeds, every non-coinbase transaction M of the block that has among its inputs the outpoint
   of a credit c of the store gets a record, and the record has a recognised input for that outpoint *)
Theorem C09_spend_of_credit_recognised :
  forall p a3fix g h b, wf_phistory g h -> powners_before_seen g h -> seen_ids_agree g (h ++ [PvProcess b]) ->
    let q := prun p a3fix g h in
    let s := h_store (q_h q) in
    let own := own_of (q_own q) in
    forall recs,
      filter_block_txs own (credits (ps_w s)) (lookup_pending (q_node q) (ps_unmined s)) [] (b_txs b) = Ok recs ->
      forall M c, In M (b_txs b) -> t_cb M = false -> In c (credits (ps_w s)) -> In (credit_op c) (t_ins M) ->
        exists r ri, In r recs /\ rr_tx r = M /\ In ri (rr_ins r) /\ ri_prev ri = credit_op c.
Proof. exact spend_of_credit_recognised. Qed.
Print Assumptions C09_spend_of_credit_recognised.

(* no records, no recognised inputs, no index in the premises: processConnectedBlock of a block b extending the
   tip succeeds in a reachable state s; a non-coinbase M of b spends the outpoint of a credit c of the store that
   the readable pending X spends too; X is not a transaction of b.  Then X is not pending afterwards, nor are its
   registered descendants through transactions that are not in b (all of them: C09_conflict_full_descendants
   below), X is registered under none of its inputs, an input only X was registered under is not flagged, and
   nothing was added to the pending buckets ([vanished]) *)
Theorem C09_conflict_on_credit_vanishes :
  forall p a3fix g h b, wf_phistory g h -> powners_before_seen g h -> seen_ids_agree g (h ++ [PvProcess b]) ->
    let q := prun p a3fix g h in
    let s := h_store (q_h q) in
    let own := own_of (q_own q) in
    forall hs', (snd (tip (ps_w s)) =? b_prev b)%N = true ->
      pprocess p a3fix own (q_node q) (q_h q) b = POk hs' ->
      forall M c X tX, In M (b_txs b) -> t_cb M = false -> In c (credits (ps_w s)) -> In (credit_op c) (t_ins M) ->
        pend s X = Some (USer tX) -> In (credit_op c) (t_ins tX) -> ~ In X (map t_id (b_txs b)) ->
        vanished s (h_store hs') (fun k => In k (map t_id (b_txs b))) X tX.
Proof. exact conflict_on_credit_vanishes. Qed.
Print Assumptions C09_conflict_on_credit_vanishes.

(* "the coins it held are free again" without the index: an input of X that no other readable pending
   transaction of s spends is not flagged after the block *)
Theorem C09_conflict_on_credit_frees :
  forall p g h b, wf_phistory g h -> powners_before_seen g h -> seen_ids_agree g (h ++ [PvProcess b]) ->
    let q := prun p true g h in
    let s := h_store (q_h q) in
    let own := own_of (q_own q) in
    forall hs', (snd (tip (ps_w s)) =? b_prev b)%N = true ->
      pprocess p true own (q_node q) (q_h q) b = POk hs' ->
      forall M c X tX, In M (b_txs b) -> t_cb M = false -> In c (credits (ps_w s)) -> In (credit_op c) (t_ins M) ->
        pend s X = Some (USer tX) -> In (credit_op c) (t_ins tX) -> ~ In X (map t_id (b_txs b)) ->
        forall o, In o (t_ins tX) -> (forall Y tY, pend s Y = Some (USer tY) -> In o (t_ins tY) -> Y = X) ->
          spent_by_unmined (h_store hs') o = false.
Proof. exact conflict_on_credit_frees. Qed.
Print Assumptions C09_conflict_on_credit_frees.

(* whatever IS flagged after the block is spent by a readable transaction that was pending before and still is *)
Theorem C09_still_flagged_still_spent :
  forall p g h b, powners_before_seen g h -> seen_ids_agree g (h ++ [PvProcess b]) ->
    let q := prun p true g h in
    let s := h_store (q_h q) in
    let own := own_of (q_own q) in
    forall hs', (snd (tip (ps_w s)) =? b_prev b)%N = true ->
      pprocess p true own (q_node q) (q_h q) b = POk hs' ->
      forall o, spent_by_unmined (h_store hs') o = true ->
        exists Y tY, pend (h_store hs') Y = Some (USer tY) /\ In o (t_ins tY) /\ pend s Y = Some (USer tY).
Proof. exact still_flagged_still_spent. Qed.
Print Assumptions C09_still_flagged_still_spent.

(* ---- "it and its unconfirmed descendants vanish": descendants of any depth *)

(* The node's chain is well formed (wf_phistory for the history including the announcement).  Same situation.
   (1) No registered descendant of X, of any depth ([desc]), is a transaction of b: the node's chain would contain X
       (a well-formed chain contains the previous transaction of every input) next to M, spending one output twice.
       So the case "a transaction confirms whose ancestor was conflicted away" does not arise with a valid block.
   (2) Every registered descendant of X has left the pending set.
   (3) So has every pending transaction that spends, through any number of pending transactions, a wallet output
       of X ([wdesc]: no index in the statement). *)
Theorem C09_conflict_full_descendants :
  forall p g h b, wf_phistory g (h ++ [PvProcess b]) -> powners_before_seen g h -> seen_ids_agree g (h ++ [PvProcess b]) ->
    let q := prun p true g h in
    let s := h_store (q_h q) in
    let own := own_of (q_own q) in
    forall hs', (snd (tip (ps_w s)) =? b_prev b)%N = true ->
      pprocess p true own (q_node q) (q_h q) b = POk hs' ->
      forall M c X tX, In M (b_txs b) -> t_cb M = false -> In c (credits (ps_w s)) -> In (credit_op c) (t_ins M) ->
        pend s X = Some (USer tX) -> In (credit_op c) (t_ins tX) -> ~ In X (map t_id (b_txs b)) ->
        (forall Y, desc s X Y -> ~ In Y (map t_id (b_txs b))) /\
        (forall D, desc s X D -> pend (h_store hs') D = None) /\
        (forall D, wdesc own s X D -> pend (h_store hs') D = None).
Proof. exact conflict_full_descendants_vanish. Qed.
Print Assumptions C09_conflict_full_descendants.

(* readable pending transactions are never coinbases, in any state of any history *)
Theorem C09_pending_not_coinbase :
  forall p a3fix g h X tX, pend (h_store (q_h (prun p a3fix g h))) X = Some (USer tX) -> t_cb tX = false.
Proof. exact prun_ncb. Qed.
Print Assumptions C09_pending_not_coinbase.

(* what the model does with a block that is NOT valid in this way (t13 in the block, its parent t10 conflicted by
   t11 of the same block) depends on the order of the block's transactions: the pending child t14 of t13 is removed
   (t11 first) or kept (t13 first); the node's chain is not well formed *)
Theorem C09_invalid_block_order_dependent :
  let s1 := h_store (q_h (prun BadBlock.p true BadBlock.g (BadBlock.evs [BadBlock.t11; BadBlock.t13]))) in
  let s2 := h_store (q_h (prun BadBlock.p true BadBlock.g (BadBlock.evs [BadBlock.t13; BadBlock.t11]))) in
  (tx_recorded s1 13%N = true /\ ps_unmined s1 = [] /\ ps_uinputs s1 = []) /\
  (tx_recorded s2 13%N = true /\ read_unmined s2 14%N = RdOk BadBlock.t14 /\ read_unmined s2 10%N = RdNone /\
   spent_by_unmined s2 (13, 0)%N = true) /\
  ~ wf_chain (q_node (prun BadBlock.p true BadBlock.g (BadBlock.evs [BadBlock.t11; BadBlock.t13]))).
Proof. exact invalid_block_order_dependent. Qed.
Print Assumptions C09_invalid_block_order_dependent.

(* ---- the reorganisation as one statement *)

(* processConnectedBlock of a block that does not extend the wallet's tip: rollback to the fork, then the blocks of
   the new branch, one commit.  In the final state no readable pending transaction spends a credit that is spent
   above the fork, i.e. by a transaction of the new branch: the pending set is conflict-free with respect to the
   wallet coins the new chain spends. *)
Theorem C09_reorg_conflict_free :
  forall p a3fix g h b, powners_before_seen g h -> seen_ids_agree g (h ++ [PvProcess b]) ->
    let q := prun p a3fix g h in
    let s := h_store (q_h q) in
    let own := own_of (q_own q) in
    forall hs' fork bs, (snd (tip (ps_w s)) =? b_prev b)%N = false ->
      collect (q_node q) (ps_w s) (S (Z.to_nat (b_height b))) b [] = Some (fork, bs) ->
      pprocess p a3fix own (q_node q) (q_h q) b = POk hs' ->
      forall X tX c m i hm, pend (h_store hs') X = Some (USer tX) -> In c (credits (ps_w (h_store hs'))) ->
        c_spent c = Some (m, i, hm) -> fork < hm -> ~ In (credit_op c) (t_ins tX).
Proof. exact reorg_conflict_free. Qed.
Print Assumptions C09_reorg_conflict_free.

(* any successful processConnectedBlock, extending or reorganising: a spent credit of the final ledger that a
   readable pending transaction of the final state spends was in the ledger before, with the same mark *)
Theorem C09_process_conflict_free :
  forall p a3fix g h b, powners_before_seen g h -> seen_ids_agree g (h ++ [PvProcess b]) ->
    let q := prun p a3fix g h in
    let s := h_store (q_h q) in
    let own := own_of (q_own q) in
    forall hs', pprocess p a3fix own (q_node q) (q_h q) b = POk hs' ->
      forall X tX c m i hm, pend (h_store hs') X = Some (USer tX) -> In c (credits (ps_w (h_store hs'))) ->
        c_spent c = Some (m, i, hm) -> In (credit_op c) (t_ins tX) -> In c (credits (ps_w s)).
Proof. exact extend_conflict_free. Qed.
Print Assumptions C09_process_conflict_free.

(* the same from any state satisfying the invariant [sinv], with the bound for the reorganising case *)
Theorem C09_process_conflict_free_inv :
  forall S p a3fix own n hs b hs',
    ids_agree_on S -> node_in S n -> (forall t, In t (b_txs b) -> In t S) -> sinv S own (h_store hs) ->
    pprocess p a3fix own n hs b = POk hs' ->
    forall X tX c m i hm, pend (h_store hs') X = Some (USer tX) -> In c (credits (ps_w (h_store hs'))) ->
      c_spent c = Some (m, i, hm) -> In (credit_op c) (t_ins tX) ->
      In c (credits (ps_w (h_store hs))) /\
      ((snd (tip (ps_w (h_store hs))) =? b_prev b)%N = false ->
       forall fork bs, collect n (ps_w (h_store hs)) (Datatypes.S (Z.to_nat (b_height b))) b [] = Some (fork, bs) -> hm <= fork).
Proof. exact pprocess_conflict_free. Qed.
Print Assumptions C09_process_conflict_free_inv.

(* "was in the ledger before" cannot be dropped: filterTx for an unconfirmed transaction does not look at the
   spent mark; a transaction delivered although it spends a coin the wallet's chain has spent is stored and stays
   pending (PendingProofs4.StaleConflict; a node does not relay such a transaction while the spender is on its chain) *)
Theorem C09_pending_on_spent_coin_reachable :
  exists p g h X tX c,
    wf_phistory g h /\ powners_before_seen g h /\ seen_ids_agree g h /\
    let s := h_store (q_h (prun p true g h)) in
    pend s X = Some (USer tX) /\ In c (credits (ps_w s)) /\ c_spent c <> None /\ In (credit_op c) (t_ins tX).
Proof. exact pending_on_spent_coin_reachable. Qed.
Print Assumptions C09_pending_on_spent_coin_reachable.

(* ---- not vacuous *)

(* t10 (spends (1,0), pays the wallet (10,0)), t13 (spends (10,0), pays the wallet), t14 (spends (13,0)) are pending;
   b3' with t11, which spends (1,0), is announced *)
Module ExD.
  Definition t13 : tx := {| t_id := 13; t_cb := false; t_ins := [(10, 0)%N]; t_outs := [ {| o_sh := 1; o_val := 3; o_class := CStd |} ] |}.
  Definition t14 : tx := {| t_id := 14; t_cb := false; t_ins := [(13, 0)%N]; t_outs := [ {| o_sh := 9; o_val := 3; o_class := CStd |} ] |}.
  Definition before : list pevent := Ex.pre ++ [PvReceive t13; PvReceive t14; PvAttach Ex.b3'].
End ExD.

(* the hypotheses of C09_conflict_on_credit_vanishes and C09_conflict_full_descendants hold (M = t11, X = 10,
   c the credit (1,0)), t14 is a descendant of t10 through wallet outputs, and after the block nothing is pending *)
Example C09_example_descendants :
  let q := prun Ex.p true Ex.g ExD.before in
  let s := h_store (q_h q) in
  let own := own_of (q_own q) in
  wf_phistory Ex.g (ExD.before ++ [PvProcess Ex.b3']) /\ powners_before_seen Ex.g ExD.before /\
  seen_ids_agree Ex.g (ExD.before ++ [PvProcess Ex.b3']) /\
  (snd (tip (ps_w s)) =? b_prev Ex.b3')%N = true /\
  (exists hs', pprocess Ex.p true own (q_node q) (q_h q) Ex.b3' = POk hs' /\
               ps_unmined (h_store hs') = [] /\ ps_uinputs (h_store hs') = [] /\ ps_ucredits (h_store hs') = []) /\
  In Ex.t11 (b_txs Ex.b3') /\ t_cb Ex.t11 = false /\
  (exists c, In c (credits (ps_w s)) /\ In (credit_op c) (t_ins Ex.t11) /\ In (credit_op c) (t_ins Ex.t10)) /\
  pend s 10%N = Some (USer Ex.t10) /\ ~ In 10%N (map t_id (b_txs Ex.b3')) /\
  wdesc own s 10%N 14%N.
Proof.
  cbv zeta.
  split; [apply wf_phistory_b_sound; vm_compute; reflexivity|].
  split; [apply powners_before_seen_b_sound; vm_compute; reflexivity|].
  split; [apply seen_ids_agree_b_sound; vm_compute; reflexivity|].
  split; [vm_compute; reflexivity|].
  split; [eexists; split; [vm_compute; reflexivity|]; vm_compute; repeat split; reflexivity|].
  split; [right; left; reflexivity|]. split; [reflexivity|].
  split.
  { exists {| c_tx := 1; c_vout := 0; c_height := 1; c_bid := 1; c_amount := 5; c_sh := 1; c_wallet := 1;
              c_class := CStd; c_maturity := 1; c_spent := None |}.
    split; [vm_compute; left; reflexivity|]. split; left; reflexivity. }
  split; [vm_compute; reflexivity|].
  split; [vm_compute; intros [H|[H|[]]]; discriminate H|].
  apply (wdesc_step _ _ 10%N 13%N 14%N).
  - apply (wdesc_child _ _ 10%N Ex.t10 13%N ExD.t13 0%N); [vm_compute; reflexivity|vm_compute; reflexivity|left; reflexivity|].
    eexists. split; [reflexivity|]. split; [discriminate|vm_compute; discriminate].
  - apply (wdesc_child _ _ 13%N ExD.t13 14%N ExD.t14 0%N); [vm_compute; reflexivity|vm_compute; reflexivity|left; reflexivity|].
    eexists. split; [reflexivity|]. split; [discriminate|vm_compute; discriminate].
Qed.

(* a reorganisation: t10 pending; the wallet follows b3a (nothing relevant); the node switches to b3' (with t11, which
   spends (1,0) like t10) and b4n; b4n is announced: fork at height 2, b3a rolled back, b3' and b4n connected *)
Module ExG.
  Definition b3a : block := {| b_id := 8; b_prev := 2; b_height := 3; b_txs := [Ex.cb 8] |}.
  Definition b4n : block := {| b_id := 9; b_prev := 4; b_height := 4; b_txs := [Ex.cb 9] |}.
  Definition before : list pevent :=
    Ex.pre ++ [PvAttach b3a; PvProcess b3a; PvDetach; PvAttach Ex.b3'; PvAttach b4n].
End ExG.

Example C09_example_reorg_conflict :
  let q := prun Ex.p true Ex.g ExG.before in
  let s := h_store (q_h q) in
  let own := own_of (q_own q) in
  powners_before_seen Ex.g ExG.before /\ seen_ids_agree Ex.g (ExG.before ++ [PvProcess ExG.b4n]) /\
  wf_phistory Ex.g (ExG.before ++ [PvProcess ExG.b4n]) /\
  read_unmined s 10%N = RdOk Ex.t10 /\ spent_by_unmined s (1, 0)%N = true /\
  (snd (tip (ps_w s)) =? b_prev ExG.b4n)%N = false /\
  collect (q_node q) (ps_w s) (S (Z.to_nat (b_height ExG.b4n))) ExG.b4n [] = Some (2, [Ex.b3'; ExG.b4n]) /\
  exists hs', pprocess Ex.p true own (q_node q) (q_h q) ExG.b4n = POk hs' /\
    read_unmined (h_store hs') 10%N = RdNone /\ ps_uinputs (h_store hs') = [] /\ ps_ucredits (h_store hs') = [] /\
    exists c, In c (credits (ps_w (h_store hs'))) /\ credit_op c = (1, 0)%N /\ c_spent c = Some (11%N, 0%N, 3).
Proof.
  cbv zeta.
  split; [apply powners_before_seen_b_sound; vm_compute; reflexivity|].
  split; [apply seen_ids_agree_b_sound; vm_compute; reflexivity|].
  split; [apply wf_phistory_b_sound; vm_compute; reflexivity|].
  split; [vm_compute; reflexivity|]. split; [vm_compute; reflexivity|]. split; [vm_compute; reflexivity|].
  split; [vm_compute; reflexivity|].
  eexists. split; [vm_compute; reflexivity|]. split; [vm_compute; reflexivity|]. split; [vm_compute; reflexivity|].
  split; [vm_compute; reflexivity|].
  exists {| c_tx := 1; c_vout := 0; c_height := 1; c_bid := 1; c_amount := 5; c_sh := 1; c_wallet := 1;
            c_class := CStd; c_maturity := 1; c_spent := Some (11%N, 0%N, 3) |}.
  split; [vm_compute; left; reflexivity|]. split; reflexivity.
Qed.
