(* Property C09 — pending transactions are tracked exactly: flagged, not reused, settled once.
   Only statements here; proofs are in Ledger/PendingProofs.v.
   Model: Ledger/Pending.v (filterTx for unconfirmed transactions, insertMemPoolTx, addUnminedCredits,
   insertUnminedInputs, insertMinedTx's settle part, removeDoubleSpends, removeConflict, Rollback's move
   back to the unmined bucket, deleteUnminedInputs, the handler's volatile set, the flag and selection
   queries) wrapped around the frozen mined-side model Ledger/Model.v. *)
From Coq Require Import List ZArith NArith Bool.
Import ListNotations.
Open Scope Z_scope.
Require Import MW.Ledger.Model MW.Ledger.Spec MW.Ledger.Run MW.Ledger.Pending MW.Ledger.PendingProofs.

(* the coins an unconfirmed transaction creates are not counted as confirmed: receiving it leaves
   credits, balances, the synced chain and the mined deposit rows — everything C01 reports — untouched *)
Theorem C09_not_counted :
  forall p own n hs t,
    let hs' := fst (receive_tx p own n hs t) in
    ps_w (h_store hs') = ps_w (h_store hs) /\ ps_game (h_store hs') = ps_game (h_store hs) /\
    ps_blocks (h_store hs') = ps_blocks (h_store hs) /\
    forall w, model_report (ps_w (h_store hs')) w = model_report (ps_w (h_store hs)) w.
Proof. exact receive_tx_not_counted. Qed.
Print Assumptions C09_not_counted.
