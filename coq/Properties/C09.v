(* Property C09 — pending transactions are tracked exactly: flagged, not reused, settled once.
   Only statements here; proofs are in Ledger/PendingProofs.v.
   Model: Ledger/Pending.v (filterTx for unconfirmed transactions, insertMemPoolTx, addUnminedCredits,
   insertUnminedInputs, insertMinedTx's settle part, removeDoubleSpends, removeConflict, Rollback's move
   back to the unmined bucket, deleteUnminedInputs, the handler's volatile set, the flag and selection
   queries) wrapped around the frozen mined-side model Ledger/Model.v.

   Environment assumptions that appear as premises:
   - [tx_ordered] / [event_ordered]: a transaction spends outputs of transactions created before it
     (ids are assigned in creation order; E4 of DESIGN.md appendix A);
   - [node_knows n b]: the node can produce the previous transaction of every input of a block it
     announces (E1).
   The model is the code after the repairs 626fe73 (deleteUnminedInputs removes only the transaction's
   own hash), 0bc4560 (a transaction already recorded as mined is not stored as pending) and cb8fee8
   (Rollback stores the serialized transaction); the code as first found is kept in
   del_inputs_of_found / receive_store_gen false / rollback with a3fix = false for the _refuted theorems. *)
From Coq Require Import List ZArith NArith Bool.
Import ListNotations.
Open Scope Z_scope.
Require Import MW.Ledger.Model MW.Ledger.Spec MW.Ledger.Run MW.Ledger.Pending MW.Ledger.PendingProofs.

(* ---- flagged, not reused *)

(* once an unconfirmed transaction is accepted, every coin it spends that the wallet can recognise as its
   own is reported spent_by_unmined and is not eligible for automatic selection; the transaction can be
   read back from the pending set *)
Theorem C09_flag :
  forall p own n s t s', receive_store p own n s t = POk (Some s') ->
    pend s (t_id t) = None -> tx_recorded s (t_id t) = false ->
    read_unmined s' (t_id t) = RdOk t /\
    forall ph pv pt o w, In (ph, pv) (t_ins t) ->
      lookup_pending n (ps_unmined s) ph = Some pt -> nth_error (t_outs pt) (N.to_nat pv) = Some o ->
      o_class o <> CUnsupported -> own (o_sh o) = Some w ->
      In (t_id t) (ui_get (ps_uinputs s') (ph, pv)) /\ spent_by_unmined s' (ph, pv) = true /\
      forall c, credit_op c = (ph, pv) -> eligible s' c = false.
Proof. exact receive_flags. Qed.
Print Assumptions C09_flag.

(* the flag stays while the transaction stays pending: a mined record removes no registration of a
   transaction that is still pending afterwards *)
Theorem C09_flag_kept :
  forall p own h bid s r s', p_apply_rec p own h bid s r = POk s' ->
    forall o sp, In sp (ui_get (ps_uinputs s) o) -> pend s' sp <> None -> In sp (ui_get (ps_uinputs s') o).
Proof. exact flag_kept_by_mined_record. Qed.
Print Assumptions C09_flag_kept.

Theorem C09_flagged_not_eligible :
  forall s c, spent_by_unmined s (credit_op c) = true -> eligible s c = false.
Proof. exact eligible_not_flagged. Qed.
Print Assumptions C09_flagged_not_eligible.

(* ---- not counted as confirmed *)

Theorem C09_not_counted :
  forall p own n hs t,
    let hs' := fst (receive_tx p own n hs t) in
    ps_w (h_store hs') = ps_w (h_store hs) /\ ps_game (h_store hs') = ps_game (h_store hs) /\
    ps_blocks (h_store hs') = ps_blocks (h_store hs) /\
    forall w, model_report (ps_w (h_store hs')) w = model_report (ps_w (h_store hs)) w.
Proof. exact receive_tx_not_counted. Qed.
Print Assumptions C09_not_counted.

(* ---- settled once *)

(* mining a pending transaction leaves exactly the mined state (credits, balances, block records, mined
   deposit rows) that mining it without ever having seen it pending leaves — the function
   m_connect_block of the mined side alone, whose ledger part is C01's connect_block — and removes it
   from the pending set *)
Theorem C09_settle_once :
  forall p own n s t s1 b sa ida sb idb,
    node_knows n b ->
    receive_store p own n s t = POk (Some s1) ->
    p_connect_block p own n (ps_unmined s1) s1 b = POk (sa, ida) ->
    p_connect_block p own n (ps_unmined s) s b = POk (sb, idb) ->
    mined sa = mined sb /\ ida = idb /\
    m_connect_block p own n (mined s) b = Some (mined sa, ida) /\
    connect_block p true own (credits (ps_w s)) (node_tx n) (ps_w s) b = Ok (ps_w sa) /\
    (In (t_id t) ida -> um_get (ps_unmined sa) (t_id t) = None).
Proof. exact settle_once. Qed.
Print Assumptions C09_settle_once.

(* every relevant record of a connected block leaves the pending set, its unmined credits go with it,
   and connecting never adds a pending record *)
Theorem C09_settled_records :
  forall p own h bid s r s', p_apply_rec p own h bid s r = POk s' ->
    shrinks s s' /\ um_get (ps_unmined s') (t_id (rr_tx r)) = None /\
    (um_get (ps_unmined s) (t_id (rr_tx r)) <> None ->
     forall i, In i (out_indexes (rr_tx r)) -> uc_get (ps_ucredits s') (t_id (rr_tx r), i) = None).
Proof. exact p_apply_rec_settles. Qed.
Print Assumptions C09_settled_records.

(* ---- a conflicting transaction confirms *)

Theorem C09_conflict_purges_descendants :
  forall own s r s', remove_double_spends own s r = POk s' ->
    (forall ri T, In ri (rr_ins r) -> In T (ui_get (ps_uinputs s) (ri_prev ri)) ->
        pend s' T = None /\ forall D, desc s T D -> pend s' D = None) /\
    (forall X tX o, pend s X = Some (USer tX) -> pend s' X = None -> In o (t_ins tX) -> ~ In X (ui_get (ps_uinputs s') o)) /\
    (forall o sp, In sp (ui_get (ps_uinputs s) o) -> pend s' sp <> None -> sp <> t_id (rr_tx r) -> In sp (ui_get (ps_uinputs s') o)) /\
    shrinks s s'.
Proof. exact conflict_purges_descendants. Qed.
Print Assumptions C09_conflict_purges_descendants.

(* removeConflict itself: the transaction, its registrations and its unmined credits are gone *)
Theorem C09_conflict_removed :
  forall fuel own s h t s', remove_conflict fuel own s h t = POk s' ->
    um_get (ps_unmined s') h = None /\
    (forall o, In o (t_ins t) -> ~ In h (ui_get (ps_uinputs s') o)) /\
    (forall i, In i (out_indexes t) -> uc_get (ps_ucredits s') (h, i) = None).
Proof. exact remove_conflict_removes. Qed.
Print Assumptions C09_conflict_removed.

(* the recursion of removeConflict terminates: the fuel the model passes is never exhausted, in any
   state reachable by any history of ordered transactions *)
Theorem C09_conflict_fuel :
  forall p a3fix g evs b, block_ordered g -> Forall event_ordered evs -> block_ordered b ->
    let s := prun p a3fix g evs in
    pprocess p a3fix (own_of (q_own s)) (q_node s) (q_h s) b <> PErr EOutOfFuel.
Proof. exact process_never_out_of_fuel. Qed.
Print Assumptions C09_conflict_fuel.

(* ---- reorganised away: back in the pending set, readable *)

Theorem C09_rollback_readable :
  forall cs s r s' ops,
    NoDup (map t_id (br_txs r)) ->
    rollback_move true cs s r = POk (s', ops) ->
    forall t, In t (br_txs r) -> t_cb t = false ->
      read_unmined s' (t_id t) = RdOk t /\ forall o, In o (t_ins t) -> In (t_id t) (ui_get (ps_uinputs s') o).
Proof. exact rollback_readable. Qed.
Print Assumptions C09_rollback_readable.

(* the code as first found (Rollback stored the 28-byte location; repaired in /repo, cb8fee8) *)
Theorem C09_rollback_readable_unfixed_refuted :
  exists cs s r s' ops t,
    rollback_move false cs s r = POk (s', ops) /\ In t (br_txs r) /\ t_cb t = false /\
    read_unmined s' (t_id t) <> RdOk t.
Proof. exact rollback_readable_unfixed_refuted. Qed.
Print Assumptions C09_rollback_readable_unfixed_refuted.

(* two pending transactions sharing a wallet coin, one of them conflicted through its other input: the
   other one stays pending and the coin stays flagged and unselectable (the scenario of the repaired finding
   flag-lost:shared-input-key) *)
Theorem C09_shared_input_keeps_flag :
  let s := h_store (q_h (prun SharedKey.p true SharedKey.g SharedKey.evs)) in
  read_unmined s 10%N = RdNone /\ read_unmined s 11%N = RdOk SharedKey.t2 /\
  spent_by_unmined s (1, 0)%N = true /\ spent_by_unmined s (3, 0)%N = true /\
  map credit_op (eligible_list s 1%N) = [(4, 0)%N].
Proof. exact shared_input_keeps_flag. Qed.
Print Assumptions C09_shared_input_keeps_flag.

(* the code as first found deleted the whole unmined-inputs entry of every input of a removed transaction *)
Theorem C09_whole_key_unfixed_refuted :
  exists ui t o sp, In sp (ui_get ui o) /\ sp <> t_id t /\ ~ In sp (ui_get (del_inputs_of_found ui t) o) /\
                    In sp (ui_get (del_inputs_of ui t (t_id t)) o).
Proof. exact flag_lost_whole_key_refuted. Qed.
Print Assumptions C09_whole_key_unfixed_refuted.

(* a transaction already recorded as mined that is delivered as unconfirmed is reported relevant and nothing
   is stored; the code as first found stored it as pending again *)
Theorem C09_already_mined_not_stored :
  forall p own n s t s', receive_store p own n s t = POk (Some s') ->
    pend s (t_id t) = None -> tx_recorded s (t_id t) = true -> s' = s.
Proof. exact receive_already_mined. Qed.
Print Assumptions C09_already_mined_not_stored.

Theorem C09_pending_while_mined_unfixed_refuted :
  let q := MinedThenDelivered.sim in
  let s := h_store (q_h q) in
  tx_recorded s 10%N = true /\
  (exists s', receive_store_gen false MinedThenDelivered.p (own_of (q_own q)) (q_node q) s MinedThenDelivered.t = POk (Some s') /\
              read_unmined s' 10%N = RdOk MinedThenDelivered.t) /\
  receive_store MinedThenDelivered.p (own_of (q_own q)) (q_node q) s MinedThenDelivered.t = POk (Some s).
Proof. exact pending_while_mined_refuted. Qed.
Print Assumptions C09_pending_while_mined_unfixed_refuted.

(* ---- the statements are not vacuous: a concrete history *)
Module Ex.
  Definition p : params := {| p_cbmat := 1; p_bindlock := 4294967294 |}.
  Definition g : block := {| b_id := 0; b_prev := 0; b_height := 0; b_txs := [] |}.
  Definition cb (id : N) : tx := {| t_id := id; t_cb := true; t_ins := []; t_outs := [ {| o_sh := 1; o_val := 5; o_class := CStd |} ] |}.
  Definition b1 : block := {| b_id := 1; b_prev := 0; b_height := 1; b_txs := [cb 1] |}.
  Definition b2 : block := {| b_id := 2; b_prev := 1; b_height := 2; b_txs := [cb 2] |}.
  (* t10 spends the wallet coin (1,0) and pays the wallet a staking deposit and a stranger *)
  Definition t10 : tx := {| t_id := 10; t_cb := false; t_ins := [(1, 0)%N];
                            t_outs := [ {| o_sh := 1; o_val := 3; o_class := CStaking 2 |}; {| o_sh := 9; o_val := 2; o_class := CStd |} ] |}.
  (* t11 double-spends (1,0) *)
  Definition t11 : tx := {| t_id := 11; t_cb := false; t_ins := [(1, 0)%N]; t_outs := [ {| o_sh := 9; o_val := 5; o_class := CStd |} ] |}.
  Definition b3 : block := {| b_id := 3; b_prev := 2; b_height := 3; b_txs := [cb 3; t10] |}.
  Definition b3' : block := {| b_id := 4; b_prev := 2; b_height := 3; b_txs := [cb 4; t11] |}.
  Definition pre : list pevent := [PvOwner 1 1; PvAttach b1; PvProcess b1; PvAttach b2; PvProcess b2; PvReceive t10].
  Definition st (evs : list pevent) : pstate := h_store (q_h (prun p true g evs)).
End Ex.

(* received: flagged, not eligible, readable, a pending staking row, balances unchanged *)
Example C09_example_pending :
  let s := Ex.st Ex.pre in
  read_unmined s 10%N = RdOk Ex.t10 /\ spent_by_unmined s (1, 0)%N = true /\
  map credit_op (eligible_list s 1%N) = [(2, 0)%N] /\
  map (fun r => (hr_tx r, hr_vout r, hr_amount r, hr_frozen r, hr_pending r)) (game_history (q_node (prun Ex.p true Ex.g Ex.pre)) s 1%N false false)
    = [(10%N, 0%N, 3, 2, true)] /\
  gross_balance (ps_w s) 1%N = 10.
Proof.
  vm_compute. repeat split; reflexivity.
Qed.

(* mined: an ordinary ledger entry, no longer pending, the deposit row is a mined one *)
Example C09_example_settled :
  let s := Ex.st (Ex.pre ++ [PvAttach Ex.b3; PvProcess Ex.b3]) in
  read_unmined s 10%N = RdNone /\ ps_ucredits s = [] /\ ps_uinputs s = [] /\ ps_ugame s = [] /\
  map (fun r => (g_tx r, g_vout r, g_height r, g_withdrawn r)) (ps_game s) = [(10%N, 0%N, 3, false)] /\
  gross_balance (ps_w s) 1%N = 13.
Proof. vm_compute. repeat split; reflexivity. Qed.

(* the conflicting transaction confirms instead: the pending transaction vanishes, the coin it held is gone
   with the conflict (spent on the chain), nothing of it remains in any pending bucket *)
Example C09_example_conflict :
  let s := Ex.st (Ex.pre ++ [PvAttach Ex.b3'; PvProcess Ex.b3']) in
  read_unmined s 10%N = RdNone /\ ps_ucredits s = [] /\ ps_uinputs s = [] /\ ps_ugame s = [] /\ ps_game s = [] /\
  gross_balance (ps_w s) 1%N = 10.
Proof. vm_compute. repeat split; reflexivity. Qed.

(* mined, then reorganised away: pending again, readable, flagged again *)
Example C09_example_rollback :
  let s := Ex.st (Ex.pre ++ [PvAttach Ex.b3; PvProcess Ex.b3; PvDetach; PvAttach {| b_id := 5; b_prev := 2; b_height := 3; b_txs := [Ex.cb 6] |};
                             PvProcess {| b_id := 5; b_prev := 2; b_height := 3; b_txs := [Ex.cb 6] |}]) in
  read_unmined s 10%N = RdOk Ex.t10 /\ spent_by_unmined s (1, 0)%N = true /\ ps_game s = [] /\
  map (fun r => (ug_tx r, ug_vout r)) (ps_ugame s) = [(10%N, 0%N)].
Proof. vm_compute. repeat split; reflexivity. Qed.
