(* Property C09 — pending transactions are tracked exactly: flagged, not reused, settled once.
   Only statements here; proofs are in Ledger/PendingProofs.v.
   Model: Ledger/Pending.v (filterTx for unconfirmed transactions, insertMemPoolTx, addUnminedCredits,
   insertUnminedInputs, insertMinedTx's settle part, removeDoubleSpends, removeConflict, Rollback's move
   back to the unmined bucket, deleteUnminedInputs, the handler's volatile set, the flag and selection
   queries) wrapped around the frozen mined-side model Ledger/Model.v.

   Environment assumptions that appear as premises:
   - [tx_ordered] / [event_ordered]: a transaction spends outputs of transactions created before it
     (ids are assigned in creation order; E4 of DESIGN.md appendix A);
   - [node_knows n b]: the node can produce the previous transaction of every input of a block it
     announces (E1);
   - [guard s]: no two pending transactions spend the same outpoint, registrations name real inputs,
     pending records are serialized transactions.  The first clause excludes exactly the shape of
     finding flag-lost:shared-input-key (C09_shared_key_refuted shows what happens without it). *)
From Coq Require Import List ZArith NArith Bool.
Import ListNotations.
Open Scope Z_scope.
Require Import MW.Ledger.Model MW.Ledger.Spec MW.Ledger.Run MW.Ledger.Pending MW.Ledger.PendingProofs.

(* ---- flagged, not reused *)

(* once an unconfirmed transaction is accepted, every coin it spends that the wallet can recognise as its
   own is reported spent_by_unmined and is not eligible for automatic selection; the transaction can be
   read back from the pending set *)
Theorem C09_flag :
  forall p own n s t s', receive_store p own n s t = POk (Some s') -> pend s (t_id t) = None ->
    read_unmined s' (t_id t) = RdOk t /\
    forall ph pv pt o w, In (ph, pv) (t_ins t) ->
      lookup_pending n (ps_unmined s) ph = Some pt -> nth_error (t_outs pt) (N.to_nat pv) = Some o ->
      o_class o <> CUnsupported -> own (o_sh o) = Some w ->
      In (t_id t) (ui_get (ps_uinputs s') (ph, pv)) /\ spent_by_unmined s' (ph, pv) = true /\
      forall c, credit_op c = (ph, pv) -> eligible s' c = false.
Proof. exact receive_flags. Qed.
Print Assumptions C09_flag.

(* the flag stays while the transaction stays pending: a mined record removes a registration only
   together with its transaction, or under an outpoint the mined transaction itself spends *)
Theorem C09_flag_kept :
  forall p own h bid s r s', guard s -> p_apply_rec p own h bid s r = POk s' ->
    forall o sp, In sp (ui_get (ps_uinputs s) o) -> pend s' sp <> None ->
      ~ In o (t_ins (rr_tx r)) -> In sp (ui_get (ps_uinputs s') o).
Proof. exact flag_kept_by_mined_record. Qed.
Print Assumptions C09_flag_kept.

Theorem C09_flagged_not_eligible :
  forall s c, spent_by_unmined s (credit_op c) = true -> eligible s c = false.
Proof. exact eligible_not_flagged. Qed.
Print Assumptions C09_flagged_not_eligible.

(* ---- not counted as confirmed *)

Theorem C09_not_counted :
  forall p own n hs t,
    let hs' := fst (receive_tx p own n hs t) in
    ps_w (h_store hs') = ps_w (h_store hs) /\ ps_game (h_store hs') = ps_game (h_store hs) /\
    ps_blocks (h_store hs') = ps_blocks (h_store hs) /\
    forall w, model_report (ps_w (h_store hs')) w = model_report (ps_w (h_store hs)) w.
Proof. exact receive_tx_not_counted. Qed.
Print Assumptions C09_not_counted.

(* ---- settled once *)

(* mining a pending transaction leaves exactly the mined state (credits, balances, block records, mined
   deposit rows) that mining it without ever having seen it pending leaves — the function
   m_connect_block of the mined side alone, whose ledger part is C01's connect_block — and removes it
   from the pending set *)
Theorem C09_settle_once :
  forall p own n s t s1 b sa ida sb idb,
    node_knows n b ->
    receive_store p own n s t = POk (Some s1) ->
    p_connect_block p own n (ps_unmined s1) s1 b = POk (sa, ida) ->
    p_connect_block p own n (ps_unmined s) s b = POk (sb, idb) ->
    mined sa = mined sb /\ ida = idb /\
    m_connect_block p own n (mined s) b = Some (mined sa, ida) /\
    connect_block p true own (credits (ps_w s)) (node_tx n) (ps_w s) b = Ok (ps_w sa) /\
    (In (t_id t) ida -> um_get (ps_unmined sa) (t_id t) = None).
Proof. exact settle_once. Qed.
Print Assumptions C09_settle_once.

(* every relevant record of a connected block leaves the pending set, its unmined credits go with it,
   and connecting never adds a pending record *)
Theorem C09_settled_records :
  forall p own h bid s r s', p_apply_rec p own h bid s r = POk s' ->
    shrinks s s' /\ um_get (ps_unmined s') (t_id (rr_tx r)) = None /\
    (um_get (ps_unmined s) (t_id (rr_tx r)) <> None ->
     forall i, In i (out_indexes (rr_tx r)) -> uc_get (ps_ucredits s') (t_id (rr_tx r), i) = None).
Proof. exact p_apply_rec_settles. Qed.
Print Assumptions C09_settled_records.

(* ---- a conflicting transaction confirms *)

Theorem C09_conflict_purges_descendants :
  forall own s r s', guard s -> remove_double_spends own s r = POk s' ->
    (forall ri T, In ri (rr_ins r) -> In T (ui_get (ps_uinputs s) (ri_prev ri)) ->
        pend s' T = None /\ forall D, desc s T D -> pend s' D = None) /\
    (forall X tX, pend s X = Some (USer tX) -> pend s' X = None ->
        (forall o, ~ In X (ui_get (ps_uinputs s') o)) /\
        (forall o, In o (t_ins tX) -> spent_by_unmined s' o = false)) /\
    shrinks s s'.
Proof. exact conflict_purges_descendants. Qed.
Print Assumptions C09_conflict_purges_descendants.

(* removeConflict itself: the transaction, its registrations and its unmined credits are gone *)
Theorem C09_conflict_removed :
  forall fuel own s h t s', remove_conflict fuel own s h t = POk s' ->
    um_get (ps_unmined s') h = None /\
    (forall o, In o (t_ins t) -> ui_get (ps_uinputs s') o = []) /\
    (forall i, In i (out_indexes t) -> uc_get (ps_ucredits s') (h, i) = None).
Proof. exact remove_conflict_removes. Qed.
Print Assumptions C09_conflict_removed.

(* the recursion of removeConflict terminates: the fuel the model passes is never exhausted, in any
   state reachable by any history of ordered transactions *)
Theorem C09_conflict_fuel :
  forall p a3fix g evs b, block_ordered g -> Forall event_ordered evs -> block_ordered b ->
    let s := prun p a3fix g evs in
    pprocess p a3fix (own_of (q_own s)) (q_node s) (q_h s) b <> PErr EOutOfFuel.
Proof. exact process_never_out_of_fuel. Qed.
Print Assumptions C09_conflict_fuel.

(* ---- reorganised away: back in the pending set, readable *)

Theorem C09_rollback_readable :
  forall cs s r s' ops,
    NoDup (map t_id (br_txs r)) ->
    rollback_move true cs s r = POk (s', ops) ->
    forall t, In t (br_txs r) -> t_cb t = false ->
      read_unmined s' (t_id t) = RdOk t /\ forall o, In o (t_ins t) -> In (t_id t) (ui_get (ps_uinputs s') o).
Proof. exact rollback_readable. Qed.
Print Assumptions C09_rollback_readable.

(* the code as first found (Rollback stored the 28-byte location; repaired in /repo, cb8fee8) *)
Theorem C09_rollback_readable_unfixed_refuted :
  exists cs s r s' ops t,
    rollback_move false cs s r = POk (s', ops) /\ In t (br_txs r) /\ t_cb t = false /\
    read_unmined s' (t_id t) <> RdOk t.
Proof. exact rollback_readable_unfixed_refuted. Qed.
Print Assumptions C09_rollback_readable_unfixed_refuted.

(* finding flag-lost:shared-input-key: without the first clause of the guard the flag is lost.  Two pending
   transactions share wallet coin (1,0); a transaction double-spending only the first one's other input
   confirms; the second stays pending, yet the coin is neither flagged nor withheld from selection *)
Theorem C09_shared_key_refuted :
  let s := h_store (q_h (prun SharedKey.p true SharedKey.g SharedKey.evs)) in
  Forall event_ordered SharedKey.evs /\
  read_unmined s 11%N = RdOk SharedKey.t2 /\ In (1, 0)%N (t_ins SharedKey.t2) /\
  spent_by_unmined s (1, 0)%N = false /\
  exists c, In c (eligible_list s 1%N) /\ credit_op c = (1, 0)%N.
Proof. exact flag_lost_shared_key_refuted. Qed.
Print Assumptions C09_shared_key_refuted.
