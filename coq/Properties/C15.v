(* Property C15 — amount strings and integer amounts convert exactly.
   Only statements here; each is closed by [exact] of a lemma proved in
   Codec/AmountProofs.v and followed by Print Assumptions.
   Model: Codec/Amount.v (api.StringToAmount, api.AmountToString = masswallet.AmountToString).
   [spec_parse] is the grammar of the property text: digits, optionally '.', digits;
   at most eight significant fractional digits; value * 10^8 within the supply limit. *)
From Coq Require Import List ZArith.
Import ListNotations.
Open Scope Z_scope.
Require Import MW.Gen.Consts MW.Codec.Amount MW.Codec.AmountProofs.

(* parsing accepts exactly the unsigned plain decimal numerals and returns exactly their value:
   soundness and completeness in one equation, for every byte string *)
Theorem C15_parse_is_spec : forall s : str, parse_amount s = spec_parse s.
Proof. exact parse_amount_is_spec. Qed.
Print Assumptions C15_parse_is_spec.

(* the boolean specification, as a grammar *)
Theorem C15_spec_grammar : forall (s : str) (v : Z),
  spec_parse s = Some v <->
  exists i f, (s = i \/ s = i ++ ch_dot :: f) /\ (s = i -> f = []) /\
              all_digits i = true /\ all_digits f = true /\
              (length (trim_right0 f) <= 8)%nat /\
              v = dval i * MaxwellPerMass + dval (trim_right0 f) * 10 ^ (8 - Z.of_nat (length (trim_right0 f))) /\
              v <= max_amount.
Proof. exact spec_parse_grammar. Qed.
Print Assumptions C15_spec_grammar.

(* formatting any amount in range yields the canonical numeral ... *)
Theorem C15_format_is_canon : forall n, 0 <= n <= max_amount -> format_amount n = Some (canon n).
Proof. exact format_amount_is_canon. Qed.
Print Assumptions C15_format_is_canon.

(* ... which is the shortest accepted numeral of that value having an integer part ... *)
Theorem C15_format_shortest : forall (s : str) n,
  spec_parse s = Some n -> fst (cut_dot s) <> [] -> (length (canon n) <= length s)%nat.
Proof. exact canon_shortest. Qed.
Print Assumptions C15_format_shortest.

(* ... and parsing it returns the same amount *)
Theorem C15_roundtrip : forall n, 0 <= n <= max_amount ->
  exists s, format_amount n = Some s /\ parse_amount s = Some n.
Proof. exact parse_format_roundtrip. Qed.
Print Assumptions C15_roundtrip.

(* amounts outside [0, max supply] are not formatted *)
Theorem C15_format_rejects : forall n, n < 0 \/ max_amount < n -> format_amount n = None.
Proof. exact format_amount_rejects. Qed.
Print Assumptions C15_format_rejects.

(* the code as first found (sign characters reach strconv.ParseInt) violates C15_parse_is_spec:
   "+1" is accepted. Repaired in /repo by the commit recorded in KNOWN_FINDINGS.txt. *)
Theorem C15_unfixed_refuted : exists s, parse_amount_unfixed s <> spec_parse s /\ spec_parse s = None.
Proof. exact parse_amount_unfixed_refuted. Qed.
Print Assumptions C15_unfixed_refuted.

(* non-vacuity: concrete values *)
Example C15_ex_format : format_amount 123450000000 = Some [49;50;51;52;46;53].   (* "1234.5" *)
Proof. vm_compute. reflexivity. Qed.
Example C15_ex_parse : parse_amount [48;48;49;46;53;48] = Some 150000000 /\ parse_amount [49;46;43;53] = None.
Proof. vm_compute. split; reflexivity. Qed.
