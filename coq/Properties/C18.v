(* Property C18 — a failed storage operation can be retried and leaves no trace.
   Only statements here; proofs are in Ledger/FaultProofs.v (model: Ledger/Fault.v) and, for the
   uniform fault theorem and its instances for every operation (second half of this file), in
   Ledger/FaultGenProofs.v and Ledger/FaultOpsProofs.v (models: Ledger/FaultGen.v, Ledger/FaultOps.v).
   Every write operation of the wallet runs inside mwdb.Update: its batch is committed entirely
   or the store is unchanged (LevelDB batch atomicity, environment).  What remains to be shown is
   that the volatile state and the decisions taken on failed reads leave no trace either.  The
   model has a flag [repaired]; the theorems are about the code as repaired (true), the
   [_refuted] witnesses show the three places where the code as found (false) violated the
   property (all three replayed on the implementation by checks/C18.py before the repairs).
   Later repairs have switches of their own: Import.f_keystore_undo / FaultReload's mem_undo (96d76da: the
   cached keystore is repaired in memory, not by a reload that can fail) and the four switches of
   Ledger/FaultSwallow.v (9c52567, 2491e9d, 3ddfb4f, 9a3951f: storage errors txmgr took for answers);
   the theorems are stated for the code as it stands, the witnesses for the old switch values. *)
From Coq Require Import List ZArith NArith Bool.
Import ListNotations.
Open Scope Z_scope.
Require Import MW.Ledger.Model MW.Ledger.Spec MW.Ledger.Run MW.Ledger.Fault MW.Ledger.FaultProofs.

(* T1 whatever database call of NewAddress fails: the call reports the failure, the store is
   unchanged; [derive] (key derivation + script hashing) is arbitrary *)
Theorem C18_new_address_fault_store : forall derive repaired f k w,
  f <> FNone -> k_store (fst (new_address derive repaired f k w)) = k_store k /\
                snd (new_address derive repaired f k w) = None.
Proof. exact new_address_fault_store. Qed.
Print Assumptions C18_new_address_fault_store.

(* T2 ... and (as repaired) nothing else is: the in-memory address table is what it was *)
Theorem C18_new_address_fault_no_trace : forall derive f k w,
  k_coherent k -> f <> FNone ->
  let k' := fst (new_address derive true f k w) in
  k_store k' = k_store k /\ same_set (k_cache k') (k_cache k) /\ k_coherent k'.
Proof. exact new_address_fault_no_trace. Qed.
Print Assumptions C18_new_address_fault_no_trace.

(* T3 = C18 for NewAddress: the repeated call returns the address the call without fault returns
   and ends in the same state *)
Theorem C18_fault_retry_equiv_new_address : forall derive f k w,
  k_coherent k -> f <> FNone ->
  let k1 := fst (new_address derive true f k w) in
  snd (new_address derive true FNone k1 w) = snd (new_address derive true FNone k w) /\
  k_store (fst (new_address derive true FNone k1 w)) = k_store (fst (new_address derive true FNone k w)) /\
  same_set (k_cache (fst (new_address derive true FNone k1 w))) (k_cache (fst (new_address derive true FNone k w))).
Proof. exact new_address_retry. Qed.
Print Assumptions C18_fault_retry_equiv_new_address.

(* T4 no skipped or duplicated address index: for ANY sequence of NewAddress calls of a wallet,
   each failing at any position or not at all, single or repeated, on the code as found or as
   repaired, the addresses returned are numbers i, i+1, i+2, ... of the wallet, in order, where
   i is the number of addresses recorded in the store before *)
Theorem C18_address_indices : forall derive repaired fs k w,
  snd (attempts derive repaired fs k w) = map (derive w) (seq (next_index (k_store k) w) (successes fs)) /\
  next_index (k_store (fst (attempts derive repaired fs k w))) w = (next_index (k_store k) w + successes fs)%nat.
Proof. exact attempts_indices. Qed.
Print Assumptions C18_address_indices.

(* T5 = C18 for block and reorganisation processing (as repaired): whatever call fails, the
   announcement changes nothing, and the repeated announcement does what the announcement without
   fault does *)
Theorem C18_fault_retry_equiv_block : forall p own n st b f,
  f <> BNone ->
  keep st (process_fault true p own n st b f) = st /\
  announce_retry true p own n st b f = keep st (process p true own n st b).
Proof. intros p own n st b f Hf. split; [apply process_fault_keeps|apply announce_retry_equiv]; exact Hf. Qed.
Print Assumptions C18_fault_retry_equiv_block.

(* T6 the last round of a removal: any single fault, and (as repaired in 33294fa) a failing commit followed
   by a failing reload, are retried until the keystore and the status record are gone.  (The model of the
   code between 33294fa and 96d76da; for the code as it stands see T6' and R1 below.) *)
Theorem C18_removal_single_fault : forall repaired c l,
  (c = false \/ l = false) ->
  remove_attempts repaired [(c, l); (false, false)] r0 = ({| r_store := false; r_cache := false |}, true).
Proof. exact remove_single_fault. Qed.
Print Assumptions C18_removal_single_fault.

Theorem C18_removal_double_fault : 
  remove_attempts true [(true, true); (false, false)] r0 = ({| r_store := false; r_cache := false |}, true).
Proof. exact remove_double_fault_repaired. Qed.
Print Assumptions C18_removal_double_fault.

(* T6' the code as it stands (96d76da: RestoreCachedKeystore puts the keystore back without touching the
   store): ANY sequence of storage failures in the last round — Commit and / or reload, any number in a
   row — followed by working storage completes the removal *)
Theorem C18_removal_any_faults_mem_undo : forall fs,
  remove_attempts_undo (fs ++ [(false, false)]) r0 = ({| r_store := false; r_cache := false |}, true).
Proof. exact remove_any_faults_undo. Qed.
Print Assumptions C18_removal_any_faults_mem_undo.

(* ---------------------------------------------------------------- the code as found *)

(* 1. a NewAddress that failed after updateManagedAddress left the never-returned address in the
      in-memory table: treated as the wallet's own by filterTx, counted by UseWallet *)
Theorem C18_new_address_cached_refuted : forall derive, exists k w,
  k_coherent k /\
  let k' := fst (new_address derive false FAfterCache k w) in
  k_store k' = k_store k /\ ~ same_set (k_cache k') (k_cache k) /\
  own_of (k_cache k') (derive w 0%nat) = Some w /\ own_of (k_cache k) (derive w 0%nat) = None.
Proof. exact new_address_cached_trace. Qed.
Print Assumptions C18_new_address_cached_refuted.

(*    (the retry was right even then: same address, same state) *)
Theorem C18_new_address_retry_as_found : forall derive f k w,
  f <> FNone ->
  let k1 := fst (new_address derive false f k w) in
  snd (new_address derive false FNone k1 w) = snd (new_address derive false FNone k w) /\
  k_store (fst (new_address derive false FNone k1 w)) = k_store (fst (new_address derive false FNone k w)) /\
  same_set (k_cache (fst (new_address derive false FNone k1 w))) (k_cache (fst (new_address derive false FNone k w))).
Proof. exact new_address_retry_as_found. Qed.
Print Assumptions C18_new_address_retry_as_found.

(* 2. a failed read behind ExistCreditFromTx was taken for "no credit of that transaction":
      block 2 spends the wallet's coin of block 1; processed with the failing read it is ACCEPTED
      and the coin stays unspent — the retry cannot repair a committed block *)
Definition p0 : params := {| p_cbmat := 4; p_bindlock := 4294967294 |}.
Definition g0 : block := {| b_id := 0; b_prev := 0; b_height := 0; b_txs := [] |}.
Definition blk1 : block := {| b_id := 1; b_prev := 0; b_height := 1;
  b_txs := [ {| t_id := 1; t_cb := true; t_ins := []; t_outs := [ {| o_sh := 9; o_val := 5; o_class := CStd |} ] |} ] |}.
Definition blk2 : block := {| b_id := 2; b_prev := 1; b_height := 2;
  b_txs := [ {| t_id := 2; t_cb := true; t_ins := []; t_outs := [] |};
             {| t_id := 3; t_cb := false; t_ins := [(1, 0)%N]; t_outs := [ {| o_sh := 7; o_val := 5; o_class := CStd |} ] |} ] |}.
Definition own0 : owner_fn := own_of [(9, 1)]%N.
Definition st1 : wstate := keep (init_state 0) (process p0 true own0 [g0; blk1] (init_state 0) blk1).

Theorem C18_swallowed_read_refuted :
  let n := [g0; blk1; blk2] in
  let faulted := announce_retry false p0 own0 n st1 blk2 BSwallow in
  let clean := keep st1 (process p0 true own0 n st1 blk2) in
  (exists st', process_fault false p0 own0 n st1 blk2 BSwallow = Ok st') /\
  gross_balance faulted 1%N = 5 /\ gross_balance clean 1%N = 0 /\
  fst (tip faulted) = 2 /\ fst (tip clean) = 2.
Proof. cbv zeta. split; [eexists; vm_compute; reflexivity|]. vm_compute. repeat split; reflexivity. Qed.
Print Assumptions C18_swallowed_read_refuted.

(*    as repaired the same fault changes nothing and the retry gives the fault-free ledger *)
Example C18_swallowed_read_repaired :
  let n := [g0; blk1; blk2] in
  announce_retry true p0 own0 n st1 blk2 BSwallow = keep st1 (process p0 true own0 n st1 blk2) /\
  gross_balance (announce_retry true p0 own0 n st1 blk2 BSwallow) 1%N = 0.
Proof. vm_compute. split; reflexivity. Qed.

(* 3. the last commit of a removal fails and the repairing reload fails too: at the next
      attempt the code as found regarded the removal as finished with the keystore still stored *)
Theorem C18_removal_double_fault_refuted :
  remove_attempts false [(true, true); (false, false)] r0 = ({| r_store := true; r_cache := false |}, true).
Proof. reflexivity. Qed.
Print Assumptions C18_removal_double_fault_refuted.

(*    and what is still open after the repair: a THIRD consecutive fault (the reload at the next
      attempt fails as well) ends the same way; a restart repairs it (C06: the queue is rebuilt
      from the status records).  Now subsumed by C18_removal_any_faults / C18_removal_any_faults_refuted
      below (any number of faults: exactly which sequences end this way) *)
Theorem C18_removal_triple_fault_partial :
  remove_attempts true [(true, true); (true, true); (false, false)] r0 = ({| r_store := true; r_cache := false |}, true).
Proof. reflexivity. Qed.
Print Assumptions C18_removal_triple_fault_partial.

(* non-vacuity of T4: three calls fail (before / after the in-memory update), two succeed *)
Example C18_indices_example :
  snd (attempts (fun w i => (100 * w + N.of_nat i)%N) false [FAfterCache; FNone; FBeforeCache; FAfterCache; FNone]
                {| k_store := []; k_cache := [] |} 7%N) = [700; 701]%N.
Proof. vm_compute. reflexivity. Qed.

(* ==================================================================================================
   The uniform fault theorem.

   Ledger/FaultGen.v: an operation is a PROGRAM — the closure handed to mwdb.Update as a tree of
   numbered database calls [Db] (each with the working copy of the store it acts on, what follows,
   and what the code does when that call returns the injected error), in-memory updates inside
   the closure [Mem] and reads of the in-memory state [Look] — together with the in-memory update
   made after a successful commit [post] and the repair made after a failure [undo] (which may
   itself read the store, and fail).  [attempt o f s m] runs the operation on store s and memory m
   with fault f = [Fault k u]: database call number k of the attempt fails (0 = BeginTx, then the
   calls of the closure, then Commit; a k beyond that strikes nothing), u: the repair's own read
   fails too.  The store changes only through a Commit that succeeded (LevelDB batch atomicity,
   environment).  [retry o fs s m]: the attempts with the faults fs, one after the other as long
   as they fail, then an attempt without fault. *)
Require Import MW.Ledger.FaultGen MW.Ledger.FaultGenProofs.
Require MW.Ledger.Crash MW.Ledger.Pending.
Require Import MW.Ledger.Import MW.Ledger.Remove MW.Ledger.FaultOps MW.Ledger.FaultOpsProofs.

(* G1 = C18 for ANY operation of that shape.  [propagates]: every injected error is returned to
   the caller (no failed call is taken for an answer); [undone ... f]: after an attempt with fault
   f that fails, the in-memory state is what it was.  Then, for ANY store and memory:
   (1) a fault at any call the attempt makes: the injected error is reported, store and memory are
       exactly as before; (2) whatever the fault, the attempt is the attempt without fault or it
       failed without a trace; (3) for ANY sequence of faults over repeated attempts, the first attempt
       that does not fail ends in exactly the state, with exactly the result, of the attempt
       without fault. *)
Theorem C18_fault_generic : forall (St Vm X R E : Type) (efault : E) (o : oper St Vm X R E) (s : St) (m : Vm),
  propagates efault (body o) ->
  (forall f, undone efault o s m f ->
     (forall k u, f = Fault k u -> (k < ncalls o s m)%nat -> attempt efault o f s m = (s, m, inl efault)) /\
     (attempt efault o f s m = attempt efault o NoFault s m \/ exists e, attempt efault o f s m = (s, m, inl e))) /\
  (forall fs, Forall (undone efault o s m) fs -> retry efault o fs s m = attempt efault o NoFault s m).
Proof. exact fault_generic. Qed.
Print Assumptions C18_fault_generic.

(* G2 when is a failure undone, syntactically: (a) the closure contains no in-memory update (they all
   come after the commit) and the repair leaves a good memory alone; (b) the updates the closure
   can make keep an invariant from which the repair restores the memory *)
Theorem C18_fault_undone_clean : forall (St Vm X R E : Type) (efault : E) (o : oper St Vm X R E) s m,
  clean (body o) -> (forall u, undo o u s m = m) -> forall f, undone efault o s m f.
Proof. exact undone_clean. Qed.
Print Assumptions C18_fault_undone_clean.

Theorem C18_fault_undone_inv : forall (St Vm X R E : Type) (efault : E)
    (Q : (Vm -> Vm) -> Prop) (P : Vm -> Prop) (o : oper St Vm X R E) s m f,
  writes Q (body o) -> (forall w m', Q w -> P m' -> P (w m')) -> P m ->
  (forall m', P m' -> undo o (fundo f) s m' = m) -> undone efault o s m f.
Proof. exact undone_inv. Qed.
Print Assumptions C18_fault_undone_inv.

(*    the usual case in one statement *)
Theorem C18_fault_generic_clean : forall (St Vm X R E : Type) (efault : E) (o : oper St Vm X R E) s m,
  propagates efault (body o) -> clean (body o) -> (forall u, undo o u s m = m) ->
  (forall k u, (k < ncalls o s m)%nat -> attempt efault o (Fault k u) s m = (s, m, inl efault)) /\
  (forall fs, retry efault o fs s m = attempt efault o NoFault s m).
Proof. exact fault_generic_clean. Qed.
Print Assumptions C18_fault_generic_clean.

(* G3 histories: ANY sequence of environment steps and operations of any kinds, every operation
   with any faults in any number of failed attempts, ends in the state of the same history
   without any fault, given a state property [inv] that the fault-free steps keep and under which
   the operations are of the above shape *)
Theorem C18_fault_history_generic : forall (St Vm : Type) (inv : St -> Vm -> Prop) (h : list (hev St Vm)),
  (forall e, In e h -> hev_ok inv e) ->
  forall s m, inv s m -> hrun h s m = hrun (map strip h) s m.
Proof. exact fault_history_generic. Qed.
Print Assumptions C18_fault_history_generic.

(* the two hypotheses are needed.  A closure that takes a failed call for an answer (ExistCreditFromTx
   as found, refuted above on the ledger): the attempt reports success with the write missing *)
Definition swallowing : oper nat unit unit unit unit :=
  {| body := Db (fun t => inr (S t, tt)) (fun _ => Ret tt) (Ret tt); post := fun _ m => m; undo := fun _ _ m => m |}.
Example C18_swallowed_error_not_generic :
  attempt tt swallowing (Fault 1 false) 0%nat tt = (0%nat, tt, inr tt) /\
  attempt tt swallowing NoFault 0%nat tt = (1%nat, tt, inr tt).
Proof. split; reflexivity. Qed.
(* an in-memory update inside the closure without repair (NewAddress as found): the failed Commit
   leaves it behind *)
Definition unrepaired : oper nat nat unit unit unit :=
  {| body := Mem S (Write tt (fun t => inr (S t)) tt (Ret tt)); post := fun _ m => m; undo := fun _ _ m => m |}.
Example C18_unrepaired_memory_not_generic :
  attempt tt unrepaired (Fault 2 false) 0%nat 0%nat = (0%nat, 1%nat, inl tt) /\
  propagates tt (body unrepaired) /\ ~ undone tt unrepaired 0%nat 0%nat (Fault 2 false).
Proof.
  split; [reflexivity|split].
  - apply PMem. apply propagates_Write. apply PRet.
  - intros H. specialize (H 0%nat 1%nat tt eq_refl). discriminate.
Qed.

(* -------------------------------------------------------------------------------------------------
   The instances: Ledger/FaultOps.v writes every write operation of the models as such a program
   (which calls, in which order, where the Go code updates memory — read off the source), and
   FaultOpsProofs.v proves that each program run without fault IS the operation of the model.  Each
   theorem: (1) a fault at ANY call of the attempt: the error is reported, store and memory are as
   before; (2) after ANY sequence of faults the repeated operation does what the model's operation
   without fault does. *)

(* I1 block and reorganisation processing (any number of blocks disconnected and connected in the one
   commit), store = ledger, memory = the handler's copy of the tip (Crash.process_best decides on it) *)
Theorem C18_fault_retry_equiv_process : forall p own n b st best,
  (forall k u, (k < ncalls (process_op p own n b) st best)%nat ->
     attempt EOther (process_op p own n b) (Fault k u) st best = (st, best, inl EOther)) /\
  (forall fs, retry EOther (process_op p own n b) fs st best =
     match Crash.process_best p own n best st b with
     | Ok st' => (st', (b_height b, b_id b), inr tt)
     | Err e => (st, best, inl e)
     end).
Proof. exact process_fault_retry. Qed.
Print Assumptions C18_fault_retry_equiv_process.

(*    in terms of Model.process (the ledger of C01): *)
Theorem C18_fault_retry_equiv_process_model : forall p own n b st fs,
  fst (fst (retry EOther (process_op p own n b) fs st (tip st))) = process_or_keep p true own n st b.
Proof. exact process_fault_retry_model. Qed.
Print Assumptions C18_fault_retry_equiv_process_model.

(* I2 the same with the pending set (C09's model): memory = mempool and expiredMempool, updated after
   the commit.  (That EVERY call of a step returns its error holds of the code since 3ddfb4f: S3 below) *)
Theorem C18_fault_retry_equiv_pending_process : forall p a3fix own n b hs,
  (forall k u, (k < ncalls (pprocess_op p a3fix own n b) (Pending.h_store hs) (hs_mem hs))%nat ->
     attempt qfault (pprocess_op p a3fix own n b) (Fault k u) (Pending.h_store hs) (hs_mem hs) =
     (Pending.h_store hs, hs_mem hs, inl qfault)) /\
  (forall fs,
     let '(s', m', r) := retry qfault (pprocess_op p a3fix own n b) fs (Pending.h_store hs) (hs_mem hs) in
     hs_mk s' m' = Pending.pprocess_or_keep p a3fix own n hs b /\
     match r, Pending.pprocess p a3fix own n hs b with
     | inr _, Pending.POk _ => True
     | inl e, Pending.PErr e' => e = e'
     | _, _ => False
     end).
Proof. exact pprocess_fault_retry. Qed.
Print Assumptions C18_fault_retry_equiv_pending_process.

(* I3 receiving a pending transaction *)
Theorem C18_fault_retry_equiv_receive : forall p own n t hs,
  (forall k u, (k < ncalls (receive_op p own n t) (Pending.h_store hs) (hs_mem hs))%nat ->
     attempt qfault (receive_op p own n t) (Fault k u) (Pending.h_store hs) (hs_mem hs) =
     (Pending.h_store hs, hs_mem hs, inl qfault)) /\
  (forall fs,
     let '(s', m', r) := retry qfault (receive_op p own n t) fs (Pending.h_store hs) (hs_mem hs) in
     (hs_mk s' m', rres_of r) = Pending.receive_tx p own n hs t).
Proof. exact receive_fault_retry. Qed.
Print Assumptions C18_fault_retry_equiv_receive.

(* I4 block and reorganisation processing on the multi-wallet store (C07/C08's model; code as found
   or as repaired: a panic of the code as found is an error of its own here, not a fault) *)
Theorem C18_fault_retry_equiv_xprocess : forall fx p n b st m,
  (forall k u, (k < ncalls (xprocess_op fx p n b) st m)%nat ->
     attempt XE (xprocess_op fx p n b) (Fault k u) st m = (st, m, inl XE)) /\
  (forall fs, retry XE (xprocess_op fx p n b) fs st m = xres_out st m (xprocess fx p n st b)).
Proof. exact xprocess_fault_retry. Qed.
Print Assumptions C18_fault_retry_equiv_xprocess.

(* I5 one batch of a background import (any batch size), one call per block of the batch.  (That EVERY call
   inside such a step returns its error holds of the code since 9c52567 and 2491e9d: S1, S2 below) *)
Theorem C18_fault_retry_equiv_import_batch : forall fx p n B w st m, f_import_retry fx = true ->
  (forall k u, (k < ncalls (import_op fx p n B w) st m)%nat ->
     attempt IRetry (import_op fx p n B w) (Fault k u) st m = (st, m, inl IRetry)) /\
  (forall fs,
     let '(st', m', r) := retry IRetry (import_op fx p n B w) fs st m in
     (st', iout_of r) = import_batch fx p B n st w /\ m' = m).
Proof. exact import_fault_retry. Qed.
Print Assumptions C18_fault_retry_equiv_import_batch.

(* I6 CreateWallet (shs = []) / ImportWallet / ImportWalletWithMnemonic: the keystore enters the
   in-memory table INSIDE the closure; RemoveCachedKeystore repairs (no database call in it, so every
   fault is covered): no phantom wallet, and the repeated call creates the wallet *)
Theorem C18_fault_retry_equiv_import_start : forall w pass shs st m, coherent st m ->
  (forall k u, (k < ncalls (import_start_op w pass shs) st m)%nat ->
     attempt tt (import_start_op w pass shs) (Fault k u) st m = (st, m, inl tt)) /\
  (forall fs, retry tt (import_start_op w pass shs) fs st m =
     match import_start st w pass shs with
     | Some st' => (st', x_keys st', inr tt)
     | None => (st, m, inl tt)
     end).
Proof. exact import_start_fault_retry. Qed.
Print Assumptions C18_fault_retry_equiv_import_start.

(* I7 NewAddress on the multi-wallet store, the code as it stands (96d76da, f_keystore_undo = true): the address
   enters the table inside the closure; after a failure ForgetAddresses takes it out again — no database
   access, so the flag "the storage fails again during the repair" is arbitrary: a fault at ANY call leaves
   store and table as before, and after ANY sequence of faults the repeated call issues the address *)
Theorem C18_fault_retry_equiv_new_address_gen : forall fx sh w st m, f_keystore_undo fx = true -> coherent st m ->
  (forall k u, (k < ncalls (new_address_op fx sh w) st m)%nat ->
     attempt tt (new_address_op fx sh w) (Fault k u) st m = (st, m, inl tt)) /\
  (forall fs, retry tt (new_address_op fx sh w) fs st m =
     (Import.new_address st sh w, x_keys (Import.new_address st sh w), inr tt)).
Proof. exact new_address_fault_retry. Qed.
Print Assumptions C18_fault_retry_equiv_new_address_gen.

(* I8 RemoveWallet (the request) *)
Theorem C18_fault_retry_equiv_remove_request : forall w pass st m,
  (forall k u, (k < ncalls (remove_request_op w pass) st m)%nat ->
     attempt RErr (remove_request_op w pass) (Fault k u) st m = (st, m, inl RErr)) /\
  (forall fs,
     let '(st', m', r) := retry RErr (remove_request_op w pass) fs st m in
     (st', rres_of_req r) = remove_request st w pass /\ m' = m).
Proof. exact remove_request_fault_retry. Qed.
Print Assumptions C18_fault_retry_equiv_remove_request.

(* I9 removal, phase 1 *)
Theorem C18_fault_retry_equiv_remove_phase1 : forall w st m,
  (forall k u, (k < ncalls (phase1_op w) st m)%nat ->
     attempt tt (phase1_op w) (Fault k u) st m = (st, m, inl tt)) /\
  (forall fs, retry tt (phase1_op w) fs st m = (remove_phase1 st w, m, inr tt)).
Proof. exact phase1_fault_retry. Qed.
Print Assumptions C18_fault_retry_equiv_remove_phase1.

(* I10 EVERY round of phase 2 of a removal, whatever the cap, the code as it stands (96d76da): in the last round
   DeleteKeystore drops the keystore from the table inside the closure and RestoreCachedKeystore puts it
   back after a failure, without database access: any fault, any flag *)
Theorem C18_fault_retry_equiv_remove_round : forall fx n cap lookup w st m, f_keystore_undo fx = true -> coherent st m ->
  (forall k u, (k < ncalls (round_op fx n cap lookup w) st m)%nat ->
     attempt tt (round_op fx n cap lookup w) (Fault k u) st m = (st, m, inl tt)) /\
  (forall fs, retry tt (round_op fx n cap lookup w) fs st m =
     (fst (remove_round fx cap n lookup st w), x_keys (fst (remove_round fx cap n lookup st w)),
      inr (snd (remove_round fx cap n lookup st w)))).
Proof. exact round_fault_retry. Qed.
Print Assumptions C18_fault_retry_equiv_remove_round.

(* I11 whole histories of the multi-wallet layer (the event system of C07/C08: the node's chain moves,
   announcements, wallets created / restored / removed, addresses issued, background batches and
   rounds, restarts), the code as it stands: EVERY operation of EVERY history may fail at ANY call ANY
   number of times in a row, with the storage failing again during any repair; the run ends in the
   state of the run without faults and the in-memory table is the store's.  No premise on the faults
   any more ([reloads_work] was one until 96d76da: I11' below) *)
Theorem C18_fault_history_wallets : forall fx p B cap, f_import_retry fx = true -> f_keystore_undo fx = true ->
  forall n h,
  xrun_f fx p B cap n h =
  (xrun fx p B cap n (map fst h), x_keys (xs_st (xrun fx p B cap n (map fst h)))).
Proof. intros fx p B cap H1 H2 n h. exact (xrun_faults fx p B cap H1 n h H2). Qed.
Print Assumptions C18_fault_history_wallets.

(* -------------------------------------------------------------------------------------------------
   Where the repair itself could fail: the code BEFORE 96d76da (f_keystore_undo = false; Fault.remove_attempts
   true).  Historical: the statements below are about the repairs of f6a5978 (NewAddress) and 33294fa
   (removal), which reloaded the keystore from the store — a read that can fail.  They are kept as the
   witnesses for the old switch value; 96d76da removed the reload (I7, I10, I11, T6' above). *)

(* I7' / I10' / I11' what held then: the theorems above with the premise that no reload fails itself *)
Theorem C18_fault_retry_equiv_new_address_reload : forall fx sh w st m, f_keystore_undo fx = false -> coherent st m ->
  (forall k, (k < ncalls (new_address_op fx sh w) st m)%nat ->
     attempt tt (new_address_op fx sh w) (Fault k false) st m = (st, m, inl tt)) /\
  (forall fs, Forall (fun f => fundo f = false) fs ->
     retry tt (new_address_op fx sh w) fs st m =
     (Import.new_address st sh w, x_keys (Import.new_address st sh w), inr tt)).
Proof. exact new_address_fault_retry_reload. Qed.
Print Assumptions C18_fault_retry_equiv_new_address_reload.

Theorem C18_fault_retry_equiv_remove_round_reload : forall fx n cap lookup w st m, f_keystore_undo fx = false -> coherent st m ->
  (forall k, (k < ncalls (round_op fx n cap lookup w) st m)%nat ->
     attempt tt (round_op fx n cap lookup w) (Fault k false) st m = (st, m, inl tt)) /\
  (forall fs, Forall (fun f => fundo f = false) fs ->
     retry tt (round_op fx n cap lookup w) fs st m =
     (fst (remove_round fx cap n lookup st w), x_keys (fst (remove_round fx cap n lookup st w)),
      inr (snd (remove_round fx cap n lookup st w)))).
Proof. exact round_fault_retry_reload. Qed.
Print Assumptions C18_fault_retry_equiv_remove_round_reload.

Theorem C18_fault_history_wallets_reload : forall fx p B cap, f_import_retry fx = true -> f_keystore_undo fx = false ->
  forall n h, reloads_work h ->
  xrun_f fx p B cap n h =
  (xrun fx p B cap n (map fst h), x_keys (xs_st (xrun fx p B cap n (map fst h)))).
Proof. intros fx p B cap H1 H2 n h Hw. exact (xrun_faults_reload fx p B cap H1 n h H2 Hw). Qed.
Print Assumptions C18_fault_history_wallets_reload.

(* R1 (before 96d76da) the last round of a removal, ANY number of faults (Ledger/Fault.v: per attempt "the Commit
   fails", "the reload fails").  The statement "any sequence of faults followed by working storage
   completes the removal" was FALSE of the code as repaired in 33294fa (it is T6' for the code as it
   stands); what held is the exact condition: *)
Theorem C18_removal_any_faults : forall fs cached,
  remove_attempts true (fs ++ [(false, false)]) {| r_store := true; r_cache := cached |} =
  if reloads_recover cached fs
  then ({| r_store := false; r_cache := false |}, true)
  else ({| r_store := true; r_cache := false |}, true).
Proof. exact removal_any_faults. Qed.
Print Assumptions C18_removal_any_faults.

(*    it holds when no reload fails (any number of failing commits), and when no attempt whose
      reload fails follows directly on an attempt that lost Commit and reload (any number of isolated
      double faults) *)
Theorem C18_removal_any_faults_no_reload_fault : forall fs,
  Forall (fun cl => snd cl = false) fs ->
  remove_attempts true (fs ++ [(false, false)]) r0 = ({| r_store := false; r_cache := false |}, true).
Proof.
  intros fs H. unfold r0. rewrite removal_any_faults, (reloads_recover_no_reload_fault fs true H). reflexivity.
Qed.
Print Assumptions C18_removal_any_faults_no_reload_fault.

Theorem C18_removal_any_faults_spaced : forall fs, no_lost_reload fs = true ->
  remove_attempts true (fs ++ [(false, false)]) r0 = ({| r_store := false; r_cache := false |}, true).
Proof.
  intros fs H. unfold r0. rewrite removal_any_faults, (proj1 (reloads_recover_spaced fs H)). reflexivity.
Qed.
Print Assumptions C18_removal_any_faults_spaced.

(*    and it fails for every sequence that contains three consecutive storage failures of this form
      (Commit, reload, and the reload at the next attempt), whatever follows: asyncRemove then finds no
      cached keystore, its own reload fails, and it returns nil — the worker logs "asyncRemove finish"
      and does not push the task again; the wallet stays flagged as removed with its keystore in the
      store until the next restart (initTaskChan re-queues it, C06) *)
Theorem C18_removal_any_faults_refuted : forall c fs,
  remove_attempts true ((true, true) :: (c, true) :: fs) r0 = ({| r_store := true; r_cache := false |}, true).
Proof. exact removal_any_faults_refuted. Qed.
Print Assumptions C18_removal_any_faults_refuted.

(*    the same on the model of the rounds (Ledger/Remove.v): Commit of the last round fails, then the reload *)
Theorem C18_removal_round_reload_fault : forall fx n cap lookup w st m, f_keystore_undo fx = false -> coherent st m ->
  snd (remove_round fx cap n lookup st w) = true ->
  attempt tt (round_op fx n cap lookup w) (Fault (ncalls (round_op fx n cap lookup w) st m - 1) true) st m =
  (st, drop_wallet w m, inl tt).
Proof. exact round_reload_fault. Qed.
Print Assumptions C18_removal_round_reload_fault.

(* R2 (before 96d76da) NewAddress as repaired in f6a5978: a call of the closure or the Commit fails AND the reload that
   repairs the table fails too (its BeginReadTx; the error of that View is dropped): the WHOLE keystore
   is gone from the in-memory table although it is in the store.  Two consecutive storage failures;
   replayed on the implementation (fault plan last0 with two consecutive failing calls for NewAddress):
   Wallets() then answers "account not found", NewAddress repeated with working storage fails again
   ("account not found"), and until the next restart filterTx does not recognise the wallet's
   addresses, so blocks are committed without its payments and are never rescanned. *)
Theorem C18_new_address_reload_fault : forall fx sh w st m k, f_keystore_undo fx = false -> coherent st m -> (1 <= k < 5)%nat ->
  attempt tt (new_address_op fx sh w) (Fault k true) st m = (st, drop_wallet w (x_keys st), inl tt).
Proof. exact new_address_reload_fault. Qed.
Print Assumptions C18_new_address_reload_fault.

(* -------------------------------------------------------------------------------------------------
   Non-vacuity: concrete, non-trivial states and fault sequences. *)

(* a reorganisation-shaped announcement: the wallet is at block 1, block 3 is announced; the one commit
   reads the fork point, rolls back, connects blocks 2 and 3: six numbered calls (BeginTx, the walk,
   the rollback, two blocks, Commit); a fault at each of them leaves ledger and tip as they were;
   four failed attempts (at Commit, at block 2 with a failing repair read, at the walk, at BeginTx) and
   then the announcement goes through: tip 3, block 2's spend and block 3's payment applied once *)
Definition blk3 : block := {| b_id := 3; b_prev := 2; b_height := 3;
  b_txs := [ {| t_id := 4; t_cb := true; t_ins := []; t_outs := [ {| o_sh := 9; o_val := 7; o_class := CStd |} ] |} ] |}.
Definition n3 : node := [g0; blk1; blk2; blk3].

Example C18_process_faults_example :
  ncalls (process_op p0 own0 n3 blk3) st1 (tip st1) = 6%nat /\
  Forall (fun k => attempt EOther (process_op p0 own0 n3 blk3) (Fault k true) st1 (tip st1) = (st1, tip st1, inl EOther))
         (seq 0 6) /\
  let r := retry EOther (process_op p0 own0 n3 blk3) [Fault 5 false; Fault 3 true; Fault 1 false; Fault 0 false] st1 (tip st1) in
  snd r = inr tt /\ tip (fst (fst r)) = (3, 3%N) /\ snd (fst r) = (3, 3%N) /\ gross_balance (fst (fst r)) 1%N = 7 /\
  fst (fst r) = process_or_keep p0 true own0 n3 st1 blk3.
Proof.
  split; [vm_compute; reflexivity|split].
  - repeat constructor; vm_compute; reflexivity.
  - vm_compute. repeat split; reflexivity.
Qed.

(* the code before 96d76da: every repair in place, the cached keystore repaired by a reload *)
Definition reload_repair : fixes :=
  {| f_removable := true; f_rollback := true; f_import_retry := true; f_start_reorg := true; f_rollback_order := true;
     f_import_tipcheck := true; f_removable_debit := true; f_ff_check := true; f_keystore_undo := false |}.

(* a history of the multi-wallet layer in which every operation fails first, some several times, at
   the first call, in the middle, at the Commit, with the storage failing again during the repair or not
   (also for NewAddress and the removal rounds, where that second failure used to lose the keystore): wallet 1
   created, an address issued and paid, wallet 2 restored with one address and rescanned, wallet 1
   removed (request, phase 1, a capped round and the last round) — the end state is that of the
   history without faults: wallet 1 is gone from store and table, wallet 2 is ready with its coin *)
Definition hist_f : list (xevent * list fault) :=
  [ (XNewWallet 1 7, [Fault 2 true; Fault 0 false]);
    (XNewAddr 9 1, [Fault 4 true; Fault 1 true]);
    (XAttach blk1, []);
    (XProcess blk1, [Fault 2 false]);
    (XImportStart 2 8 [7%N], [Fault 4 true]);
    (XBatch 2, [Fault 1 true; Fault 3 false]);
    (XAttach blk2, []);
    (XProcess blk2, [Fault 3 true]);
    (XRemoveReq 1 7, [Fault 1 true]);
    (XPhase1 1, [Fault 4 true; Fault 5 false]);
    (XRound 1, [Fault 3 true]);
    (XRound 1, [Fault 6 true; Fault 2 false]) ].

Example C18_history_faults_example :
  f_keystore_undo repaired = true /\
  let r := xrun_f repaired p0 1000 1 [g0] hist_f in
  r = (xrun repaired p0 1000 1 [g0] (map fst hist_f), x_keys (xs_st (xrun repaired p0 1000 1 [g0] (map fst hist_f)))) /\
  snd r = [(7, 2)]%N /\ status_of (xs_st (fst r)) 1 = None /\ status_of (xs_st (fst r)) 2 = Some WReady /\
  gross_balance (x_w (xs_st (fst r))) 2%N = 5 /\ fst (tip (x_w (xs_st (fst r)))) = 2.
Proof.
  split.
  - reflexivity.
  - vm_compute. repeat split; reflexivity.
Qed.

(*    the code before 96d76da on a history with ONE such pair of failures (the Commit of a NewAddress, then
      the reload): the run ends with a table that has lost address 9 of wallet 1 although the store has it;
      the code as it stands ends coherent *)
Example C18_history_faults_before_96d76da :
  let h := [ (XNewWallet 1 7, []); (XNewAddr 9 1, []); (XNewAddr 10 1, [Fault 4 true]) ] in
  snd (xrun_f reload_repair p0 1000 1 [g0] h) = [(10, 1)]%N /\
  x_keys (xs_st (fst (xrun_f reload_repair p0 1000 1 [g0] h))) = [(9, 1); (10, 1)]%N /\
  snd (xrun_f repaired p0 1000 1 [g0] h) = [(9, 1); (10, 1)]%N.
Proof. vm_compute. repeat split; reflexivity. Qed.

(* every call of CreateWallet / ImportWallet can be the failing one: five numbered calls *)
Example C18_import_start_faults_example :
  let st := xinit [g0] in
  coherent st (x_keys st) /\ ncalls (import_start_op 2 8 [7%N; 6%N]) st (x_keys st) = 5%nat /\
  Forall (fun k => attempt tt (import_start_op 2 8 [7%N; 6%N]) (Fault k true) st (x_keys st) = (st, x_keys st, inl tt)) (seq 0 5) /\
  snd (fst (retry tt (import_start_op 2 8 [7%N; 6%N]) [Fault 4 true; Fault 2 false] st (x_keys st))) = [(7, 2); (6, 2)]%N.
Proof.
  cbv zeta. split; [reflexivity|split; [vm_compute; reflexivity|split]].
  - repeat constructor; vm_compute; reflexivity.
  - vm_compute. reflexivity.
Qed.

(* R1: sequences of any length of which the characterisation decides: three failing commits with
   working reloads and two isolated double faults complete; one lost reload after a double fault does not *)
Example C18_removal_many_faults_example :
  remove_attempts true ([(true, false); (true, true); (true, false); (true, false); (true, true); (false, false)] ++ [(false, false)]) r0
    = ({| r_store := false; r_cache := false |}, true) /\
  no_lost_reload [(true, false); (true, true); (true, false); (true, false); (true, true); (false, false)] = true /\
  remove_attempts true ([(true, false); (true, true); (false, true); (true, false)] ++ [(false, false)]) r0
    = ({| r_store := true; r_cache := false |}, true) /\
  reloads_recover true [(true, false); (true, true); (false, true); (true, false)] = false.
Proof. repeat split; reflexivity. Qed.

(* R2 on a concrete wallet (before 96d76da): wallet 1 has address 9; NewAddress (address 10) fails at the Commit and the
   reload fails: the store is unchanged, the call reports the failure, but the table no longer knows
   address 9 — block 1, which pays 5 to address 9, is then accepted with nothing credited, where the
   coherent table credits 5.  The code as it stands: the same two failures leave the table as it was *)
Theorem C18_new_address_reload_fault_refuted :
  let st := xs_st (xrun repaired p0 1000 1 [g0] [XNewWallet 1 7; XNewAddr 9 1]) in
  let '(st', m', r) := attempt tt (new_address_op reload_repair 10 1) (Fault 4 true) st (x_keys st) in
  attempt tt (new_address_op repaired 10 1) (Fault 4 true) st (x_keys st) = (st, x_keys st, inl tt) /\
  coherent st (x_keys st) /\ st' = st /\ r = inl tt /\
  own_of (x_keys st) 9%N = Some 1%N /\ own_of m' 9%N = None /\
  gross_balance (process_or_keep p0 true (own_of (x_keys st)) [g0; blk1] (init_state 0) blk1) 1%N = 5 /\
  gross_balance (process_or_keep p0 true (own_of m') [g0; blk1] (init_state 0) blk1) 1%N = 0 /\
  fst (tip (process_or_keep p0 true (own_of m') [g0; blk1] (init_state 0) blk1)) = 1.
Proof. vm_compute. repeat split; reflexivity. Qed.
Print Assumptions C18_new_address_reload_fault_refuted.

(* ==================================================================================================
   A load of the keystore can fail PARTIALLY (Ledger/FaultReload.v, proofs in
   Ledger/FaultReloadProofs.v).  keystore.loadAddrManager drops the error of fetchChildNum: a keystore
   (re)loaded while exactly that read fails — in ImportWallet / ImportWalletWithMnemonic, at start-up and,
   until 96d76da, in the reload that repaired a failed NewAddress — is a good keystore whose in-memory mirror of the next child
   number says 0 while the store keeps the true number.  [run from_store evs s]: the events [evs]
   (NewAddress calls, each without fault or failing at any call of its transaction with the reload
   ending completely [LoadOk], with the child-number read lost [LoadPartial] or not at all [LoadFails];
   loads of the keystore outside a NewAddress) on the keystore state [s] (stored child number, rows,
   the in-memory table entry with its mirror); the result: the final state and the addresses handed
   out.  [from_store = true] is the code as it is (nextAddresses reads the child number from the store
   inside the transaction), [false] the variant that takes it from the mirror.  [mem_undo = true] is the
   code as it stands (96d76da = the repair proposed with this model: the addresses are taken out of the
   in-memory table again; no reload, nothing that can fail; the switch Import.f_keystore_undo of I7),
   [false] the code before (f6a5978: a failed NewAddress reloaded the keystore from the store). *)
Require MW.Ledger.FaultReload MW.Ledger.FaultReloadProofs.

(* M1 (generalises T4) no skipped or duplicated address index, the code as it is: for EVERY sequence of
   events — any faults, any outcomes of the reloads including partial ones and lost keystores, any
   loads in between — the addresses handed out are children n, n+1, n+2, ... in order (n = the stored
   child number before), and the stored child number has advanced by exactly their number *)
Theorem C18_address_indices_partial_reload : forall derive mem_undo evs s,
  let '(s', outs) := FaultReload.run derive true mem_undo evs s in
  outs = map derive (seq (FaultReload.s_next s) (length outs)) /\
  FaultReload.s_next s' = (FaultReload.s_next s + length outs)%nat.
Proof. exact FaultReloadProofs.run_indices. Qed.
Print Assumptions C18_address_indices_partial_reload.

(*    ... (before 96d76da) their number is the number of calls not struck by a fault, as long as no reload loses
      the keystore altogether (what happened then: R2 above); for the code as it stands: M5 *)
Theorem C18_address_count_partial_reload : forall derive evs s,
  FaultReload.s_cache s <> None -> FaultReload.no_load_fails evs ->
  length (snd (FaultReload.run derive true false evs s)) = FaultReload.clean_calls evs /\
  FaultReload.s_cache (fst (FaultReload.run derive true false evs s)) <> None.
Proof. exact FaultReloadProofs.run_count. Qed.
Print Assumptions C18_address_count_partial_reload.

(*    ... and the store's rows stay exactly the children 0 .. n-1, each with its own address *)
Theorem C18_address_rows_partial_reload : forall derive mem_undo evs s,
  FaultReload.rows_ok derive s -> FaultReload.rows_ok derive (fst (FaultReload.run derive true mem_undo evs s)).
Proof. exact FaultReloadProofs.run_rows_ok. Qed.
Print Assumptions C18_address_rows_partial_reload.

(* M2 a stale mirror is never observable in the code as it is: two states that differ in the mirror only
   hand out the same addresses under the same events and end in the same store *)
Theorem C18_stale_mirror_unobservable : forall derive mem_undo evs s1 s2,
  FaultReload.same_but_mirror s1 s2 ->
  snd (FaultReload.run derive true mem_undo evs s1) = snd (FaultReload.run derive true mem_undo evs s2) /\
  FaultReload.same_but_mirror (fst (FaultReload.run derive true mem_undo evs s1)) (fst (FaultReload.run derive true mem_undo evs s2)).
Proof. exact FaultReloadProofs.run_mirror_blind. Qed.
Print Assumptions C18_stale_mirror_unobservable.

(* M3 the finer model refines T4's: with reloads that end in any way that keeps the keystore, the addresses
   handed out are those of Fault.attempts *)
Theorem C18_partial_reload_refines_attempts : forall (derive : N -> nat -> N) repaired fs ls k w s,
  Forall (fun l => l <> FaultReload.LoadFails) ls -> FaultReload.s_cache s <> None ->
  FaultReload.s_next s = next_index (k_store k) w ->
  snd (FaultReload.run (derive w) true false (FaultReloadProofs.events_of fs ls) s) = snd (attempts derive repaired fs k w).
Proof. exact FaultReloadProofs.run_refines_attempts. Qed.
Print Assumptions C18_partial_reload_refines_attempts.

(* M4 the variant that takes the index from the mirror (every site of it looks right: the mirror is loaded
   with the keystore, refreshed inside the transaction, and the keystore is reloaded after every failure)
   re-issues addresses.  (a) two addresses issued, the third call fails and the repairing reload loses the
   child-number read, then storage works: the next two calls hand out children 0 and 1 again and the
   store says 2 after four addresses (the code as it is: children 2 and 3, store 4).  (b) a keystore with
   three addresses is loaded while that read fails (the import reports success): the next call hands out
   child 0 and sets the stored number back to 1 (the code as it is: child 3, store 4) *)
Theorem C18_new_address_mirror_refuted :
  (FaultReload.no_load_fails FaultReloadProofs.evs_a /\ FaultReload.rows_ok FaultReloadProofs.derive0 FaultReloadProofs.fresh /\
   FaultReload.run FaultReloadProofs.derive0 false false FaultReloadProofs.evs_a FaultReloadProofs.fresh =
     ({| FaultReload.s_next := 2; FaultReload.s_rows := [(1%nat, 101%N); (0%nat, 100%N)];
         FaultReload.s_cache := Some {| FaultReload.c_addrs := [101; 100; 101; 100]%N; FaultReload.c_mirror := 2 |} |},
      [100; 101; 100; 101]%N) /\
   snd (FaultReload.run FaultReloadProofs.derive0 true false FaultReloadProofs.evs_a FaultReloadProofs.fresh) = [100; 101; 102; 103]%N /\
   FaultReload.s_next (fst (FaultReload.run FaultReloadProofs.derive0 true false FaultReloadProofs.evs_a FaultReloadProofs.fresh)) = 4%nat) /\
  (FaultReload.no_load_fails FaultReloadProofs.evs_b /\ FaultReload.rows_ok FaultReloadProofs.derive0 FaultReloadProofs.three /\
   snd (FaultReload.run FaultReloadProofs.derive0 false false FaultReloadProofs.evs_b FaultReloadProofs.three) = [100]%N /\
   FaultReload.s_next (fst (FaultReload.run FaultReloadProofs.derive0 false false FaultReloadProofs.evs_b FaultReloadProofs.three)) = 1%nat /\
   snd (FaultReload.run FaultReloadProofs.derive0 true false FaultReloadProofs.evs_b FaultReloadProofs.three) = [103]%N /\
   FaultReload.s_next (fst (FaultReload.run FaultReloadProofs.derive0 true false FaultReloadProofs.evs_b FaultReloadProofs.three)) = 4%nat).
Proof. exact FaultReloadProofs.new_address_mirror_refuted. Qed.
Print Assumptions C18_new_address_mirror_refuted.

(* M5 where the reload failed altogether (the code BEFORE 96d76da; = R2 above in this model): one address issued,
   the second call fails and its reload fails too (BeginReadTx: dropped silently; another read: the process
   exited at the FATAL log): the keystore is out of the table and the third call fails although storage
   works.  With the in-memory repair (the code as it stands) it succeeds, and in general no fault of a
   NewAddress can lose the keystore: every call not struck by a fault hands out an address *)
Theorem C18_new_address_lost_keystore_refuted :
  FaultReload.run FaultReloadProofs.derive0 true false FaultReloadProofs.evs_c FaultReloadProofs.fresh =
    ({| FaultReload.s_next := 1; FaultReload.s_rows := [(0%nat, 100%N)]; FaultReload.s_cache := None |}, [100%N]) /\
  snd (FaultReload.run FaultReloadProofs.derive0 true true FaultReloadProofs.evs_c FaultReloadProofs.fresh) = [100; 101]%N.
Proof. exact FaultReloadProofs.new_address_lost_keystore_refuted. Qed.
Print Assumptions C18_new_address_lost_keystore_refuted.

Theorem C18_address_count_mem_undo : forall derive evs s,
  FaultReload.s_cache s <> None -> FaultReload.no_lost_load evs ->
  length (snd (FaultReload.run derive true true evs s)) = FaultReload.clean_calls evs /\
  FaultReload.s_cache (fst (FaultReload.run derive true true evs s)) <> None.
Proof. exact FaultReloadProofs.run_count_mem_undo. Qed.
Print Assumptions C18_address_count_mem_undo.

(*    the mirror variant on the code as it stands (= seeded change C18b): shape (a) of M4 is gone with the reload,
      shape (b) — a keystore loaded by an import or at start-up while the child-number read fails — remains *)
Theorem C18_new_address_mirror_refuted_mem_undo :
  snd (FaultReload.run FaultReloadProofs.derive0 false true FaultReloadProofs.evs_a FaultReloadProofs.fresh) = [100; 101; 102; 103]%N /\
  snd (FaultReload.run FaultReloadProofs.derive0 false true FaultReloadProofs.evs_b FaultReloadProofs.three) = [100]%N /\
  FaultReload.s_next (fst (FaultReload.run FaultReloadProofs.derive0 false true FaultReloadProofs.evs_b FaultReloadProofs.three)) = 1%nat /\
  snd (FaultReload.run FaultReloadProofs.derive0 true true FaultReloadProofs.evs_b FaultReloadProofs.three) = [103]%N /\
  FaultReload.s_next (fst (FaultReload.run FaultReloadProofs.derive0 true true FaultReloadProofs.evs_b FaultReloadProofs.three)) = 4%nat.
Proof. exact FaultReloadProofs.new_address_mirror_refuted_mem_undo. Qed.
Print Assumptions C18_new_address_mirror_refuted_mem_undo.

(* non-vacuity of M1: faults of every kind, a lost keystore and a restart in between; five calls succeed *)
Example C18_partial_reload_example :
  FaultReload.run FaultReloadProofs.derive0 true false
    [FaultReload.ENew FaultReload.NNone; FaultReload.ENew (FaultReload.NFail FaultReload.LoadPartial); FaultReload.ENew FaultReload.NNone;
     FaultReload.ENew (FaultReload.NFail FaultReload.LoadFails); FaultReload.ENew FaultReload.NNone; FaultReload.ELoad FaultReload.LoadPartial;
     FaultReload.ENew FaultReload.NNone; FaultReload.ENew (FaultReload.NFail FaultReload.LoadOk); FaultReload.ENew FaultReload.NNone;
     FaultReload.ENew FaultReload.NNone] FaultReloadProofs.fresh
  = ({| FaultReload.s_next := 5;
        FaultReload.s_rows := [(4%nat, 104%N); (3%nat, 103%N); (2%nat, 102%N); (1%nat, 101%N); (0%nat, 100%N)];
        FaultReload.s_cache := Some {| FaultReload.c_addrs := [104; 103; 102; 101; 100]%N; FaultReload.c_mirror := 5 |} |},
     [100; 101; 102; 103; 104]%N).
Proof. vm_compute. reflexivity. Qed.

(* ==================================================================================================
   Four storage errors that txmgr took for answers (Ledger/FaultSwallow.v, proofs in FaultSwallowProofs.v).
   The programs of I1–I11 let every database call return the injected error; one call there stands for all
   the calls of a step.  Inside the steps four calls did not return theirs until 9c52567 (the put that appends
   to a block record in an import step: a second, shadowing err), 2491e9d (the read behind existsTxRecord:
   "no record"), 3ddfb4f (the read of the spenders of an outpoint: "no spender") and 9a3951f (the delete of an
   unmined-input row in a removal round: "_ ="), found by faulting every distinct call target of the
   implementation once and comparing the whole database with the fault-free run's.  Each has a switch in
   [tfixes] (true = the code as it stands); the step is modelled with a fault AT THAT CALL. *)
Require MW.Ledger.FaultSwallow MW.Ledger.FaultSwallowProofs.

(* S1, S2 an import batch with a fault at ANY call of ANY transaction it inserts — the block-record put and the
   transaction-record read included —, the code as it stands: the fault does not strike, or the batch reports
   "retry" with the store exactly as before (the repeated batch is then the batch of the model: I5) *)
Theorem C18_fault_import_step_calls : forall tf fx p B n st w f,
  FaultSwallow.t_brec_put tf = true -> FaultSwallow.t_txrec_get tf = true ->
  FaultSwallow.import_batch_f tf fx p B n st w f = import_batch fx p B n st w \/
  FaultSwallow.import_batch_f tf fx p B n st w f = (st, IRetry).
Proof. exact FaultSwallowProofs.import_batch_f_repaired. Qed.
Print Assumptions C18_fault_import_step_calls.

(*    before 9c52567: wallet 1 (address 9) ready, wallet 2 (address 7) just restored; block 1 (coinbase 1 paying
      both, transaction 6 paying address 7) processed for wallet 1: its block record lists transaction 1.  The
      rescan of wallet 2 appends transaction 6 and that put fails: the batch reports success, wallet 2 is ready
      with 5, the block record still lists transaction 1 only; block 1 is reorganised away and the credit of
      transaction 6 stays — wallet 2 reports 3 where the run without the fault reports 0 *)
Theorem C18_import_brec_put_refuted :
  x_brecs (xs_st FaultSwallowProofs.sw_pre) = [{| br_h := 1; br_bid := 1; br_txs := [1%N] |}] /\
  snd (FaultSwallowProofs.sw_batch FaultSwallow.t_as_found (Some (6%N, FaultSwallow.ICBrecPut))) = IOk /\
  status_of (fst (FaultSwallowProofs.sw_batch FaultSwallow.t_as_found (Some (6%N, FaultSwallow.ICBrecPut)))) 2 = Some WReady /\
  x_brecs (fst (FaultSwallowProofs.sw_batch FaultSwallow.t_as_found (Some (6%N, FaultSwallow.ICBrecPut)))) = [{| br_h := 1; br_bid := 1; br_txs := [1%N] |}] /\
  x_brecs (fst (FaultSwallowProofs.sw_batch FaultSwallow.t_as_found None)) = [{| br_h := 1; br_bid := 1; br_txs := [1%N; 6%N] |}] /\
  gross_balance (x_w (fst (FaultSwallowProofs.sw_batch FaultSwallow.t_as_found (Some (6%N, FaultSwallow.ICBrecPut))))) 2%N = 5 /\
  gross_balance (x_w (FaultSwallowProofs.sw_reorg (fst (FaultSwallowProofs.sw_batch FaultSwallow.t_as_found (Some (6%N, FaultSwallow.ICBrecPut)))))) 2%N = 3 /\
  gross_balance (x_w (FaultSwallowProofs.sw_reorg (fst (FaultSwallowProofs.sw_batch FaultSwallow.t_as_found None)))) 2%N = 0 /\
  tip (x_w (FaultSwallowProofs.sw_reorg (fst (FaultSwallowProofs.sw_batch FaultSwallow.t_as_found (Some (6%N, FaultSwallow.ICBrecPut)))))) = (2, 3%N) /\
  FaultSwallowProofs.sw_batch FaultSwallow.t_repaired (Some (6%N, FaultSwallow.ICBrecPut)) = (xs_st FaultSwallowProofs.sw_pre, IRetry).
Proof. exact FaultSwallowProofs.import_brec_put_refuted. Qed.
Print Assumptions C18_import_brec_put_refuted.

(*    before 2491e9d: the read of the record of transaction 1 (recorded for wallet 1) fails during the rescan of
      wallet 2: "no record", and the block record lists transaction 1 twice *)
Theorem C18_import_txrec_get_refuted :
  snd (FaultSwallowProofs.sw_batch FaultSwallow.t_as_found (Some (1%N, FaultSwallow.ICTxrecGet))) = IOk /\
  x_brecs (fst (FaultSwallowProofs.sw_batch FaultSwallow.t_as_found (Some (1%N, FaultSwallow.ICTxrecGet)))) = [{| br_h := 1; br_bid := 1; br_txs := [1%N; 1%N; 6%N] |}] /\
  x_brecs (fst (FaultSwallowProofs.sw_batch FaultSwallow.t_as_found None)) = [{| br_h := 1; br_bid := 1; br_txs := [1%N; 6%N] |}] /\
  FaultSwallowProofs.sw_batch FaultSwallow.t_repaired (Some (1%N, FaultSwallow.ICTxrecGet)) = (xs_st FaultSwallowProofs.sw_pre, IRetry).
Proof. exact FaultSwallowProofs.import_txrec_get_refuted. Qed.
Print Assumptions C18_import_txrec_get_refuted.

(* S3 connecting a block (the model with the pending set) with the read of the spenders registered under ANY outpoint
   failing, the code as it stands: the fault does not strike, or the block fails and nothing is committed (the
   announcement is refused and repeated: I2) *)
Theorem C18_fault_connect_spenders_read : forall tf p own n cum s b k,
  FaultSwallow.t_spenders_get tf = true ->
  FaultSwallow.p_connect_block_f tf p own n cum s b k = Pending.p_connect_block p own n cum s b \/
  FaultSwallow.p_connect_block_f tf p own n cum s b k = Pending.PErr (Pending.PE EOther).
Proof. intros tf p own n cum s b k H. exact (FaultSwallowProofs.p_connect_block_f_repaired tf p own H n cum s b k). Qed.
Print Assumptions C18_fault_connect_spenders_read.

(*    before 3ddfb4f (the history of C09_example_conflict): the unconfirmed transaction 10 spends the wallet's coin
      (1,0); block 3' confirms transaction 11, which spends it too.  Without fault transaction 10 is removed as a
      conflict; with the read of the spenders of (1,0) taken for "no spender" the block is connected and transaction
      10, its registration as spender and its unmined credit stay in the store *)
Theorem C18_spenders_get_refuted :
  FaultSwallowProofs.SpEx.view (Pending.p_connect_block FaultSwallowProofs.SpEx.p (own_of (Pending.q_own FaultSwallowProofs.SpEx.sim))
     (Pending.q_node FaultSwallowProofs.SpEx.sim) (Pending.ps_unmined FaultSwallowProofs.SpEx.s) FaultSwallowProofs.SpEx.s FaultSwallowProofs.SpEx.b3')
    = Some ([], [], []) /\
  FaultSwallowProofs.SpEx.view (FaultSwallowProofs.SpEx.conn FaultSwallow.t_as_found) = Some ([10%N], [(1, 0)%N], [(10, 0)%N]) /\
  FaultSwallowProofs.SpEx.conn FaultSwallow.t_repaired = Pending.PErr (Pending.PE EOther).
Proof. exact FaultSwallowProofs.spenders_get_refuted. Qed.
Print Assumptions C18_spenders_get_refuted.

(* S4 the credit walk of a removal round (removeRelevantCredit: per coin of the wallet the credit row, then the
   unmined-input row) as a program of the uniform fault model, the code as it stands: a fault at ANY call fails
   the round with the store as before, and after any faults the repeated round is the round without fault
   (an instance of G1; the rounds of the model: I10) *)
Theorem C18_fault_retry_equiv_remove_walk : forall tf ops s m, FaultSwallow.t_rm_input_del tf = true ->
  (forall k u, (k < ncalls (FaultSwallow.rm_walk_op tf ops) s m)%nat ->
     attempt tt (FaultSwallow.rm_walk_op tf ops) (Fault k u) s m = (s, m, inl tt)) /\
  (forall fs, retry tt (FaultSwallow.rm_walk_op tf ops) fs s m = attempt tt (FaultSwallow.rm_walk_op tf ops) NoFault s m).
Proof. exact FaultSwallowProofs.rm_walk_fault_retry. Qed.
Print Assumptions C18_fault_retry_equiv_remove_walk.

(*    before 9a3951f: the delete of the unmined-input row of coin 1 fails: the round reports success and the row stays *)
Theorem C18_rm_input_del_refuted :
  let s := {| FaultSwallow.rm_credits := [1; 2]%N; FaultSwallow.rm_uinputs := [1; 2]%N |} in
  attempt tt (FaultSwallow.rm_walk_op FaultSwallow.t_as_found [1; 2]%N) (Fault 2 false) s tt
    = ({| FaultSwallow.rm_credits := []; FaultSwallow.rm_uinputs := [1%N] |}, tt, inr tt) /\
  attempt tt (FaultSwallow.rm_walk_op FaultSwallow.t_as_found [1; 2]%N) NoFault s tt
    = ({| FaultSwallow.rm_credits := []; FaultSwallow.rm_uinputs := [] |}, tt, inr tt) /\
  attempt tt (FaultSwallow.rm_walk_op FaultSwallow.t_repaired [1; 2]%N) (Fault 2 false) s tt = (s, tt, inl tt).
Proof. exact FaultSwallowProofs.rm_input_del_refuted. Qed.
Print Assumptions C18_rm_input_del_refuted.
