(* Property C18 — a failed storage operation can be retried and leaves no trace.
   Only statements here; proofs are in Ledger/FaultProofs.v.  Model: Ledger/Fault.v.
   Every write operation of the wallet runs inside mwdb.Update: its batch is committed entirely
   or the store is unchanged (LevelDB batch atomicity, environment).  What remains to be shown is
   that the volatile state and the decisions taken on failed reads leave no trace either.  The
   model has a flag [repaired]; the theorems are about the code as repaired (true), the
   [_refuted] witnesses show the three places where the code as found (false) violated the
   property (all three replayed on the implementation by checks/C18.py before the repairs). *)
From Coq Require Import List ZArith NArith Bool.
Import ListNotations.
Open Scope Z_scope.
Require Import MW.Ledger.Model MW.Ledger.Spec MW.Ledger.Run MW.Ledger.Fault MW.Ledger.FaultProofs.

(* T1 whatever database call of NewAddress fails: the call reports the failure, the store is
   unchanged; [derive] (key derivation + script hashing) is arbitrary *)
Theorem C18_new_address_fault_store : forall derive repaired f k w,
  f <> FNone -> k_store (fst (new_address derive repaired f k w)) = k_store k /\
                snd (new_address derive repaired f k w) = None.
Proof. exact new_address_fault_store. Qed.
Print Assumptions C18_new_address_fault_store.

(* T2 ... and (as repaired) nothing else is: the in-memory address table is what it was *)
Theorem C18_new_address_fault_no_trace : forall derive f k w,
  k_coherent k -> f <> FNone ->
  let k' := fst (new_address derive true f k w) in
  k_store k' = k_store k /\ same_set (k_cache k') (k_cache k) /\ k_coherent k'.
Proof. exact new_address_fault_no_trace. Qed.
Print Assumptions C18_new_address_fault_no_trace.

(* T3 = C18 for NewAddress: the repeated call returns the address the call without fault returns
   and ends in the same state *)
Theorem C18_fault_retry_equiv_new_address : forall derive f k w,
  k_coherent k -> f <> FNone ->
  let k1 := fst (new_address derive true f k w) in
  snd (new_address derive true FNone k1 w) = snd (new_address derive true FNone k w) /\
  k_store (fst (new_address derive true FNone k1 w)) = k_store (fst (new_address derive true FNone k w)) /\
  same_set (k_cache (fst (new_address derive true FNone k1 w))) (k_cache (fst (new_address derive true FNone k w))).
Proof. exact new_address_retry. Qed.
Print Assumptions C18_fault_retry_equiv_new_address.

(* T4 no skipped or duplicated address index: for ANY sequence of NewAddress calls of a wallet,
   each failing at any position or not at all, single or repeated, on the code as found or as
   repaired, the addresses returned are numbers i, i+1, i+2, ... of the wallet, in order, where
   i is the number of addresses recorded in the store before *)
Theorem C18_address_indices : forall derive repaired fs k w,
  snd (attempts derive repaired fs k w) = map (derive w) (seq (next_index (k_store k) w) (successes fs)) /\
  next_index (k_store (fst (attempts derive repaired fs k w))) w = (next_index (k_store k) w + successes fs)%nat.
Proof. exact attempts_indices. Qed.
Print Assumptions C18_address_indices.

(* T5 = C18 for block and reorganisation processing (as repaired): whatever call fails, the
   announcement changes nothing, and the repeated announcement does what the announcement without
   fault does *)
Theorem C18_fault_retry_equiv_block : forall p own n st b f,
  f <> BNone ->
  keep st (process_fault true p own n st b f) = st /\
  announce_retry true p own n st b f = keep st (process p true own n st b).
Proof. intros p own n st b f Hf. split; [apply process_fault_keeps|apply announce_retry_equiv]; exact Hf. Qed.
Print Assumptions C18_fault_retry_equiv_block.

(* T6 the last round of a removal: any single fault, and (as repaired) a failing commit followed
   by a failing reload, are retried until the keystore and the status record are gone *)
Theorem C18_removal_single_fault : forall repaired c l,
  (c = false \/ l = false) ->
  remove_attempts repaired [(c, l); (false, false)] r0 = ({| r_store := false; r_cache := false |}, true).
Proof. exact remove_single_fault. Qed.
Print Assumptions C18_removal_single_fault.

Theorem C18_removal_double_fault : 
  remove_attempts true [(true, true); (false, false)] r0 = ({| r_store := false; r_cache := false |}, true).
Proof. exact remove_double_fault_repaired. Qed.
Print Assumptions C18_removal_double_fault.

(* ---------------------------------------------------------------- the code as found *)

(* 1. a NewAddress that failed after updateManagedAddress left the never-returned address in the
      in-memory table: treated as the wallet's own by filterTx, counted by UseWallet *)
Theorem C18_new_address_cached_refuted : forall derive, exists k w,
  k_coherent k /\
  let k' := fst (new_address derive false FAfterCache k w) in
  k_store k' = k_store k /\ ~ same_set (k_cache k') (k_cache k) /\
  own_of (k_cache k') (derive w 0%nat) = Some w /\ own_of (k_cache k) (derive w 0%nat) = None.
Proof. exact new_address_cached_trace. Qed.
Print Assumptions C18_new_address_cached_refuted.

(*    (the retry was right even then: same address, same state) *)
Theorem C18_new_address_retry_as_found : forall derive f k w,
  f <> FNone ->
  let k1 := fst (new_address derive false f k w) in
  snd (new_address derive false FNone k1 w) = snd (new_address derive false FNone k w) /\
  k_store (fst (new_address derive false FNone k1 w)) = k_store (fst (new_address derive false FNone k w)) /\
  same_set (k_cache (fst (new_address derive false FNone k1 w))) (k_cache (fst (new_address derive false FNone k w))).
Proof. exact new_address_retry_as_found. Qed.
Print Assumptions C18_new_address_retry_as_found.

(* 2. a failed read behind ExistCreditFromTx was taken for "no credit of that transaction":
      block 2 spends the wallet's coin of block 1; processed with the failing read it is ACCEPTED
      and the coin stays unspent — the retry cannot repair a committed block *)
Definition p0 : params := {| p_cbmat := 4; p_bindlock := 4294967294 |}.
Definition g0 : block := {| b_id := 0; b_prev := 0; b_height := 0; b_txs := [] |}.
Definition blk1 : block := {| b_id := 1; b_prev := 0; b_height := 1;
  b_txs := [ {| t_id := 1; t_cb := true; t_ins := []; t_outs := [ {| o_sh := 9; o_val := 5; o_class := CStd |} ] |} ] |}.
Definition blk2 : block := {| b_id := 2; b_prev := 1; b_height := 2;
  b_txs := [ {| t_id := 2; t_cb := true; t_ins := []; t_outs := [] |};
             {| t_id := 3; t_cb := false; t_ins := [(1, 0)%N]; t_outs := [ {| o_sh := 7; o_val := 5; o_class := CStd |} ] |} ] |}.
Definition own0 : owner_fn := own_of [(9, 1)]%N.
Definition st1 : wstate := keep (init_state 0) (process p0 true own0 [g0; blk1] (init_state 0) blk1).

Theorem C18_swallowed_read_refuted :
  let n := [g0; blk1; blk2] in
  let faulted := announce_retry false p0 own0 n st1 blk2 BSwallow in
  let clean := keep st1 (process p0 true own0 n st1 blk2) in
  (exists st', process_fault false p0 own0 n st1 blk2 BSwallow = Ok st') /\
  gross_balance faulted 1%N = 5 /\ gross_balance clean 1%N = 0 /\
  fst (tip faulted) = 2 /\ fst (tip clean) = 2.
Proof. cbv zeta. split; [eexists; vm_compute; reflexivity|]. vm_compute. repeat split; reflexivity. Qed.
Print Assumptions C18_swallowed_read_refuted.

(*    as repaired the same fault changes nothing and the retry gives the fault-free ledger *)
Example C18_swallowed_read_repaired :
  let n := [g0; blk1; blk2] in
  announce_retry true p0 own0 n st1 blk2 BSwallow = keep st1 (process p0 true own0 n st1 blk2) /\
  gross_balance (announce_retry true p0 own0 n st1 blk2 BSwallow) 1%N = 0.
Proof. vm_compute. split; reflexivity. Qed.

(* 3. the last commit of a removal fails and the repairing reload fails too: at the next
      attempt the code as found regarded the removal as finished with the keystore still stored *)
Theorem C18_removal_double_fault_refuted :
  remove_attempts false [(true, true); (false, false)] r0 = ({| r_store := true; r_cache := false |}, true).
Proof. reflexivity. Qed.
Print Assumptions C18_removal_double_fault_refuted.

(*    and what is still open after the repair: a THIRD consecutive fault (the reload at the next
      attempt fails as well) ends the same way; a restart repairs it (C06: the queue is rebuilt
      from the status records) *)
Theorem C18_removal_triple_fault_partial :
  remove_attempts true [(true, true); (true, true); (false, false)] r0 = ({| r_store := true; r_cache := false |}, true).
Proof. reflexivity. Qed.
Print Assumptions C18_removal_triple_fault_partial.

(* non-vacuity of T4: three calls fail (before / after the in-memory update), two succeed *)
Example C18_indices_example :
  snd (attempts (fun w i => (100 * w + N.of_nat i)%N) false [FAfterCache; FNone; FBeforeCache; FAfterCache; FNone]
                {| k_store := []; k_cache := [] |} 7%N) = [700; 701]%N.
Proof. vm_compute. reflexivity. Qed.
