(* Property C02 — created transactions conserve value and spend only own, mature, free coins.
   Only statements here; each is closed by [exact] of a lemma proved in Tx/Proofs.v and followed by
   Print Assumptions. Model: Tx/Select.v (eligibility filter, topKSelector heap, optOutputs),
   Tx/Fee.v (estimateSignedSize, CalcMinRequiredTxRelayFee, isDust, maybeSubtractFeeFromAmounts),
   Tx/Build.v (autoConstructTxInAndChangeTxOut with its two loops, AutoCreate/Staking/Binding,
   CreateRawTransaction, reservation cache).

   Vocabulary: [auto_create st r = Ok (t, st')] "the wallet in state st builds t for request r";
   [elig st r] the coins the eligibility filter lets through (own address — the sender address if
   one is given —, positive, mature, unspent, not spent by a pending transaction, standard class,
   not reserved, not spent in the node's mempool); [areq_wf] facts true of every Go request by
   typing (unsigned amounts); [wf st] distinct outpoints in the wallet's unspent set;
   sel_k = 649 = MaxStandardTxSize/154 is the selector's capacity K. *)
From Coq Require Import List ZArith Bool Permutation.
Import ListNotations.
Open Scope Z_scope.
Require Import MW.Gen.Consts MW.Tx.Select MW.Tx.Fee MW.Tx.Build MW.Tx.Proofs.

(* inputs minus outputs is exactly the reported fee; every input is a coin of the wallet *)
Theorem C02_conservation : forall st r t st', areq_wf r ->
  auto_create st r = Ok (t, st') ->
  exists sel, map fst (t_ins t) = map u_id sel /\ incl sel (w_utxos st) /\
              sum_amt u_amt sel = sum_outs (t_outs t) + t_fee t.
Proof. exact conservation. Qed.
Print Assumptions C02_conservation.

(* only eligible coins, none twice, never more than K *)
Theorem C02_inputs_eligible : forall st r t st', areq_wf r ->
  auto_create st r = Ok (t, st') ->
  exists sel, map fst (t_ins t) = map u_id sel /\
    (forall u, In u sel -> In u (w_utxos st) /\
       is_eligible (req_addrs st r) (w_reserved st) (w_pool st) u) /\
    (wf st -> NoDup (map fst (t_ins t))) /\
    (length sel <= sel_k)%nat.
Proof. exact inputs_eligible. Qed.
Print Assumptions C02_inputs_eligible.

(* what "eligible" says *)
Theorem C02_eligible_spec : forall addrs reserved pool l u,
  In u (eligible addrs reserved pool l) <->
  In u l /\ 0 < u_amt u /\ In (u_sh u) addrs /\ u_mat u <= u_confs u /\ u_su u = false /\
  u_spent u = false /\ u_class u <> 2 /\ u_class u <> 1 /\ ~ In (u_id u) reserved /\ ~ In (u_id u) pool.
Proof. exact eligible_spec. Qed.
Print Assumptions C02_eligible_spec.

(* exactly the requested outputs, then at most one change output (never below the relay minimum),
   paid to the requested change address or else to the address of the first input *)
Theorem C02_outputs_exact : forall st r t st', areq_wf r ->
  auto_create st r = Ok (t, st') ->
  exists change, t_outs t = a_outs r ++ change /\
    (change = [] \/
     exists d c, change = [(d, c)] /\ min_relay <= c /\
       match a_change r with
       | Some a => d = std_dest a
       | None => exists i s u, hd_error (t_ins t) = Some (i, s) /\ In u (w_utxos st) /\ u_id u = i /\
                               d = std_dest (u_sh u)
       end).
Proof. exact outputs_exact. Qed.
Print Assumptions C02_outputs_exact.

(* the fee: at least the user's fee (and MinRelayTxFee when the user's fee is 0: the loop starts
   there), at least the relay minimum of the estimated signed size, and above the user's fee only as
   far as a relay minimum can require: of the largest candidate of the loop in general, of a
   standard-size transaction when every candidate is of standard size. The DESIGN form
   fee <= max user_fee (required max_standard_size) is false as stated: 649 inputs and one output
   are estimated at 100021 bytes, and there "fee >= required(size)" wins. *)
Theorem C02_fee_bounds : forall st r t st', areq_wf r ->
  auto_create st r = Ok (t, st') ->
  a_userfee r <= t_fee t /\
  (a_userfee r = 0 -> min_relay <= t_fee t) /\
  required_fee (estimate_signed_size (Z.of_nat (length (t_ins t))) (Z.of_nat (length (t_outs t))) (a_payload r)) <= t_fee t /\
  t_fee t <= fee_cap (a_userfee r) (Z.of_nat (length (elig st r))) (Z.of_nat (length (a_outs r))) (a_payload r) /\
  (size_cap (Z.of_nat (length (elig st r))) (Z.of_nat (length (a_outs r))) (a_payload r) <= max_standard_tx_size ->
   t_fee t <= Z.max (init_target (a_userfee r)) (required_fee max_standard_tx_size)).
Proof. exact fee_bounds. Qed.
Print Assumptions C02_fee_bounds.

(* the fee loop ends within 2*(K+3) rounds; more fuel changes nothing *)
Theorem C02_terminates : forall fuel st r, areq_wf r -> (outer_fuel <= fuel)%nat ->
  auto_select fuel st r <> Err EOutOfFuel.
Proof. exact terminates. Qed.
Print Assumptions C02_terminates.

Theorem C02_fuel_irrelevant : forall f cands out nout payload target cok,
  outer f cands out nout payload target cok <> Err EOutOfFuel ->
  outer (S f) cands out nout payload target cok = outer f cands out nout payload target cok.
Proof. exact outer_fuel_mono. Qed.
Print Assumptions C02_fuel_irrelevant.

(* the selector keeps coins at least as good as any K coins: the heap is correct *)
Theorem C02_top_k_covers : forall (A : Type) (amt : A -> Z) k req (l T : list A),
  Forall (fun x => 0 <= amt x) l -> subperm T l -> (length T <= k)%nat ->
  req <= sum_amt amt T -> req <= sum_amt amt (top_k amt k req l).
Proof. exact top_k_covers. Qed.
Print Assumptions C02_top_k_covers.

(* funds suffice (within the input cap, with the slack made explicit) -> creation succeeds *)
Theorem C02_sufficient_succeeds : forall st r, areq_wf r -> req_valid st r ->
  sum_amt u_amt (elig st r) <= max_amount ->
  fmax_of st r + sum_outs (a_outs r) + min_relay <= max_amount ->
  (exists T, subperm T (elig st r) /\ (length T <= sel_k)%nat /\
             fmax_of st r + sum_outs (a_outs r) + min_relay <= sum_amt u_amt T) ->
  exists t st', auto_create st r = Ok (t, st').
Proof. exact sufficient_succeeds. Qed.
Print Assumptions C02_sufficient_succeeds.

(* an insufficient-funds answer (ErrInsufficientFunds, or ErrOverfullUtxo when the wallet holds K
   or more eligible coins) is never given when K coins reach outputs + fee target + MinRelayTxFee *)
Theorem C02_insufficient_fails : forall st r e, areq_wf r ->
  auto_create st r = Err e -> e = EInsufficient \/ e = EOverfull ->
  forall T, subperm T (elig st r) -> (length T <= sel_k)%nat ->
            sum_amt u_amt T < fmax_of st r + sum_outs (a_outs r) + min_relay.
Proof. exact insufficient_fails. Qed.
Print Assumptions C02_insufficient_fails.

(* ... and the check's window classification agrees with it *)
Theorem C02_insufficient_class : forall st r e, areq_wf r ->
  auto_create st r = Err e -> e = EInsufficient \/ e = EOverfull -> auto_slack_class st r <> 2.
Proof. exact insufficient_class. Qed.
Print Assumptions C02_insufficient_class.

(* the sharp "succeeds iff funds suffice" does not hold: funds cover outputs + fee, a transaction
   satisfying every clause exists, creation reports insufficient funds (known finding
   auto-insufficient-within-dust-slack; replayed on the real wallet) *)
Theorem C02_exact_iff_refuted :
  exists st r t, areq_wf r /\ wf st /\ req_valid st r /\
    auto_create st r = Err EInsufficient /\
    auto_tx_check st r t = [] /\
    sum_outs (a_outs r) + init_target (a_userfee r) <= sum_amt u_amt (elig st r) /\
    sum_amt u_amt (elig st r) < sum_outs (a_outs r) + init_target (a_userfee r) + min_relay.
Proof. exact exact_iff_refuted. Qed.
Print Assumptions C02_exact_iff_refuted.

(* consecutive drafts: an automatically built transaction shares no input with any transaction
   built before it in the same run (automatic or with explicit inputs); the cache's 5-minute
   expiry is wall-clock and not modelled *)
Theorem C02_reservation : forall rs st i j r ti tj,
  Forall creq_wf rs -> (i < j)%nat ->
  nth_error (run st rs) i = Some (Ok ti) ->
  nth_error rs j = Some (RAuto r) -> nth_error (run st rs) j = Some (Ok tj) ->
  forall id, In id (map fst (t_ins ti)) -> ~ In id (map fst (t_ins tj)).
Proof. exact reservation. Qed.
Print Assumptions C02_reservation.

(* explicit inputs: every input is an output of the current wallet (recorded in a block), value is
   conserved, the fee is the relay minimum of the signed size (rounded up to a multiple of the
   number of fee bearers), the outputs are the requested ones — each bearer reduced by ceil(fee/n) —
   plus at most one change output to the requested address or the first input's address, and no
   output is dust *)
Theorem C02_manual : forall dc r t ids, mreq_wf r ->
  create_raw_gen dc r = Ok (t, ids) ->
  exists ks change,
    m_ins r = map MOut ks /\ ids = map k_id ks /\ map fst (t_ins t) = map k_id ks /\
    (dc = true -> NoDup (map k_id ks)) /\ ks <> [] /\
    Forall (fun k => k_parse k = true /\ k_owned k = true /\ k_mined k = true) ks /\
    ksum ks = sum_outs (t_outs t) + t_fee t /\
    (let nsel := Z.of_nat (length (m_subfee r)) in
     let req := required_fee (estimate_signed_size (Z.of_nat (length (t_ins t))) (Z.of_nat (length (t_outs t))) 0) in
     let each := if nsel =? 0 then 0 else (req + nsel - 1) / nsel in
     req <= t_fee t <= req + Z.max 0 (nsel - 1) /\
     t_fee t = (if nsel =? 0 then req else each * nsel) /\
     t_outs t = map (fun p => (std_dest (fst p), snd p)) (map (reduce (m_subfee r) each) (m_amounts r)) ++ change /\
     (change = [] \/ exists c, c <> 0 /\
        change = [(std_dest (match m_change r with Some a => a | None => hd 0 (map k_sh ks) end), c)]) /\
     Forall (fun o => is_dust std_pk_len (snd o) = false) (t_outs t)).
Proof. exact manual_ok. Qed.
Print Assumptions C02_manual.

(* no output twice (the code after repair 3588e0f) *)
Theorem C02_manual_no_dup : forall r t ids, mreq_wf r ->
  create_raw_sel r = Ok (t, ids) -> NoDup (map fst (t_ins t)).
Proof. exact manual_no_dup. Qed.
Print Assumptions C02_manual_no_dup.

(* the code as first found accepted the same explicit input twice and counted it twice *)
Theorem C02_manual_no_dup_refuted :
  exists r t ids, mreq_wf r /\ create_raw_sel_unfixed r = Ok (t, ids) /\ ~ NoDup (map fst (t_ins t)) /\
    create_raw_sel r = Err EInvalid /\
    (forall k, In (MOut k) (m_ins r) -> k = dup_coin) /\ k_amt dup_coin < sum_outs (t_outs t).
Proof. exact manual_no_dup_refuted. Qed.
Print Assumptions C02_manual_no_dup_refuted.

(* the bearers' share: n*ceil(fee/n) is charged, at most n-1 above the fee; int64 does not wrap *)
Theorem C02_fee_share : forall amounts sel fee na total,
  maybe_subtract_fee amounts sel fee = Ok (na, total) ->
  0 <= fee <= max_amount -> Z.of_nat (length sel) < 2 ^ 31 ->
  let n := Z.of_nat (length sel) in
  let each := if n =? 0 then 0 else (fee + n - 1) / n in
  let charged := if n =? 0 then fee else each * n in
  na = map (reduce sel each) amounts /\ total = charged + sum_vals na /\
  fee <= charged <= fee + Z.max 0 (n - 1) /\
  Forall (fun a => In a (map fst amounts)) sel.
Proof. exact msf_spec. Qed.
Print Assumptions C02_fee_share.

(* what the boolean predicate evaluated on the real wallet's transactions means: an empty list of
   violated clauses gives eligibility of every input, no double spend, the requested outputs (as a
   multiset: Go map order) plus at most one change to the right address, conservation against the
   wallet's reported coin values, the three fee bounds and the sequence rule *)
Theorem C02_check_sound : forall st r t, auto_tx_check st r t = [] -> tx_spec st r t.
Proof. exact check_sound. Qed.
Print Assumptions C02_check_sound.

(* non-vacuity: a concrete wallet (immature, staking and pending-spent coins present) and request
   for which creation succeeds with a change output after one round trip of the fee loop, and the
   property predicate evaluates to "no clause violated" on the result *)
Example C02_ex : exists st',
  auto_create ex_st ex_req =
    Ok (mkTx [(2, max_seq); (1, max_seq)] [(std_dest 7, 60000); (std_dest 8, 30000); (std_dest 2, 24910)] 5090, st')
  /\ w_reserved st' = [2; 1].
Proof. destruct ex_auto_create as [st' [H1 [H2 _]]]. exists st'. split; assumption. Qed.

(* the literals of the selection model ARE the compiled code's: coq/Gen/Consts.v is regenerated on every run from
   blockchain.GetMaxStandardTxSize() and consensus.MinRelayTxFee; the selector keeps max_standard_tx_size / 154
   candidates (masswallet/utxo_selector.go) *)
Theorem C02_selector_capacity_is_the_code :
  max_standard_tx_size = MW.Gen.Consts.MaxStandardTxSize /\
  Z.of_nat sel_k = MW.Gen.Consts.MaxStandardTxSize / input_size.
Proof. split; reflexivity. Qed.
Print Assumptions C02_selector_capacity_is_the_code.
