(* Property C03 — signing yields valid witnesses, alters nothing else, needs the right passphrase.
   Only statements here; each is closed by [exact] of a lemma proved in Keys/UnlockProofs.v /
   Keys/SignProofs.v and followed (after the Section is closed) by Print Assumptions.

   Models: Keys/Unlock.v — the unlock state machine of an AddrManager (unlocked flag, salted
   passphrase hash, master key zeroed / derived / WRONG key left by a failed scrypt check, cached
   branch and address keys) with SignHash, ExportKeystore, GetMnemonic, CheckPrivPassphrase,
   ChangePriv/PubPassphrase, ClearPrivKey; Keys/Sign.v — WalletManager.SignRawTx / signWitnessTx:
   flag strings, per-input previous-output lookup, spent check, the SIGHASH_SINGLE skip, signature
   through the unlock machine, witness [sig ++ hash type; redeem script], the engine run, the
   deferred ClearPrivKey.
   [reachable st]: st is the state of the manager after ANY sequence of those operations with ANY
   passphrases (successful signs, failed signs, exports, reveals, checks, clears, in any order).
   The primitives (scrypt, SHA-256/512, secretbox, key derivation, ECDSA, the signature hash, the
   script engine) are the variables of the Section; what is assumed of them is [unlock_laws] and
   [sign_laws]. The switches [zfix] / [pfix] / [sfix] select the repaired code (true: /repo
   commits 34102a8, 6d649d4, and the fresh salted buffer in checkPassword) or the code as first
   found (false); [nfix] likewise for the refusal of candidates ending with a zero byte (commit
   30c1bd3). The theorems of this file are about [sfix] = [nfix] = true (hypotheses [Sfix],
   [Nfix]); the behaviours for false are refuted in Properties/C05.v (C05_salt_unfixed_refuted,
   C05_nul_unfixed_refuted). *)
From Coq Require Import List ZArith Bool.
Import ListNotations.
Require Import MW.Codec.Bip32 MW.Keys.Unlock MW.Keys.UnlockProofs MW.Keys.Sign MW.Keys.SignProofs MW.Keys.Toy MW.Keys.SignWitness.
Open Scope Z_scope.

Section C03.
  Variable kdf : bytes -> bytes -> bytes.
  Variable digest : bytes -> bytes.
  Variable shash : bytes -> bytes.
  Variable open_box : bytes -> bytes -> option bytes.
  Variable sk : Type.
  Variable branch_ok : bytes -> bool.
  Variable derive_sk : bytes -> Z -> Z -> option sk.
  Variable sign : sk -> bytes -> bytes.
  Variable zfix : bool.
  Variable sfix : bool.
  Variable nfix : bool.
  Variable cfg : amcfg.
  Variable right : bytes.
  Variable acct : bytes.
  Variable ent : bytes.
  Variable sk_of : addr -> sk.
  Hypothesis ulaws : unlock_laws kdf digest shash open_box sk branch_ok derive_sk cfg right acct ent sk_of.
  Hypothesis Sfix : sfix = true.
  Hypothesis Nfix : nfix = true.
  Variable pk : Type.
  Variable verify : pk -> bytes -> bytes -> bool.
  Variable pub_of : sk -> pk.
  Variable sighash : flag -> tx -> nat -> Z -> bytes -> bytes.
  Variable sha256 : bytes -> bytes.
  Variable redeem : pk -> bytes.
  Variable pk_of_redeem : bytes -> option pk.
  Variable pub_at : addr -> pk.
  Variable warmup : Z.
  Variable env : outpoint -> look.
  Variable pfix : bool.
  Variable pending_height : Z.
  Variable engine : uinfo -> tx -> nat -> bool -> bool.
  Hypothesis laws : sign_laws sk sign cfg sk_of pk verify pub_of sighash sha256 redeem pk_of_redeem pub_at env engine.

  Local Notation reachable := (reachable kdf digest shash open_box sk bytes branch_ok derive_sk sign zfix sfix nfix cfg).
  Local Notation step := (step kdf digest shash open_box sk bytes branch_ok derive_sk sign zfix sfix nfix cfg).
  Local Notation sign_raw :=
    (sign_raw kdf digest shash open_box sk branch_ok derive_sk sign zfix sfix nfix cfg pk sighash redeem pub_at warmup env pfix pending_height engine).
  Local Notation owned := (owned warmup env pfix pending_height).

  (* Right passphrase, any of the six flags, inputs = unspent outputs of the selected wallet
     (standard, staking, binding; confirmed — and pending when [pfix] — see [owned]), in ANY
     reachable state of the manager: SignRawTx succeeds, returns the caller's transaction with
     nothing but witnesses changed, every input passes the engine against the output it spends,
     and the manager ends locked. Guard: with SINGLE there are not more inputs than outputs
     (known finding sighash-single-input-without-output, refuted below without the guard). *)
  Theorem C03_sign_ok : forall st fs f t,
    reachable st -> parse_flag fs = Some f -> owned t -> single_guard f t ->
    exists t', sign_raw st right fs t = (SOk, (init_state cfg), t', Some t') /\
      strip_witness t' = strip_witness t /\
      all_inputs_verify warmup env pfix pending_height engine t'.
  Proof.
    exact (sign_ok kdf digest shash open_box sk branch_ok derive_sk sign zfix sfix nfix cfg right acct ent sk_of ulaws
                   pk verify pub_of sighash sha256 redeem pk_of_redeem pub_at warmup env pfix pending_height engine laws Sfix Nfix).
  Qed.

  (* the six flag strings, and only they *)
  Theorem C03_flags : forall fs,
    parse_flag fs <> None <->
    In fs [s_all; s_none; s_single; s_all ++ s_any; s_none ++ s_any; s_single ++ s_any].
  Proof. exact parse_flag_iff. Qed.

  (* whatever happens — any state, any passphrase, any flag string, any transaction, success,
     error or panic — the caller's transaction differs from the original at most in witnesses *)
  Theorem C03_strip_witness_invariant : forall st p fs t r st' t' ret,
    sign_raw st p fs t = (r, st', t', ret) -> strip_witness t' = strip_witness t.
  Proof.
    exact (sign_raw_strip kdf digest shash open_box sk branch_ok derive_sk sign zfix sfix nfix cfg
                          pk sighash redeem pub_at warmup env pfix pending_height engine).
  Qed.

  (* the signing entry point of the keystore, for ALL reachable unlock states: any other
     passphrase yields the passphrase error, leaves unlocked flag / passphrase hash / key caches as
     they were and uses no master key; the right one yields the signature of the address's key *)
  Theorem C03_wrong_pass_all_states : forall st p a h,
    reachable st -> known cfg a = true -> length h = 32%nat -> p <> right ->
    exists st', step st (OSign p a h) = (OutErr EInvalidPassphrase, st', []) /\ same_but_mk sk st st'.
  Proof.
    exact (sign_wrong_reachable kdf digest shash open_box sk bytes branch_ok derive_sk sign zfix sfix nfix cfg right acct ent sk_of ulaws Sfix Nfix).
  Qed.

  (* SignRawTx with any other passphrase, in any reachable state, for ANY transaction with at least
     one input — unsigned, partially signed, or already completely signed (e.g. the bytes an earlier
     successful call returned): the transaction object is untouched, nothing is returned, and the
     call does not succeed. Only exception: flag SINGLE and no output at all (then signing is
     attempted for no input and existing witnesses are merely re-checked by the engine) ... *)
  Theorem C03_wrong_pass : forall st p fs t,
    reachable st -> p <> right -> t_ins t <> [] ->
    (forall f, parse_flag fs = Some f -> is_single f = true -> t_outs t <> []) ->
    exists r st', sign_raw st p fs t = (r, st', t, None) /\ r <> SOk.
  Proof.
    exact (sign_wrong_pass_any kdf digest shash open_box sk branch_ok derive_sk sign zfix sfix nfix cfg right acct ent sk_of ulaws
                               pk sighash redeem pub_at warmup env pfix pending_height engine Sfix Nfix).
  Qed.

  (* ... in that exceptional case it still does not succeed on an unsigned transaction *)
  Theorem C03_wrong_pass_unsigned : forall st p fs t,
    reachable st -> p <> right -> unsigned t -> t_ins t <> [] ->
    exists r st', sign_raw st p fs t = (r, st', t, None) /\ r <> SOk.
  Proof.
    exact (sign_wrong_pass_fails kdf digest shash open_box sk branch_ok derive_sk sign zfix sfix nfix cfg right acct ent sk_of ulaws
                                 pk verify pub_of sighash sha256 redeem pk_of_redeem pub_at warmup env pfix pending_height engine laws Sfix Nfix).
  Qed.

  (* ... and the error is the passphrase error whenever the first input is one the wallet would
     sign (found, unspent, its own; not skipped by SINGLE) *)
  Theorem C03_wrong_pass_error : forall st p fs f t inp u a,
    reachable st -> p <> right -> parse_flag fs = Some f -> nth_error (t_ins t) 0 = Some inp ->
    env (in_prev inp) = LOut u -> u_spent u = false -> u_addr u = Some a ->
    (is_single f = true -> (0 < length (t_outs t))%nat) ->
    exists st', sign_raw st p fs t = (SErr (SKeystore EInvalidPassphrase), st', t, None).
  Proof.
    exact (sign_wrong_pass_error kdf digest shash open_box sk branch_ok derive_sk sign zfix sfix nfix cfg right acct ent sk_of ulaws
                                 pk verify pub_of sighash sha256 redeem pk_of_redeem pub_at warmup env pfix pending_height engine laws Sfix Nfix).
  Qed.

  (* no signature material is returned unless the whole call succeeded; with a wrong passphrase
     none is written into the caller's object either (C03_wrong_pass). With the right passphrase an
     error at input i leaves the witnesses of inputs 0..i-1 in the caller's object (see the witness
     of C03_single_unguarded_refuted) — the return value is nil. *)
  Theorem C03_no_material_on_error : forall st p fs t r st' t' ret,
    sign_raw st p fs t = (r, st', t', ret) -> (r = SOk -> ret = Some t') /\ (r <> SOk -> ret = None).
  Proof.
    exact (sign_raw_returns kdf digest shash open_box sk branch_ok derive_sk sign zfix sfix nfix cfg
                            pk sighash redeem pub_at warmup env pfix pending_height engine).
  Qed.

  (* DESIGN E1, the code as first found: a pending first input panics (nil block meta) after the
     signature was produced; repaired by /repo commit 6d649d4 ([pfix] = true: C03_sign_ok covers
     pending inputs) *)
  Theorem C03_pending_unfixed_refuted : forall st fs f t inp u a,
    pfix = false -> reachable st -> parse_flag fs = Some f -> nth_error (t_ins t) 0 = Some inp ->
    env (in_prev inp) = LOut u -> u_spent u = false -> u_addr u = Some a -> u_height u = None ->
    (is_single f = true -> (0 < length (t_outs t))%nat) ->
    exists t', sign_raw st right fs t = (SPanic, (init_state cfg), t', None).
  Proof.
    exact (sign_pending_panics kdf digest shash open_box sk branch_ok derive_sk sign zfix sfix nfix cfg right acct ent sk_of ulaws
                               pk verify pub_of sighash sha256 redeem pk_of_redeem pub_at warmup env pfix pending_height engine laws Sfix Nfix).
  Qed.
End C03.

(* Known finding sighash-single-input-without-output: C03_sign_ok does not hold without
   [single_guard]. Closed witness over the perfect-cryptography instance: two confirmed standard
   coins of the wallet, one output, flag "SINGLE", right passphrase: input 1 is not signed, the
   engine refuses its empty witness, the call fails — and the caller's transaction keeps the
   witness of input 0. *)
Theorem C03_single_unguarded_refuted :
  owned 1000 ex_env true 10 ex_tx /\ parse_flag s_single = Some FSingle /\
  exists t', ex_sign_raw (init_state ex_cfg) ex_right s_single ex_tx = (SErr SEngine, (init_state ex_cfg), t', None) /\
             wit_shape t' = [2%nat; 0%nat].
Proof. exact single_unguarded_refuted_witness. Qed.

Print Assumptions C03_sign_ok.
Print Assumptions C03_flags.
Print Assumptions C03_strip_witness_invariant.
Print Assumptions C03_wrong_pass_all_states.
Print Assumptions C03_wrong_pass.
Print Assumptions C03_wrong_pass_unsigned.
Print Assumptions C03_wrong_pass_error.
Print Assumptions C03_no_material_on_error.
Print Assumptions C03_pending_unfixed_refuted.
Print Assumptions C03_single_unguarded_refuted.

(* non-vacuity: the hypotheses on the primitives are satisfiable (perfect-cryptography instance) ... *)
Example C03_laws_consistent :
  unlock_laws Toy.kdf Toy.digest Toy.shash Toy.open_box Toy.sk Toy.branch_ok Toy.derive_sk ex_cfg
              ex_right [4; 5; 6] [1; 2; 3] Toy.sk_of /\
  sign_laws Toy.sk Toy.sign ex_cfg Toy.sk_of Toy.pk Toy.verify Toy.pub_of Toy.sighash Toy.sha256 Toy.redeem
            Toy.pk_of_redeem Toy.pub_at ex_env ex_engine.
Proof. exact ex_laws. Qed.

(* ... and on a concrete two-input transaction with flag "ALL|ANYONECANPAY" the model signs both
   inputs, after which both pass the engine template *)
Example C03_ex_sign :
  exists t', ex_sign_raw (init_state ex_cfg) ex_right (s_all ++ s_any) ex_tx = (SOk, (init_state ex_cfg), t', Some t') /\
             wit_shape t' = [2%nat; 2%nat] /\ strip_witness t' = strip_witness ex_tx.
Proof. eexists. vm_compute. repeat split; reflexivity. Qed.
