(* Property C19 — no client request or chain event can crash or silently stall the wallet.
   Only statements here; each is closed by [exact] of a lemma proved in Api/Proofs.v or
   Api/Follower.v and followed by Print Assumptions.
   Model: Api/Validate.v (validation prologue of every API method, StringToAmount / AmountToString
   with their indexings) and Api/Panic.v (constructTxIn, estimateSignedSize, EstimateManualTxFee,
   signWitnessTx, addTxIn, findEligibleUtxos, CreateRawTransaction, SignRawTx, NewAddress,
   GetAllAddressesWithPubkey, GetTxHistory/selectRelatedTx, the current-keystore reads of txmgr,
   asyncImport, the task queue, the input look-ups of filterTx / filterTxForImporting, filterBlock;
   second group: the argument checks of CreateStaking/Binding/PoolPkCoinbaseTransaction, AutoCreateTransaction and
   GetTransactionFee with massutil.DecodeAddress and blockchain.DecodePayload as oracles [codecs], getTxType /
   createVinList over the transactions the node serves, GetBlockStakingReward's coinbase outputs, CheckTargetBinding,
   GetStakingHistory, GetBindingHistory with the rows of txmgr's two history readers, SendRawTransaction, the cache
   look-up of ValidateAddress), with explicit [Panic site] outcomes; the follower: Ledger/Model.v [process_or_keep].
   PARTIAL claim: everything behind the modelled part of a method is an oracle that answers
   ([e_rest_ok], [e_decode_tx], [e_sign_ok] …); which functions are modelled is listed in
   /verif/corpus/C19_inventory.json and compared with the compiler's bounds-check report on every run. *)
From Coq Require Import List ZArith NArith Bool.
Import ListNotations.
Open Scope Z_scope.
Require Import MW.Ledger.Model MW.Ledger.Spec MW.Ledger.Run MW.Ledger.WF.
Require Import MW.Gen.Consts MW.Codec.Amount MW.Api.Validate MW.Api.Panic MW.Api.Proofs MW.Api.Follower.

(* The code as found panics (witnesses replayed on the implementation by the exploration before the
   repairs; all repaired in /repo, see KNOWN_FINDINGS.txt): creating a manual transaction from a
   pending output with an output index beyond its outputs, or from a pending binding output;
   signing a transaction that spends a pending output; WalletManager.CreateRawTransaction without
   inputs; EstimateManualTxFee without a selected wallet; GetTxHistory with a negative count; any
   balance / coin listing / signing request racing with the completion of the background removal
   of the selected wallet; an import or removal request before the worker goroutine has created the
   task queue; the import task meeting a transaction the node's index lists under an address of the
   wallet although the script reader does not accept its script. *)
Theorem C19_as_found_refuted :
  wf w_sel /\ sequential w_sel /\ wf_env env0 /\
  handle id_trim cd0 as_found env0 w_sel req_cti_index = Panic PCtiIndex /\
  handle id_trim cd0 as_found env0 w_sel req_cti_block = Panic PCtiBlockNil /\
  handle id_trim cd0 as_found env0 w_sel req_sign_meta = Panic PSignMetaNil /\
  handle id_trim cd0 as_found env0 w_sel (RWmCreateRawTransaction [] 1 true) = Panic PSenders0 /\
  handle id_trim cd0 as_found env0 w_none (RWmEstimateManualTxFee [ {| in_txid := [50]; in_vout := 0 |} ]) = Panic PExistsTxCurNil /\
  handle id_trim cd0 as_found env0 w_sel (RWmGetTxHistory (-1)) = Panic PSelectSlice /\
  handle id_trim cd0 as_found env0 w_race (RGetWalletBalance 1 true) = Panic PBalanceCurNil /\
  handle id_trim cd0 as_found env0 w_race (RGetUtxo []) = Panic PUnspentsCurNil /\
  handle id_trim cd0 as_found env0 w_race req_sign_meta = Panic PExistsTxCurNil /\
  handle id_trim cd0 as_found env0 w_race RGetAllAddressesWithPubkey = Panic PPubkeyCurNil /\
  handle id_trim cd0 as_found env0 w_starting (RImportWallet [123; 125] pass6) = Panic PTaskChanNil /\
  async_import as_found [ImpRelevant; ImpNotRelevant] = Panic PImportRecNil.
Proof. exact as_found_refuted. Qed.
Print Assumptions C19_as_found_refuted.

(* … and the two late reads of the current keystore (coin selection naming its first address, the script
   closure of signing), found by freezing a request at the end of each of its database reads *)
Theorem C19_as_found_refuted_late_reads :
  wf w_race3 /\ selected_ok w_race3 env_sel /\
  handle id_trim cd0 as_found env_sel w_race3 (RAutoCreateTransaction one_mass 0 [] [] []) = Panic PFindMaNil /\
  handle id_trim cd0 as_found env_sel w_race3 req_sign_meta = Panic PSignScriptCurNil /\
  handle id_trim cd0 all_fixed env_sel w_race3 (RAutoCreateTransaction one_mass 0 [] [] []) = Err ErrBelow /\
  handle id_trim cd0 all_fixed env_sel w_race3 req_sign_meta = Err ErrBelow.
Proof. exact as_found_refuted_late_reads. Qed.
Print Assumptions C19_as_found_refuted_late_reads.

(* the same requests on the repaired code are answered or rejected *)
Theorem C19_witnesses_answered_when_repaired :
  handle id_trim cd0 all_fixed env0 w_sel req_cti_index = Err ErrBelow /\
  handle id_trim cd0 all_fixed env0 w_sel req_cti_block = Err ErrBelow /\
  handle id_trim cd0 all_fixed env0 w_sel req_sign_meta = Ok tt /\
  handle id_trim cd0 all_fixed env0 w_sel (RWmCreateRawTransaction [] 1 true) = Err ErrBelow /\
  handle id_trim cd0 all_fixed env0 w_race (RGetWalletBalance 1 true) = Err ErrBelow /\
  handle id_trim cd0 all_fixed env0 w_starting (RImportWallet [123; 125] pass6) = Ok tt /\
  handle id_trim cd0 all_fixed env0 w_sel (RWmGetTxHistory (-1)) = Ok tt /\
  async_import all_fixed [ImpRelevant; ImpNotRelevant] = Ok tt.
Proof. exact witnesses_fixed. Qed.
Print Assumptions C19_witnesses_answered_when_repaired.

(* T1: the validation prologue of every request (38 kinds) — whatever the strings, ids, indexes, amounts, hex,
   flags, passphrases, binding outputs, payloads, for ANY implementation of strings.TrimSpace, of
   massutil.DecodeAddress and of blockchain.DecodePayload ([codecs]) — answers or rejects *)
Theorem C19_prologue_no_panic : forall (trim : str -> str) (cd : codecs) (r : request) (p : site), prologue trim cd r <> Panic p.
Proof. exact prologue_no_panic. Qed.
Print Assumptions C19_prologue_no_panic.

(* T2: StringToAmount with its three indexings and its strings.Repeat is exactly the function C15 is about
   (so none of them fires), and AmountToString's cut never leaves the numeral *)
Theorem C19_amount_parse_is_C15 : forall s : str,
  string_to_amount_p s = match parse_amount s with Some v => Ok v | None => Err ErrAPIInvalidAmount end.
Proof. exact string_to_amount_p_spec. Qed.
Print Assumptions C19_amount_parse_is_C15.

Theorem C19_amount_format_no_panic : forall (m : Z) (p : site), amount_to_string_p m <> Panic p.
Proof. exact amount_to_string_no_panic. Qed.
Print Assumptions C19_amount_format_no_panic.

(* T3 = C19 (requests): in every well-formed state — no wallet selected or selected; confirmed,
   pending, spent, unknown, foreign outputs; the current keystore removed by the background task
   between two reads of one call ([cur2] arbitrary); the task queue created or not — every modelled
   request with uint32 output indexes is answered or rejected by the repaired code.
   [wf]: ExistsTx answers only for existing credits of real outputs that the script reader accepted,
   a hash names one transaction, ExistsUtxo answers only for existing outputs (C01, C16).
   [request] now also covers CreateBindingTransaction, CreatePoolPkCoinbaseTransaction, GetStakingHistory,
   GetBindingHistory, SendRawTransaction, GetNetworkBinding, CheckPoolPkCoinbase, CheckTargetBinding,
   GetBlockByHeight, GetBestBlock, GetBlockStakingReward, Wallets (and GetRawTransaction's input listing);
   [wf_env] for them: an input of a transaction the node serves refers to an existing output (the node
   validated it), the coinbase pays the staking rewards its payload announces, a binding-history row
   was written for a binding output of the recorded transaction. *)
Theorem C19_no_panic : forall (trim : str -> str) (cd : codecs) (e : env) (w : wst) (r : request) (p : site),
  wf w -> wf_env e -> selected_ok w e -> req_ok r -> handle trim cd all_fixed e w r <> Panic p.
Proof. exact handle_no_panic. Qed.
Print Assumptions C19_no_panic.

(* every switch of the model is in the repaired position for the code as it stands (the two found with the second
   group of methods and the after-Stop state — GetBindingHistoryDetail, GetManagedAddressByScriptHashInCurrent —
   were repaired by /repo commits 9638031 and d0557bc; [code_before_second_group_repairs] keeps the setting before them) *)
Example C19_current_code_switches :
  current_code = {| fx_cti_index := true; fx_cti_block := true; fx_cti_dup := true; fx_senders := true; fx_sign_meta := true;
                    fx_sign_len0 := true; fx_cur_nil := true; fx_cur3_nil := true; fx_import_rec := true; fx_taskchan := true;
                    fx_select_neg := true; fx_cur_evicted := true; fx_bindhist_hash := true |}.
Proof. exact current_code_switches. Qed.

(* ... hence C19_no_panic is a statement about the code as it stands *)
Theorem C19_current_code_no_panic : forall (trim : str -> str) (cd : codecs) (e : env) (w : wst) (r : request) (p : site),
  wf w -> wf_env e -> selected_ok w e -> req_ok r -> handle trim cd current_code e w r <> Panic p.
Proof. exact handle_no_panic. Qed.
Print Assumptions C19_current_code_no_panic.

(* T4: one lemma for every switch setting: a panic can only come from a site whose repair is switched
   off; sites without a switch never fire *)
Theorem C19_panic_only_at_unrepaired_sites : forall trim cd fx e w r p,
  wf w -> wf_env e -> selected_ok w e -> req_ok r ->
  handle trim cd fx e w r = Panic p -> guarded_by fx p = false.
Proof. exact handle_panic_only_unfixed. Qed.
Print Assumptions C19_panic_only_at_unrepaired_sites.

(* T5: the gRPC API proper, used sequentially after start-up, could panic in the code as found ONLY at
   the three pending-input sites (the other witnesses above need the WalletManager called directly, a
   race with the background removal, or a request during start-up), at the two sites of
   GetBindingHistory (T8) and at the cache look-up of ValidateAddress (T11) *)
Theorem C19_api_as_found_only_pending_sites : forall trim cd e w r p,
  wf w -> wf_env e -> selected_ok w e -> req_ok r -> api_request r ->
  sequential w -> taskchan w = true ->
  handle trim cd as_found e w r = Panic p ->
  p = PCtiIndex \/ p = PCtiBlockNil \/ p = PSignMetaNil \/ p = PBindHistIndex \/ p = PBindHistTargetNil \/ p = PCurEvictedNil.
Proof. exact api_as_found_panics_only_at_pending_sites. Qed.
Print Assumptions C19_api_as_found_only_pending_sites.

(* T6: chain side. The input look-ups of block / transaction filtering stay inside the previous
   transaction: filterTx tests the index; filterTxForImporting and filterBlock rely on the node
   (an input of a transaction on the chain refers to an existing output; TxLoc() returns one
   location per transaction) *)
Theorem C19_filter_tx_input_guarded : forall nout i p, 0 <= nout -> 0 <= i -> filter_tx_input true nout i <> Panic p.
Proof. exact filter_tx_input_guarded. Qed.
Print Assumptions C19_filter_tx_input_guarded.

Theorem C19_filter_tx_unguarded_refuted : filter_tx_input false 2 2 = Panic PFilterTxIndex.
Proof. exact filter_tx_unguarded_refuted. Qed.
Print Assumptions C19_filter_tx_unguarded_refuted.

Theorem C19_filter_import_input : forall nout i p, 0 <= i < nout -> filter_imp_input nout i <> Panic p.
Proof. exact filter_imp_input_no_panic. Qed.
Print Assumptions C19_filter_import_input.

Theorem C19_filter_block_locs : forall ntx i p, 0 <= i < ntx -> filter_block_loc ntx ntx i <> Panic p.
Proof. exact filter_block_loc_no_panic. Qed.
Print Assumptions C19_filter_block_locs.

(* T7 = C19 (follower): whatever was delivered before — extensions, forks, reorganisations of any depth,
   skipped, stale, repeated or refused announcements, blocks with unsupported scripts (class
   CUnsupported of the Ledger model) — once the announcement of the node's current tip is processed
   the wallet is synced to the node's height: no delivery can leave the handler in a state in which
   every later block fails.  [wf_history] as in C01. *)
Theorem C19_follower_progress : forall p g h b,
  wf_history p true g (h ++ [EvProcess b]) ->
  last (s_node (run p true g h)) g = b ->
  let s := run p true g (h ++ [EvProcess b]) in
  fst (tip (s_wallet s)) = chain_height (s_node s).
Proof. exact follower_progress. Qed.
Print Assumptions C19_follower_progress.

Theorem C19_refused_delivery_keeps_state : forall p own n st b e,
  process p true own n st b = MW.Ledger.Model.Err e -> process_or_keep p true own n st b = st.
Proof. exact refused_delivery_keeps_state. Qed.
Print Assumptions C19_refused_delivery_keeps_state.

(* T8: GetBindingHistory while the wallet lags behind a reorganisation of the node (genuine defect of the
   unchanged code, reproduced on the implementation by scenario "lagging-reorg"): GetBindingHistoryDetail
   fetches the deposit transaction by the recorded (height, location) and, unlike TxStore.ExistsTx, does not
   compare its hash; when the node meanwhile holds another transaction there, msgtx.TxOut[index] leaves the
   slice, or the output found is not a binding script and the API dereferences its nil binding target.
   Repaired model (hash comparison, row left out): both requests are answered. *)
Theorem C19_binding_history_refuted :
  wf w_sel /\ sequential w_sel /\ wf_env (env_lag row_lag1) /\ wf_env (env_lag row_lag2) /\
  handle id_trim cd0 as_found (env_lag row_lag1) w_sel (RGetBindingHistory []) = Panic PBindHistIndex /\
  handle id_trim cd0 as_found (env_lag row_lag2) w_sel (RGetBindingHistory []) = Panic PBindHistTargetNil /\
  handle id_trim cd0 code_before_second_group_repairs (env_lag row_lag1) w_sel (RGetBindingHistory []) = Panic PBindHistIndex /\
  handle id_trim cd0 code_before_second_group_repairs (env_lag row_lag2) w_sel (RGetBindingHistory []) = Panic PBindHistTargetNil /\
  handle id_trim cd0 all_fixed (env_lag row_lag1) w_sel (RGetBindingHistory []) = Ok tt /\
  handle id_trim cd0 all_fixed (env_lag row_lag2) w_sel (RGetBindingHistory []) = Ok tt.
Proof. exact bind_history_as_found_refuted. Qed.
Print Assumptions C19_binding_history_refuted.

(* T9: the code as it stands — every request kind, every well-formed state and environment — can panic only at
   those two sites and at the one of T11 ... *)
Theorem C19_current_code_only_known_sites : forall trim cd e w r p,
  wf w -> wf_env e -> selected_ok w e -> req_ok r ->
  handle trim cd code_before_second_group_repairs e w r = Panic p -> p = PBindHistIndex \/ p = PBindHistTargetNil \/ p = PCurEvictedNil.
Proof. exact current_code_panics_only_at_known_sites. Qed.
Print Assumptions C19_current_code_only_known_sites.

(* ... and GetBindingHistory panics only with the unrepaired code and only while some MINED row's transaction is
   no longer at the recorded place of the node's chain: a wallet that has followed the node never panics *)
Theorem C19_binding_history_panic_needs_lagging_row : forall trim cd fx e w t p,
  wf_env e -> handle trim cd fx e w (RGetBindingHistory t) = Panic p ->
  (p = PBindHistIndex \/ p = PBindHistTargetNil) /\ fx_bindhist_hash fx = false /\
  exists row, In row (e_bind_rows e) /\ br_mined row = true /\ br_same row = false.
Proof. exact binding_history_panic_needs_lagging_row. Qed.
Print Assumptions C19_binding_history_panic_needs_lagging_row.

(* T11: ValidateAddress after the keystore cache has lost the keystore that is still selected (genuine defect of
   the unchanged code, reproduced by scenario "stopped": after WalletManager.Stop has closed the database
   WalletManager.NewAddress fails, drops the cached keystore by name in order to reload it, and the reload fails
   too — CreateAddress gets there when Stop closes the database after its GetAddresses call, or under two storage
   faults; GetManagedAddressByScriptHashInCurrent then indexes the nil map entry). Repaired model: ErrCurrentKeystoreNotFound. *)
Theorem C19_cur_evicted_refuted :
  wf w_evicted /\ wf_env env0 /\
  handle id_trim cd0 as_found env0 w_evicted (RValidateAddress [109]) = Panic PCurEvictedNil /\
  handle id_trim cd0 code_before_second_group_repairs env0 w_evicted (RValidateAddress [109]) = Panic PCurEvictedNil /\
  handle id_trim cd0 all_fixed env0 w_evicted (RValidateAddress [109]) = Err ErrAPINoWalletInUse /\
  handle id_trim cd0 as_found env0 w_evicted (RValidateAddress [122]) = Ok tt /\
  handle id_trim cd0 as_found env0 w_evicted (RGetWalletBalance 1 true) = Err ErrAPINoWalletInUse.
Proof. exact cur_evicted_refuted. Qed.
Print Assumptions C19_cur_evicted_refuted.

Theorem C19_validate_address_panic_needs_evicted : forall trim cd fx e w a p,
  handle trim cd fx e w (RValidateAddress a) = Panic p ->
  p = PCurEvictedNil /\ fx_cur_evicted fx = false /\ evicted w = true.
Proof. exact validate_address_panic_needs_evicted. Qed.
Print Assumptions C19_validate_address_panic_needs_evicted.

(* T10: the pieces of the second group on their own. Serving a block or a transaction (getTxType, createVinList):
   inputs that refer to existing outputs are listed without a panic; GetBlockStakingReward reads only outputs
   the coinbase has; CheckTargetBinding reads bytes 20 and 21 only of 22-byte targets, whatever DecodeAddress
   answers; GetStakingHistory formats any amount *)
Theorem C19_serve_block : forall b p, Forall wf_btx b -> marshal_block b <> Panic p.
Proof. exact marshal_block_no_panic. Qed.
Print Assumptions C19_serve_block.

Theorem C19_serve_block_unchecked_refuted :
  marshal_block [ {| bt_coinbase := false; bt_game_out := false;
                     bt_ins := [ {| bi_prev := Some 2; bi_index := 2; bi_game := false; bi_addr_ok := true |} ];
                     bt_vout_ok := true; bt_rest_ok := true |} ] = Panic PTxTypeIndex.
Proof. exact serve_block_unchecked_refuted. Qed.
Print Assumptions C19_serve_block_unchecked_refuted.

Theorem C19_reward_outputs : forall n nout p, n <= nout -> reward_outs n nout <> Panic p.
Proof. exact reward_outs_no_panic. Qed.
Print Assumptions C19_reward_outputs.

Theorem C19_check_target : forall trim cd e t p, check_target trim cd e t <> Panic p.
Proof. exact check_target_no_panic. Qed.
Print Assumptions C19_check_target.

Theorem C19_staking_history : forall w ok rows p, get_staking_history w ok rows <> Panic p.
Proof. exact get_staking_history_no_panic. Qed.
Print Assumptions C19_staking_history.

(* non-vacuity of the second group: valid requests succeed on the witness state, each argument check rejects
   with its own code, in source order *)
Example C19_second_group_nontrivial :
  let out := {| bo_holder := [109]; bo_binding := [116]; bo_amount := [49] |} in
  handle id_trim cd0 all_fixed env0 w_sel (RCreateBindingTransaction [out] [] []) = Ok tt /\
  handle id_trim cd0 all_fixed env0 w_sel (RCreateBindingTransaction [] [] []) = Err ErrAPIInvalidParameter /\
  handle id_trim cd0 all_fixed env0 w_sel (RCreateBindingTransaction [ {| bo_holder := [115]; bo_binding := [116]; bo_amount := [49] |} ] [] []) = Err ErrAPIInvalidAddress /\
  handle id_trim cd0 all_fixed env0 w_sel (RCreateBindingTransaction [ {| bo_holder := [109]; bo_binding := [109]; bo_amount := [49] |} ] [] []) = Err ErrAPIInvalidAddress /\
  handle id_trim cd0 all_fixed env0 w_sel (RCreateBindingTransaction [out] [] [120]) = Err ErrAPIUserTxFee /\
  handle id_trim cd0 all_fixed env0 w_none (RCreateBindingTransaction [out] [] []) = Err ErrAPINoWalletInUse /\
  handle id_trim cd0 all_fixed env0 w_sel (RCreateStakingTransaction [] [115] [50;48;52;56] 100 []) = Ok tt /\
  handle id_trim cd0 all_fixed env0 w_sel (RCreateStakingTransaction [] [115] [50;48;52;55] 100 []) = Err ErrAPIInvalidAmount /\
  handle id_trim cd0 all_fixed env0 w_sel (RCreateStakingTransaction [] [109] [50;48;52;56] 100 []) = Err ErrAPIInvalidAddress /\
  handle id_trim cd0 all_fixed env0 w_sel (RCreatePoolPkCoinbaseTransaction [109] [48;49]) = Ok tt /\
  handle id_trim cd0 all_fixed env0 w_sel (RCreatePoolPkCoinbaseTransaction [109] [48]) = Err ErrAPIInvalidParameter /\
  handle id_trim cd0 all_fixed env0 w_sel (RGetBindingHistory []) = Ok tt /\
  handle id_trim cd0 all_fixed env0 w_none (RGetBindingHistory []) = Err ErrAPINoWalletInUse /\
  handle id_trim cd0 all_fixed env0 w_none (RGetStakingHistory []) = Err ErrAPIGetStakingTxDetail /\
  handle id_trim cd0 all_fixed env0 w_sel (RGetStakingHistory []) = Ok tt /\
  handle id_trim cd0 all_fixed env0 w_none (RGetBlockByHeight 3) = Ok tt /\
  handle id_trim cd0 all_fixed env0 w_none (RGetBlockStakingReward 11) = Err ErrAPIInvalidParameter /\
  handle id_trim cd0 all_fixed env0 w_none (RGetBlockStakingReward 10) = Ok tt /\
  handle id_trim cd0 all_fixed env0 w_none (RCheckTargetBinding [[116]; [112]; [109]; []]) = Ok tt /\
  handle id_trim cd0 all_fixed env0 w_none (RCheckPoolPkCoinbase [[48]]) = Err ErrAPIInvalidParameter /\
  handle id_trim cd0 all_fixed env0 w_none (RSendRawTransaction []) = Err ErrAPIInvalidTxHex /\
  handle id_trim cd0 all_fixed env0 w_none (RSendRawTransaction [48; 48]) = Ok tt /\
  handle id_trim cd0 all_fixed env0 w_sel (RGetTransactionFee [([115], [49])] [] true) = Err ErrAPIInvalidAddress /\
  handle id_trim cd0 all_fixed env0 w_sel (RGetTransactionFee [([115], [49])] [] false) = Ok tt /\
  handle id_trim cd0 all_fixed env0 w_sel (RValidateAddress [109]) = Ok tt /\
  handle id_trim cd0 all_fixed env0 w_sel (RValidateAddress [112]) = Err ErrAPIInvalidAddress /\
  handle id_trim cd0 all_fixed env0 w_none (RValidateAddress [109]) = Err ErrAPINoWalletInUse /\
  handle id_trim cd0 all_fixed env0 w_none (RValidateAddress [122]) = Ok tt.
Proof. repeat split; vm_compute; reflexivity. Qed.

(* non-vacuity: the witness state is well formed, has a selected wallet with a pending transaction and a
   mined credit, and ordinary requests succeed on it *)
Example C19_state_nontrivial :
  wf w_sel /\ wf_env env0 /\ selected_ok w_sel env0 /\
  handle id_trim cd0 all_fixed env0 w_sel
    (RCreateRawTransaction [ {| in_txid := txid_of 2; in_vout := 0 |} ] one_mass 0 [109] []) = Ok tt /\
  handle id_trim cd0 all_fixed env0 w_sel (RGetWalletBalance 1 true) = Ok tt /\
  handle id_trim cd0 all_fixed env0 w_none (RGetWalletBalance 1 true) = Err ErrAPINoWalletInUse /\
  handle id_trim cd0 all_fixed env0 w_sel (RUseWallet [97]) = Err ErrAPIInvalidWalletId.
Proof.
  split; [exact wf_store0|]. split; [exact wf_env0|]. split; [apply selected_ok0|].
  repeat split; vm_compute; reflexivity.
Qed.
