(* Property C19 — no client request or chain event can crash or silently stall the wallet.
   Only statements here; each is closed by [exact] of a lemma proved in Api/Proofs.v or
   Api/Follower.v and followed by Print Assumptions.
   Model: Api/Validate.v (validation prologue of every API method, StringToAmount / AmountToString
   with their indexings) and Api/Panic.v (constructTxIn, estimateSignedSize, EstimateManualTxFee,
   signWitnessTx, addTxIn, findEligibleUtxos, CreateRawTransaction, SignRawTx, NewAddress,
   GetAllAddressesWithPubkey, GetTxHistory/selectRelatedTx, the current-keystore reads of txmgr,
   asyncImport, the task queue, the input look-ups of filterTx / filterTxForImporting, filterBlock),
   with explicit [Panic site] outcomes; the follower: Ledger/Model.v [process_or_keep].
   PARTIAL claim: everything behind the modelled part of a method is an oracle that answers
   ([e_rest_ok], [e_decode_tx], [e_sign_ok] …); which functions are modelled is listed in
   /verif/corpus/C19_inventory.json and compared with the compiler's bounds-check report on every run. *)
From Coq Require Import List ZArith NArith Bool.
Import ListNotations.
Open Scope Z_scope.
Require Import MW.Ledger.Model MW.Ledger.Spec MW.Ledger.Run MW.Ledger.WF.
Require Import MW.Gen.Consts MW.Codec.Amount MW.Api.Validate MW.Api.Panic MW.Api.Proofs MW.Api.Follower.

(* The code as found panics (witnesses replayed on the implementation by the exploration before the
   repairs; all repaired in /repo, see KNOWN_FINDINGS.txt): creating a manual transaction from a
   pending output with an output index beyond its outputs, or from a pending binding output;
   signing a transaction that spends a pending output; WalletManager.CreateRawTransaction without
   inputs; EstimateManualTxFee without a selected wallet; GetTxHistory with a negative count; any
   balance / coin listing / signing request racing with the completion of the background removal
   of the selected wallet; an import or removal request before the worker goroutine has created the
   task queue; the import task meeting a transaction the node's index lists under an address of the
   wallet although the script reader does not accept its script. *)
Theorem C19_as_found_refuted :
  wf w_sel /\ sequential w_sel /\ wf_env env0 /\
  handle id_trim as_found env0 w_sel req_cti_index = Panic PCtiIndex /\
  handle id_trim as_found env0 w_sel req_cti_block = Panic PCtiBlockNil /\
  handle id_trim as_found env0 w_sel req_sign_meta = Panic PSignMetaNil /\
  handle id_trim as_found env0 w_sel (RWmCreateRawTransaction [] 1 true) = Panic PSenders0 /\
  handle id_trim as_found env0 w_none (RWmEstimateManualTxFee [ {| in_txid := [50]; in_vout := 0 |} ]) = Panic PExistsTxCurNil /\
  handle id_trim as_found env0 w_sel (RWmGetTxHistory (-1)) = Panic PSelectSlice /\
  handle id_trim as_found env0 w_race (RGetWalletBalance 1 true) = Panic PBalanceCurNil /\
  handle id_trim as_found env0 w_race (RGetUtxo []) = Panic PUnspentsCurNil /\
  handle id_trim as_found env0 w_race req_sign_meta = Panic PExistsTxCurNil /\
  handle id_trim as_found env0 w_race RGetAllAddressesWithPubkey = Panic PPubkeyCurNil /\
  handle id_trim as_found env0 w_starting (RImportWallet [123; 125] pass6) = Panic PTaskChanNil /\
  async_import as_found [ImpRelevant; ImpNotRelevant] = Panic PImportRecNil.
Proof. exact as_found_refuted. Qed.
Print Assumptions C19_as_found_refuted.

(* … and the two late reads of the current keystore (coin selection naming its first address, the script
   closure of signing), found by freezing a request at the end of each of its database reads *)
Theorem C19_as_found_refuted_late_reads :
  wf w_race3 /\ selected_ok w_race3 env_sel /\
  handle id_trim as_found env_sel w_race3 (RAutoCreateTransaction one_mass 0 [] [] []) = Panic PFindMaNil /\
  handle id_trim as_found env_sel w_race3 req_sign_meta = Panic PSignScriptCurNil /\
  handle id_trim all_fixed env_sel w_race3 (RAutoCreateTransaction one_mass 0 [] [] []) = Err ErrBelow /\
  handle id_trim all_fixed env_sel w_race3 req_sign_meta = Err ErrBelow.
Proof. exact as_found_refuted_late_reads. Qed.
Print Assumptions C19_as_found_refuted_late_reads.

(* the same requests on the repaired code are answered or rejected *)
Theorem C19_witnesses_answered_when_repaired :
  handle id_trim all_fixed env0 w_sel req_cti_index = Err ErrBelow /\
  handle id_trim all_fixed env0 w_sel req_cti_block = Err ErrBelow /\
  handle id_trim all_fixed env0 w_sel req_sign_meta = Ok tt /\
  handle id_trim all_fixed env0 w_sel (RWmCreateRawTransaction [] 1 true) = Err ErrBelow /\
  handle id_trim all_fixed env0 w_race (RGetWalletBalance 1 true) = Err ErrBelow /\
  handle id_trim all_fixed env0 w_starting (RImportWallet [123; 125] pass6) = Ok tt /\
  handle id_trim all_fixed env0 w_sel (RWmGetTxHistory (-1)) = Ok tt /\
  async_import all_fixed [ImpRelevant; ImpNotRelevant] = Ok tt.
Proof. exact witnesses_fixed. Qed.
Print Assumptions C19_witnesses_answered_when_repaired.

(* T1: the validation prologue of every request — whatever the strings, ids, indexes, amounts, hex,
   flags, passphrases, for ANY implementation of strings.TrimSpace — answers or rejects *)
Theorem C19_prologue_no_panic : forall (trim : str -> str) (r : request) (p : site), prologue trim r <> Panic p.
Proof. exact prologue_no_panic. Qed.
Print Assumptions C19_prologue_no_panic.

(* T2: StringToAmount with its three indexings and its strings.Repeat is exactly the function C15 is about
   (so none of them fires), and AmountToString's cut never leaves the numeral *)
Theorem C19_amount_parse_is_C15 : forall s : str,
  string_to_amount_p s = match parse_amount s with Some v => Ok v | None => Err ErrAPIInvalidAmount end.
Proof. exact string_to_amount_p_spec. Qed.
Print Assumptions C19_amount_parse_is_C15.

Theorem C19_amount_format_no_panic : forall (m : Z) (p : site), amount_to_string_p m <> Panic p.
Proof. exact amount_to_string_no_panic. Qed.
Print Assumptions C19_amount_format_no_panic.

(* T3 = C19 (requests): in every well-formed state — no wallet selected or selected; confirmed,
   pending, spent, unknown, foreign outputs; the current keystore removed by the background task
   between two reads of one call ([cur2] arbitrary); the task queue created or not — every modelled
   request with uint32 output indexes is answered or rejected by the repaired code.
   [wf]: ExistsTx answers only for existing credits of real outputs that the script reader accepted,
   a hash names one transaction, ExistsUtxo answers only for existing outputs (C01, C16). *)
Theorem C19_no_panic : forall (trim : str -> str) (e : env) (w : wst) (r : request) (p : site),
  wf w -> wf_env e -> selected_ok w e -> req_ok r -> handle trim all_fixed e w r <> Panic p.
Proof. exact handle_no_panic. Qed.
Print Assumptions C19_no_panic.

(* every switch of the model is in the repaired position for the code as it stands *)
Example C19_current_code_is_repaired : current_code = all_fixed.
Proof. reflexivity. Qed.

(* T4: one lemma for every switch setting: a panic can only come from a site whose repair is switched
   off; sites without a switch never fire *)
Theorem C19_panic_only_at_unrepaired_sites : forall trim fx e w r p,
  wf w -> wf_env e -> selected_ok w e -> req_ok r ->
  handle trim fx e w r = Panic p -> guarded_by fx p = false.
Proof. exact handle_panic_only_unfixed. Qed.
Print Assumptions C19_panic_only_at_unrepaired_sites.

(* T5: the gRPC API proper, used sequentially after start-up, could panic in the code as found ONLY at
   the three pending-input sites (the other witnesses above need the WalletManager called directly, a
   race with the background removal, or a request during start-up) *)
Theorem C19_api_as_found_only_pending_sites : forall trim e w r p,
  wf w -> wf_env e -> selected_ok w e -> req_ok r -> api_request r ->
  sequential w -> taskchan w = true ->
  handle trim as_found e w r = Panic p -> p = PCtiIndex \/ p = PCtiBlockNil \/ p = PSignMetaNil.
Proof. exact api_as_found_panics_only_at_pending_sites. Qed.
Print Assumptions C19_api_as_found_only_pending_sites.

(* T6: chain side. The input look-ups of block / transaction filtering stay inside the previous
   transaction: filterTx tests the index; filterTxForImporting and filterBlock rely on the node
   (an input of a transaction on the chain refers to an existing output; TxLoc() returns one
   location per transaction) *)
Theorem C19_filter_tx_input_guarded : forall nout i p, 0 <= nout -> 0 <= i -> filter_tx_input true nout i <> Panic p.
Proof. exact filter_tx_input_guarded. Qed.
Print Assumptions C19_filter_tx_input_guarded.

Theorem C19_filter_tx_unguarded_refuted : filter_tx_input false 2 2 = Panic PFilterTxIndex.
Proof. exact filter_tx_unguarded_refuted. Qed.
Print Assumptions C19_filter_tx_unguarded_refuted.

Theorem C19_filter_import_input : forall nout i p, 0 <= i < nout -> filter_imp_input nout i <> Panic p.
Proof. exact filter_imp_input_no_panic. Qed.
Print Assumptions C19_filter_import_input.

Theorem C19_filter_block_locs : forall ntx i p, 0 <= i < ntx -> filter_block_loc ntx ntx i <> Panic p.
Proof. exact filter_block_loc_no_panic. Qed.
Print Assumptions C19_filter_block_locs.

(* T7 = C19 (follower): whatever was delivered before — extensions, forks, reorganisations of any depth,
   skipped, stale, repeated or refused announcements, blocks with unsupported scripts (class
   CUnsupported of the Ledger model) — once the announcement of the node's current tip is processed
   the wallet is synced to the node's height: no delivery can leave the handler in a state in which
   every later block fails.  [wf_history] as in C01. *)
Theorem C19_follower_progress : forall p g h b,
  wf_history p true g (h ++ [EvProcess b]) ->
  last (s_node (run p true g h)) g = b ->
  let s := run p true g (h ++ [EvProcess b]) in
  fst (tip (s_wallet s)) = chain_height (s_node s).
Proof. exact follower_progress. Qed.
Print Assumptions C19_follower_progress.

Theorem C19_refused_delivery_keeps_state : forall p own n st b e,
  process p true own n st b = MW.Ledger.Model.Err e -> process_or_keep p true own n st b = st.
Proof. exact refused_delivery_keeps_state. Qed.
Print Assumptions C19_refused_delivery_keeps_state.

(* non-vacuity: the witness state is well formed, has a selected wallet with a pending transaction and a
   mined credit, and ordinary requests succeed on it *)
Example C19_state_nontrivial :
  wf w_sel /\ wf_env env0 /\ selected_ok w_sel env0 /\
  handle id_trim all_fixed env0 w_sel
    (RCreateRawTransaction [ {| in_txid := txid_of 2; in_vout := 0 |} ] one_mass 0 [109] []) = Ok tt /\
  handle id_trim all_fixed env0 w_sel (RGetWalletBalance 1 true) = Ok tt /\
  handle id_trim all_fixed env0 w_none (RGetWalletBalance 1 true) = Err ErrAPINoWalletInUse /\
  handle id_trim all_fixed env0 w_sel (RUseWallet [97]) = Err ErrAPIInvalidWalletId.
Proof.
  split; [exact wf_store0|]. split; [exact wf_env0|]. split; [apply selected_ok0|].
  repeat split; vm_compute; reflexivity.
Qed.
