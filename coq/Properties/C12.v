(* Property C12 — addresses are issued once, in order, durably, and stay rediscoverable.
   Only statements here; each is closed by [exact] of a lemma proved in Keys/GapProofs.v and
   followed by Print Assumptions.
   Model: Keys/Gap.v (AddrManager.nextAddresses, the import scan of createManagerKeyScope,
   loadAddrManager, WalletManager.NewAddress / GetAddresses, APIServer.CreateAddress, the address
   records written by AddCredits / PutNewAddress and deleted by Rollback).
   Vocabulary: [shf branch index] is the script hash of a derived address (any injective naming:
   the key derivation itself is C04/C14's subject); [pays_form c stk sh] / [pays_any c sh]: some
   output of chain c (frozen Ledger model's blocks) pays script hash sh in the staking / standard
   form / in any form (= ChainFetcher.CheckScriptHashUsed); a history is a list of events
   (new-address request with the node's chain of that moment, the wallet's processed chain
   moving to a new chain, restart); [run_ok] collects the environment assumptions: an address is not
   paid before it is issued, fewer than 2^31-1 addresses, every chain has consecutive heights
   and shares at least the genesis block with its predecessor. *)
From Coq Require Import List ZArith NArith Bool.
Import ListNotations.
Require Import MW.Ledger.Model MW.Ledger.Spec MW.Keys.Gap MW.Keys.GapProofs.
Open Scope N_scope.

Definition injective2 (shf : bool -> N -> N) : Prop :=
  forall b i b' i', shf b i = shf b' i' -> b = b' /\ i = i'.

(* every reachable state satisfies the invariant the statements below are phrased with *)
Theorem C12_reachable_inv : forall shf, injective2 shf -> forall fx gap maxun g,
  b_height g = 0%Z -> forall evs,
  run_ok shf fx gap maxun (rinit g) evs -> Inv shf (rrun shf fx gap maxun g evs).
Proof. exact reachable_Inv. Qed.
Print Assumptions C12_reachable_inv.

(* ... and so does a wallet restored from the mnemonic or a keystore file (any hints) *)
Theorem C12_restored_inv : forall shf fx gap fuel hint_e hint_i g rest w',
  b_height g = 0%Z -> b_txs g = [] -> heights_ok (g :: rest) ->
  wal_restore shf fuel gap hint_e hint_i (g :: rest) = Some w' ->
  Inv shf {| r_wal := w'; r_chain := g :: rest; r_issued := [] |} /\
  (fx = true \/ hint_i = 0 -> ExtInv fx {| r_wal := w'; r_chain := g :: rest; r_issued := [] |}).
Proof. exact restore_Inv. Qed.
Print Assumptions C12_restored_inv.

(* a successful request returns the address of the requested class at the next index of the key
   chain; that address was never materialised before (neither its key nor its script hash is in
   the keystore); afterwards it is in the keystore, the counter has advanced by one, the address
   is listed with the used flag clear; a restart reads back the same counter, keys and records *)
Theorem C12_fresh_next : forall shf, injective2 shf ->
  forall fx gap s used cls a w',
  Inv shf s ->
  pays_any (r_chain s) (shf false (ks_next_e (w_ks (r_wal s)))) = false ->
  new_address shf fx gap used cls (r_wal s) = KOk (a, w') ->
  a = (cls, ks_next_e (w_ks (r_wal s))) /\
  ~ In (false, snd a) (ks_pubs (w_ks (r_wal s))) /\
  mine_of shf (w_ks (r_wal s)) (shf false (snd a)) = false /\
  In (false, snd a) (ks_pubs (w_ks w')) /\
  ks_next_e (w_ks w') = snd a + 1 /\
  listed (w_recs w') cls (shf false (snd a)) = true /\
  rec_used (w_recs w') cls (shf false (snd a)) = false /\
  ks_next_e (w_ks (wal_reload w')) = snd a + 1 /\
  ks_pubs (w_ks (wal_reload w')) = ks_pubs (w_ks w') /\
  w_recs (wal_reload w') = w_recs w'.
Proof. exact fresh_next. Qed.
Print Assumptions C12_fresh_next.

(* over a whole history (requests through NewAddress or the API, chain movements, restarts):
   the indexes handed out are strictly increasing, hence never repeated *)
Theorem C12_issued_in_order : forall shf fx gap maxun g evs,
  let s := rrun shf fx gap maxun g evs in
  decr (r_issued s) (ks_next_e (w_ks (r_wal s))) /\ NoDup (map snd (r_issued s)).
Proof. exact issued_in_order. Qed.
Print Assumptions C12_issued_in_order.

(* an address that has its record stays listed by every further event, except a chain movement
   that disconnects the block whose height the record carries — the block of its first payment
   (guard [loses]); with that guard violated the statement is false: next theorem *)
Theorem C12_listed_from_then_on : forall shf, injective2 shf -> forall fx gap maxun g,
  b_height g = 0%Z ->
  forall evs e stk sh,
  run_ok shf fx gap maxun (rinit g) (evs ++ [e]) ->
  let s := rrun shf fx gap maxun g evs in
  rec_get (w_recs (r_wal s)) stk sh <> None ->
  ~ loses s e stk sh ->
  let s' := rstep shf fx gap maxun s e in
  rec_get (w_recs (r_wal s')) stk sh <> None /\ listed (w_recs (r_wal s')) stk sh = true.
Proof. exact listed_from_then_on. Qed.
Print Assumptions C12_listed_from_then_on.

(* KNOWN FINDING listing-lost-after-reorged-first-payment: Rollback deletes the address record
   together with the block of the first payment; the issued address is then unpaid and not listed *)
Theorem C12_listed_refuted_after_reorg :
  exists gap evs,
    run_ok shf0 true gap 1 (rinit wg) evs /\
    let s := run_from shf0 true gap 1 (rinit wg) evs in
    r_issued s = [(false, 0)] /\
    listed (w_recs (r_wal s)) false (shf0 false 0) = false /\
    pays_any (r_chain s) (shf0 false 0) = false /\
    let s1 := run_from shf0 true gap 1 (rinit wg) (firstn 2 evs) in
    listed (w_recs (r_wal s1)) false (shf0 false 0) = true /\
    rec_used (w_recs (r_wal s1)) false (shf0 false 0) = true.
Proof. exact listed_refuted_after_reorg. Qed.
Print Assumptions C12_listed_refuted_after_reorg.

(* the used flag of every listed entry, after any history, through reorganisations: a staking
   entry is flagged exactly when the processed chain has a staking output to its script hash, a
   standard entry exactly when the chain pays its script hash in any form *)
Theorem C12_used_flag : forall shf, injective2 shf -> forall fx gap maxun g,
  b_height g = 0%Z ->
  forall evs filter e,
  run_ok shf fx gap maxun (rinit g) evs ->
  let s := rrun shf fx gap maxun g evs in
  In e (listing filter (w_recs (r_wal s))) ->
  ae_used e = if ae_stk e then pays_form (r_chain s) true (ae_sh e) else pays_any (r_chain s) (ae_sh e).
Proof. exact used_flag_run. Qed.
Print Assumptions C12_used_flag.

(* the same, record by record, for every address of the keystore and both forms *)
Theorem C12_used_flag_record : forall shf, injective2 shf -> forall fx gap maxun g,
  b_height g = 0%Z ->
  forall evs stk sh,
  run_ok shf fx gap maxun (rinit g) evs ->
  let s := rrun shf fx gap maxun g evs in
  mine_of shf (w_ks (r_wal s)) sh = true ->
  rec_used (w_recs (r_wal s)) stk sh = pays_form (r_chain s) stk sh.
Proof. exact used_flag_rec_run. Qed.
Print Assumptions C12_used_flag_record.

(* ... and from any state satisfying the invariant (in particular a restored wallet) *)
Theorem C12_used_flag_from : forall shf s filter e,
  Inv shf s -> In e (listing filter (w_recs (r_wal s))) ->
  ae_used e = if ae_stk e then pays_form (r_chain s) true (ae_sh e) else pays_any (r_chain s) (ae_sh e).
Proof. exact used_flag_listing. Qed.
Print Assumptions C12_used_flag_from.

(* the exact condition under which a request is refused with "gap limit": the wallet holds at
   least gap addresses and none of the last gap child numbers shows chain history — judged through
   the index map (keyed by child number only); every other request succeeds at the next index *)
Theorem C12_gap_refusal_index : forall fx gap used st,
  ks_next_e st < max_addresses ->
  (next_addresses fx gap used st = KErr EGapLimit <->
   gap = 0 \/ (gap <= ks_next_e st /\
               forall j, ks_next_e st - gap <= j -> j < ks_next_e st -> idx_used fx (ks_index st) used j = false)) /\
  (next_addresses fx gap used st <> KErr EGapLimit -> exists st', next_addresses fx gap used st = KOk (ks_next_e st, st')).
Proof. exact gap_refusal_index. Qed.
Print Assumptions C12_gap_refusal_index.

(* this is the property's rule whenever the index map answers "external address" for the child
   numbers below the counter ([index_good]) ... *)
Theorem C12_gap_refusal : forall fx gap used st,
  ks_next_e st < max_addresses -> index_good fx st ->
  (next_addresses fx gap used st = KErr EGapLimit <->
   gap = 0 \/ spec_refuse gap (used false) (ks_next_e st) = true) /\
  (next_addresses fx gap used st <> KErr EGapLimit -> exists st', next_addresses fx gap used st = KOk (ks_next_e st, st')).
Proof. exact gap_refusal_ext. Qed.
Print Assumptions C12_gap_refusal.

(* ... which the repaired code (fx = true) guarantees in every reachable state and after every
   restore, whatever the hints; the code as found only for keystores without internal addresses *)
Theorem C12_index_good_reachable : forall shf, injective2 shf -> forall fx gap maxun evs s u,
  Inv shf s -> ExtInv fx s -> run_ok shf fx gap maxun s evs ->
  (forall cls api node, In (ENew cls api node) evs -> forall j, pays_any node (shf false j) = true -> u j = true) ->
  gap_inv gap u (ks_next_e (w_ks (r_wal s))) ->
  ExtInv fx (run_from shf fx gap maxun s evs) /\
  gap_inv gap u (ks_next_e (w_ks (r_wal (run_from shf fx gap maxun s evs)))).
Proof. exact run_gap_inv. Qed.
Print Assumptions C12_index_good_reachable.

Theorem C12_spec_refuse_meaning : forall gap used n,
  spec_refuse gap used n = true <-> gap <= n /\ forall j, n - gap <= j -> j < n -> used j = false.
Proof. exact spec_refuse_spec. Qed.
Print Assumptions C12_spec_refuse_meaning.

(* D3, FIXED in /repo by 314e4a7: with the code as found (fx = false) and internal-branch addresses
   in the keystore (import with an internal hint) the window read the internal address of the same
   child number: a request succeeded although the rule refuses; the repaired code refuses *)
Theorem C12_index_collision_refuted :
  exists gap used ks i ks',
    ks_restore 20 gap 2 2 used = Some ks /\
    spec_refuse gap (used false) (ks_next_e ks) = true /\
    next_addresses false gap used (ks_reload ks) = KOk (i, ks') /\
    next_addresses true gap used (ks_reload ks) = KErr EGapLimit.
Proof. exact index_collision_refuted. Qed.
Print Assumptions C12_index_collision_refuted.

(* the API's CreateAddress only adds refusals *)
Theorem C12_api_only_restricts : forall shf fx gap maxun used cls w r,
  api_create_address shf fx gap maxun used cls w = KOk r -> new_address shf fx gap used cls w = KOk r.
Proof. exact api_is_new. Qed.
Print Assumptions C12_api_only_restricts.

(* discovery: for every gap limit (the proof needs none of gap >= 2), every hint, every history of
   a created wallet in which usage is monotone towards the chain at restore time (an address paid
   when some request was served is still paid), a restore from the mnemonic materialises every
   index that is paid; [fuel] only bounds the model's loop (next theorem) *)
Theorem C12_discovery_complete : forall shf, injective2 shf ->
  forall fx gap maxun g evs cfin hint fuel w',
  b_height g = 0%Z ->
  run_ok shf fx gap maxun (rinit g) evs -> run_mono shf evs cfin ->
  (forall j, pays_any cfin (shf false j) = true -> j + 1 + gap < two32) ->
  wal_restore shf fuel gap hint 0 cfin = Some w' ->
  forall j, j < ks_next_e (w_ks (r_wal (run_from shf fx gap maxun (rinit g) evs))) ->
            pays_any cfin (shf false j) = true ->
            In (false, j) (ks_pubs (w_ks w')).
Proof. exact discovery_complete. Qed.
Print Assumptions C12_discovery_complete.

Theorem C12_restore_answers : forall shf gap cfin (hint B : N) (fuel : nat),
  (forall br j, B <= j -> pays_any cfin (shf br j) = false) ->
  (N.to_nat (N.max B (if (hint =? 0)%N then 1%N else hint) + gap)%N < fuel)%nat ->
  exists w', wal_restore shf fuel gap hint 0 cfin = Some w'.
Proof. exact restore_answers. Qed.
Print Assumptions C12_restore_answers.

(* the invariant behind it, for the oracle-only view of issuing *)
Theorem C12_issuing_keeps_gap_invariant : forall gap u us n,
  Forall (fun ut => forall j, ut j = true -> u j = true) us ->
  gap_inv gap u n -> gap_inv gap u (issue_run gap us n).
Proof. exact issue_run_inv. Qed.
Print Assumptions C12_issuing_keeps_gap_invariant.

(* KNOWN FINDING discovery-after-reorged-first-payment (design limitation of any gap-limit scheme):
   without monotone usage the statement is false — gap 2, index 1 paid, 2 and 3 issued, the payment
   reorganised away, index 3 paid: a restore with hint 0 misses index 3 *)
Theorem C12_discovery_refuted_under_reorg :
  exists gap evs cfin hint fuel w' j,
    2 <= gap /\ b_height wg = 0%Z /\
    run_ok shf0 true gap 1 (rinit wg) evs /\
    r_chain (run_from shf0 true gap 1 (rinit wg) evs) = cfin /\
    (forall i, pays_any cfin (shf0 false i) = true -> i + 1 + gap < two32) /\
    wal_restore shf0 fuel gap hint 0 cfin = Some w' /\
    j < ks_next_e (w_ks (r_wal (run_from shf0 true gap 1 (rinit wg) evs))) /\
    pays_any cfin (shf0 false j) = true /\
    ~ In (false, j) (ks_pubs (w_ks w')) /\
    ~ run_mono shf0 evs cfin.
Proof. exact discovery_refuted_under_reorg. Qed.
Print Assumptions C12_discovery_refuted_under_reorg.

(* the chains of the frozen Ledger development's environment assumption (Ledger/WF.v) qualify *)
Theorem C12_wf_chain_heights : forall c, MW.Ledger.WF.wf_chain c ->
  heights_ok c /\ exists g rest, c = g :: rest /\ b_height g = 0%Z /\ b_txs g = [].
Proof. exact wf_chain_heights. Qed.
Print Assumptions C12_wf_chain_heights.

(* non-vacuity *)
Example C12_ex_injective : injective2 shf0.
Proof. exact shf0_inj. Qed.
Example C12_ex_history :
  run_ok shf0 true 2 1 (rinit wg) we_evs /\
  r_issued (run_from shf0 true 2 1 (rinit wg) we_evs) = [(false, 3); (false, 2); (true, 1); (false, 0)].
Proof. exact run_ok_example. Qed.
Example C12_ex_hint_2_finds_it :
  exists w', wal_restore shf0 20 2 2 0 wd_fin = Some w' /\ In (false, 3) (ks_pubs (w_ks w')).
Proof. exact discovery_with_hint_2. Qed.
Example C12_ex_refusal : forall fx used, next_addresses fx 2 used
    {| ks_next_e := 2; ks_next_i := 0; ks_pubs := [(false, 0); (false, 1)]; ks_index := [(1, false); (0, false)] |}
  = if used false 0 || (used false 1 || false) then
      KOk (2, {| ks_next_e := 3; ks_next_i := 0; ks_pubs := [(false, 0); (false, 1); (false, 2)];
                 ks_index := [(2, false); (1, false); (0, false)] |})
    else KErr EGapLimit.
Proof. intros fx used. destruct fx; vm_compute; (destruct (used false 0); [reflexivity|]); destruct (used false 1); reflexivity. Qed.

(* the limits of the key-chain model ARE the compiled code's (coq/Gen/Consts.v is regenerated on every run from
   hdkeychain.HardenedKeyStart and keystore.MaxAddressesPerAccount) *)
Require MW.Gen.Consts.
Theorem C12_limits_are_the_code :
  Z.of_N hardened_start = MW.Gen.Consts.HardenedKeyStart /\
  Z.of_N max_addresses = MW.Gen.Consts.MaxAddressesPerAccount.
Proof. split; reflexivity. Qed.
Print Assumptions C12_limits_are_the_code.
