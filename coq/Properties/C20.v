(* Property C20 — shutdown always completes; follower and background worker never deadlock.
   Only statements here; each is closed by [exact] of a lemma proved in Sched/HandshakeProofs.v
   and followed by Print Assumptions.
   Model: Sched/Handshake.v — handler H, worker K, stopper S, one API client, the announcing node,
   as a labelled transition system over program counters at every channel operation
   (masswallet/ntfnshandler.go: handle, worker, suspend, resume, asyncImport, asyncRemove, Stop;
   task.go; wallet.go ImportWallet*/RemoveWallet).  [c : cfg] carries the two switches
   f1fix / nilfix (code as found = both false, repaired code = both true) and the two channel
   capacities; every theorem holds for every capacity allowed by [cfg_ok].
   All theorems are about every reachable state of every finite environment (number of
   announcements, list of API requests with their work, tasks left over from the previous run,
   Stop or no Stop, at any moment): the proofs are by induction over [reachable] with the
   invariant [Inv]; nothing is enumerated.
   Not in the model (remainder, see the check's evidence): the Go scheduler (a runnable goroutine
   is eventually run = every real execution is a maximal path of [step]); what the database
   transactions do; API calls other than the two that queue tasks; queueMsgTx (same shape as
   queueBlock). *)
From Coq Require Import List Arith Bool.
Import ListNotations.
Require Import MW.Sched.Handshake MW.Sched.HandshakeProofs.

(* every step strictly decreases [rank]: there is no livelock, and a run from s has at most
   rank s steps — whatever the scheduler and the `select` choices do *)
Theorem C20_every_step_progress : forall c s s', In s' (step c s) -> rank s' < rank s.
Proof. exact step_rank. Qed.
Print Assumptions C20_every_step_progress.

(* the running system (no Stop requested): a reachable state can move unless nothing is left to do *)
Theorem C20_no_deadlock_running : forall c s,
  cfg_ok c -> reachable c s -> ~ stop_requested s -> can_step c s \/ idle s.
Proof.
  intros c s Hc Hr Hn. apply no_deadlock_running; [assumption|assumption|].
  unfold stop_requested in Hn. destruct (spc s); try reflexivity; exfalso; apply Hn; discriminate.
Qed.
Print Assumptions C20_no_deadlock_running.

(* ... hence every maximal run without Stop ends with both loops parked, every announced block
   processed, every accepted import/removal finished (none dropped, none aborted); runs are
   bounded by the ranking function and a maximal run exists *)
Theorem C20_tasks_finish : forall c s,
  cfg_ok c -> reachable c s -> no_stop s ->
  (forall s', steps c s s' -> stuck c s' -> all_done s') /\
  (forall n s', steps_n c n s s' -> n <= rank s) /\
  (exists s', steps c s s' /\ stuck c s').
Proof. exact tasks_finish. Qed.
Print Assumptions C20_tasks_finish.

(* the non-blocking pushes never drop a task: IsBusy (>= 3) against a capacity >= 4 leaves room
   for the one task the worker may re-queue and the one request being served *)
Theorem C20_requeue_never_dropped : forall c s, cfg_ok c -> reachable c s -> n_drop (gh s) = 0.
Proof. exact requeue_never_dropped. Qed.
Print Assumptions C20_requeue_never_dropped.

(* the configuration the theorems are about IS the compiled code's: coq/Gen/Consts.v is regenerated on every run from
   the constants and the queue constructor of the code under test (harness/cmd/gen: MaxWaitingTaskNum,
   cap(NewWalletTaskChan(0).C), cap(NewWalletTaskChan(10).C)). The busy threshold of the model is the code's, the
   repaired configuration's capacity is the constructor's, and [cfg_ok] (one slot more than the threshold: room for
   the worker's own re-queue of the task it is running) holds of what the constructor really allocates, for few
   and for many wallets.  A change of the threshold or of the constructor's arithmetic breaks this obligation. *)
Require MW.Gen.Consts.
From Coq Require ZArith.
Theorem C20_task_queue_config_is_the_code :
  (BinInt.Z.of_nat busy_threshold = MW.Gen.Consts.MaxWaitingTaskNum) /\
  (BinInt.Z.of_nat (cap cfg_repaired) = MW.Gen.Consts.TaskQueueCap0) /\
  cfg_ok {| f1fix := true; nilfix := true; qcap := 1024; cap := BinInt.Z.to_nat MW.Gen.Consts.TaskQueueCap0 |} /\
  cfg_ok {| f1fix := true; nilfix := true; qcap := 1024; cap := BinInt.Z.to_nat MW.Gen.Consts.TaskQueueCap10 |} /\
  BinInt.Z.le MW.Gen.Consts.TaskQueueCap0 MW.Gen.Consts.TaskQueueCap10.
Proof. vm_compute. repeat split; try (intro; discriminate); repeat constructor. Qed.
Print Assumptions C20_task_queue_config_is_the_code.

(* what the hand-shake is for: block processing and a background update never overlap *)
Theorem C20_handshake_exclusion : forall c s,
  cfg_ok c -> reachable c s -> ~ (hpc s = Hblk /\ in_cs (kpc s) = true).
Proof. exact handshake_exclusion. Qed.
Print Assumptions C20_handshake_exclusion.

(* CODE AS FOUND (DESIGN F1): a reachable state after Stop was requested in which nothing can
   move and the database is still open: handler gone on quit, worker past its own quit check at
   the unbuffered sigSuspend send, Stop in quitWg.Wait.  Witness: an unfinished import from the
   last run, worker takes it, Stop, handler leaves. *)
Theorem C20_stop_deadlock_refuted : forall c,
  cfg_ok c -> f1fix c = false -> nilfix c = false ->
  exists s, reachable c s /\ stop_requested s /\ ~ stopped s /\ stuck c s.
Proof. exact stop_deadlock_refuted. Qed.
Print Assumptions C20_stop_deadlock_refuted.

(* ... and for every environment (further announcements, further API requests) no later step
   ever completes the shutdown *)
Theorem C20_stop_deadlock_permanent : forall c blocks reqs,
  cfg_ok c -> f1fix c = false -> nilfix c = false ->
  exists s, reachable c s /\ stop_requested s /\ e_blocks s = blocks /\ e_tasks s = reqs /\
            forall s', steps c s s' -> ~ stopped s'.
Proof. exact stop_deadlock_permanent. Qed.
Print Assumptions C20_stop_deadlock_permanent.

(* REPAIRED PROTOCOL: once Stop has been or will be called — at any reachable state, i.e. at any
   placement relative to commits, hand-shakes and queue operations — every maximal run ends
   with the database closed, within rank s steps; such a run exists *)
Theorem C20_stop_terminates : forall c s,
  cfg_ok c -> f1fix c = true -> reachable c s -> stop_coming s ->
  (forall s', steps c s s' -> stuck c s' -> stopped s') /\
  (forall n s', steps_n c n s s' -> n <= rank s) /\
  (exists s', steps c s s' /\ stuck c s').
Proof. exact stop_terminates. Qed.
Print Assumptions C20_stop_terminates.

(* CODE AS FOUND: an API request served before the worker goroutine has created the task queue
   dereferences nil *)
Theorem C20_taskchan_nil_refuted : forall c,
  cfg_ok c -> nilfix c = false -> exists s, reachable c s /\ panicked s = true.
Proof. exact taskchan_nil_refuted. Qed.
Print Assumptions C20_taskchan_nil_refuted.

(* REPAIRED: never *)
Theorem C20_no_nil_panic : forall c s, cfg_ok c -> nilfix c = true -> reachable c s -> panicked s = false.
Proof. exact no_nil_panic. Qed.
Print Assumptions C20_no_nil_panic.

(* non-vacuity / concrete runs (closed terms, vm_compute) *)
Example C20_ex_cfg_ok : cfg_ok cfg_found /\ cfg_ok cfg_repaired.
Proof. unfold cfg_ok, busy_threshold; cbn. repeat split; auto with arith. Qed.

(* the F1 witness as a path of choice indexes from the state in which Start returned:
   worker start-up, take the import, Stop, handler leaves; then nothing is enabled *)
Example C20_ex_f1_path :
  match exec cfg_found [0; 0; 1; 0] (init_state false 0 [] [{| t_kind := Imp; t_more := 0 |}] true) with
  | Some s => (hpc s, kpc s, spc s, step cfg_found s) = (Hdone, Kat PImp Ssusp 0, Swait, [])
  | None => False
  end.
Proof. vm_compute. reflexivity. Qed.

(* the same four moves in the repaired protocol leave the worker a way out (abort on quit) *)
Example C20_ex_f1_path_repaired :
  match exec {| f1fix := true; nilfix := false; qcap := 1024; cap := 4 |} [0; 0; 1; 0]
             (init_state false 0 [] [{| t_kind := Imp; t_more := 0 |}] true) with
  | Some s => length (step {| f1fix := true; nilfix := false; qcap := 1024; cap := 4 |} s) = 1
  | None => False
  end.
Proof. vm_compute. reflexivity. Qed.

(* a run of the repaired system with a block, an import of two batches, a removal and Stop:
   it exists, and its end state is stopped *)
Example C20_ex_hypotheses_met :
  let s0 := init_state true 1 [{| t_kind := Imp; t_more := 1 |}; {| t_kind := Rem; t_more := 0 |}] [] true in
  reachable cfg_repaired s0 /\ stop_coming s0 /\ rank s0 = 30.
Proof.
  cbn zeta. split; [|split].
  - apply init_reachable. cbn. auto with arith.
  - left. reflexivity.
  - vm_compute. reflexivity.
Qed.
