(* Property C20 — shutdown always completes; follower and background worker never deadlock.
   Only statements here; each is closed by [exact] of a lemma proved in Sched/HandshakeProofs.v
   (task-queue capacity: Sched/HandshakeQueueProofs.v) and followed by Print Assumptions.
   Model: Sched/Handshake.v — handler H, worker K, stopper S, one API client, the announcing node,
   as a labelled transition system over program counters at every channel operation
   (masswallet/ntfnshandler.go: handle, worker, suspend, resume, asyncImport, asyncRemove, Stop;
   task.go; wallet.go ImportWallet*/RemoveWallet).  [c : cfg] carries the two switches
   f1fix / nilfix (code as found = both false, repaired code = both true) and the two channel
   capacities; every theorem holds for every capacity allowed by [cfg_ok].
   All theorems are about every reachable state of every finite environment (number of
   announcements, list of API requests with their work, tasks left over from the previous run,
   Stop or no Stop, at any moment): the proofs are by induction over [reachable] with the
   invariant [Inv]; nothing is enumerated.
   Not in the model (remainder, see the check's evidence): the Go scheduler (a runnable goroutine
   is eventually run = every real execution is a maximal path of [step]); what the database
   transactions do; API calls other than the two that queue tasks; queueMsgTx (same shape as
   queueBlock). *)
From Coq Require Import List Arith Bool.
Import ListNotations.
Require Import MW.Sched.Handshake MW.Sched.HandshakeProofs MW.Sched.HandshakeQueueProofs.

(* every step strictly decreases [rank]: there is no livelock, and a run from s has at most
   rank s steps — whatever the scheduler and the `select` choices do *)
Theorem C20_every_step_progress : forall c s s', In s' (step c s) -> rank s' < rank s.
Proof. exact step_rank. Qed.
Print Assumptions C20_every_step_progress.

(* the running system (no Stop requested): a reachable state can move unless nothing is left to do *)
Theorem C20_no_deadlock_running : forall c s,
  cfg_ok c -> reachable c s -> ~ stop_requested s -> can_step c s \/ idle s.
Proof.
  intros c s Hc Hr Hn. apply no_deadlock_running; [assumption|assumption|].
  unfold stop_requested in Hn. destruct (spc s); try reflexivity; exfalso; apply Hn; discriminate.
Qed.
Print Assumptions C20_no_deadlock_running.

(* ... hence every maximal run without Stop ends with both loops parked, every announced block
   processed, every accepted import/removal finished (none dropped, none aborted); runs are
   bounded by the ranking function and a maximal run exists *)
Theorem C20_tasks_finish : forall c s,
  cfg_ok c -> reachable c s -> no_stop s ->
  (forall s', steps c s s' -> stuck c s' -> all_done s') /\
  (forall n s', steps_n c n s s' -> n <= rank s) /\
  (exists s', steps c s s' /\ stuck c s').
Proof. exact tasks_finish. Qed.
Print Assumptions C20_tasks_finish.

(* the non-blocking pushes never drop a task: IsBusy (>= 3) against a capacity >= 4 leaves room
   for the one task the worker may re-queue and the one request being served *)
Theorem C20_requeue_never_dropped : forall c s, cfg_ok c -> reachable c s -> n_drop (gh s) = 0.
Proof. exact requeue_never_dropped. Qed.
Print Assumptions C20_requeue_never_dropped.

(* the configuration the theorems are about IS the compiled code's: coq/Gen/Consts.v is regenerated on every run from
   the constants and the queue constructor of the code under test (harness/cmd/gen: MaxWaitingTaskNum,
   cap(NewWalletTaskChan(0).C), cap(NewWalletTaskChan(10).C)). The busy threshold of the model is the code's, the
   repaired configuration's capacity is the constructor's, and [cfg_ok] (one slot more than the threshold: room for
   the worker's own re-queue of the task it is running) holds of what the constructor really allocates, for few
   and for many wallets.  A change of the threshold or of the constructor's arithmetic breaks this obligation. *)
Require MW.Gen.Consts.
From Coq Require ZArith.
Theorem C20_task_queue_config_is_the_code :
  (BinInt.Z.of_nat busy_threshold = MW.Gen.Consts.MaxWaitingTaskNum) /\
  (BinInt.Z.of_nat (cap cfg_repaired) = MW.Gen.Consts.TaskQueueCap0) /\
  cfg_ok {| f1fix := true; nilfix := true; qcap := 1024; cap := BinInt.Z.to_nat MW.Gen.Consts.TaskQueueCap0 |} /\
  cfg_ok {| f1fix := true; nilfix := true; qcap := 1024; cap := BinInt.Z.to_nat MW.Gen.Consts.TaskQueueCap10 |} /\
  BinInt.Z.le MW.Gen.Consts.TaskQueueCap0 MW.Gen.Consts.TaskQueueCap10.
Proof. vm_compute. repeat split; try (intro; discriminate); repeat constructor. Qed.
Print Assumptions C20_task_queue_config_is_the_code.

(* ... and so is the rule that sizes the queue at start-up: [start_cap n] is what NewWalletTaskChan(n) allocates *)
Theorem C20_start_cap_is_the_code :
  (BinInt.Z.of_nat (start_cap 0) = MW.Gen.Consts.TaskQueueCap0) /\
  (BinInt.Z.of_nat (start_cap 10) = MW.Gen.Consts.TaskQueueCap10).
Proof. vm_compute. split; reflexivity. Qed.
Print Assumptions C20_start_cap_is_the_code.

(* START-UP (initTaskChan): Start() sizes the queue after the number [nw] of wallet status rows
   (start_cap nw = max (MaxWaitingTaskNum+1) nw) and re-queues the k = length rst unfinished imports / removals
   among them by NON-BLOCKING pushes ([start_state] spells these pushes out).  For every k and every nw >= k:
   none of these pushes is dropped (the queue holds exactly rst), and no later push is — neither the API's nor
   the worker's re-queue of the task it is running — whatever the environment does afterwards. *)
Theorem C20_startup_queue_never_drops : forall c nw blocks reqs rst stop s,
  nilfix c = true -> 1 <= qcap c -> cap c = start_cap nw -> length rst <= nw ->
  steps c (start_state c blocks reqs rst stop) s ->
  tasks (start_state c blocks reqs rst stop) = rst /\ n_drop (gh s) = 0.
Proof. exact startup_never_dropped. Qed.
Print Assumptions C20_startup_queue_never_drops.

(* ... and while the wallet runs (no Stop) every maximal run from there ends with both loops parked, every
   announced tip processed, every accepted task finished — the k left over from the last run included *)
Theorem C20_startup_tasks_finish : forall c nw blocks reqs rst s,
  nilfix c = true -> 1 <= qcap c -> cap c = start_cap nw -> length rst <= nw ->
  steps c (start_state c blocks reqs rst false) s -> stuck c s ->
  all_done s /\ length rst <= n_fin (gh s).
Proof. exact startup_tasks_finish. Qed.
Print Assumptions C20_startup_tasks_finish.

(* THE CONVERSE (the seeded configuration: a queue of exactly MaxWaitingTaskNum slots, any qcap, either Stop
   protocol).  Environment: no Stop, no block, the API requests an import of two batches and then three removals
   of other wallets.  There is a run on which the import is accepted and taken by the worker, the three removals
   are accepted while its first batch runs (the waiting queue is then full), and the worker's re-queue of the
   import is dropped (s1); the run goes on to a state s2 in which nothing can move any more, both loops are
   parked, the queues are empty, every tip is processed, nothing was aborted — and an accepted task has not
   finished and never will. *)
Theorem C20_requeue_dropped_refuted : forall c,
  cap c = busy_threshold -> nilfix c = true ->
  exists s1 s2,
    let s0 := init_state true 0 [ {| t_kind := Imp; t_more := 1 |}; {| t_kind := Rem; t_more := 0 |};
                                  {| t_kind := Rem; t_more := 0 |}; {| t_kind := Rem; t_more := 0 |} ] [] false in
    initial c s0 /\ no_stop s0 /\
    steps c s0 s1 /\ 0 < n_drop (gh s1) /\
    steps c s1 s2 /\ stuck c s2 /\ idle s2 /\ n_proc (gh s2) = n_ann (gh s2) /\
    n_abort (gh s2) = 0 /\ n_fin (gh s2) < n_acc (gh s2).
Proof. exact requeue_dropped_refuted. Qed.
Print Assumptions C20_requeue_dropped_refuted.

(* the same after a restart: the two-batch import is the one task left over from the last run (a start-up rule
   max MaxWaitingTaskNum k gives MaxWaitingTaskNum slots for k = 1), three removals are requested *)
Theorem C20_requeue_dropped_restart_refuted : forall c,
  cap c = busy_threshold -> nilfix c = true ->
  exists s1 s2,
    let s0 := init_state true 0 [ {| t_kind := Rem; t_more := 0 |}; {| t_kind := Rem; t_more := 0 |};
                                  {| t_kind := Rem; t_more := 0 |} ] [ {| t_kind := Imp; t_more := 1 |} ] false in
    initial c s0 /\ no_stop s0 /\
    steps c s0 s1 /\ 0 < n_drop (gh s1) /\
    steps c s1 s2 /\ stuck c s2 /\ idle s2 /\ n_proc (gh s2) = n_ann (gh s2) /\
    n_abort (gh s2) = 0 /\ n_fin (gh s2) < n_acc (gh s2).
Proof. exact requeue_dropped_restart_refuted. Qed.
Print Assumptions C20_requeue_dropped_restart_refuted.

(* the capacity condition of C20_requeue_never_dropped is exact: no reachable state has dropped a task
   if and only if the queue has at least MaxWaitingTaskNum + 1 slots *)
Theorem C20_never_dropped_iff : forall c,
  nilfix c = true -> 1 <= qcap c ->
  ((forall s, reachable c s -> n_drop (gh s) = 0) <-> busy_threshold + 1 <= cap c).
Proof. exact never_dropped_iff. Qed.
Print Assumptions C20_never_dropped_iff.

(* what the hand-shake is for: block processing and a background update never overlap *)
Theorem C20_handshake_exclusion : forall c s,
  cfg_ok c -> reachable c s -> ~ (hpc s = Hblk /\ in_cs (kpc s) = true).
Proof. exact handshake_exclusion. Qed.
Print Assumptions C20_handshake_exclusion.

(* CODE AS FOUND (DESIGN F1): a reachable state after Stop was requested in which nothing can
   move and the database is still open: handler gone on quit, worker past its own quit check at
   the unbuffered sigSuspend send, Stop in quitWg.Wait.  Witness: an unfinished import from the
   last run, worker takes it, Stop, handler leaves. *)
Theorem C20_stop_deadlock_refuted : forall c,
  cfg_ok c -> f1fix c = false -> nilfix c = false ->
  exists s, reachable c s /\ stop_requested s /\ ~ stopped s /\ stuck c s.
Proof. exact stop_deadlock_refuted. Qed.
Print Assumptions C20_stop_deadlock_refuted.

(* ... and for every environment (further announcements, further API requests) no later step
   ever completes the shutdown *)
Theorem C20_stop_deadlock_permanent : forall c blocks reqs,
  cfg_ok c -> f1fix c = false -> nilfix c = false ->
  exists s, reachable c s /\ stop_requested s /\ e_blocks s = blocks /\ e_tasks s = reqs /\
            forall s', steps c s s' -> ~ stopped s'.
Proof. exact stop_deadlock_permanent. Qed.
Print Assumptions C20_stop_deadlock_permanent.

(* REPAIRED PROTOCOL: once Stop has been or will be called — at any reachable state, i.e. at any
   placement relative to commits, hand-shakes and queue operations — every maximal run ends
   with the database closed, within rank s steps; such a run exists *)
Theorem C20_stop_terminates : forall c s,
  cfg_ok c -> f1fix c = true -> reachable c s -> stop_coming s ->
  (forall s', steps c s s' -> stuck c s' -> stopped s') /\
  (forall n s', steps_n c n s s' -> n <= rank s) /\
  (exists s', steps c s s' /\ stuck c s').
Proof. exact stop_terminates. Qed.
Print Assumptions C20_stop_terminates.

(* CODE AS FOUND: an API request served before the worker goroutine has created the task queue
   dereferences nil *)
Theorem C20_taskchan_nil_refuted : forall c,
  cfg_ok c -> nilfix c = false -> exists s, reachable c s /\ panicked s = true.
Proof. exact taskchan_nil_refuted. Qed.
Print Assumptions C20_taskchan_nil_refuted.

(* REPAIRED: never *)
Theorem C20_no_nil_panic : forall c s, cfg_ok c -> nilfix c = true -> reachable c s -> panicked s = false.
Proof. exact no_nil_panic. Qed.
Print Assumptions C20_no_nil_panic.

(* ================================================================ refused batches and the retry wait
   Sched/HandshakeRetry.v: the system above extended by (1) a rescan batch that ends REFUSED
   (ErrImportingContinuable: the node is off the follower's chain at the batch's upper height — the
   environment decides, out of a finite budget [e_refuse] of refusals in the state, any number), (2) the
   worker's RETRY WAIT after the deferred resume (select on quit / time.After(importRetryDelay)) and (3) the
   re-queue of the task with its work unchanged (non-blocking push, as before).  The handler leaves at quit
   WITHOUT draining its block queue (t_hquit, unchanged).  [c : rcfg] = a configuration of the system above +
   the switch [wait_while_queued] (false = the code of /repo; true = the seeded variant that repeats the
   pause while the block queue is non-empty).  Proofs: Sched/HandshakeRetryProofs.v. *)
Require Import MW.Sched.HandshakeRetry MW.Sched.HandshakeRetryProofs.

(* the extension embeds the system above: with no refusal to come and none under way it has exactly the
   steps of Handshake.v, label by label (so every schedule judged against the old model is judged the same) *)
Theorem C20_retry_embeds_handshake : forall c b,
  rstep_l c (rinit b 0) = map (fun p => (Lb (fst p), rinit (snd p) 0)) (step_l (bcfg c) b).
Proof. exact rstep_conservative. Qed.
Print Assumptions C20_retry_embeds_handshake.

(* no livelock in the code of /repo: every step — refusals, retry waits, re-queues included — strictly
   decreases [rrank] = rank + 8 per refusal to come + 7 while a refused batch awaits its resume + 1 in the wait *)
Theorem C20_retry_every_step_progress : forall c s s',
  wait_while_queued c = false -> In s' (rstep c s) -> rrank s' < rrank s.
Proof. exact rstep_rank. Qed.
Print Assumptions C20_retry_every_step_progress.

(* the running system: a reachable state can move unless nothing is left to do (and then the worker is
   neither waiting to retry nor holding a refused batch) *)
Theorem C20_retry_no_deadlock_running : forall c s,
  cfg_ok (bcfg c) -> rreachable c s -> spc (base s) = Sidle ->
  rcan_step c s \/ (idle (base s) /\ rwait (ext s) = false /\ refused (ext s) = false).
Proof. exact rno_deadlock_running. Qed.
Print Assumptions C20_retry_no_deadlock_running.

(* C20_tasks_finish WITH REFUSED BATCHES.  Fairness premise, explicit: refusals are finitely many — the state
   the run starts in carries the number [e_refuse (ext s)] of refusals the environment will still cause, ANY
   number (and spends them on any batches of any imports).  Then, without Stop, from every reachable state
   (any number of announcements queued, worker anywhere incl. in a retry wait): every maximal run ends with
   both loops parked, every announced block processed, every accepted import/removal finished, none dropped,
   none aborted; a run has at most rank + 8 * (refusals to come) + 8 steps; a maximal run exists. *)
Theorem C20_tasks_finish_retry : forall c s,
  cfg_ok (bcfg c) -> wait_while_queued c = false -> rreachable c s -> no_stop (base s) ->
  (forall s', rsteps c s s' -> rstuck c s' ->
     all_done (base s') /\ rwait (ext s') = false /\ refused (ext s') = false) /\
  (forall n s', rsteps_n c n s s' -> n <= rank (base s) + 8 * e_refuse (ext s) + 8) /\
  (exists s', rsteps c s s' /\ rstuck c s').
Proof. exact retry_tasks_finish. Qed.
Print Assumptions C20_tasks_finish_retry.

(* ... and the premise is needed: for every k the environment that refuses k batches keeps a single accepted
   import unfinished for 6 k steps (an environment that refuses for ever — the node never returns to the
   follower's chain — keeps it unfinished for ever, legitimately) *)
Theorem C20_retry_refusals_delay_unboundedly : forall k,
  exists s, rsteps_n rcfg_code (6 * k) (rinit (init_state true 0 [] [ {| t_kind := Imp; t_more := 0 |} ] false) k) s /\
            n_ref (ext s) = k /\ n_fin (gh (base s)) = 0 /\ n_acc (gh (base s)) = 1.
Proof. exact refusals_unbounded_delay. Qed.
Print Assumptions C20_retry_refusals_delay_unboundedly.

(* C20_stop_terminates WITH REFUSED BATCHES AND RETRY WAITS (repaired hand-shake, the code of /repo): once
   Stop has been or will be called — from EVERY reachable state: any number of announcements queued, any
   number of refused batches behind and still to come, the worker in the retry wait, at the moment of the
   refusal (refused batch, resume not yet done), between the end of the wait and the re-queue, right after
   the re-queue, the handler inside a block or gone with blocks still queued — every maximal run ends with
   the database closed and BOTH goroutines gone, after at most rank + 8 * (refusals to come) + 8 steps;
   a maximal run exists *)
Theorem C20_stop_terminates_retry : forall c s,
  cfg_ok (bcfg c) -> f1fix (bcfg c) = true -> wait_while_queued c = false ->
  rreachable c s -> stop_coming (base s) ->
  (forall s', rsteps c s s' -> rstuck c s' ->
     stopped (base s') /\ hpc (base s') = Hdone /\ kpc (base s') = Kdone) /\
  (forall n s', rsteps_n c n s s' -> n <= rank (base s) + 8 * e_refuse (ext s) + 8) /\
  (exists s', rsteps c s s' /\ rstuck c s').
Proof. exact retry_stop_terminates. Qed.
Print Assumptions C20_stop_terminates_retry.

(* SEEDED VARIANT (the pause is repeated while len(queueBlock) > 0): for every hand-shake protocol whose
   task queue is created by Start, all capacities, every number q+1 of queued announcements (that fits the
   block queue), every further list of API requests and refusals — a REACHABLE state after Stop was requested
   (import refused, worker in the retry wait, q+1 blocks announced, Stop, the handler leaves on quit without
   draining its queue) from which NO run ever closes the database; no run gets stuck either (the worker
   spins: the quit case fires at once on every pass, the queue never empties), runs of every length exist *)
Theorem C20_retry_wait_while_queued_refuted : forall c q reqs r,
  cfg_ok (bcfg c) -> nilfix (bcfg c) = true -> wait_while_queued c = true -> S q <= qcap (bcfg c) ->
  exists s, rreachable c s /\ stop_requested (base s) /\ qb (base s) = S q /\
            e_tasks (base s) = reqs /\ e_refuse (ext s) = r /\
            (forall s', rsteps c s s' -> ~ stopped (base s') /\ rcan_step c s') /\
            (forall n, exists s', rsteps_n c n s s').
Proof. exact retry_wait_while_queued_refuted. Qed.
Print Assumptions C20_retry_wait_while_queued_refuted.

(* non-vacuity / concrete runs (closed terms, vm_compute) *)
Example C20_ex_cfg_ok : cfg_ok cfg_found /\ cfg_ok cfg_repaired.
Proof. unfold cfg_ok, busy_threshold; cbn. repeat split; auto with arith. Qed.

(* the F1 witness as a path of choice indexes from the state in which Start returned:
   worker start-up, take the import, Stop, handler leaves; then nothing is enabled *)
Example C20_ex_f1_path :
  match exec cfg_found [0; 0; 1; 0] (init_state false 0 [] [{| t_kind := Imp; t_more := 0 |}] true) with
  | Some s => (hpc s, kpc s, spc s, step cfg_found s) = (Hdone, Kat PImp Ssusp 0, Swait, [])
  | None => False
  end.
Proof. vm_compute. reflexivity. Qed.

(* the same four moves in the repaired protocol leave the worker a way out (abort on quit) *)
Example C20_ex_f1_path_repaired :
  match exec {| f1fix := true; nilfix := false; qcap := 1024; cap := 4 |} [0; 0; 1; 0]
             (init_state false 0 [] [{| t_kind := Imp; t_more := 0 |}] true) with
  | Some s => length (step {| f1fix := true; nilfix := false; qcap := 1024; cap := 4 |} s) = 1
  | None => False
  end.
Proof. vm_compute. reflexivity. Qed.

(* a run of the repaired system with a block, an import of two batches, a removal and Stop:
   it exists, and its end state is stopped *)
Example C20_ex_hypotheses_met :
  let s0 := init_state true 1 [{| t_kind := Imp; t_more := 1 |}; {| t_kind := Rem; t_more := 0 |}] [] true in
  reachable cfg_repaired s0 /\ stop_coming s0 /\ rank s0 = 30.
Proof.
  cbn zeta. split; [|split].
  - apply init_reachable. cbn. auto with arith.
  - left. reflexivity.
  - vm_compute. reflexivity.
Qed.

(* the dropped re-queue as a closed run of the configuration with MaxWaitingTaskNum slots: four tasks accepted,
   three finished, one dropped, nothing left to run *)
Example C20_ex_tight_queue_drops :
  match exec_lab cfg_tight (pressure_run ++ drain_run) (init_state true 0 pressure_reqs [] false) with
  | Some s => (n_acc (gh s), n_fin (gh s), n_drop (gh s), tasks s, kpc s, step cfg_tight s) = (4, 3, 1, [], Ksel, [])
  | None => False
  end.
Proof. vm_compute. reflexivity. Qed.

(* the same labels in the repaired configuration (MaxWaitingTaskNum + 1 slots): nothing dropped, the import
   is back in the queue behind the removals *)
Example C20_ex_same_run_repaired :
  match exec_lab cfg_repaired (pressure_run ++ drain_run) (init_state true 0 pressure_reqs [] false) with
  | Some s => (n_acc (gh s), n_fin (gh s), n_drop (gh s), tasks s) = (4, 3, 0, [ {| t_kind := Imp; t_more := 0 |} ])
  | None => False
  end.
Proof. vm_compute. reflexivity. Qed.

(* start-up with six unfinished tasks among seven wallets: seven slots, all six queued *)
Example C20_ex_startup_six :
  let rst := [imp 1; rem 0; imp 0; rem 0; imp 0; rem 0] in
  let s := start_state (cfg_cap (start_cap 7)) 0 [] rst false in
  (cap (cfg_cap (start_cap 7)), tasks s, n_drop (gh s), n_acc (gh s)) = (7, rst, 0, 6).
Proof. vm_compute. reflexivity. Qed.

(* the seed's hang as a closed run (3 blocks queued): left-over import taken, batch refused, resume, three
   announcements, Stop, handler leaves; in the seeded variant the only successors of the state are API-free
   passes through the wait that lead back to it; in the code of /repo the same labels lead to a state whose
   maximal continuation closes the database *)
Example C20_ex_retry_spin_seeded :
  match rexec_lab rcfg_seeded (spin_run 2) (spin_init 2 [] 0) with
  | Some s => (s = spin_state 2 [] 0) /\ rstep rcfg_seeded s = [s; s]
  | None => False
  end.
Proof. vm_compute. split; reflexivity. Qed.

Example C20_ex_retry_same_run_code :
  match rexec_lab rcfg_code (spin_run 2 ++ [Trquit; Lb Tkpush; Lb Tkquit; Lb Tswait; Lb Lz]) (spin_init 2 [] 0) with
  | Some s => (spc (base s), hpc (base s), kpc (base s), qb (base s), rstep rcfg_code s) = (Sdone, Hdone, Kdone, 3, [])
  | None => False
  end.
Proof. vm_compute. reflexivity. Qed.

(* an import refused twice and then let through finishes (no Stop): two refusals, one finished task *)
Example C20_ex_retry_refused_twice_finishes :
  match rexec_lab rcfg_code (retry_loop ++ retry_loop ++ [Lb Tktake; Lb Lkb; Lb Lkc; Lb Tkres])
                  (rinit (init_state true 0 [] [ {| t_kind := Imp; t_more := 0 |} ] false) 2) with
  | Some s => (n_ref (ext s), n_fin (gh (base s)), n_acc (gh (base s)), kpc (base s), rstep rcfg_code s) = (2, 1, 1, Ksel, [])
  | None => False
  end.
Proof. vm_compute. reflexivity. Qed.
