(* Property C04 — wallet id and addresses are a function of the mnemonic; keys match addresses.
   Only statements here; each is closed by [exact] of a lemma proved in Keys/DeriveProofs.v /
   Keys/UnlockProofs.v and followed (after the Section is closed) by Print Assumptions.

   Model: Keys/Derive.v on top of Codec/Bip32.v (hdkeychain, C14) and Codec/Bip39.v (mnemonic.go,
   C13): [create_seed] / [import_mnemonic_seed] / [import_keystore_seed] are what
   keystore.create, ImportKeystoreWithMnemonic and allocAddrMgrNamespace compute from
   (entropy | mnemonic | exported JSON, private passphrase); [wallet_id] and [wallet_addr] are the
   account id bytes and the script hash of address (branch, index) as functions of the seed alone
   (path m/44'/coin'/1'/branch/index, id = hash160 of the account public key, address =
   sha256(OP_1 <pub33> OP_1 OP_CHECKMULTISIG)); [pub_route_issue] / [pub_route_import] /
   [priv_route_sign] are the three routes the code takes to the key of one address (NewAddress on
   a locked manager: public, public; import: private branch, neutered, public child; signing:
   private, private).
   Primitives are Section variables; assumed: [prim_laws] (C14: among them the group
   homomorphism a*G + b*G = (a+b)*G), [hash_wf] (SHA-256 returns at least a byte), [box_laws]
   (secretbox opens with its key and with no other).
   D1 (re-spaced mnemonic) was repaired by /repo commit f149051: the model uses
   Bip39.new_seed (PBKDF2 over the re-joined words), so C04_restore_same needs no [canonical]
   hypothesis — it quantifies over every string with the same words. *)
From Coq Require Import List ZArith Bool.
Import ListNotations.
Require Import MW.Codec.Bip32 MW.Codec.Bip32Proofs MW.Keys.Derive MW.Keys.DeriveProofs.
Require MW.Codec.Bip39 MW.Codec.Bip39Proofs.
Require Import MW.Keys.Unlock MW.Keys.UnlockProofs.
Open Scope Z_scope.

Section C04.
  Variable hmac512 : bytes -> bytes -> bytes.
  Variable point : Type.
  Variable smulG : Z -> point.
  Variable padd : point -> point -> point.
  Variable ser_P : point -> bytes.
  Variable parse_pub : bytes -> option point.
  Variable coord_zero : point -> bool.
  Variable is_inf : point -> bool.
  Variable hash160 : bytes -> bytes.
  Variable dsha256 : bytes -> bytes.
  Variable b58enc : bytes -> bytes.
  Variable b58dec : bytes -> bytes.
  Variable sha256 : bytes -> bytes.
  Hypothesis laws : prim_laws hmac512 smulG padd ser_P parse_pub coord_zero is_inf hash160 dsha256 b58enc b58dec.
  Variable H : bytes -> bytes.
  Variable PBKDF2 : bytes -> bytes -> Z -> Z -> bytes.
  Hypothesis Hwf : Bip39.hash_wf H.
  Variable kdf : bytes -> bytes -> bytes.
  Variable seal : bytes -> bytes -> bytes -> bytes.
  Variable open_box : bytes -> bytes -> option bytes.
  Hypothesis box : box_laws seal open_box.

  Local Notation child := (child hmac512 point smulG padd ser_P parse_pub coord_zero hash160).
  Local Notation neuter := (neuter point smulG ser_P).
  Local Notation wf_key := (wf_key point parse_pub).
  Local Notation pub_route_issue := (pub_route_issue hmac512 point smulG padd ser_P parse_pub coord_zero hash160).
  Local Notation pub_route_import := (pub_route_import hmac512 point smulG padd ser_P parse_pub coord_zero hash160).
  Local Notation priv_route_sign := (priv_route_sign hmac512 point smulG padd ser_P parse_pub coord_zero hash160).
  Local Notation pub_of_sign_key := (pub_of_sign_key hmac512 point smulG padd ser_P parse_pub coord_zero hash160).

  (* restoring the mnemonic — any string with the same words, however spaced — gives the entropy
     and the seed of the created wallet; id and every address are functions of the seed
     ([wallet_id], [wallet_addr]), hence identical at every index *)
  Theorem C04_restore_same : forall e p m sd,
    Bip39.legal_len e -> Bip39.bytes_ok e ->
    create_seed H PBKDF2 e p = Bip39.Ok (m, sd) ->
    forall m', Bip39.fields m' = Bip39.fields m ->
      import_mnemonic_seed H PBKDF2 m' p = Bip39.Ok (e, sd).
  Proof. exact (restore_same H PBKDF2 Hwf). Qed.

  (* importing an exported keystore with the passphrase recovers the same entropy and seed; with
     a passphrase whose scrypt key differs, or one that ends with a zero byte, nothing is recovered; the external counter becomes
     max(1, exported) *)
  Theorem C04_export_import : forall p salt cke n1 n2 e ex inn m sd,
    ends_nul p = false ->
    create_seed H PBKDF2 e p = Bip39.Ok (m, sd) ->
    import_keystore_seed H PBKDF2 kdf open_box (persist_entropy kdf seal p salt cke n1 n2 e ex inn) p
      = Some (Bip39.Ok (e, sd)) /\
    (forall p', kdf p' salt <> kdf p salt ->
       import_keystore_seed H PBKDF2 kdf open_box (persist_entropy kdf seal p salt cke n1 n2 e ex inn) p' = None) /\
    (forall p', ends_nul p' = true ->
       import_keystore_seed H PBKDF2 kdf open_box (persist_entropy kdf seal p salt cke n1 n2 e ex inn) p' = None) /\
    (0 <= ex -> import_ex_counter (persist_entropy kdf seal p salt cke n1 n2 e ex inn) = Z.max 1 ex).
  Proof.
    exact (fun p salt cke n1 n2 e ex inn m sd Nn C =>
             conj (export_import_seed H PBKDF2 kdf seal open_box box p salt cke n1 n2 e ex inn m sd Nn C)
            (conj (fun p' N => import_wrong_pass H PBKDF2 kdf seal open_box box p p' salt cke n1 n2 e ex inn N)
            (conj (fun p' N => import_nul_refused H PBKDF2 kdf open_box (persist_entropy kdf seal p salt cke n1 n2 e ex inn) p' N)
                  (import_counter (persist_entropy kdf seal p salt cke n1 n2 e ex inn))))).
  Qed.

  (* "any fresh instance": the export of an IMPORTED keystore (which persists the recovered entropy
     under fresh keys) imports, in a further instance, to the same entropy and seed again *)
  Theorem C04_export_import_two_hops : forall p salt cke n1 n2 e ex inn m sd cke' n1' n2',
    ends_nul p = false ->
    create_seed H PBKDF2 e p = Bip39.Ok (m, sd) ->
    exists j', reimport H PBKDF2 kdf seal open_box (persist_entropy kdf seal p salt cke n1 n2 e ex inn) p cke' n1' n2' = Some j' /\
               import_keystore_seed H PBKDF2 kdf open_box j' p = Some (Bip39.Ok (e, sd)).
  Proof. exact (two_hop H PBKDF2 kdf seal open_box box). Qed.

  (* restart and public-passphrase change: a stored public key row gives back the script hash it
     was issued with, and re-keying cryptoKeyPub's protection leaves cryptoKeyPub unchanged *)
  Theorem C04_reload :
    (forall ck n P, is_inf P = false ->
       load_pub_row point ser_P parse_pub sha256 open_box ck (pub_row seal ck n (ser_P P)) =
       Some (script_hash_of_pub sha256 (ser_P P))) /\
    (forall oldp newp salt salt' n n' ck row',
       change_pub_row kdf seal open_box oldp newp salt salt' n' (cpub_row kdf seal oldp salt n ck) = Some row' ->
       load_ckpub kdf open_box newp salt' row' = Some ck).
  Proof.
    exact (conj (reload_pub_row hmac512 point smulG padd ser_P parse_pub coord_zero is_inf hash160 dsha256 b58enc b58dec sha256 laws seal open_box box)
                (change_pub_keeps kdf seal open_box box)).
  Qed.

  (* the three derivation routes of one address agree ... *)
  Theorem C04_routes_agree : forall acct ap b i kb,
    wf_key acct -> ek_priv acct = true -> neuter acct = Ok ap ->
    b < hardened_start -> i < hardened_start ->
    child acct b = Ok kb -> wf_key kb ->
    pub_route_issue ap b i = pub_route_import acct b i /\
    pub_route_import acct b i = pub_of_sign_key acct b i.
  Proof. exact (routes_agree hmac512 point smulG padd ser_P parse_pub coord_zero is_inf hash160 dsha256 b58enc b58dec laws). Qed.

  (* ... hence the private key derived at signing time is the key whose public key the address
     commits to, whether the address was issued from public material (locked) or on import *)
  Theorem C04_priv_matches_pub : forall acct ap b i kb k,
    wf_key acct -> ek_priv acct = true -> neuter acct = Ok ap ->
    b < hardened_start -> i < hardened_start ->
    child acct b = Ok kb -> wf_key kb -> child kb i = Ok k -> wf_key k ->
    priv_route_sign acct b i = Ok k /\
    pub_route_issue ap b i = Ok (ser_P (smulG (be2z (ek_key k)))) /\
    pub_route_import acct b i = Ok (ser_P (smulG (be2z (ek_key k)))).
  Proof. exact (priv_matches_pub hmac512 point smulG padd ser_P parse_pub coord_zero is_inf hash160 dsha256 b58enc b58dec laws). Qed.
End C04.

(* the key the keystore signs with: in every reachable state of the unlock machine, SignHash with
   the right passphrase returns the signature made with the key [sk_of a] derived from the account
   key for the address's (branch, index) ([derive_known] of unlock_laws) *)
Section C04Sign.
  Variable kdf : bytes -> bytes -> bytes.
  Variable digest : bytes -> bytes.
  Variable shash : bytes -> bytes.
  Variable open_box : bytes -> bytes -> option bytes.
  Variable sk : Type.
  Variable sig : Type.
  Variable branch_ok : bytes -> bool.
  Variable derive_sk : bytes -> Z -> Z -> option sk.
  Variable sign : sk -> bytes -> sig.
  Variable zfix : bool.
  Variable sfix : bool.
  Variable nfix : bool.
  Variable cfg : amcfg.
  Variable right : bytes.
  Variable acct : bytes.
  Variable ent : bytes.
  Variable sk_of : addr -> sk.
  Hypothesis ulaws : unlock_laws kdf digest shash open_box sk branch_ok derive_sk cfg right acct ent sk_of.
  Hypothesis Sfix : sfix = true.
  Hypothesis Nfix : nfix = true.

  Theorem C04_sign_uses_address_key : forall st a h,
    reachable kdf digest shash open_box sk sig branch_ok derive_sk sign zfix sfix nfix cfg st ->
    known cfg a = true -> length h = 32%nat ->
    derive_sk acct (fst a) (snd a) = Some (sk_of a) /\
    exists st' u, step kdf digest shash open_box sk sig branch_ok derive_sk sign zfix sfix nfix cfg st (OSign right a h)
                  = (OutSig (sign (sk_of a) h), st', u) /\ s_unlocked st' = true.
  Proof.
    exact (fun st a h R K L =>
             conj (derive_known kdf digest shash open_box sk branch_ok derive_sk cfg right acct ent sk_of ulaws a K)
                  (sign_right_reachable kdf digest shash open_box sk sig branch_ok derive_sk sign zfix sfix nfix cfg right acct ent sk_of ulaws Sfix Nfix st a h R K L)).
  Qed.
End C04Sign.

Print Assumptions C04_restore_same.
Print Assumptions C04_export_import.
Print Assumptions C04_export_import_two_hops.
Print Assumptions C04_reload.
Print Assumptions C04_routes_agree.
Print Assumptions C04_priv_matches_pub.
Print Assumptions C04_sign_uses_address_key.

(* non-vacuity: the hypotheses on the primitives are satisfiable (the toy instance of C14), and
   the redeem script is the 37-byte 1-of-1 script *)
Example C04_laws_consistent :
  prim_laws Toy.hmac_copy Toy.smulG Toy.padd Toy.ser_P Toy.parse_pub Toy.coord_zero Toy.is_inf
            Toy.hash160 Toy.dsha256 Toy.b58 Toy.b58.
Proof. exact Toy.laws_copy. Qed.
Example C04_redeem_len : length (redeem_script (repeat 2 33)) = 37%nat.
Proof. reflexivity. Qed.
