(* Property C08 — removing a wallet erases it completely and leaves every other wallet intact.
   Only statements here; proofs are in Ledger/RemoveProofs.v.
   Model: Ledger/Import.v (multi-wallet layer: status, keystore table, block records, Rollback driven
   by the block records) and Ledger/Remove.v (RemoveWallet, asyncRemove phase 1 / phase 2 rounds,
   removableTxForRemoveWallet, block-record repair, DeleteKeystore; histories [xrun]).
   [fixes] selects the code as found ([as_found]) or as repaired in /repo ([repaired]). *)
From Coq Require Import List ZArith NArith Bool.
Import ListNotations.
Open Scope Z_scope.
Require Import MW.Ledger.Model MW.Ledger.Spec MW.Ledger.Run MW.Ledger.Import MW.Ledger.Remove.
Require Import MW.Ledger.RemoveProofs.

(* ------------------------------------------------------------------ witnesses (code as found) *)

Definition p0 : params := {| p_cbmat := 4; p_bindlock := 4294967294 |}.
Definition g0 : block := {| b_id := 0; b_prev := 0; b_height := 0; b_txs := [] |}.
Definition cb (id : N) (outs : list txout) : tx := {| t_id := id; t_cb := true; t_ins := []; t_outs := outs |}.
Definition pay (sh : N) (v : Z) : txout := {| o_sh := sh; o_val := v; o_class := CStd |}.

(* wallet 1 owns script hash 1, wallet 2 owns script hash 2; 9 is a stranger *)
Definition setup : list xevent := [XNewWallet 1 11; XNewWallet 2 22; XNewAddr 1 1; XNewAddr 2 2].
Definition new_branch : list xevent :=
  let b2' := {| b_id := 3; b_prev := 1; b_height := 2; b_txs := [cb 4 []] |} in
  let b3' := {| b_id := 4; b_prev := 3; b_height := 3; b_txs := [cb 5 []] |} in
  [XDetach; XAttach b2'; XAttach b3'; XProcess b3'].

(* C2: block 1 pays wallet 1; in block 2 transaction 3 spends that coin and pays ONLY wallet 2;
   wallet 2 is removed (transaction 3 is "removable": its record leaves the block record); block 2
   is reorganised away: wallet 1's coin stays marked spent although the best chain does not spend it *)
Definition hist_frame : list xevent :=
  let b1 := {| b_id := 1; b_prev := 0; b_height := 1; b_txs := [cb 1 [pay 1 500]] |} in
  let b2 := {| b_id := 2; b_prev := 1; b_height := 2;
               b_txs := [cb 2 []; {| t_id := 3; t_cb := false; t_ins := [(1, 0)%N]; t_outs := [pay 2 500] |}] |} in
  setup ++ [XAttach b1; XProcess b1; XAttach b2; XProcess b2; XRemoveReq 2 22; XPhase1 2; XRound 2] ++ new_branch.

Theorem C08_frame_later_refuted :
  let s := xrun as_found p0 1000 20000 [g0] hist_frame in
  listed (xs_st s) 2 = false /\
  r_total (xreport (xs_st s) 1) = 0 /\
  r_total (spec_report p0 (key_owner (xs_st s)) (xs_node s) 1) = 500.
Proof. vm_compute. repeat split; reflexivity. Qed.
Print Assumptions C08_frame_later_refuted.

Example C08_frame_later_repaired_on_witness :
  let s := xrun repaired p0 1000 20000 [g0] hist_frame in
  xreport (xs_st s) 1 = spec_report p0 (key_owner (xs_st s)) (xs_node s) 1.
Proof. vm_compute. reflexivity. Qed.

(* C3, first half: block 1 pays wallet 2; transaction 3 in block 2 spends that coin; wallet 2's
   removal has done phase 1 (balance row gone, keystore still there); block 2 is reorganised away:
   Rollback un-spends the coin and dereferences the missing balance entry — the handler dies *)
Definition hist_panic : list xevent :=
  let b1 := {| b_id := 1; b_prev := 0; b_height := 1; b_txs := [cb 1 [pay 2 700]] |} in
  let b2 := {| b_id := 2; b_prev := 1; b_height := 2;
               b_txs := [cb 2 []; {| t_id := 3; t_cb := false; t_ins := [(1, 0)%N]; t_outs := [pay 9 700] |}] |} in
  setup ++ [XAttach b1; XProcess b1; XAttach b2; XProcess b2; XRemoveReq 2 22; XPhase1 2] ++ new_branch.

Theorem C08_reorg_during_removal_panics_refuted :
  xs_crashed (xrun as_found p0 1000 20000 [g0] hist_panic) = true.
Proof. vm_compute. reflexivity. Qed.
Print Assumptions C08_reorg_during_removal_panics_refuted.

Example C08_no_panic_repaired_on_witness :
  let s := xrun repaired p0 1000 20000 [g0] (hist_panic ++ [XRound 2]) in
  xs_crashed s = false /\ mentions (xs_st s) 2 [2%N] = false /\
  xreport (xs_st s) 1 = spec_report p0 (key_owner (xs_st s)) (xs_node s) 1.
Proof. vm_compute. repeat split; reflexivity. Qed.

(* C3, second half: transaction 3 pays a staking deposit to wallet 2; the reorg between phase 1 and
   phase 2 re-creates a pending staking row keyed by wallet 2 that no later step deletes *)
Definition hist_residue : list xevent :=
  let b1 := {| b_id := 1; b_prev := 0; b_height := 1; b_txs := [cb 1 [pay 1 500]] |} in
  let b2 := {| b_id := 2; b_prev := 1; b_height := 2;
               b_txs := [cb 2 []; {| t_id := 3; t_cb := false; t_ins := [(1, 0)%N];
                                     t_outs := [{| o_sh := 2; o_val := 500; o_class := CStaking 3 |}] |}] |} in
  setup ++ [XAttach b1; XProcess b1; XAttach b2; XProcess b2; XRemoveReq 2 22; XPhase1 2] ++ new_branch ++ [XRound 2].

Theorem C08_residue_under_reorg_refuted :
  let s := xrun as_found p0 1000 20000 [g0] hist_residue in
  listed (xs_st s) 2 = false /\ mentions (xs_st s) 2 [2%N] = true /\ x_ugame (xs_st s) = [(2, 3, 0)%N].
Proof. vm_compute. repeat split; reflexivity. Qed.
Print Assumptions C08_residue_under_reorg_refuted.

Example C08_no_residue_repaired_on_witness :
  let s := xrun repaired p0 1000 20000 [g0] hist_residue in
  listed (xs_st s) 2 = false /\ mentions (xs_st s) 2 [2%N] = false.
Proof. vm_compute. repeat split; reflexivity. Qed.

(* ------------------------------------------------------------------ theorems (every state, every input) *)

(* [credits_keyed st]    : every credit belongs to the wallet the keystore names for its script hash
   [keys_functional st]  : a script hash has one owner in the keystore table
   [no_residue st w]     : w has no balance row and no pending game row (what phase 1 establishes) *)

(* T1: when the last round reports "finished", nothing in the store mentions the wallet or any of its
   script hashes (credits, balance row, pending game rows, status, passphrase/keystore, key table)
   and it is no longer listed.  Any cap, any repair switch. *)
Theorem C08_erased : forall fx cap n lookup st w st',
  credits_keyed st -> keys_functional st -> no_residue st w ->
  remove_round fx cap n lookup st w = (st', true) ->
  mentions st' w (sh_of_wallet st w) = false /\ listed st' w = false.
Proof. exact remove_erases. Qed.
Print Assumptions C08_erased.

(* T2: phase 1 establishes [no_residue]; on the repaired code block processing (connects and
   reorganisations of any depth) keeps it and never panics — so T1's premise holds at the last round
   whatever happens between the steps *)
Theorem C08_phase1_clears : forall st w,
  status_of st w = Some WRemoving -> is_some (lookupN (x_pass st) w) = true ->
  no_residue (remove_phase1 st w) w /\ memN w (x_p1 (remove_phase1 st w)) = true.
Proof. exact remove_phase1_no_residue. Qed.
Print Assumptions C08_phase1_clears.

Theorem C08_no_residue_under_reorg : forall fx p n st b,
  f_rollback fx = true ->
  xprocess fx p n st b <> XPanic /\
  (forall st' w, xprocess fx p n st b = XOk st' -> no_residue st w -> no_residue st' w).
Proof. exact xprocess_repaired_safe. Qed.
Print Assumptions C08_no_residue_under_reorg.

(* T3: every removal step leaves every other wallet's credits (hence its report: balances, coins,
   staking/binding rows), status, passphrase and addresses untouched *)
Theorem C08_frame : forall fx cap n lookup st w st' fin v,
  credits_keyed st -> keys_functional st -> v <> w ->
  remove_round fx cap n lookup st w = (st', fin) ->
  proj v (credits (x_w st')) = proj v (credits (x_w st)) /\ synced (x_w st') = synced (x_w st) /\
  status_of st' v = status_of st v /\ lookupN (x_pass st') v = lookupN (x_pass st) v /\
  sh_of_wallet st' v = sh_of_wallet st v.
Proof. exact remove_round_frames_others. Qed.
Print Assumptions C08_frame.

Theorem C08_frame_report : forall st1 st2 v,
  proj v (credits st1) = proj v (credits st2) -> synced st1 = synced st2 ->
  model_report st1 v = model_report st2 v.
Proof. exact report_depends_on_proj. Qed.
Print Assumptions C08_frame_report.

Theorem C08_frame_phase1 : forall st w,
  x_w (remove_phase1 st w) = x_w st /\ x_status (remove_phase1 st w) = x_status st /\
  x_keys (remove_phase1 st w) = x_keys st /\ x_pass (remove_phase1 st w) = x_pass st /\
  x_brecs (remove_phase1 st w) = x_brecs st.
Proof. exact remove_phase1_frames_others. Qed.
Print Assumptions C08_frame_phase1.

(* T4: once nothing mentions the wallet, the same mnemonic (same wallet id, any discovered
   addresses) can be imported again *)
Theorem C08_reimport_ok : forall st w shs0 pass shs,
  mentions st w shs0 = false -> exists st', import_start st w pass shs = Some st'.
Proof. exact reimport_after_removal. Qed.
Print Assumptions C08_reimport_ok.

(* T5: a wrong passphrase changes nothing; T6: a wallet that is importing cannot be removed *)
Theorem C08_needs_pass : forall st w pass pw,
  lookupN (x_pass st) w = Some pw -> pw <> pass -> remove_request st w pass = (st, RBadPass).
Proof. exact remove_needs_pass. Qed.
Print Assumptions C08_needs_pass.

Theorem C08_refused_while_importing : forall st w pass k,
  status_of st w = Some (WImporting k) ->
  fst (remove_request st w pass) = st /\ snd (remove_request st w pass) <> ROk.
Proof. exact remove_refused_while_importing. Qed.
Print Assumptions C08_refused_while_importing.
