(* Property C08 — removing a wallet erases it completely and leaves every other wallet intact.
   Only statements here; proofs are in Ledger/RemoveProofs.v (the removal steps) and
   Ledger/RemoveProofs2.v … RemoveProofs9.v (histories: C08_survivors_correct_after,
   C08_survivors_correct_quiescent, C08_removed_stays_removed at the end of this file).
   Model: Ledger/Import.v (multi-wallet layer: status, keystore table, block records, Rollback driven
   by the block records) and Ledger/Remove.v (RemoveWallet, asyncRemove phase 1 / phase 2 rounds,
   removableTxForRemoveWallet, block-record repair, DeleteKeystore; histories [xrun]).
   [fixes] selects the code as found ([as_found]) or as repaired in /repo ([repaired]). *)
From Coq Require Import List ZArith NArith Bool.
Import ListNotations.
Open Scope Z_scope.
Require Import MW.Ledger.Model MW.Ledger.Spec MW.Ledger.Run MW.Ledger.WF MW.Ledger.Import MW.Ledger.Remove.
Require Import MW.Ledger.Proofs5 MW.Ledger.RemoveProofs.
Require Import MW.Ledger.RemoveProofs6 MW.Ledger.RemoveProofs7 MW.Ledger.RemoveProofs8 MW.Ledger.RemoveProofs9.

(* ------------------------------------------------------------------ witnesses (code as found) *)

Definition p0 : params := {| p_cbmat := 4; p_bindlock := 4294967294 |}.
Definition g0 : block := {| b_id := 0; b_prev := 0; b_height := 0; b_txs := [] |}.
Definition cb (id : N) (outs : list txout) : tx := {| t_id := id; t_cb := true; t_ins := []; t_outs := outs |}.
Definition pay (sh : N) (v : Z) : txout := {| o_sh := sh; o_val := v; o_class := CStd |}.

(* wallet 1 owns script hash 1, wallet 2 owns script hash 2; 9 is a stranger *)
Definition setup : list xevent := [XNewWallet 1 11; XNewWallet 2 22; XNewAddr 1 1; XNewAddr 2 2].
Definition new_branch : list xevent :=
  let b2' := {| b_id := 3; b_prev := 1; b_height := 2; b_txs := [cb 4 []] |} in
  let b3' := {| b_id := 4; b_prev := 3; b_height := 3; b_txs := [cb 5 []] |} in
  [XDetach; XAttach b2'; XAttach b3'; XProcess b3'].

(* (the general statement for the repaired code is C08_survivors_correct_after below; this witness
   shows the code as found violated it)
   C2: block 1 pays wallet 1; in block 2 transaction 3 spends that coin and pays ONLY wallet 2;
   wallet 2 is removed (transaction 3 is "removable": its record leaves the block record); block 2
   is reorganised away: wallet 1's coin stays marked spent although the best chain does not spend it *)
Definition hist_frame : list xevent :=
  let b1 := {| b_id := 1; b_prev := 0; b_height := 1; b_txs := [cb 1 [pay 1 500]] |} in
  let b2 := {| b_id := 2; b_prev := 1; b_height := 2;
               b_txs := [cb 2 []; {| t_id := 3; t_cb := false; t_ins := [(1, 0)%N]; t_outs := [pay 2 500] |}] |} in
  setup ++ [XAttach b1; XProcess b1; XAttach b2; XProcess b2; XRemoveReq 2 22; XPhase1 2; XRound 2] ++ new_branch.

Theorem C08_frame_later_refuted :
  let s := xrun as_found p0 1000 20000 [g0] hist_frame in
  listed (xs_st s) 2 = false /\
  r_total (xreport (xs_st s) 1) = 0 /\
  r_total (spec_report p0 (key_owner (xs_st s)) (xs_node s) 1) = 500.
Proof. vm_compute. repeat split; reflexivity. Qed.
Print Assumptions C08_frame_later_refuted.

Example C08_frame_later_repaired_on_witness :
  let s := xrun repaired p0 1000 20000 [g0] hist_frame in
  xreport (xs_st s) 1 = spec_report p0 (key_owner (xs_st s)) (xs_node s) 1.
Proof. vm_compute. reflexivity. Qed.

(* C3, first half: block 1 pays wallet 2; transaction 3 in block 2 spends that coin; wallet 2's
   removal has done phase 1 (balance row gone, keystore still there); block 2 is reorganised away:
   Rollback un-spends the coin and dereferences the missing balance entry — the handler dies *)
Definition hist_panic : list xevent :=
  let b1 := {| b_id := 1; b_prev := 0; b_height := 1; b_txs := [cb 1 [pay 2 700]] |} in
  let b2 := {| b_id := 2; b_prev := 1; b_height := 2;
               b_txs := [cb 2 []; {| t_id := 3; t_cb := false; t_ins := [(1, 0)%N]; t_outs := [pay 9 700] |}] |} in
  setup ++ [XAttach b1; XProcess b1; XAttach b2; XProcess b2; XRemoveReq 2 22; XPhase1 2] ++ new_branch.

Theorem C08_reorg_during_removal_panics_refuted :
  xs_crashed (xrun as_found p0 1000 20000 [g0] hist_panic) = true.
Proof. vm_compute. reflexivity. Qed.
Print Assumptions C08_reorg_during_removal_panics_refuted.

Example C08_no_panic_repaired_on_witness :
  let s := xrun repaired p0 1000 20000 [g0] (hist_panic ++ [XRound 2]) in
  xs_crashed s = false /\ mentions (xs_st s) 2 [2%N] = false /\
  xreport (xs_st s) 1 = spec_report p0 (key_owner (xs_st s)) (xs_node s) 1.
Proof. vm_compute. repeat split; reflexivity. Qed.

(* C3, second half: transaction 3 pays a staking deposit to wallet 2; the reorg between phase 1 and
   phase 2 re-creates a pending staking row keyed by wallet 2 that no later step deletes *)
Definition hist_residue : list xevent :=
  let b1 := {| b_id := 1; b_prev := 0; b_height := 1; b_txs := [cb 1 [pay 1 500]] |} in
  let b2 := {| b_id := 2; b_prev := 1; b_height := 2;
               b_txs := [cb 2 []; {| t_id := 3; t_cb := false; t_ins := [(1, 0)%N];
                                     t_outs := [{| o_sh := 2; o_val := 500; o_class := CStaking 3 |}] |}] |} in
  setup ++ [XAttach b1; XProcess b1; XAttach b2; XProcess b2; XRemoveReq 2 22; XPhase1 2] ++ new_branch ++ [XRound 2].

Theorem C08_residue_under_reorg_refuted :
  let s := xrun as_found p0 1000 20000 [g0] hist_residue in
  listed (xs_st s) 2 = false /\ mentions (xs_st s) 2 [2%N] = true /\ x_ugame (xs_st s) = [(2, 3, 0)%N].
Proof. vm_compute. repeat split; reflexivity. Qed.
Print Assumptions C08_residue_under_reorg_refuted.

Example C08_no_residue_repaired_on_witness :
  let s := xrun repaired p0 1000 20000 [g0] hist_residue in
  listed (xs_st s) 2 = false /\ mentions (xs_st s) 2 [2%N] = false.
Proof. vm_compute. repeat split; reflexivity. Qed.

(* ------------------------------------------------------------------ theorems (every state, every input) *)

(* [credits_keyed st]    : every credit belongs to the wallet the keystore names for its script hash
   [keys_functional st]  : a script hash has one owner in the keystore table
   [no_residue st w]     : w has no balance row and no pending game row (what phase 1 establishes) *)

(* T1: when the last round reports "finished", nothing in the store mentions the wallet or any of its
   script hashes (credits, balance row, pending game rows, status, passphrase/keystore, key table)
   and it is no longer listed.  Any cap, any repair switch. *)
Theorem C08_erased : forall fx cap n lookup st w st',
  credits_keyed st -> keys_functional st -> no_residue st w ->
  remove_round fx cap n lookup st w = (st', true) ->
  mentions st' w (sh_of_wallet st w) = false /\ listed st' w = false.
Proof. exact remove_erases. Qed.
Print Assumptions C08_erased.

(* T2: phase 1 establishes [no_residue]; on the repaired code block processing (connects and
   reorganisations of any depth) keeps it and never panics — so T1's premise holds at the last round
   whatever happens between the steps *)
Theorem C08_phase1_clears : forall st w,
  status_of st w = Some WRemoving -> is_some (lookupN (x_pass st) w) = true ->
  no_residue (remove_phase1 st w) w /\ memN w (x_p1 (remove_phase1 st w)) = true.
Proof. exact remove_phase1_no_residue. Qed.
Print Assumptions C08_phase1_clears.

Theorem C08_no_residue_under_reorg : forall fx p n st b,
  f_rollback fx = true ->
  xprocess fx p n st b <> XPanic /\
  (forall st' w, xprocess fx p n st b = XOk st' -> no_residue st w -> no_residue st' w).
Proof. exact xprocess_repaired_safe. Qed.
Print Assumptions C08_no_residue_under_reorg.

(* T3: every removal step leaves every other wallet's credits (hence its report: balances, coins,
   staking/binding rows), status, passphrase and addresses untouched *)
Theorem C08_frame : forall fx cap n lookup st w st' fin v,
  credits_keyed st -> keys_functional st -> v <> w ->
  remove_round fx cap n lookup st w = (st', fin) ->
  proj v (credits (x_w st')) = proj v (credits (x_w st)) /\ synced (x_w st') = synced (x_w st) /\
  status_of st' v = status_of st v /\ lookupN (x_pass st') v = lookupN (x_pass st) v /\
  sh_of_wallet st' v = sh_of_wallet st v.
Proof. exact remove_round_frames_others. Qed.
Print Assumptions C08_frame.

Theorem C08_frame_report : forall st1 st2 v,
  proj v (credits st1) = proj v (credits st2) -> synced st1 = synced st2 ->
  model_report st1 v = model_report st2 v.
Proof. exact report_depends_on_proj. Qed.
Print Assumptions C08_frame_report.

Theorem C08_frame_phase1 : forall st w,
  x_w (remove_phase1 st w) = x_w st /\ x_status (remove_phase1 st w) = x_status st /\
  x_keys (remove_phase1 st w) = x_keys st /\ x_pass (remove_phase1 st w) = x_pass st /\
  x_brecs (remove_phase1 st w) = x_brecs st.
Proof. exact remove_phase1_frames_others. Qed.
Print Assumptions C08_frame_phase1.

(* T4: once nothing mentions the wallet, the same mnemonic (same wallet id, any discovered
   addresses) can be imported again *)
Theorem C08_reimport_ok : forall st w shs0 pass shs,
  mentions st w shs0 = false -> exists st', import_start st w pass shs = Some st'.
Proof. exact reimport_after_removal. Qed.
Print Assumptions C08_reimport_ok.

(* T5: a wrong passphrase changes nothing; T6: a wallet that is importing cannot be removed *)
Theorem C08_needs_pass : forall st w pass pw,
  lookupN (x_pass st) w = Some pw -> pw <> pass -> remove_request st w pass = (st, RBadPass).
Proof. exact remove_needs_pass. Qed.
Print Assumptions C08_needs_pass.

Theorem C08_refused_while_importing : forall st w pass k,
  status_of st w = Some (WImporting k) ->
  fst (remove_request st w pass) = st /\ snd (remove_request st w pass) <> ROk.
Proof. exact remove_refused_while_importing. Qed.
Print Assumptions C08_refused_while_importing.

(* ------------------------------------------------------------------ histories (repaired code) *)

(* The surviving wallets stay CORRECT after the removal, whatever the chain does afterwards.

   The first repair of removableTxForRemoveWallet ([f_removable]) kept a transaction that spends a coin of
   another managed wallet, but found the coin's owner by looking the previous transaction up on the
   node's CURRENT best chain (FetchTxBySha).  A removal round that ran while the node had reorganised
   away from the block that created a survivor's coin (announcement still queued) did not find that
   transaction, took the spender for removable and dropped its tx record.  That is harmless if the
   handler then follows the node (the coin's block is rolled back anyway), but if the node reorganises
   BACK onto the coin's block before the handler has processed anything, the later Rollback of the
   spender's block no longer un-spends the survivor's coin.  With that code the theorems below needed
   the environment assumption "a block the node has disconnected is never connected again"
   ([wf_xhistory]; they are kept as C08_…_no_reattach).  The second repair ([f_removable_debit]: the
   owner is read from the credit row the store itself holds for the spent output) makes a removal
   round independent of the node's chain, and the assumption is gone ([wf_xhistory2]).

   Witness (the code before the second repair): block 1 pays wallet 1; block 2's transaction 3 spends
   that coin and pays only wallet 2; wallet 2's removal starts; the node disconnects blocks 2 and 1 and
   connects 1'; a removal round runs (the last one); the node disconnects 1', connects block 1 AGAIN and
   2'' on top of it; the handler then processes the queued announcements 1' (refused: not on the node
   any more), 1 (rolls block 2 back) and 2''.  It is on the node's tip, the node's chain is well formed
   after every event, and wallet 1 reports 0 while the chain pays it 500 unspent.  The history meets
   every clause of [wf_xhistory] except that block 1 is connected twice (its 16th event); it is a
   [wf_xhistory2] history. *)
Definition before_debit_repair : fixes :=
  {| f_removable := true; f_rollback := true; f_import_retry := true; f_start_reorg := true; f_rollback_order := true;
     f_import_tipcheck := true; f_removable_debit := false; f_ff_check := true; f_keystore_undo := true |}.
Definition r1 := {| b_id := 1; b_prev := 0; b_height := 1; b_txs := [cb 1 [pay 1 500]] |}.
Definition r2 := {| b_id := 2; b_prev := 1; b_height := 2;
                    b_txs := [cb 2 []; {| t_id := 3; t_cb := false; t_ins := [(1, 0)%N]; t_outs := [pay 2 500] |}] |}.
Definition r1' := {| b_id := 11; b_prev := 0; b_height := 1; b_txs := [cb 11 []] |}.
Definition r2'' := {| b_id := 22; b_prev := 1; b_height := 2; b_txs := [cb 22 []] |}.
Definition hist_reattach_pre : list xevent :=
  setup ++ [XAttach r1; XProcess r1; XAttach r2; XProcess r2; XRemoveReq 2 22; XPhase1 2;
            XDetach; XDetach; XAttach r1'; XRound 2;
            XDetach; XAttach r1; XAttach r2''; XProcess r1'; XProcess r1].
Definition hist_reattach : list xevent := hist_reattach_pre ++ [XProcess r2''].

Theorem C08_survivors_after_reattach_refuted :
  let s := xrun before_debit_repair p0 1000 20000 [g0] hist_reattach in
  forallb (fun s' => wf_chain_b (xs_node s')) (xsims before_debit_repair p0 1000 20000 (xinit_sim [g0]) hist_reattach) = true /\
  xfresh_b g0 [] [] (firstn 15 hist_reattach) = true /\ nth_error hist_reattach 15 = Some (XAttach r1) /\
  wf_xhistory2_b before_debit_repair p0 1000 20000 g0 hist_reattach = true /\
  xs_crashed s = false /\ snd (tip (x_w (xs_st s))) = b_id (last (xs_node s) g0) /\
  listed (xs_st s) 2 = false /\ status_of (xs_st s) 1 = Some WReady /\
  r_total (xreport (xs_st s) 1) = 0 /\
  r_total (spec_report p0 (key_owner (xs_st s)) (xs_node s) 1) = 500.
Proof. vm_compute. repeat split; reflexivity. Qed.
Print Assumptions C08_survivors_after_reattach_refuted.

(* the same history on the repaired code: the hypotheses of C08_survivors_correct_after hold (it is not a
   [wf_xhistory] history: block 1 comes back), and so does its conclusion *)
Example C08_reattach_repaired_on_witness :
  wf_xhistory2 repaired p0 1000 20000 g0 (hist_reattach_pre ++ [XProcess r2'']) /\
  wf_xhistory_b repaired p0 1000 20000 g0 hist_reattach = false /\
  last (xs_node (xrun repaired p0 1000 20000 [g0] hist_reattach_pre)) g0 = r2'' /\
  let s := xrun repaired p0 1000 20000 [g0] hist_reattach in
  status_of (xs_st s) 1 = Some WReady /\ r_total (xreport (xs_st s) 1) = 500 /\
  xreport (xs_st s) 1 = spec_report p0 (key_owner (xs_st s)) (xs_node s) 1.
Proof. split; [apply wf_xhistory2_b_sound|]; vm_compute; repeat split; reflexivity. Qed.

(* [wf_xhistory2 fx p B cap g h] (Ledger/RemoveProofs9.v), environment assumptions only:
   - the node's best chain is well formed (C01's [wf_chain]) after every event;
   - a block the node connects is new (its id is not the id of another block nor the genesis' previous-hash
     field, a transaction id names one transaction among all blocks ever connected) or a block the node
     has connected before and disconnected since — blocks may come back any number of times;
   - a script hash is issued once, and before any connected block pays it (C01's assumption);
   - only blocks that have been connected are announced; no keystore import runs (C07's subject).
   Everything else is free: any number of wallets created at any time, any number of removals
   requested at any time (also several at once), every removal step (phase 1, each phase 2 round, ANY
   cap) scheduled anywhere between node events and announcements — in particular while the node has
   reorganised, away from a block or back onto it, and the handler has not been told yet —,
   announcements skipped, stale, repeated or refused, reorganisations of any depth (through blocks in
   which the removed wallet shared transactions with survivors, spent their coins or was paid by them),
   restarts at any point (volatile state lost, start-up catch-up).

   C08_survivors_correct_after: on the repaired code, after any such history, processing the
   announcement of the node's tip succeeds (the handler has not died, it is on the node's tip) and EVERY
   ready wallet's report — synced height, total, spendable / withdrawable sums, the list of unspent
   rows — is exactly what the node's best chain pays to its addresses and has not spent. *)
Theorem C08_survivors_correct_after : forall fx p B cap g h b,
  f_removable fx = true -> f_rollback fx = true -> f_rollback_order fx = true -> f_removable_debit fx = true ->
  wf_xhistory2 fx p B cap g (h ++ [XProcess b]) ->
  last (xs_node (xrun fx p B cap [g] h)) g = b ->
  let s := xrun fx p B cap [g] (h ++ [XProcess b]) in
  xs_crashed s = false /\ snd (tip (x_w (xs_st s))) = b_id b /\
  forall v, status_of (xs_st s) v = Some WReady ->
    xreport (xs_st s) v = spec_report p (key_owner (xs_st s)) (xs_node s) v.
Proof. exact survivors_correct_after2. Qed.
Print Assumptions C08_survivors_correct_after.

(* the same at EVERY quiescent point: after any well-formed history the handler is alive, and whenever
   its tip is the node's tip every ready wallet's report is the chain specification *)
Theorem C08_survivors_correct_quiescent : forall fx p B cap g h,
  f_removable fx = true -> f_rollback fx = true -> f_rollback_order fx = true -> f_removable_debit fx = true ->
  wf_xhistory2 fx p B cap g h ->
  let s := xrun fx p B cap [g] h in
  xs_crashed s = false /\
  (snd (tip (x_w (xs_st s))) = b_id (last (xs_node s) g) ->
   forall v, status_of (xs_st s) v = Some WReady ->
     xreport (xs_st s) v = spec_report p (key_owner (xs_st s)) (xs_node s) v).
Proof. exact survivors_correct_quiescent2. Qed.
Print Assumptions C08_survivors_correct_quiescent.

(* C08_removed_stays_removed: when the round that finishes the removal of w has run (w was listed
   before it and is not after it), no record of the store mentions w or one of the script hashes it
   had — then and after ANY further events [h2] (not even required to be well formed: blocks,
   reorganisations of any depth, restarts, other wallets' creations and removals), as long as wallet w
   is not created again and none of its script hashes is issued again
   ([not_recreating w shs e]: e is not CreateWallet w / NewAddress of w or of one of [shs] / an import
   of w or of one of [shs] / a rescan batch). *)
Theorem C08_removed_stays_removed : forall fx p B cap g h1 w h2,
  f_removable fx = true -> f_rollback fx = true -> f_rollback_order fx = true -> f_removable_debit fx = true ->
  wf_xhistory2 fx p B cap g (h1 ++ [XRound w]) ->
  let s1 := xrun fx p B cap [g] h1 in
  let shs := sh_of_wallet (xs_st s1) w in
  listed (xs_st s1) w = true ->
  listed (xs_st (xrun fx p B cap [g] (h1 ++ [XRound w]))) w = false ->
  (forall e, In e h2 -> not_recreating w shs e) ->
  let s := xrun fx p B cap [g] (h1 ++ XRound w :: h2) in
  mentions (xs_st s) w shs = false /\ listed (xs_st s) w = false.
Proof. exact removed_stays_removed2. Qed.
Print Assumptions C08_removed_stays_removed.

(* The statements as they stood before the second repair, for ANY value of [f_removable_debit] — in
   particular for the code before it: correct as long as no disconnected block is connected again
   ([wf_xhistory]: every connected block is new).  For the repaired code they are special cases of the
   three theorems above ([C08_wf_xhistory_weaker]). *)
Theorem C08_survivors_correct_after_no_reattach : forall fx p B cap g h b,
  f_removable fx = true -> f_rollback fx = true -> f_rollback_order fx = true ->
  wf_xhistory fx p B cap g (h ++ [XProcess b]) ->
  last (xs_node (xrun fx p B cap [g] h)) g = b ->
  let s := xrun fx p B cap [g] (h ++ [XProcess b]) in
  xs_crashed s = false /\ snd (tip (x_w (xs_st s))) = b_id b /\
  forall v, status_of (xs_st s) v = Some WReady ->
    xreport (xs_st s) v = spec_report p (key_owner (xs_st s)) (xs_node s) v.
Proof. exact survivors_correct_after. Qed.
Print Assumptions C08_survivors_correct_after_no_reattach.

Theorem C08_survivors_correct_quiescent_no_reattach : forall fx p B cap g h,
  f_removable fx = true -> f_rollback fx = true -> f_rollback_order fx = true ->
  wf_xhistory fx p B cap g h ->
  let s := xrun fx p B cap [g] h in
  xs_crashed s = false /\
  (snd (tip (x_w (xs_st s))) = b_id (last (xs_node s) g) ->
   forall v, status_of (xs_st s) v = Some WReady ->
     xreport (xs_st s) v = spec_report p (key_owner (xs_st s)) (xs_node s) v).
Proof. exact survivors_correct_quiescent. Qed.
Print Assumptions C08_survivors_correct_quiescent_no_reattach.

Theorem C08_removed_stays_removed_no_reattach : forall fx p B cap g h1 w h2,
  f_removable fx = true -> f_rollback fx = true -> f_rollback_order fx = true ->
  wf_xhistory fx p B cap g (h1 ++ [XRound w]) ->
  let s1 := xrun fx p B cap [g] h1 in
  let shs := sh_of_wallet (xs_st s1) w in
  listed (xs_st s1) w = true ->
  listed (xs_st (xrun fx p B cap [g] (h1 ++ [XRound w]))) w = false ->
  (forall e, In e h2 -> not_recreating w shs e) ->
  let s := xrun fx p B cap [g] (h1 ++ XRound w :: h2) in
  mentions (xs_st s) w shs = false /\ listed (xs_st s) w = false.
Proof. exact removed_stays_removed. Qed.
Print Assumptions C08_removed_stays_removed_no_reattach.

Theorem C08_wf_xhistory_weaker : forall fx p B cap g h, wf_xhistory fx p B cap g h -> wf_xhistory2 fx p B cap g h.
Proof. exact wf_xhistory_wf_xhistory2. Qed.
Print Assumptions C08_wf_xhistory_weaker.

Theorem C08_wf_xhistory2_check : forall fx p B cap g h, wf_xhistory2_b fx p B cap g h = true -> wf_xhistory2 fx p B cap g h.
Proof. exact wf_xhistory2_b_sound. Qed.
Print Assumptions C08_wf_xhistory2_check.

Theorem C08_wf_xhistory_check : forall fx p B cap g h, wf_xhistory_b fx p B cap g h = true -> wf_xhistory fx p B cap g h.
Proof. exact wf_xhistory_b_sound. Qed.
Print Assumptions C08_wf_xhistory_check.

Theorem C08_not_recreating_check : forall w shs h,
  forallb (not_recreating_b w shs) h = true -> forall e, In e h -> not_recreating w shs e.
Proof. exact not_recreating_all_b_sound. Qed.
Print Assumptions C08_not_recreating_check.

(* non-vacuity.  Wallets 1 and 2; block 101 pays both; transaction 3 (block 102) spends a coin of each
   and pays both; transaction 5 (block 103) spends wallet 2's new coin and pays wallet 1; wallet 2 is
   removed with cap 1 (one credit per round): a round; the node disconnects 103 and 102 — the block of
   the shared transaction 3 — and connects 112 (transaction 7 spends wallet 1's first coin again and
   pays both wallets); a round runs BEFORE the handler hears of the reorganisation; 113 is connected
   and announced (a 2-deep reorganisation of the ledger through the shared transaction, removal in
   progress); restart; phase 1 again; the last round.  Afterwards: another block, a 2-deep stale
   announcement, a new wallet 3 with an address, a restart, a block paying wallets 1 and 3. *)
Definition c101 := {| b_id := 101; b_prev := 0; b_height := 1; b_txs := [cb 1 [pay 1 500; pay 2 300]] |}.
Definition c102 := {| b_id := 102; b_prev := 101; b_height := 2;
   b_txs := [cb 2 []; {| t_id := 3; t_cb := false; t_ins := [(1, 0); (1, 1)]%N; t_outs := [pay 1 400; pay 2 400] |}] |}.
Definition c103 := {| b_id := 103; b_prev := 102; b_height := 3;
   b_txs := [cb 4 [pay 2 50]; {| t_id := 5; t_cb := false; t_ins := [(3, 1)%N]; t_outs := [pay 1 400] |}] |}.
Definition c112 := {| b_id := 112; b_prev := 101; b_height := 2;
   b_txs := [cb 6 []; {| t_id := 7; t_cb := false; t_ins := [(1, 0)%N]; t_outs := [pay 1 450; pay 2 50] |}] |}.
Definition c113 := {| b_id := 113; b_prev := 112; b_height := 3; b_txs := [cb 8 [pay 1 7]] |}.
Definition c114 := {| b_id := 114; b_prev := 113; b_height := 4; b_txs := [cb 9 []] |}.
Definition c123 := {| b_id := 123; b_prev := 112; b_height := 3; b_txs := [cb 10 [pay 1 9; pay 3 1]] |}.
Definition hist_pre : list xevent :=
  setup ++ [XAttach c101; XProcess c101; XAttach c102; XProcess c102; XAttach c103; XProcess c103;
            XRemoveReq 2 22; XPhase1 2; XRound 2;
            XDetach; XDetach; XAttach c112; XRound 2; XAttach c113; XProcess c113; XRestart; XPhase1 2].
Definition hist_later : list xevent :=
  [XAttach c114; XDetach; XDetach; XProcess c112; XNewWallet 3 33; XNewAddr 3 3; XRestart; XAttach c123].
Definition hist_all : list xevent := hist_pre ++ XRound 2 :: hist_later.

Example C08_history_wf :
  wf_xhistory2 repaired p0 1000 1 g0 (hist_all ++ [XProcess c123]) /\
  last (xs_node (xrun repaired p0 1000 1 [g0] hist_all)) g0 = c123.
Proof. split; [apply wf_xhistory_wf_xhistory2; apply wf_xhistory_b_sound|]; vm_compute; reflexivity. Qed.

(* what happened on the way: wallet 2's credits go one per round (6 credits in the store, 5, 4), the
   2-deep reorganisation through the shared transaction happens while wallet 2 is still listed, the
   last round unlists it; wallet 1 ends with 459 = 450 + 9 *)
Example C08_history_course :
  map (fun k => let s := xrun repaired p0 1000 1 [g0] (firstn k hist_all) in
                (listed (xs_st s) 2, length (credits (x_w (xs_st s))), fst (tip (x_w (xs_st s)))))
      [12; 13; 17; 19; 21; 22]%nat
  = [(true, 6%nat, 3); (true, 5%nat, 3); (true, 4%nat, 3); (true, 3%nat, 3); (true, 3%nat, 3); (false, 3%nat, 3)] /\
  r_total (xreport (xs_st (xrun repaired p0 1000 1 [g0] (hist_all ++ [XProcess c123]))) 1) = 459.
Proof. vm_compute. split; reflexivity. Qed.

(* the conclusions of C08_survivors_correct_after on it (its hypotheses: C08_history_wf) *)
Example C08_history_survivors :
  let s := xrun repaired p0 1000 1 [g0] (hist_all ++ [XProcess c123]) in
  status_of (xs_st s) 1 = Some WReady /\ status_of (xs_st s) 3 = Some WReady /\
  xreport (xs_st s) 1 = spec_report p0 (key_owner (xs_st s)) (xs_node s) 1 /\
  xreport (xs_st s) 3 = spec_report p0 (key_owner (xs_st s)) (xs_node s) 3.
Proof. vm_compute. repeat split; reflexivity. Qed.

(* the hypotheses of C08_removed_stays_removed hold for wallet 2 with h1 = hist_pre, h2 = hist_later
   ([not_recreating_all_b_sound] turns the boolean check into the hypothesis), and so does its conclusion *)
Example C08_history_removed_hyps :
  wf_xhistory2 repaired p0 1000 1 g0 (hist_pre ++ [XRound 2]) /\
  sh_of_wallet (xs_st (xrun repaired p0 1000 1 [g0] hist_pre)) 2 = [2%N] /\
  listed (xs_st (xrun repaired p0 1000 1 [g0] hist_pre)) 2 = true /\
  listed (xs_st (xrun repaired p0 1000 1 [g0] (hist_pre ++ [XRound 2]))) 2 = false /\
  forallb (not_recreating_b 2 [2%N]) hist_later = true.
Proof. split; [apply wf_xhistory2_b_sound|]; vm_compute; repeat split; reflexivity. Qed.

Example C08_history_removed :
  let s := xrun repaired p0 1000 1 [g0] hist_all in
  mentions (xs_st s) 2 [2%N] = false /\ listed (xs_st s) 2 = false.
Proof. vm_compute. split; reflexivity. Qed.

(* ================================================================== a removal while ANOTHER wallet is being restored
   (Ledger/ImportRemoveProofs.v, Ledger/ImportRemoveExamples.v; the invariant [minv_r] and the histories [xwf_r] are
   described in Properties/C07.v, last part)

   The theorems above assume that no wallet is importing ([no_importing] in [StInv]).  The case left open: the
   removal decides from the wallet database whether a transaction record may go ([removable]: no output pays, and
   no input spends a RECORDED coin of, another keystore-known wallet) — while a wallet w that is being restored
   has not recorded its part of a shared transaction T yet (cursor below T's block). *)
Require Import MW.Ledger.Proofs MW.Ledger.RemoveProofs2 MW.Ledger.RemoveProofs4 MW.Ledger.ImportProofs2 MW.Ledger.ImportProofs3.
Require Import MW.Ledger.ImportRemoveProofs MW.Ledger.ImportRemoveExamples.

(* C08_round_keeps_other_wallets_records: ONE round of the removal of r (any cap, also the last), on ANY database
   in which the rows of the wallets other than r — ready or importing, cursor anywhere — are keyed by the
   keystore, name real outputs and carry real spent marks:
   the other wallets' credit rows and spent marks are untouched; every transaction record one of these rows needs
   (its creating transaction, its spending transaction) is still listed afterwards; block records only shrink.
   So T keeps its record as soon as ONE recorded row of w needs it; if none does yet, T's record may be deleted —
   the rescan lists it again ([import_tx]: add_ids) when it reaches T's block (C07_rescan_batch_during_removal). *)
Theorem C08_round_keeps_other_wallets_records : forall fx, f_removable fx = true -> f_removable_debit fx = true ->
  forall U, GU U -> forall cap n lookup st r,
  (forall t tx0, lookup t = Some tx0 -> In tx0 (chain_txs U) /\ t_id tx0 = t) ->
  keys_functional st ->
  (forall c, In c (others r (credits (x_w st))) ->
     key_owner st (c_sh c) = Some (c_wallet c) /\ credit_sound U c /\ spent_sound U c) ->
  let st' := fst (remove_round fx cap n lookup st r) in
  others r (credits (x_w st')) = others r (credits (x_w st)) /\
  incl (credits (x_w st')) (credits (x_w st)) /\
  synced (x_w st') = synced (x_w st) /\
  (covered (x_brecs st) (others r (credits (x_w st))) -> covered (x_brecs st') (others r (credits (x_w st')))) /\
  (forall h t, listed_at (x_brecs st') h t = true -> listed_at (x_brecs st) h t = true) /\
  (forall br, In br (x_brecs st') -> exists br0, In br0 (x_brecs st) /\ br_h br0 = br_h br /\ br_bid br0 = br_bid br).
Proof. exact round_keeps_others. Qed.
Print Assumptions C08_round_keeps_other_wallets_records.

(* a round while w is being restored: more rounds to come — the invariant stays; the LAST round — the database
   satisfies [minv] as it is (w's part up to its cursor, everybody else over the whole chain, records covering
   them) and nothing mentions r *)
Theorem C08_round_during_import : forall p g U, GU U -> forall w r, w <> r ->
  forall keysS fx, f_removable fx = true -> f_removable_debit fx = true ->
  forall cap n lookup c st,
  (forall t tx0, lookup t = Some tx0 -> In tx0 (chain_txs U) /\ t_id tx0 = t) ->
  minv_r p g U w r keysS c st ->
  let st' := fst (remove_round fx cap n lookup st r) in
  (snd (remove_round fx cap n lookup st r) = false /\ minv_r p g U w r keysS c st') \/
  (snd (remove_round fx cap n lookup st r) = true /\ minv p g U w keysS c st' /\
   mentions st' r (sh_of_wallet st r) = false).
Proof. exact rround_inv. Qed.
Print Assumptions C08_round_during_import.

(* C08_removal_during_import: as C07_import_during_removal with the two requests in the other order — ImportWallet
   w first, then RemoveWallet r (accepted: r is ready; the removal of the IMPORTING wallet is refused,
   C08_refused_while_importing) *)
Theorem C08_removal_during_import : forall p g U,
  (forall b1 b2, In b1 U -> In b2 U -> b_id b1 = b_id b2 -> b1 = b2) -> GU U ->
  forall w r, w <> r -> forall keys0 B cap, 0 < B ->
  forall passR pass sh shs c0 n0 all0 st0,
  ninv g U n0 -> incl all0 (chain_txs U) ->
  minv p g U w keys0 c0 st0 -> status_of st0 w = None -> (forall s, ownW w keys0 s = None) ->
  NoDup (map fst keys0) ->
  status_of st0 r = Some WReady -> lookupN (x_pass st0) r = Some passR -> memN r (x_p1 st0) = false ->
  NoDup (sh :: shs) -> (forall s, In s (sh :: shs) -> lookupN keys0 s = None) ->
  forall stB1 h,
  import_start st0 w pass (sh :: shs) = Some stB1 ->
  let s2 := {| xs_node := n0; xs_st := fst (remove_request stB1 r passR); xs_all := all0; xs_crashed := false |} in
  xwf_r p g U w r B cap s2 h ->
  let s := fold_left (xstep repaired p B cap) h s2 in
  let st := xs_st s in
  let keysS := filter (fun e : N * N => negb (snd e =? r)%N) keys0 ++ keys_of w (sh :: shs) in
  xs_crashed s = false /\
  (in_step g s -> status_of st w = Some WReady -> status_of st r = None ->
     equals_live_all p st (xs_node s) /\ x_keys st = keysS) /\
  (status_of st r = None -> mentions st r (sh_of_wallet st0 r) = false /\ listed st r = false) /\
  (exists c, wf_chain c /\ synced (x_w st) = synced_of c /\
     forall v, v <> w -> v <> r ->
       proj v (credits (x_w st)) = proj v (credits (L p (lookupN keys0) c)) /\
       xreport st v = spec_report p (lookupN keys0) c v) /\
  (status_of st r <> None -> use_wallet st r = UUnready) /\
  (status_of st w <> Some WReady -> status_of st w <> None -> use_wallet st w = UUnready).
Proof. exact import_during_removal_B. Qed.
Print Assumptions C08_removal_during_import.

(* the shared-transaction case, closed (Ledger/ImportRemoveExamples.v: wallet 1 = r with script hashes 1 and 3, wallet 2 = w,
   wallet 3 a bystander; T5 = r pays w with change, T6 = w pays r without change, T7 spends a coin of each):
   EVERY interleaving of the removal steps (cap 1) with the rescan batches (one block per batch), both orders of the
   two requests, also followed by / interleaved with a reorganisation: at the end w's and the bystander's reports,
   credit rows with spent marks and staking rows are those of the run in which r never existed and w watched the
   chain live; r is not listed, nothing mentions it; every credit's transaction and spender is listed. *)
Example C08_shared_tx_remove_then_import : map (obs 1 1) (hists ordA []) = repeat (obs_ref 1 1 q_ref) 924.
Proof. exact shared_tx_remove_then_import. Qed.
Example C08_shared_tx_import_then_remove : map (obs 1 1) (hists ordB []) = repeat (obs_ref 1 1 q_ref) 924.
Proof. exact shared_tx_import_then_remove. Qed.
Example C08_shared_tx_then_reorg : map (obs 1 1) (hists ordA q_reorg2) = repeat (obs_ref 1 1 (q_ref ++ q_reorg2)) 924.
Proof. exact shared_tx_then_reorg. Qed.
Example C08_shared_tx_reorg_inside : forall n, n = length (all_mid q_reorg2 ordA 3) ->
  map (obs 2 2) (all_mid q_reorg2 ordA 3) = repeat (obs_ref 2 2 (q_ref ++ q_reorg2)) n.
Proof. exact shared_tx_reorg_inside. Qed.

(* T6 = "w pays r" (transaction 6, height 3), wallet 1 = r, wallet 2 = w.  The whole removal while w's cursor is 0:
   T6's record is deleted (no recorded row of another wallet needs it), T5 (pays w) keeps its record; the batches
   that follow list T6 again and mark w's coin (1,1) spent by it.  One batch first (w's coin recorded): T6 is kept.
   (first component: T5 listed at height 2; second: T6 listed at height 3; then the statuses of r and w, w's rows) *)
Example C08_shared_tx_record_deleted_and_relisted :
  listing (q_pre ++ ordB ++ q_rem 4) = (true, false, None, Some (WImporting 0), []) /\
  listing (q_pre ++ ordB ++ q_rem 4 ++ q_imp 5)
    = (true, true, None, Some WReady, [(1%N, 1%N, Some (6%N, 0%N, 3)); (5%N, 0%N, Some (7%N, 0%N, 4))]) /\
  listing (q_pre ++ ordB ++ q_imp 1 ++ q_rem 4)
    = (true, true, None, Some (WImporting 1), [(1%N, 1%N, None)]).
Proof. exact shared_tx_record_deleted_and_relisted. Qed.
