(* Property C06 — a crash at any instant loses nothing and applies nothing twice.
   Only statements here; proofs are in Ledger/CrashProofs.v.
   Model: Ledger/Crash.v over the Ledger model (Model.v, Run.v): the wallet process = persistent
   store (ledger with its sync records, issued addresses) + volatile state (the handler's copy of
   the tip, the keystore's in-memory address table); [cut p k pr h] = the state right after the
   k-th commit of the run of h; [restart] = everything volatile rebuilt from the store
   (NewWalletManager, NewNtfnsHandler) followed by NtfnsHandler.Start (fast-forward when no
   wallet is ready and the node is more than [ff] blocks ahead; catch-up by height through the
   same processConnectedBlock; as repaired, the node's best block goes through the reorg logic
   when there is nothing to catch up by height); [crashes p tipfix ff g ks pr h] = the run of h
   with a crash right after commit k1, a restart, a crash k2 commits later, ...;
   [finish] = the announcement of the node's tip is processed ("after catching up").
   Environment assumptions: [wf_history_gen] of Ledger/WF.v, as for C01.
   [crashes_safe] ([safe_point] at every crash point) excludes two kinds of crash points from the
   general theorems: those at which Start takes the fast-forward branch although the node was
   reorganised below the stored tip (no wallet ready, node more than ff blocks long: the code then
   writes sync records on top of an abandoned tip), and those at which the node has been
   reorganised back to its bare genesis while the wallet is ahead of it (see the report). *)
From Coq Require Import List ZArith NArith Bool.
Import ListNotations.
Open Scope Z_scope.
Require Import MW.Ledger.Model MW.Ledger.Spec MW.Ledger.Run MW.Ledger.WF MW.Ledger.Proofs5 MW.Ledger.Proofs6.
Require Import MW.Ledger.Crash MW.Ledger.CrashProofs.

(* T1 "loses nothing": at every point of a well-formed history the volatile state is a function
   of the store — what the restart rebuilds is what the running process had *)
Theorem C06_crash_loses_nothing : forall p g h bt pre post,
  wf_history_gen p true g (h ++ [EvProcess bt]) -> h = pre ++ post ->
  coherent (prun p (init_proc g) pre) /\ reopen (prun p (init_proc g) pre) = prun p (init_proc g) pre.
Proof. exact crash_loses_nothing. Qed.
Print Assumptions C06_crash_loses_nothing.

(* T2 "applies nothing twice": a run with one crash IS a run of the process that never stops, on
   the history with the restart's announcements (the node's blocks above the stored tip, in
   order; the node's tip when the stored tip was replaced at the same or a lower height)
   inserted at the crash point; in particular the restart succeeds ("the wallet opens") *)
Theorem C06_crash_is_history : forall p tipfix ff g h bt k,
  wf_history_gen p true g (h ++ [EvProcess bt]) ->
  crashes_safe p tipfix ff g [k] (init_proc g) h ->
  crash_run p tipfix ff g k h = Some (prun p (init_proc g) (crash_history p tipfix g k h)).
Proof. exact crash_is_history. Qed.
Print Assumptions C06_crash_is_history.

(* T3 as repaired, the restarted wallet is on the node's tip as soon as Start has returned *)
Theorem C06_restart_on_tip : forall p ff g h bt k pr1 pre post,
  wf_history_gen p true g (h ++ [EvProcess bt]) ->
  cut p k (init_proc g) h = (pr1, pre, post) -> safe_point g ff pr1 ->
  exists pr2, restart p true ff g pr1 = Some pr2 /\
    snd (tip (s_wallet (pr_sim pr2))) = b_id (last (s_node (pr_sim pr1)) g) /\
    s_node (pr_sim pr2) = s_node (pr_sim pr1).
Proof. exact restart_on_tip. Qed.
Print Assumptions C06_restart_on_tip.

(* T4 = C06: every commit boundary of every history as the crash point, repeated crashes
   included: the run with crashes completes, and once the node's tip announcement is processed
   every wallet's report equals that of the run that never stopped — and is exactly what the
   node's best chain pays to the wallet's addresses and has not spent *)
Theorem C06_crash_equiv : forall p tipfix ff g h bt ks,
  wf_history_gen p true g (h ++ [EvProcess bt]) ->
  last (s_node (run p true g h)) g = bt ->
  crashes_safe p tipfix ff g ks (init_proc g) h ->
  exists pr', crashes p tipfix ff g ks (init_proc g) h = Some pr' /\
    forall w, observe (finish p g pr') w = observe (finish p g (prun p (init_proc g) h)) w /\
              observe (finish p g pr') w =
              spec_report p (own_of (s_own (run p true g h))) (s_node (run p true g h)) w.
Proof. exact crash_equiv. Qed.
Print Assumptions C06_crash_equiv.

(* T5 "resumes unfinished background work": along every run of the task layer (wallets created,
   restored, removed, the worker taking steps that finish a task or not) the queue the restart
   rebuilds from the status records has exactly the members of the queue the crash lost.
   Partial in one respect: the STEPS of a restore / removal (what one batch does to the ledger)
   are C07's / C08's models; their resumability is covered here by the crash-point enumeration *)
Theorem C06_tasks_resumed_partial : forall es,
  tfresh_all {| t_status := []; t_queue := [] |} es ->
  let t := trun {| t_status := []; t_queue := [] |} es in
  forall w, In w (t_queue (treopen t)) <-> In w (t_queue t).
Proof. exact tasks_resumed. Qed.
Print Assumptions C06_tasks_resumed_partial.

Example C06_tasks_example :
  let es := [TCreate 1; TImport 2; TRemove 1; TStep false; TStep true; TImport 3]%N in
  tfresh_all {| t_status := []; t_queue := [] |} es /\
  t_queue (trun {| t_status := []; t_queue := [] |} es) = [2; 3]%N /\
  t_queue (treopen (trun {| t_status := []; t_queue := [] |} es)) = [2; 3]%N.
Proof. cbv zeta. split; [cbn; repeat split; intros H; repeat (destruct H as [H|H]; [discriminate|]); exact H|split; vm_compute; reflexivity]. Qed.

(* ---------------------------------------------------------------- the code as found *)

Definition p0 : params := {| p_cbmat := 4; p_bindlock := 4294967294 |}.
Definition g0 : block := {| b_id := 0; b_prev := 0; b_height := 0; b_txs := [] |}.
Definition blk1 : block := {| b_id := 1; b_prev := 0; b_height := 1;
  b_txs := [ {| t_id := 1; t_cb := true; t_ins := []; t_outs := [ {| o_sh := 9; o_val := 5; o_class := CStd |} ] |} ] |}.
Definition blk1c : block := {| b_id := 11; b_prev := 0; b_height := 1;
  b_txs := [ {| t_id := 11; t_cb := true; t_ins := []; t_outs := [] |} ] |}.
Definition blk2c : block := {| b_id := 12; b_prev := 11; b_height := 2;
  b_txs := [ {| t_id := 12; t_cb := true; t_ins := []; t_outs := [ {| o_sh := 8; o_val := 3; o_class := CStd |} ] |} ] |}.

(* Start as found caught up by height only.  Block 1 (paying address 9) is processed; the node
   replaces it by block 1c of the same height; before that announcement is processed the process
   dies (right after the commit of a NewAddress).  Restarted: nothing to catch up by height, the
   wallet stays on the abandoned block and reports its coin. *)
Definition h_stale : list event :=
  [EvOwner 9 1; EvAttach blk1; EvProcess blk1; EvDetach; EvAttach blk1c; EvOwner 8 1].

Theorem C06_restart_stale_tip_refuted :
  wf_history_gen p0 true g0 (h_stale ++ [EvProcess blk1c]) /\
  let pr1 := fst (fst (cut p0 3 (init_proc g0) h_stale)) in
  safe_point g0 2000 pr1 /\
  exists pr2, restart p0 false 2000 g0 pr1 = Some pr2 /\
    snd (tip (s_wallet (pr_sim pr2))) <> b_id (last (s_node (pr_sim pr2)) g0) /\
    r_total (observe pr2 1%N) = 5 /\
    r_total (spec_report p0 (own_of (s_own (pr_sim pr2))) (s_node (pr_sim pr2)) 1%N) = 0.
Proof.
  split; [apply wf_history_gen_b_sound; vm_compute; reflexivity|].
  cbv zeta. split.
  - split; [left; vm_compute; reflexivity|left; vm_compute; discriminate].
  - eexists. split; [vm_compute; reflexivity|]. split; [vm_compute; discriminate|split; vm_compute; reflexivity].
Qed.
Print Assumptions C06_restart_stale_tip_refuted.

(* the same crash on the code as repaired: the restart goes through the reorg logic *)
Example C06_restart_stale_tip_repaired :
  let pr1 := fst (fst (cut p0 3 (init_proc g0) h_stale)) in
  exists pr2, restart p0 true 2000 g0 pr1 = Some pr2 /\
    snd (tip (s_wallet (pr_sim pr2))) = b_id (last (s_node (pr_sim pr2)) g0) /\
    r_total (observe pr2 1%N) = 0.
Proof. cbv zeta. eexists. split; [vm_compute; reflexivity|split; vm_compute; reflexivity]. Qed.

(* non-vacuity of T4: a history with a reorganisation and lagging announcements, crash points
   3 (the second NewAddress, the wallet still on the abandoned block 1), then 1 commit after the
   restart (a stale announcement), so that the second restart catches up by height *)
Definition h_ex : list event :=
  [EvOwner 9 1; EvAttach blk1; EvProcess blk1; EvDetach; EvAttach blk1c; EvOwner 8 1; EvAttach blk2c; EvProcess blk1c].

Example C06_hypotheses_met :
  wf_history_gen p0 true g0 (h_ex ++ [EvProcess blk2c]) /\
  last (s_node (run p0 true g0 h_ex)) g0 = blk2c /\
  crashes_safe p0 true 2000 g0 [3%nat; 1%nat] (init_proc g0) h_ex /\
  commits p0 (init_proc g0) h_ex = 4%nat /\
  catchup_events true g0 (fst (fst (cut p0 3 (init_proc g0) h_ex))) = [EvProcess blk1c].
Proof.
  split; [apply wf_history_gen_b_sound; vm_compute; reflexivity|].
  split; [vm_compute; reflexivity|]. split; [|split; vm_compute; reflexivity].
  cbn [crashes_safe]. vm_compute. repeat split; try reflexivity; left; first [reflexivity|discriminate].
Qed.

Example C06_example_reports :
  match crashes p0 true 2000 g0 [3%nat; 1%nat] (init_proc g0) h_ex with
  | Some pr' => map (fun w => r_total (observe (finish p0 g0 pr') w)) [1%N] = [3] /\
                synced (s_wallet (pr_sim (finish p0 g0 pr'))) = [(2, 12%N); (1, 11%N); (0, 0%N)]
  | None => False
  end.
Proof. vm_compute. split; reflexivity. Qed.

(* the fast-forward branch of Start (no wallet ready, node more than ff blocks long; here ff = 0 so
   that three blocks suffice): the crash point is covered through [on_chain]; Start writes the sync
   record of height 2 without touching the ledger, processes block 3, and the result is the state
   of the run that never stopped *)
Definition blk3c : block := {| b_id := 13; b_prev := 12; b_height := 3;
  b_txs := [ {| t_id := 13; t_cb := true; t_ins := []; t_outs := [] |} ] |}.
Definition h_ff : list event := [EvAttach blk1c; EvAttach blk2c; EvAttach blk3c; EvProcess blk1c].

Example C06_fast_forward_example :
  wf_history_gen p0 true g0 (h_ff ++ [EvProcess blk3c]) /\
  crashes_safe p0 true 0 g0 [1%nat] (init_proc g0) h_ff /\
  (let pr1 := fst (fst (cut p0 1 (init_proc g0) h_ff)) in
   no_ready_wallet pr1 && (0 <? chain_height (s_node (pr_sim pr1))) = true) /\
  option_map (fun pr => finish p0 g0 pr) (crashes p0 true 0 g0 [1%nat] (init_proc g0) h_ff)
  = Some (finish p0 g0 (prun p0 (init_proc g0) h_ff)).
Proof.
  split; [apply wf_history_gen_b_sound; vm_compute; reflexivity|].
  split; [|split; vm_compute; reflexivity].
  cbn [crashes_safe]. vm_compute. split; [split|exact I].
  - right. split; [discriminate|]. exists [g0; blk1c], [blk2c; blk3c]. split; [discriminate|split; reflexivity].
  - left. discriminate.
Qed.
