(* Property C06 — a crash at any instant loses nothing and applies nothing twice.
   Only statements here; proofs are in Ledger/CrashProofs.v.
   Model: Ledger/Crash.v over the Ledger model (Model.v, Run.v): the wallet process = persistent
   store (ledger with its sync records, issued addresses) + volatile state (the handler's copy of
   the tip, the keystore's in-memory address table); [cut p k pr h] = the state right after the
   k-th commit of the run of h; [restart] = everything volatile rebuilt from the store
   (NewWalletManager, NewNtfnsHandler) followed by NtfnsHandler.Start (fast-forward when no
   wallet is ready and the node is more than [ff] blocks ahead; catch-up by height through the
   same processConnectedBlock; as repaired, the node's best block goes through the reorg logic
   when there is nothing to catch up by height); [crashes p tipfix ff g ks pr h] = the run of h
   with a crash right after commit k1, a restart, a crash k2 commits later, ...;
   [finish] = the announcement of the node's tip is processed ("after catching up").
   Environment assumptions: [wf_history_gen] of Ledger/WF.v, as for C01.
   [crashes_safe] ([safe_point] at every crash point) excludes two kinds of crash points from the
   theorems T2-T4: those at which Start takes the fast-forward branch although the node was
   reorganised below the stored tip (no wallet ready, node more than ff blocks long: the code then
   writes sync records on top of an abandoned tip), and those at which the node has been
   reorganised back to its bare genesis while the wallet is ahead of it.
   T6-T8 (C06_crash_equiv_general, C06_crash_equiv_at, C06_restart_any_chain; proofs in
   Ledger/CrashProofs2.v) have NO premise on the crash points: the fast-forward over a stale fork
   leaves sync records of the abandoned fork under those of the node's chain, but no wallet
   existed when they were written, so the blocks they name pay nobody and a later reorganisation
   that finds its fork point among them rolls back to an empty ledger; the bare-genesis case is
   covered under the environment assumption [genesis_prev_free] (the genesis block's
   previous-hash field, the zero hash, is no other block's hash).
   T9-T10 (C06_import_resumes, C06_removal_resumes; Ledger/Resume.v, ResumeProofs.v): the STEPS of
   the background tasks resume (T5 is about the queue only).
   T2r, T3r, T6r-T8r (Ledger/Crash3.v, CrashProofs3.v): the same for Start as repaired a second time
   (the fast-forward only on top of a stored tip that is still on the node's chain): T2 and T3
   without the [on_chain] half of [safe_point].
   LIMIT of T6-T8, and a defect of the code (repaired): in Ledger/Crash.v "no wallet is ready"
   ([no_ready_wallet]) is "no address has been issued" — the process model has no wallet that is
   being imported.  In the code the fast-forward is also taken when the only wallets are being
   imported; their credits up to the rescan cursor are in the store, and a fast-forward over a
   stale fork neither rolls them back nor pulls the cursor back: C06_ff_stale_import_refuted
   (Ledger/ResumeFF.v; reproduced on the real code by harness/cmd/c06's import-only family).
   T11-T12 (Ledger/ResumeFFProofs.v): Start with its fast-forward AS REPAIRED while a restore is in
   progress, from any rescan cursor, on any chain the node may have at the restart (the restored
   wallet alone in the database; subsumed by T13-T15 below, which keep them as the one-wallet case).
   T13-T16 (Ledger/CrashProofs4.v): crashes + restarts at ANY positions of the multi-wallet restore
   histories of C07 (other ready wallets in the database, shared transactions, one restore or two
   concurrent ones): the invariants of C07 survive every restart on any chain of the node, the
   unfinished restores are in the rebuilt queue, and the final database is the live run of all
   wallets = the database of the run that never stopped; frame for the other wallets. *)
From Coq Require Import List ZArith NArith Bool Lia.
Import ListNotations.
Open Scope Z_scope.
Require Import MW.Ledger.Model MW.Ledger.Spec MW.Ledger.Run MW.Ledger.WF MW.Ledger.Proofs5 MW.Ledger.Proofs6.
Require Import MW.Ledger.Crash MW.Ledger.CrashProofs.
Require Import MW.Ledger.Crash2 MW.Ledger.CrashProofs2.

(* T1 "loses nothing": at every point of a well-formed history the volatile state is a function
   of the store — what the restart rebuilds is what the running process had *)
Theorem C06_crash_loses_nothing : forall p g h bt pre post,
  wf_history_gen p true g (h ++ [EvProcess bt]) -> h = pre ++ post ->
  coherent (prun p (init_proc g) pre) /\ reopen (prun p (init_proc g) pre) = prun p (init_proc g) pre.
Proof. exact crash_loses_nothing. Qed.
Print Assumptions C06_crash_loses_nothing.

(* T2 "applies nothing twice": a run with one crash IS a run of the process that never stops, on
   the history with the restart's announcements (the node's blocks above the stored tip, in
   order; the node's tip when the stored tip was replaced at the same or a lower height)
   inserted at the crash point; in particular the restart succeeds ("the wallet opens") *)
Theorem C06_crash_is_history : forall p tipfix ff g h bt k,
  wf_history_gen p true g (h ++ [EvProcess bt]) ->
  crashes_safe p tipfix ff g [k] (init_proc g) h ->
  crash_run p tipfix ff g k h = Some (prun p (init_proc g) (crash_history p tipfix g k h)).
Proof. exact crash_is_history. Qed.
Print Assumptions C06_crash_is_history.

(* T3 as repaired, the restarted wallet is on the node's tip as soon as Start has returned *)
Theorem C06_restart_on_tip : forall p ff g h bt k pr1 pre post,
  wf_history_gen p true g (h ++ [EvProcess bt]) ->
  cut p k (init_proc g) h = (pr1, pre, post) -> safe_point g ff pr1 ->
  exists pr2, restart p true ff g pr1 = Some pr2 /\
    snd (tip (s_wallet (pr_sim pr2))) = b_id (last (s_node (pr_sim pr1)) g) /\
    s_node (pr_sim pr2) = s_node (pr_sim pr1).
Proof. exact restart_on_tip. Qed.
Print Assumptions C06_restart_on_tip.

(* T4 (subsumed by T6, which has no [crashes_safe] premise): every commit boundary of every
   history as the crash point, repeated crashes included: the run with crashes completes, and
   once the node's tip announcement is processed
   every wallet's report equals that of the run that never stopped — and is exactly what the
   node's best chain pays to the wallet's addresses and has not spent *)
Theorem C06_crash_equiv : forall p tipfix ff g h bt ks,
  wf_history_gen p true g (h ++ [EvProcess bt]) ->
  last (s_node (run p true g h)) g = bt ->
  crashes_safe p tipfix ff g ks (init_proc g) h ->
  exists pr', crashes p tipfix ff g ks (init_proc g) h = Some pr' /\
    forall w, observe (finish p g pr') w = observe (finish p g (prun p (init_proc g) h)) w /\
              observe (finish p g pr') w =
              spec_report p (own_of (s_own (run p true g h))) (s_node (run p true g h)) w.
Proof. exact crash_equiv. Qed.
Print Assumptions C06_crash_equiv.

(* T5 "resumes unfinished background work": along every run of the task layer (wallets created,
   restored, removed, the worker taking steps that finish a task or not) the queue the restart
   rebuilds from the status records has exactly the members of the queue the crash lost.
   Partial in one respect: the STEPS of a restore / removal (what one batch does to the ledger)
   are C07's / C08's models; their resumability is covered here by the crash-point enumeration *)
Theorem C06_tasks_resumed_partial : forall es,
  tfresh_all {| t_status := []; t_queue := [] |} es ->
  let t := trun {| t_status := []; t_queue := [] |} es in
  forall w, In w (t_queue (treopen t)) <-> In w (t_queue t).
Proof. exact tasks_resumed. Qed.
Print Assumptions C06_tasks_resumed_partial.

Example C06_tasks_example :
  let es := [TCreate 1; TImport 2; TRemove 1; TStep false; TStep true; TImport 3]%N in
  tfresh_all {| t_status := []; t_queue := [] |} es /\
  t_queue (trun {| t_status := []; t_queue := [] |} es) = [2; 3]%N /\
  t_queue (treopen (trun {| t_status := []; t_queue := [] |} es)) = [2; 3]%N.
Proof. cbv zeta. split; [cbn; repeat split; intros H; repeat (destruct H as [H|H]; [discriminate|]); exact H|split; vm_compute; reflexivity]. Qed.

(* ---------------------------------------------------------------- general form *)

(* T6 = C06: every commit boundary of every history as the crash point, repeated crashes
   included, NO premise on the crash points, for the code as found and as repaired, any
   fast-forward distance: every restart succeeds ("the wallet opens"), and once the node's tip
   announcement is processed every wallet's report equals that of the run that never stopped —
   and is exactly what the node's best chain pays to the wallet's addresses and has not spent *)
Theorem C06_crash_equiv_general : forall p tipfix ff g h bt ks,
  wf_history_gen p true g (h ++ [EvProcess bt]) ->
  last (s_node (run p true g h)) g = bt ->
  genesis_prev_free g (g :: blocks_of_history (h ++ [EvProcess bt])) ->
  exists pr', crashes p tipfix ff g ks (init_proc g) h = Some pr' /\
    forall w, observe (finish p g pr') w = observe (finish p g (prun p (init_proc g) h)) w /\
              observe (finish p g pr') w =
              spec_report p (own_of (s_own (run p true g h))) (s_node (run p true g h)) w.
Proof. exact crash_equiv_general. Qed.
Print Assumptions C06_crash_equiv_general.

(* T7: the same for crashes at ARBITRARY instants ([crashes_at]: the process runs j1 events of any
   kind, stops, is restarted, runs j2 more events, ...): the node may move — grow, shrink, be
   reorganised at any depth — between the wallet's last commit and the restart (the outage), and
   the history goes on afterwards *)
Theorem C06_crash_equiv_at : forall p tipfix ff g h bt js,
  wf_history_gen p true g (h ++ [EvProcess bt]) ->
  last (s_node (run p true g h)) g = bt ->
  genesis_prev_free g (g :: blocks_of_history (h ++ [EvProcess bt])) ->
  exists pr', crashes_at p tipfix ff g js (init_proc g) h = Some pr' /\
    forall w, observe (finish p g pr') w = observe (finish p g (prun p (init_proc g) h)) w /\
              observe (finish p g pr') w =
              spec_report p (own_of (s_own (run p true g h))) (s_node (run p true g h)) w.
Proof. exact crash_equiv_at. Qed.
Print Assumptions C06_crash_equiv_at.

(* T8: restart at ANY point of a history (any prefix [pre]: after any commit and any node events
   since — the node on any other well-formed chain, longer, shorter, forked at any depth — and
   after any earlier crashes [ks]): as repaired, Start succeeds, the node and the issued addresses
   are untouched, the stored tip is the node's tip and every wallet's report is the
   specification of the node's chain as soon as Start has returned *)
Theorem C06_restart_any_chain : forall p tipfix ff g h bt ks pre post pr1,
  wf_history_gen p true g (h ++ [EvProcess bt]) ->
  genesis_prev_free g (g :: blocks_of_history (h ++ [EvProcess bt])) ->
  h = pre ++ post ->
  crashes p tipfix ff g ks (init_proc g) pre = Some pr1 ->
  s_node (pr_sim pr1) = s_node (run p true g pre) /\ s_own (pr_sim pr1) = s_own (run p true g pre) /\
  exists pr2, restart p true ff g pr1 = Some pr2 /\
    s_node (pr_sim pr2) = s_node (pr_sim pr1) /\ s_own (pr_sim pr2) = s_own (pr_sim pr1) /\
    snd (tip (s_wallet (pr_sim pr2))) = b_id (last (s_node (pr_sim pr1)) g) /\
    forall w, observe pr2 w = spec_report p (own_of (s_own (pr_sim pr1))) (s_node (pr_sim pr1)) w.
Proof. exact restart_any_chain. Qed.
Print Assumptions C06_restart_any_chain.

(* ---------------------------------------------------------------- the code as found *)

Definition p0 : params := {| p_cbmat := 4; p_bindlock := 4294967294 |}.
Definition g0 : block := {| b_id := 0; b_prev := 0; b_height := 0; b_txs := [] |}.
Definition blk1 : block := {| b_id := 1; b_prev := 0; b_height := 1;
  b_txs := [ {| t_id := 1; t_cb := true; t_ins := []; t_outs := [ {| o_sh := 9; o_val := 5; o_class := CStd |} ] |} ] |}.
Definition blk1c : block := {| b_id := 11; b_prev := 0; b_height := 1;
  b_txs := [ {| t_id := 11; t_cb := true; t_ins := []; t_outs := [] |} ] |}.
Definition blk2c : block := {| b_id := 12; b_prev := 11; b_height := 2;
  b_txs := [ {| t_id := 12; t_cb := true; t_ins := []; t_outs := [ {| o_sh := 8; o_val := 3; o_class := CStd |} ] |} ] |}.

(* Start as found caught up by height only.  Block 1 (paying address 9) is processed; the node
   replaces it by block 1c of the same height; before that announcement is processed the process
   dies (right after the commit of a NewAddress).  Restarted: nothing to catch up by height, the
   wallet stays on the abandoned block and reports its coin. *)
Definition h_stale : list event :=
  [EvOwner 9 1; EvAttach blk1; EvProcess blk1; EvDetach; EvAttach blk1c; EvOwner 8 1].

Theorem C06_restart_stale_tip_refuted :
  wf_history_gen p0 true g0 (h_stale ++ [EvProcess blk1c]) /\
  let pr1 := fst (fst (cut p0 3 (init_proc g0) h_stale)) in
  safe_point g0 2000 pr1 /\
  exists pr2, restart p0 false 2000 g0 pr1 = Some pr2 /\
    snd (tip (s_wallet (pr_sim pr2))) <> b_id (last (s_node (pr_sim pr2)) g0) /\
    r_total (observe pr2 1%N) = 5 /\
    r_total (spec_report p0 (own_of (s_own (pr_sim pr2))) (s_node (pr_sim pr2)) 1%N) = 0.
Proof.
  split; [apply wf_history_gen_b_sound; vm_compute; reflexivity|].
  cbv zeta. split.
  - split; [left; vm_compute; reflexivity|left; vm_compute; discriminate].
  - eexists. split; [vm_compute; reflexivity|]. split; [vm_compute; discriminate|split; vm_compute; reflexivity].
Qed.
Print Assumptions C06_restart_stale_tip_refuted.

(* the same crash on the code as repaired: the restart goes through the reorg logic *)
Example C06_restart_stale_tip_repaired :
  let pr1 := fst (fst (cut p0 3 (init_proc g0) h_stale)) in
  exists pr2, restart p0 true 2000 g0 pr1 = Some pr2 /\
    snd (tip (s_wallet (pr_sim pr2))) = b_id (last (s_node (pr_sim pr2)) g0) /\
    r_total (observe pr2 1%N) = 0.
Proof. cbv zeta. eexists. split; [vm_compute; reflexivity|split; vm_compute; reflexivity]. Qed.

(* non-vacuity of T4: a history with a reorganisation and lagging announcements, crash points
   3 (the second NewAddress, the wallet still on the abandoned block 1), then 1 commit after the
   restart (a stale announcement), so that the second restart catches up by height *)
Definition h_ex : list event :=
  [EvOwner 9 1; EvAttach blk1; EvProcess blk1; EvDetach; EvAttach blk1c; EvOwner 8 1; EvAttach blk2c; EvProcess blk1c].

Example C06_hypotheses_met :
  wf_history_gen p0 true g0 (h_ex ++ [EvProcess blk2c]) /\
  last (s_node (run p0 true g0 h_ex)) g0 = blk2c /\
  crashes_safe p0 true 2000 g0 [3%nat; 1%nat] (init_proc g0) h_ex /\
  commits p0 (init_proc g0) h_ex = 4%nat /\
  catchup_events true g0 (fst (fst (cut p0 3 (init_proc g0) h_ex))) = [EvProcess blk1c].
Proof.
  split; [apply wf_history_gen_b_sound; vm_compute; reflexivity|].
  split; [vm_compute; reflexivity|]. split; [|split; vm_compute; reflexivity].
  cbn [crashes_safe]. vm_compute. repeat split; try reflexivity; left; first [reflexivity|discriminate].
Qed.

Example C06_example_reports :
  match crashes p0 true 2000 g0 [3%nat; 1%nat] (init_proc g0) h_ex with
  | Some pr' => map (fun w => r_total (observe (finish p0 g0 pr') w)) [1%N] = [3] /\
                synced (s_wallet (pr_sim (finish p0 g0 pr'))) = [(2, 12%N); (1, 11%N); (0, 0%N)]
  | None => False
  end.
Proof. vm_compute. split; reflexivity. Qed.

(* the fast-forward branch of Start (no wallet ready, node more than ff blocks long; here ff = 0 so
   that three blocks suffice): the crash point is covered through [on_chain]; Start writes the sync
   record of height 2 without touching the ledger, processes block 3, and the result is the state
   of the run that never stopped *)
Definition blk3c : block := {| b_id := 13; b_prev := 12; b_height := 3;
  b_txs := [ {| t_id := 13; t_cb := true; t_ins := []; t_outs := [] |} ] |}.
Definition h_ff : list event := [EvAttach blk1c; EvAttach blk2c; EvAttach blk3c; EvProcess blk1c].

Example C06_fast_forward_example :
  wf_history_gen p0 true g0 (h_ff ++ [EvProcess blk3c]) /\
  crashes_safe p0 true 0 g0 [1%nat] (init_proc g0) h_ff /\
  (let pr1 := fst (fst (cut p0 1 (init_proc g0) h_ff)) in
   no_ready_wallet pr1 && (0 <? chain_height (s_node (pr_sim pr1))) = true) /\
  option_map (fun pr => finish p0 g0 pr) (crashes p0 true 0 g0 [1%nat] (init_proc g0) h_ff)
  = Some (finish p0 g0 (prun p0 (init_proc g0) h_ff)).
Proof.
  split; [apply wf_history_gen_b_sound; vm_compute; reflexivity|].
  split; [|split; vm_compute; reflexivity].
  cbn [crashes_safe]. vm_compute. split; [split|exact I].
  - right. split; [discriminate|]. exists [g0; blk1c], [blk2c; blk3c]. split; [discriminate|split; reflexivity].
  - left. discriminate.
Qed.

(* ---------------------------------------------------------------- non-vacuity of T6-T8 *)

(* The fast-forward over a STALE fork (ff = 1 so that a few blocks suffice).  No wallet exists.
   Block 1 is processed; the node abandons it and grows to 1c-2c-3c-4c (3 blocks ahead of the
   wallet, on another branch); the process is down meanwhile and restarts then: Start writes the
   sync record of 2c on top of that of block 1 (fast-forward), then processes 3c and 4c.  A wallet
   is created, block 5c pays it, crash and restart; the node then returns to the abandoned fork
   (block 1 again, 2a paying the wallet): the reorganisation finds its fork point in the stale
   record of block 1. *)
Definition blk4c : block := {| b_id := 14; b_prev := 13; b_height := 4;
  b_txs := [ {| t_id := 14; t_cb := true; t_ins := []; t_outs := [] |} ] |}.
Definition blk5c : block := {| b_id := 15; b_prev := 14; b_height := 5;
  b_txs := [ {| t_id := 15; t_cb := true; t_ins := []; t_outs := [ {| o_sh := 7; o_val := 6; o_class := CStd |} ] |} ] |}.
Definition blk2a : block := {| b_id := 22; b_prev := 1; b_height := 2;
  b_txs := [ {| t_id := 22; t_cb := true; t_ins := []; t_outs := [ {| o_sh := 7; o_val := 4; o_class := CStd |} ] |} ] |}.
Definition h_sf1 : list event :=
  [EvAttach blk1; EvProcess blk1; EvDetach; EvAttach blk1c; EvAttach blk2c; EvAttach blk3c; EvAttach blk4c].
Definition h_sf2 : list event := [EvOwner 7 1; EvAttach blk5c; EvProcess blk5c].
Definition h_sf3 : list event := [EvDetach; EvDetach; EvDetach; EvDetach; EvDetach; EvAttach blk1; EvAttach blk2a].
Definition h_sf : list event := h_sf1 ++ h_sf2 ++ h_sf3.

Lemma h_sf_wf : wf_history_gen p0 true g0 (h_sf ++ [EvProcess blk2a]).
Proof. apply wf_history_gen_b_sound. vm_compute. reflexivity. Qed.
Print Assumptions h_sf_wf.

Lemma h_sf_gpf : genesis_prev_free g0 (g0 :: blocks_of_history (h_sf ++ [EvProcess blk2a])).
Proof.
  apply genesis_prev_free_b_sound; [apply (wfg_blockids _ _ _ _ h_sf_wf)|left; reflexivity|vm_compute; reflexivity].
Qed.
Print Assumptions h_sf_gpf.

(* the hypotheses of T6-T8 hold; the first crash point (the end of h_sf1) is NOT a [safe_point]:
   Start takes the fast-forward branch and the stored tip (block 1) is not on the node's chain *)
Example C06_stale_fork_hypotheses :
  wf_history_gen p0 true g0 (h_sf ++ [EvProcess blk2a]) /\
  last (s_node (run p0 true g0 h_sf)) g0 = blk2a /\
  genesis_prev_free g0 (g0 :: blocks_of_history (h_sf ++ [EvProcess blk2a])) /\
  (let pr1 := prun p0 (init_proc g0) h_sf1 in
   no_ready_wallet pr1 && (1 <? chain_height (s_node (pr_sim pr1))) = true /\
   synced (s_wallet (pr_sim pr1)) = [(1, 1%N); (0, 0%N)] /\
   map b_id (s_node (pr_sim pr1)) = [0; 11; 12; 13; 14]%N /\
   ~ safe_point g0 1 pr1 /\
   ~ crashes_safe p0 true 1 g0 [5%nat] (init_proc g0) h_sf1).
Proof.
  split; [exact h_sf_wf|]. split; [vm_compute; reflexivity|]. split; [exact h_sf_gpf|].
  cbv zeta. split; [vm_compute; reflexivity|]. split; [vm_compute; reflexivity|]. split; [vm_compute; reflexivity|].
  assert (Hns : ~ safe_point g0 1 (prun p0 (init_proc g0) h_sf1)).
  { intros [[Hc|[_ [c [m [Hc [Hn Hsy]]]]]] _]; [vm_compute in Hc; discriminate|].
    vm_compute in Hn, Hsy.
    destruct c as [|a [|b [|x c']]]; try (apply (f_equal (@length _)) in Hsy; cbn in Hsy; rewrite ?app_length in Hsy; cbn in Hsy; lia).
    cbn in Hsy, Hn. inversion Hn. subst b. cbn in Hsy. discriminate. }
  split; [exact Hns|].
  intros Hs. cbn [crashes_safe] in Hs.
  change (cut p0 5 (init_proc g0) h_sf1) with (prun p0 (init_proc g0) h_sf1, h_sf1, @nil event) in Hs.
  destruct Hs as [Hs _]. exact (Hns Hs).
Qed.

(* what happens: after the first restart the sync records mix the abandoned block 1 with the node's
   chain, and every report is nevertheless the specification; after the second restart and the
   return to the abandoned fork the wallet is on the node's chain with the right coin *)
Example C06_stale_fork_restart :
  match restart p0 true 1 g0 (prun p0 (init_proc g0) h_sf1) with
  | Some pr2 =>
      synced (s_wallet (pr_sim pr2)) = [(4, 14%N); (3, 13%N); (2, 12%N); (1, 1%N); (0, 0%N)] /\
      observe pr2 1%N = spec_report p0 (own_of (s_own (pr_sim pr2))) (s_node (pr_sim pr2)) 1%N
  | None => False
  end /\
  match crashes_at p0 true 1 g0 [7%nat; 3%nat] (init_proc g0) h_sf with
  | Some pr' =>
      synced (s_wallet (pr_sim (finish p0 g0 pr'))) = [(2, 22%N); (1, 1%N); (0, 0%N)] /\
      r_total (observe (finish p0 g0 pr') 1%N) = 4 /\
      observe (finish p0 g0 pr') 1%N = observe (finish p0 g0 (prun p0 (init_proc g0) h_sf)) 1%N
  | None => False
  end.
Proof. split; vm_compute; repeat split; reflexivity. Qed.

(* the node reorganised back to its bare genesis while the wallet is ahead (the other case the
   [safe_point] premise excluded): Start announces the genesis block, the wallet rolls back *)
Example C06_bare_genesis_restart :
  let pr1 := prun p0 (init_proc g0) [EvOwner 9 1; EvAttach blk1; EvProcess blk1; EvDetach] in
  ~ safe_point g0 2000 pr1 /\
  match restart p0 true 2000 g0 pr1 with
  | Some pr2 => synced (s_wallet (pr_sim pr2)) = [(0, 0%N)] /\ r_total (observe pr1 1%N) = 5 /\
                observe pr2 1%N = spec_report p0 (own_of (s_own (pr_sim pr2))) [g0] 1%N
  | None => False
  end.
Proof.
  cbv zeta. split.
  - intros [_ [H|H]]; [apply H; vm_compute; reflexivity|vm_compute in H; discriminate].
  - vm_compute. repeat split; reflexivity.
Qed.

(* ---------------------------------------------------------------- Start as repaired a second time *)

(* Ledger/Crash3.v: [start_chk] = Start with both repairs: the tip check of the first one, and the
   fast-forward taken only on top of a stored tip that is still on the node's chain (otherwise the
   block of height syncHeight+1 goes through processConnectedBlock first; KNOWN_FINDINGS fixed: C06).
   [restart_chk], [crashes_chk], [crashes_at_chk], [crash_run_chk] as in Crash.v / Crash2.v.  Proofs:
   Ledger/CrashProofs3.v.  With this repair the [on_chain] half of [safe_point] is no longer needed:
   T2 and T3 hold at EVERY crash point but the bare-genesis one ([not_bare_genesis], which T6r-T8r
   cover under [genesis_prev_free]). *)
Require Import MW.Ledger.Crash3 MW.Ledger.CrashProofs3.

(* T2r: a run with one crash IS a run of the process that never stops, on the history with the
   restart's announcements inserted at the crash point — fast-forward or not, the node reorganised
   below the stored tip or not *)
Theorem C06_crash_is_history_repaired : forall p ff g h bt k,
  0 <= ff ->
  wf_history_gen p true g (h ++ [EvProcess bt]) ->
  not_bare_genesis g (fst (fst (cut p k (init_proc g) h))) ->
  crash_run_chk p ff g k h = Some (prun p (init_proc g) (crash_history p true g k h)).
Proof. exact crash_is_history_chk. Qed.
Print Assumptions C06_crash_is_history_repaired.

(* T3r: the restarted wallet is on the node's tip as soon as Start has returned *)
Theorem C06_restart_on_tip_repaired : forall p ff g h bt k pr1 pre post,
  0 <= ff ->
  wf_history_gen p true g (h ++ [EvProcess bt]) ->
  cut p k (init_proc g) h = (pr1, pre, post) -> not_bare_genesis g pr1 ->
  exists pr2, restart_chk p ff g pr1 = Some pr2 /\
    snd (tip (s_wallet (pr_sim pr2))) = b_id (last (s_node (pr_sim pr1)) g) /\
    s_node (pr_sim pr2) = s_node (pr_sim pr1).
Proof. exact restart_on_tip_chk. Qed.
Print Assumptions C06_restart_on_tip_repaired.

(* T6r = C06 for the code as repaired: every commit boundary of every history as the crash point,
   repeated crashes included, NO premise on the crash points *)
Theorem C06_crash_equiv_repaired : forall p ff g h bt ks,
  0 <= ff ->
  wf_history_gen p true g (h ++ [EvProcess bt]) ->
  last (s_node (run p true g h)) g = bt ->
  genesis_prev_free g (g :: blocks_of_history (h ++ [EvProcess bt])) ->
  exists pr', crashes_chk p ff g ks (init_proc g) h = Some pr' /\
    forall w, observe (finish p g pr') w = observe (finish p g (prun p (init_proc g) h)) w /\
              observe (finish p g pr') w =
              spec_report p (own_of (s_own (run p true g h))) (s_node (run p true g h)) w.
Proof. exact crash_equiv_chk. Qed.
Print Assumptions C06_crash_equiv_repaired.

(* T7r: crashes at ARBITRARY instants (the node moves during the outage) *)
Theorem C06_crash_equiv_at_repaired : forall p ff g h bt js,
  0 <= ff ->
  wf_history_gen p true g (h ++ [EvProcess bt]) ->
  last (s_node (run p true g h)) g = bt ->
  genesis_prev_free g (g :: blocks_of_history (h ++ [EvProcess bt])) ->
  exists pr', crashes_at_chk p ff g js (init_proc g) h = Some pr' /\
    forall w, observe (finish p g pr') w = observe (finish p g (prun p (init_proc g) h)) w /\
              observe (finish p g pr') w =
              spec_report p (own_of (s_own (run p true g h))) (s_node (run p true g h)) w.
Proof. exact crash_equiv_at_chk. Qed.
Print Assumptions C06_crash_equiv_at_repaired.

(* T8r: restart at ANY point of a history, after any earlier crashes *)
Theorem C06_restart_any_chain_repaired : forall p ff g h bt ks pre post pr1,
  0 <= ff ->
  wf_history_gen p true g (h ++ [EvProcess bt]) ->
  genesis_prev_free g (g :: blocks_of_history (h ++ [EvProcess bt])) ->
  h = pre ++ post ->
  crashes_chk p ff g ks (init_proc g) pre = Some pr1 ->
  s_node (pr_sim pr1) = s_node (run p true g pre) /\ s_own (pr_sim pr1) = s_own (run p true g pre) /\
  exists pr2, restart_chk p ff g pr1 = Some pr2 /\
    s_node (pr_sim pr2) = s_node (pr_sim pr1) /\ s_own (pr_sim pr2) = s_own (pr_sim pr1) /\
    snd (tip (s_wallet (pr_sim pr2))) = b_id (last (s_node (pr_sim pr1)) g) /\
    forall w, observe pr2 w = spec_report p (own_of (s_own (pr_sim pr1))) (s_node (pr_sim pr1)) w.
Proof. exact restart_any_chain_chk. Qed.
Print Assumptions C06_restart_any_chain_repaired.

(* the crash point of [C06_stale_fork_hypotheses] (not a [safe_point]: Start as found fast-forwards over
   the abandoned block 1) satisfies the premise of T2r/T3r; Start as repaired finds the stored tip
   replaced, sends block 2c through the reorganisation path, and the sync records are the node's chain *)
Example C06_stale_fork_restart_repaired :
  let pr1 := prun p0 (init_proc g0) h_sf1 in
  not_bare_genesis g0 pr1 /\ ff_wanted 1 pr1 = true /\ tip_on_node pr1 = false /\
  match restart_chk p0 1 g0 pr1 with
  | Some pr2 => synced (s_wallet (pr_sim pr2)) = [(4, 14%N); (3, 13%N); (2, 12%N); (1, 11%N); (0, 0%N)]
  | None => False
  end /\
  match restart p0 true 1 g0 pr1 with
  | Some pr2 => synced (s_wallet (pr_sim pr2)) = [(4, 14%N); (3, 13%N); (2, 12%N); (1, 1%N); (0, 0%N)]
  | None => False
  end.
Proof.
  cbv zeta. split; [left; vm_compute; discriminate|]. vm_compute. repeat split; reflexivity.
Qed.

(* ---------------------------------------------------------------- T9-T10: the steps of the background tasks resume *)

(* Model: Ledger/Import.v, Ledger/Remove.v (the multi-wallet store: persistent fields and the
   volatile ones a crash loses, [x_dead] and [x_p1]) and Ledger/Resume.v: the background task of
   wallet w at commit granularity — [SBatch n]: one asyncImport batch (cursor in the status
   record), [SStep n all]: the next commit of asyncRemove (phase 1 if not yet done in this process
   run, else one phase-2 round), [SProc n b]: the handler processes the announcement of b (live or
   by Start's catch-up), every step with its own node chain n (the chain may move at any time),
   [SReopen]: crash + reopen ([xreopen] = the state XRestart of Remove.v starts from);
   [erase false es] = the run that never crashed (the crashes dropped and, for a removal, the
   phase 1 that the re-created task redoes); [peq a b] = a and b have the same persistent state. *)
Require Import MW.Ledger.Import MW.Ledger.Remove MW.Ledger.RemoveProofs MW.Ledger.ImportProofs.
Require Import MW.Ledger.Resume MW.Ledger.ResumeProofs.
Require MW.Ledger.ResumeExamples.

(* T9: a restore interrupted by crashes after ANY of its committed batches (any number of crashes,
   any batch size B, any store, the node's chain different at every step, announcements processed
   in between — the chain moved during the outage and Start caught up): same persistent state as
   the restore that was never interrupted.  Premises: the repaired worker (a failed batch is
   retried, not dropped) and the task has not been dropped before. *)
Theorem C06_import_resumes : forall fx p B cap w es st,
  f_import_retry fx = true -> memN w (x_dead st) = false ->
  (forall e, In e es -> is_step e = false) ->
  peq (srun fx p B cap w st es) (srun fx p B cap w st (filter (fun e => negb (is_reopen e)) es)).
Proof. exact import_resumes. Qed.
Print Assumptions C06_import_resumes.

(* ... and in the event system of C07/C08 with the REAL restart (reopen + Start), on a static
   well-formed chain, for the code as found as well: any interleaving of batches and restarts is
   the uninterrupted rescan with the same number of batches; no restart fails; after enough
   batches the wallet is ready with exactly the ledger of a wallet that followed the chain live *)
Theorem C06_import_resumes_xrun : forall fx p B cap c w own st0 es all,
  wf_chain c -> 0 < B -> importing p c w own 0 st0 ->
  (forall e, In e es -> e = XBatch w \/ e = XRestart) ->
  let s := fold_left (xstep fx p B cap) es {| xs_node := c; xs_st := st0; xs_all := all; xs_crashed := false |} in
  (peq (xs_st s) (batches fx p B c st0 w (count_batches w es)) /\ xs_crashed s = false /\ xs_node s = c) /\
  (chain_height c < Z.of_nat (count_batches w es) * B ->
   Import.status_of (xs_st s) w = Some Import.WReady /\
   ledger_of_chain p true own c = Ok (x_w (xs_st s)) /\
   xreport (xs_st s) w = spec_report p own c w).
Proof. exact import_resumes_xrun_both. Qed.
Print Assumptions C06_import_resumes_xrun.

(* T10: a removal interrupted by crashes after phase 1 or after ANY of its committed rounds (any
   number of crashes, any cap, any store, announcements processed in between): same persistent
   state as the removal that was never interrupted; if that one has erased the wallet so has the
   interrupted one, and everything observable agrees.  Premise when announcements are processed
   in between: the repaired Rollback (as found, a reorganisation during the removal re-creates
   rows of the wallet which only a restarted task deletes: ResumeExamples.removal_as_found_rollback_refuted) *)
Theorem C06_removal_resumes : forall fx p B cap w es st0,
  f_rollback fx = true ->
  Import.status_of st0 w = Some Import.WRemoving -> is_some (lookupN (x_pass st0) w) = true ->
  (forall e, In e es -> is_batch e = false) ->
  let crashed := srun fx p B cap w (remove_phase1 st0 w) es in
  let straight := srun fx p B cap w (remove_phase1 st0 w) (erase false es) in
  peq crashed straight /\
  (Import.status_of straight w = None -> Import.status_of crashed w = None) /\
  (forall shs, mentions crashed w shs = mentions straight w shs) /\
  (forall v, xreport crashed v = xreport straight v).
Proof. exact removal_resumes. Qed.
Print Assumptions C06_removal_resumes.

(* ... with no announcement processed in between: the code as found as well *)
Theorem C06_removal_resumes_static : forall fx p B cap w es st0,
  Import.status_of st0 w = Some Import.WRemoving -> is_some (lookupN (x_pass st0) w) = true ->
  (forall e, In e es -> is_batch e = false /\ is_proc e = false) ->
  let crashed := srun fx p B cap w (remove_phase1 st0 w) es in
  let straight := srun fx p B cap w (remove_phase1 st0 w) (erase false es) in
  peq crashed straight /\
  (Import.status_of straight w = None -> Import.status_of crashed w = None) /\
  (forall shs, mentions crashed w shs = mentions straight w shs) /\
  (forall v, xreport crashed v = xreport straight v).
Proof. exact removal_resumes_static. Qed.
Print Assumptions C06_removal_resumes_static.

(* both at once, any mix of steps *)
Theorem C06_task_resumes : forall fx p B cap w es st,
  f_import_retry fx = true -> f_rollback fx = true -> memN w (x_dead st) = false ->
  (Import.status_of st w = Some Import.WRemoving ->
     memN w (x_p1 st) = true /\ no_residue st w /\ is_some (lookupN (x_pass st) w) = true) ->
  peq (srun fx p B cap w st es) (srun fx p B cap w st (erase false es)).
Proof. exact task_resumes. Qed.
Print Assumptions C06_task_resumes.

(* the task is re-created: the queue Start rebuilds from the status records ([rebuild_queue] =
   initTaskChan; true = removal) holds exactly the wallets still importing / flagged for removal,
   and depends on the persistent state only *)
Theorem C06_queue_rebuilt : forall st w, NoDup (map fst (x_status st)) ->
  ((In (w, false) (rebuild_queue st) <-> exists k, Import.status_of st w = Some (Import.WImporting k)) /\
   (In (w, true) (rebuild_queue st) <-> Import.status_of st w = Some Import.WRemoving)) /\
  rebuild_queue (xreopen st) = rebuild_queue st.
Proof. exact queue_rebuilt. Qed.
Print Assumptions C06_queue_rebuilt.

(* non-vacuity (Ledger/ResumeExamples.v): a restore with batch size 2 crashed after its first batch,
   block 5 processed by the catch-up; a removal with cap 1 of a wallet owning three credits crashed
   after round 1 and after round 2, block 4 processed in between *)
Example C06_import_resumes_example :
  let crashed := srun repaired ResumeExamples.p0 2 1 1 ResumeExamples.st_imp ResumeExamples.es_imp in
  let straight := srun repaired ResumeExamples.p0 2 1 1 ResumeExamples.st_imp (erase false ResumeExamples.es_imp) in
  (forall e, In e ResumeExamples.es_imp -> is_step e = false) /\
  Import.status_of (srun repaired ResumeExamples.p0 2 1 1 ResumeExamples.st_imp [SBatch ResumeExamples.chain5]) 1 = Some (Import.WImporting 2) /\
  crashed = straight /\ Import.status_of crashed 1 = Some Import.WReady /\
  xreport crashed 1 = spec_report ResumeExamples.p0 (key_owner crashed) ResumeExamples.chain6 1.
Proof.
  cbv zeta. split; [intros e He; repeat (destruct He as [<-|He]; [reflexivity|]); destruct He|].
  vm_compute. repeat split; reflexivity.
Qed.

Example C06_removal_resumes_example :
  let st0 := xs_st ResumeExamples.s_rm in
  let run := srun repaired ResumeExamples.p0 2 1 1 (remove_phase1 st0 1) in
  Import.status_of st0 1 = Some Import.WRemoving /\ is_some (lookupN (x_pass st0) 1) = true /\
  (forall e, In e ResumeExamples.es_rm -> is_batch e = false) /\
  x_p1 (remove_phase1 st0 1) = [1%N] /\
  ResumeExamples.wcredits (remove_phase1 st0 1) 1 = 3%nat /\
  run ResumeExamples.es_rm = run (erase false ResumeExamples.es_rm) /\
  Import.status_of (run ResumeExamples.es_rm) 1 = None /\ mentions (run ResumeExamples.es_rm) 1 [1%N] = false.
Proof.
  cbv zeta. split; [vm_compute; reflexivity|]. split; [vm_compute; reflexivity|].
  split; [intros e He; repeat (destruct He as [<-|He]; [reflexivity|]); destruct He|].
  vm_compute. repeat split; reflexivity.
Qed.

(* ---------------------------------------------------------------- the fast-forward while a wallet is being imported *)

(* Start's fast-forward on the multi-wallet layer ([start_sync_ff], Ledger/ResumeFF.v: SetSyncedTo
   for all but the last ff heights when no wallet is READY, then Remove.v's Start; the switch
   [f_ff_check] of Import.v's [fixes]: false = the code as found, true = as repaired: the stored
   tip is compared with the node's block of that height first, and if it was replaced the next
   block goes through processConnectedBlock before anything is fast-forwarded).
   The code as found ([before_ff_check]: the repairs made until the defect was found, not this one; with
   asyncImport's later chain check and without this repair the same restart leaves the rescan retrying
   for ever instead — observed on the real code).  Batch size 2,
   ff = 2: the wallet is restored on chain A (blocks 1 and 2 pay it 5 and 7); the process stops after
   the first rescan batch (cursor 2); the node abandons blocks 2..4 and grows to height 8 on a
   branch that never pays the wallet; restart: the fast-forward writes the node's sync records on
   top of the abandoned ones, the coin of the abandoned block 2 stays, the cursor stays at 2, the
   rescan finishes: the wallet is ready and reports 12 where the chain pays 5.  Without the
   fast-forward (ff = 2000) the same restart processes the reorganisation and ends correct.
   Reproduced on the real code (batch 1000 / ff 2000) by the import-only family of harness/cmd/c06
   (chain of 1092 blocks, crash between the two rescan batches, node reorganised at 873 and grown to
   3120 while the wallet is down); repaired in /repo. *)
Require MW.Ledger.ResumeFF MW.Ledger.ResumeFFProofs.
Require Import MW.Ledger.Proofs4 MW.Ledger.ImportProofs MW.Ledger.ImportProofs2.
Theorem C06_ff_stale_import_refuted :
  Import.status_of ResumeFF.stF1 1 = Some (Import.WImporting 2) /\ ResumeFF.has_ready ResumeFF.stF1 = false /\
  synced (x_w ResumeFF.stF1) = [(4, 4%N); (3, 3%N); (2, 2%N); (1, 1%N); (0, 0%N)] /\
  ResumeFF.tip_on_node ResumeFF.chainC (xreopen ResumeFF.stF1) = false /\
  ResumeFF.start_sync_ff ResumeFF.before_ff_check ResumeFF.pF 2 ResumeFF.chainC (xreopen ResumeFF.stF1)
    = XOk (ResumeFF.stF2 ResumeFF.before_ff_check 2) /\
  synced (x_w (ResumeFF.stF2 ResumeFF.before_ff_check 2)) =
    [(8, 18%N); (7, 17%N); (6, 16%N); (5, 15%N); (4, 4%N); (3, 3%N); (2, 2%N); (1, 1%N); (0, 0%N)] /\
  Import.status_of (ResumeFF.stF2 ResumeFF.before_ff_check 2) 1 = Some (Import.WImporting 2) /\
  Import.status_of (ResumeFF.stF3 ResumeFF.before_ff_check 2) 1 = Some Import.WReady /\
  fst (tip (x_w (ResumeFF.stF3 ResumeFF.before_ff_check 2))) = 8 /\
  r_total (xreport (ResumeFF.stF3 ResumeFF.before_ff_check 2) 1) = 12 /\
  r_total (spec_report ResumeFF.pF (key_owner (ResumeFF.stF3 ResumeFF.before_ff_check 2)) ResumeFF.chainC 1) = 5 /\
  Import.status_of (ResumeFF.stF2 ResumeFF.before_ff_check 2000) 1 = Some (Import.WImporting 1) /\
  Import.status_of (ResumeFF.stF3 ResumeFF.before_ff_check 2000) 1 = Some Import.WReady /\
  xreport (ResumeFF.stF3 ResumeFF.before_ff_check 2000) 1 =
    spec_report ResumeFF.pF (key_owner (ResumeFF.stF3 ResumeFF.before_ff_check 2000)) ResumeFF.chainC 1 /\
  (* [tipcheck_no_ff_check]: with asyncImport's chain check, the code right before this repair: the same
     fast-forward, then every batch is refused: the wallet stays "importing" for ever *)
  synced (x_w (ResumeFF.stF2 ResumeFF.tipcheck_no_ff_check 2)) = synced (x_w (ResumeFF.stF2 ResumeFF.before_ff_check 2)) /\
  snd (import_batch ResumeFF.tipcheck_no_ff_check ResumeFF.pF 2 ResumeFF.chainC (ResumeFF.stF2 ResumeFF.tipcheck_no_ff_check 2) 1) = IRetry /\
  Import.status_of (ResumeFF.stF3 ResumeFF.tipcheck_no_ff_check 2) 1 = Some (Import.WImporting 2).
Proof. exact ResumeFF.ff_stale_import_refuted. Qed.
Print Assumptions C06_ff_stale_import_refuted.

(* the same crash and the same margin on the code as repaired: block 15 (height 5) goes through the
   reorganisation path (rollback to the fork at height 1, cursor pulled back to 1), the rest as before;
   the rescan finishes and the report is the specification *)
Example C06_ff_stale_import_repaired :
  ResumeFF.start_sync_ff repaired ResumeFF.pF 2 ResumeFF.chainC (xreopen ResumeFF.stF1) = XOk (ResumeFF.stF2 repaired 2) /\
  synced (x_w (ResumeFF.stF2 repaired 2)) =
    [(8, 18%N); (7, 17%N); (6, 16%N); (5, 15%N); (4, 14%N); (3, 13%N); (2, 12%N); (1, 1%N); (0, 0%N)] /\
  Import.status_of (ResumeFF.stF2 repaired 2) 1 = Some (Import.WImporting 1) /\
  Import.status_of (ResumeFF.stF3 repaired 2) 1 = Some Import.WReady /\
  r_total (xreport (ResumeFF.stF3 repaired 2) 1) = 5 /\
  xreport (ResumeFF.stF3 repaired 2) 1 = spec_report ResumeFF.pF (key_owner (ResumeFF.stF3 repaired 2)) ResumeFF.chainC 1.
Proof. exact ResumeFF.ff_stale_import_repaired. Qed.

(* T11 = C06 for a restore in progress, Start with its fast-forward as repaired (proofs:
   Ledger/ResumeFFProofs.v over C07's invariant [xinv p g U w keys c st] of Ledger/ImportProofs2.v:
   the handler follows the chain c and the store holds exactly the history of wallet w on c up to the
   rescan cursor).
   From ANY such state — any cursor, the handler's chain c and the node's chain n ANY two well-formed
   chains on the same genesis (the node reorganised at any depth below, at or above the cursor, grown
   or shrunk while the process was down; n not a bare genesis), any margin ff >= 0: Start succeeds
   and the handler then follows the node's chain, the store holding exactly the wallet's history of
   THAT chain up to the (pulled-back) cursor.  No premise on the crash point. *)
Theorem C06_ff_restart_any_chain : forall p g U w keys ff c n st,
  (forall b1 b2, In b1 U -> In b2 U -> b_id b1 = b_id b2 -> b1 = b2) ->
  (forall sh v, lookupN keys sh = Some v -> v = w) ->
  0 <= ff -> ninv g U n -> (2 <= length n)%nat -> xinv p g U w keys c st ->
  exists st', ResumeFF.start_sync_ff repaired p ff n (xreopen st) = XOk st' /\ xinv p g U w keys n st'.
Proof. exact ResumeFFProofs.ff_restart_any_chain. Qed.
Print Assumptions C06_ff_restart_any_chain.

(* T12: the same after any history: a wallet is being restored; the node and the handler do whatever
   C07's event system allows (blocks attached and detached at any depth, announcements of any block
   processed or still outstanding, rescan batches: [xwf]); at ANY point the process stops and is
   restarted on the same store, the node being where it is.  Start as repaired (fast-forward, any
   margin): succeeds, the handler is on the node's tip, and m further rescan batches make the wallet
   ready — as soon as cursor + m * B exceeds the height of the node's chain — with exactly the
   ledger and the report of the node's chain: the state of a run that never stopped. *)
Theorem C06_ff_restart_resumes : forall p g U w pass sh shs B cap n0 h ff m,
  (forall b1 b2, In b1 U -> In b2 U -> b_id b1 = b_id b2 -> b1 = b2) -> 0 < B -> 0 <= ff ->
  wf_chain n0 -> from_g g n0 -> incl n0 U ->
  xwf p g U w B cap (xrun repaired p B cap n0 [XImportStart w pass (sh :: shs)]) h ->
  let s := xrun repaired p B cap n0 (XImportStart w pass (sh :: shs) :: h) in
  let own := kown w (keys_of w (sh :: shs)) in
  (2 <= length (xs_node s))%nat ->
  exists st', ResumeFF.start_sync_ff repaired p ff (xs_node s) (xreopen (xs_st s)) = XOk st' /\
    snd (tip (x_w st')) = b_id (last (xs_node s) g) /\
    ((forall k, Import.status_of st' w = Some (Import.WImporting k) -> chain_height (xs_node s) < k + Z.of_nat m * B) ->
     let st'' := batches repaired p B (xs_node s) st' w m in
     Import.status_of st'' w = Some Import.WReady /\
     ledger_of_chain p true own (xs_node s) = Ok (x_w st'') /\
     xreport st'' w = spec_report p own (xs_node s) w).
Proof. exact ResumeFFProofs.ff_restart_moving. Qed.
Print Assumptions C06_ff_restart_resumes.

(* non-vacuity of T12 on the history of the witness above: restore on chain A, one batch (B = 2, cursor
   2), the node abandons blocks 2..4 and grows to height 8 (chain C); every premise holds, the restart
   is one that takes the fast-forward branch (no wallet ready, ff = 1 < 8, the stored tip 4 + 1 < 8 - 1)
   over a stored tip that is NOT on the node's chain, and 4 batches finish the restore with the
   report 5 that chain C pays *)
Definition U_ff : list block := ResumeFF.chainA ++ skipn 2 ResumeFF.chainC.
Definition hist_ff : list xevent :=
  [XBatch 1; XDetach; XDetach; XDetach] ++ map XAttach (skipn 2 ResumeFF.chainC).

Example C06_ff_restart_instance :
  (forall b1 b2, In b1 U_ff -> In b2 U_ff -> b_id b1 = b_id b2 -> b1 = b2) /\
  wf_chain ResumeFF.chainA /\ from_g ResumeFF.gF ResumeFF.chainA /\ incl ResumeFF.chainA U_ff /\
  xwf ResumeFF.pF ResumeFF.gF U_ff 1 2 20000 (xrun repaired ResumeFF.pF 2 20000 ResumeFF.chainA [XImportStart 1 7 [1%N]]) hist_ff /\
  let s := xrun repaired ResumeFF.pF 2 20000 ResumeFF.chainA (XImportStart 1 7 [1%N] :: hist_ff) in
  xs_node s = ResumeFF.chainC /\ xreopen (xs_st s) = xreopen ResumeFF.stF1 /\
  ResumeFF.has_ready (xs_st s) = false /\ ResumeFF.tip_on_node (xs_node s) (xreopen (xs_st s)) = false /\
  match ResumeFF.start_sync_ff repaired ResumeFF.pF 1 (xs_node s) (xreopen (xs_st s)) with
  | XOk st' =>
      synced (x_w st') = [(8, 18%N); (7, 17%N); (6, 16%N); (5, 15%N); (4, 14%N); (3, 13%N); (2, 12%N); (1, 1%N); (0, 0%N)] /\
      Import.status_of st' 1 = Some (Import.WImporting 1) /\
      r_total (xreport (batches repaired ResumeFF.pF 2 (xs_node s) st' 1 4) 1) = 5
  | _ => False
  end.
Proof.
  split; [apply ids_b_sound; vm_compute; reflexivity|].
  split; [apply wf_chain_b_sound; vm_compute; reflexivity|].
  split; [eexists; reflexivity|].
  split; [apply incl_appl; apply incl_refl|].
  split; [apply xwf_b_sound; vm_compute; reflexivity|].
  vm_compute. repeat split; reflexivity.
Qed.

(* ================================================================== T13-T16: crashes INSIDE the multi-wallet restore histories of C07
   (Ledger/CrashProofs4.v)

   The setting of C07_import_equals_live_multi / C07_two_imports_equal_live (Properties/C07.v): a database that
   holds any number of ready wallets which followed the chain live ([minv p g U w keys0 c0 st0], w absent:
   C07_multi_start / C07_reachable_start give it), transactions shared between wallets; one wallet — or two,
   concurrently — is restored; histories of C07's events [xwf] / [xwf2] (the node connects, disconnects,
   re-connects blocks; announcements: extensions, reorganisations with the cursor pull-back, roll-backs;
   rescan batches that find the node wherever it is).
   NEW: a history is a list of [cev]: [CEv e], an event of those histories, or [CRestart ff]: the process stops
   — the volatile fields [x_dead], [x_p1] and the handler's state are lost ([xreopen]) — and is started again on
   the same store with the node wherever it is: [CRestart None] runs Remove.v's Start (catch-up by height, tip
   check; it IS xstep's XRestart: [crestart_none]), [CRestart (Some ff)] runs Start with its fast-forward of margin
   ff as repaired ([ResumeFF.start_sync_ff]).  What the node does while the wallet is down are the XAttach /
   XDetach events before the restart: any number, any depth.  [cwf] / [cwf2]: the environment assumption event by
   event = [ev_ok] / [ev_ok2] of C07 for [CEv e], and for a restart [restart_ok]: ff >= 0 and [node_ok]: the node is
   not on a bare genesis (the exclusion of C06_ff_restart_any_chain) — or it may be, under the environment
   assumption of T6-T8 ([Crash2.genesis_prev_free g U]: the genesis block's previous-hash field, the zero hash, is
   no other block's hash).  NO premise on where the crashes are: between any
   two commits (batches of either wallet, announcements, reorganisations), any number of them, also before the
   first batch (right after the status row was written) and one right after another.
   [rebuild_queue] (Ledger/Resume.v) = initTaskChan: the queue Start rebuilds from the status rows. *)
Require Import MW.Ledger.ImportProofs3 MW.Ledger.ImportProofs6 MW.Ledger.CrashProofs4.

(* T13: Start after a crash, on the invariant: ONE wallet being restored beside ready ones (any cursor), the
   handler having followed ANY chain c, the node on ANY chain n ([node_ok]: not a bare genesis, or any chain at
   all when the genesis block's previous-hash field is no block's hash) when the process comes
   back — reorganised at any depth below, at or above the cursor, grown or shrunk —, either form of Start:
   succeeds, and the handler then follows n with the invariant: w's credits are exactly those of n up to the
   (pulled-back) cursor, everybody else's exactly those of all of n. *)
Theorem C06_restart_any_chain_multi : forall p g U, (forall b1 b2, In b1 U -> In b2 U -> b_id b1 = b_id b2 -> b1 = b2) ->
  forall w keysA ff c n st, ff_ok ff -> ninv g U n -> node_ok g U n -> minv p g U w keysA c st ->
  exists st', start_of p ff n (xreopen st) = XOk st' /\ minv p g U w keysA n st'.
Proof. exact restart_minv. Qed.
Print Assumptions C06_restart_any_chain_multi.

(* ... and with TWO wallets being restored, each with a cursor of its own, on whatever forks the cursors were
   reached: both are pulled back below the fork by the same Start *)
Theorem C06_restart_any_chain_two : forall p g U, (forall b1 b2, In b1 U -> In b2 U -> b_id b1 = b_id b2 -> b1 = b2) ->
  forall w1 w2, w1 <> w2 -> forall keysA ff c n st, ff_ok ff -> ninv g U n -> node_ok g U n ->
  minv2 p g U w1 w2 keysA c st ->
  exists st', start_of p ff n (xreopen st) = XOk st' /\ minv2 p g U w1 w2 keysA n st'.
Proof. exact restart_minv2. Qed.
Print Assumptions C06_restart_any_chain_two.

(* T14: ONE restore, any history with crashes.  At EVERY point: the invariant ([sinv_m]: also "the process is
   up": no restart failed, nothing panicked); in step with w handed over the WHOLE database is the live run of
   all wallets over the node's chain ([equals_live_all], C07); while w is not ready it cannot be selected, and
   it is in the queue Start rebuilds — the restore is resumed —, a queue that depends on the persistent state
   only; the task is never dropped. *)
Theorem C06_crash_during_import_multi : forall p g U, (forall b1 b2, In b1 U -> In b2 U -> b_id b1 = b_id b2 -> b1 = b2) ->
  forall w keys0 B cap, 0 < B -> forall pass sh shs c0 n0 all0 st0 st1,
  ninv g U n0 -> minv p g U w keys0 c0 st0 -> Import.status_of st0 w = None -> (forall s, ownW w keys0 s = None) ->
  (forall s, In s (sh :: shs) -> lookupN keys0 s = None) ->
  import_start st0 w pass (sh :: shs) = Some st1 ->
  forall h, cwf p g U B cap w {| xs_node := n0; xs_st := st1; xs_all := all0; xs_crashed := false |} h ->
  let s := crun p B cap h {| xs_node := n0; xs_st := st1; xs_all := all0; xs_crashed := false |} in
  sinv_m p g U w (keys0 ++ keys_of w (sh :: shs)) s /\
  (in_step g s -> Import.status_of (xs_st s) w = Some Import.WReady -> equals_live_all p (xs_st s) (xs_node s)) /\
  (Import.status_of (xs_st s) w <> Some Import.WReady ->
     use_wallet (xs_st s) w = UUnready /\ In (w, false) (rebuild_queue (xs_st s)) /\
     rebuild_queue (xreopen (xs_st s)) = rebuild_queue (xs_st s)) /\
  x_dead (xs_st s) = [] /\ xs_crashed s = false.
Proof. exact crash_during_import_multi. Qed.
Print Assumptions C06_crash_during_import_multi.

(* every restart of such a history: Start returns without error (the wallet opens) and the handler is IN STEP *)
Theorem C06_crash_restart_in_step : forall p g U, (forall b1 b2, In b1 U -> In b2 U -> b_id b1 = b_id b2 -> b1 = b2) ->
  forall w keys0 B cap, 0 < B -> forall pass sh shs c0 n0 all0 st0 st1,
  ninv g U n0 -> minv p g U w keys0 c0 st0 -> Import.status_of st0 w = None -> (forall s, ownW w keys0 s = None) ->
  import_start st0 w pass (sh :: shs) = Some st1 ->
  forall h ff, cwf p g U B cap w {| xs_node := n0; xs_st := st1; xs_all := all0; xs_crashed := false |} (h ++ [CRestart ff]) ->
  let s1 := crun p B cap h {| xs_node := n0; xs_st := st1; xs_all := all0; xs_crashed := false |} in
  let s := crun p B cap (h ++ [CRestart ff]) {| xs_node := n0; xs_st := st1; xs_all := all0; xs_crashed := false |} in
  start_of p ff (xs_node s1) (xreopen (xs_st s1)) = XOk (xs_st s) /\ xs_node s = xs_node s1 /\
  in_step g s /\ minv p g U w (keys0 ++ keys_of w (sh :: shs)) (xs_node s) (xs_st s).
Proof. exact crash_restart_in_step. Qed.
Print Assumptions C06_crash_restart_in_step.

(* liveness after any history with crashes: in step (e.g. right after a restart), chain static, m batches: w is ready
   as soon as cursor + m * B exceeds the height, and the database is the live run of all wallets *)
Theorem C06_crash_import_live : forall p g U, (forall b1 b2, In b1 U -> In b2 U -> b_id b1 = b_id b2 -> b1 = b2) ->
  forall w keys0 B cap, 0 < B -> forall pass sh shs c0 n0 all0 st0 st1,
  ninv g U n0 -> minv p g U w keys0 c0 st0 -> Import.status_of st0 w = None -> (forall s, ownW w keys0 s = None) ->
  (forall s, In s (sh :: shs) -> lookupN keys0 s = None) ->
  import_start st0 w pass (sh :: shs) = Some st1 ->
  forall h m, cwf p g U B cap w {| xs_node := n0; xs_st := st1; xs_all := all0; xs_crashed := false |} h ->
  let s := crun p B cap h {| xs_node := n0; xs_st := st1; xs_all := all0; xs_crashed := false |} in
  in_step g s ->
  (forall k, Import.status_of (xs_st s) w = Some (Import.WImporting k) -> chain_height (xs_node s) < k + Z.of_nat m * B) ->
  let s' := crun p B cap (h ++ map CEv (repeat (XBatch w) m)) {| xs_node := n0; xs_st := st1; xs_all := all0; xs_crashed := false |} in
  xs_node s' = xs_node s /\ in_step g s' /\ Import.status_of (xs_st s') w = Some Import.WReady /\
  equals_live_all p (xs_st s') (xs_node s').
Proof. exact crash_import_live. Qed.
Print Assumptions C06_crash_import_live.

(* COROLLARY "exactly the state of a run that never stopped": hc a history WITH crashes, hx one WITHOUT (plain
   C07 history), from the same start; both end in step with the node on the same chain and w handed over: the
   same synced chain, the same credits — every wallet's, in the same order, with the same spent marks; the one
   credit list a permutation of the other —, the same reports for every wallet.  (Both equal the live ledger.) *)
Theorem C06_crash_run_equals_uninterrupted : forall p g U, (forall b1 b2, In b1 U -> In b2 U -> b_id b1 = b_id b2 -> b1 = b2) ->
  forall w keys0 B cap, 0 < B -> forall pass sh shs c0 n0 all0 st0 st1,
  ninv g U n0 -> minv p g U w keys0 c0 st0 -> Import.status_of st0 w = None -> (forall s, ownW w keys0 s = None) ->
  (forall s, In s (sh :: shs) -> lookupN keys0 s = None) ->
  import_start st0 w pass (sh :: shs) = Some st1 ->
  forall hc hx, cwf p g U B cap w {| xs_node := n0; xs_st := st1; xs_all := all0; xs_crashed := false |} hc ->
  xwf p g U w B cap {| xs_node := n0; xs_st := st1; xs_all := all0; xs_crashed := false |} hx ->
  let sc := crun p B cap hc {| xs_node := n0; xs_st := st1; xs_all := all0; xs_crashed := false |} in
  let sx := fold_left (xstep repaired p B cap) hx {| xs_node := n0; xs_st := st1; xs_all := all0; xs_crashed := false |} in
  xs_node sc = xs_node sx -> in_step g sc -> in_step g sx ->
  Import.status_of (xs_st sc) w = Some Import.WReady -> Import.status_of (xs_st sx) w = Some Import.WReady ->
  synced (x_w (xs_st sc)) = synced (x_w (xs_st sx)) /\
  Permutation.Permutation (credits (x_w (xs_st sc))) (credits (x_w (xs_st sx))) /\
  forall v, proj v (credits (x_w (xs_st sc))) = proj v (credits (x_w (xs_st sx))) /\
            xreport (xs_st sc) v = xreport (xs_st sx) v.
Proof. exact crash_run_equals_uninterrupted. Qed.
Print Assumptions C06_crash_run_equals_uninterrupted.

(* FRAME across crashes, absolute: at EVERY point of every history with crashes every OTHER wallet's credits —
   spent marks included — and report are those of the ledger of the keys the database had before the restore,
   over the chain the handler follows: neither the rescan nor any restart has touched them *)
Theorem C06_crash_frame_multi : forall p g U, (forall b1 b2, In b1 U -> In b2 U -> b_id b1 = b_id b2 -> b1 = b2) ->
  forall w keys0 B cap, 0 < B -> forall pass sh shs c0 n0 all0 st0 st1,
  ninv g U n0 -> minv p g U w keys0 c0 st0 -> Import.status_of st0 w = None -> (forall s, ownW w keys0 s = None) ->
  import_start st0 w pass (sh :: shs) = Some st1 ->
  forall h, cwf p g U B cap w {| xs_node := n0; xs_st := st1; xs_all := all0; xs_crashed := false |} h ->
  let s := crun p B cap h {| xs_node := n0; xs_st := st1; xs_all := all0; xs_crashed := false |} in
  exists c, wf_chain c /\ synced (x_w (xs_st s)) = Proofs.synced_of c /\
    forall v, v <> w ->
      proj v (credits (x_w (xs_st s))) = proj v (credits (Proofs.L p (lookupN keys0) c)) /\
      xreport (xs_st s) v = spec_report p (lookupN keys0) c v.
Proof. exact crash_frame_multi. Qed.
Print Assumptions C06_crash_frame_multi.

(* FRAME, relative: the SAME history — the same crashes and restarts — applied to the database in which w was
   never restored: same node, same synced chain, every other wallet the same credits, spent marks and report *)
Theorem C06_crash_frame_vs_no_import : forall p g U, (forall b1 b2, In b1 U -> In b2 U -> b_id b1 = b_id b2 -> b1 = b2) ->
  forall w keys0 B cap, 0 < B -> forall pass sh shs c0 n0 all0 st0 st1,
  ninv g U n0 -> minv p g U w keys0 c0 st0 -> Import.status_of st0 w = None -> (forall s, ownW w keys0 s = None) ->
  import_start st0 w pass (sh :: shs) = Some st1 ->
  forall all0' h, cwf p g U B cap w {| xs_node := n0; xs_st := st1; xs_all := all0; xs_crashed := false |} h ->
  let s := crun p B cap h {| xs_node := n0; xs_st := st1; xs_all := all0; xs_crashed := false |} in
  let s2 := crun p B cap h {| xs_node := n0; xs_st := st0; xs_all := all0'; xs_crashed := false |} in
  xs_node s = xs_node s2 /\ synced (x_w (xs_st s)) = synced (x_w (xs_st s2)) /\
  forall v, v <> w ->
    proj v (credits (x_w (xs_st s))) = proj v (credits (x_w (xs_st s2))) /\
    xreport (xs_st s) v = xreport (xs_st s2) v.
Proof. exact crash_frame_vs_no_import. Qed.
Print Assumptions C06_crash_frame_vs_no_import.

(* T15: TWO concurrent restores.  w1 is restored; ANY history h1 WITH CRASHES ([cwf]); while w1 may still be
   importing w2 is restored; then ANY history h2 with crashes ([cwf2]: batches of either wallet in any
   interleaving).  At every point: the two-cursor invariant ([sinv2]); in step and both handed over the whole
   database is the live run of all wallets; a wallet that is not ready cannot be selected and is in the rebuilt
   queue (BOTH unfinished restores are resumed); no task is dropped; no restart fails. *)
Theorem C06_crash_during_two_imports : forall p g U, (forall b1 b2, In b1 U -> In b2 U -> b_id b1 = b_id b2 -> b1 = b2) ->
  forall w1 w2, w1 <> w2 -> forall keys0 B cap, 0 < B ->
  forall pass1 sh1 shs1 pass2 sh2 shs2 c0 n0 all0 st0 st1,
  ninv g U n0 -> minv p g U w1 keys0 c0 st0 -> Import.status_of st0 w1 = None -> (forall s, ownW w1 keys0 s = None) ->
  (forall s, In s (sh1 :: shs1) -> lookupN keys0 s = None) ->
  import_start st0 w1 pass1 (sh1 :: shs1) = Some st1 ->
  forall h1, cwf p g U B cap w1 {| xs_node := n0; xs_st := st1; xs_all := all0; xs_crashed := false |} h1 ->
  let s1 := crun p B cap h1 {| xs_node := n0; xs_st := st1; xs_all := all0; xs_crashed := false |} in
  forall st2, import_start (xs_st s1) w2 pass2 (sh2 :: shs2) = Some st2 ->
  (forall s, In s (sh2 :: shs2) -> lookupN (keys0 ++ keys_of w1 (sh1 :: shs1)) s = None) ->
  let s1' := {| xs_node := xs_node s1; xs_st := st2; xs_all := xs_all s1; xs_crashed := false |} in
  forall h2, cwf2 p g U B cap w1 w2 s1' h2 ->
  let s := crun p B cap h2 s1' in
  sinv2 p g U w1 w2 ((keys0 ++ keys_of w1 (sh1 :: shs1)) ++ keys_of w2 (sh2 :: shs2)) s /\
  (in_step g s -> Import.status_of (xs_st s) w1 = Some Import.WReady -> Import.status_of (xs_st s) w2 = Some Import.WReady ->
     equals_live_all p (xs_st s) (xs_node s)) /\
  (forall v, v = w1 \/ v = w2 -> Import.status_of (xs_st s) v <> Some Import.WReady ->
     use_wallet (xs_st s) v = UUnready /\ In (v, false) (rebuild_queue (xs_st s)) /\
     rebuild_queue (xreopen (xs_st s)) = rebuild_queue (xs_st s)) /\
  x_dead (xs_st s) = [] /\ xs_crashed s = false.
Proof. exact crash_during_two_imports. Qed.
Print Assumptions C06_crash_during_two_imports.

(* every restart: Start returns without error, the handler is in step, BOTH cursors at or below the fork *)
Theorem C06_crash_restart_in_step_two : forall p g U, (forall b1 b2, In b1 U -> In b2 U -> b_id b1 = b_id b2 -> b1 = b2) ->
  forall w1 w2, w1 <> w2 -> forall keys0 B cap, 0 < B ->
  forall pass1 sh1 shs1 pass2 sh2 shs2 c0 n0 all0 st0 st1,
  ninv g U n0 -> minv p g U w1 keys0 c0 st0 -> Import.status_of st0 w1 = None -> (forall s, ownW w1 keys0 s = None) ->
  import_start st0 w1 pass1 (sh1 :: shs1) = Some st1 ->
  forall h1, cwf p g U B cap w1 {| xs_node := n0; xs_st := st1; xs_all := all0; xs_crashed := false |} h1 ->
  let s1 := crun p B cap h1 {| xs_node := n0; xs_st := st1; xs_all := all0; xs_crashed := false |} in
  forall st2, import_start (xs_st s1) w2 pass2 (sh2 :: shs2) = Some st2 ->
  let s1' := {| xs_node := xs_node s1; xs_st := st2; xs_all := xs_all s1; xs_crashed := false |} in
  forall h2 ff, cwf2 p g U B cap w1 w2 s1' (h2 ++ [CRestart ff]) ->
  let sa := crun p B cap h2 s1' in
  let s := crun p B cap (h2 ++ [CRestart ff]) s1' in
  start_of p ff (xs_node sa) (xreopen (xs_st sa)) = XOk (xs_st s) /\ xs_node s = xs_node sa /\
  in_step g s /\ minv2 p g U w1 w2 ((keys0 ++ keys_of w1 (sh1 :: shs1)) ++ keys_of w2 (sh2 :: shs2)) (xs_node s) (xs_st s).
Proof. exact crash_restart_in_step2. Qed.
Print Assumptions C06_crash_restart_in_step_two.

(* liveness after any history with crashes: in step, chain static, batches of the two wallets in any
   interleaving: w_i is ready once it has had m_i >= 1 batches with cursor_i + m_i * B >= height *)
Theorem C06_crash_two_imports_live : forall p g U, (forall b1 b2, In b1 U -> In b2 U -> b_id b1 = b_id b2 -> b1 = b2) ->
  forall w1 w2, w1 <> w2 -> forall keys0 B cap, 0 < B ->
  forall pass1 sh1 shs1 pass2 sh2 shs2 c0 n0 all0 st0 st1,
  ninv g U n0 -> minv p g U w1 keys0 c0 st0 -> Import.status_of st0 w1 = None -> (forall s, ownW w1 keys0 s = None) ->
  (forall s, In s (sh1 :: shs1) -> lookupN keys0 s = None) ->
  import_start st0 w1 pass1 (sh1 :: shs1) = Some st1 ->
  forall h1, cwf p g U B cap w1 {| xs_node := n0; xs_st := st1; xs_all := all0; xs_crashed := false |} h1 ->
  let s1 := crun p B cap h1 {| xs_node := n0; xs_st := st1; xs_all := all0; xs_crashed := false |} in
  forall st2, import_start (xs_st s1) w2 pass2 (sh2 :: shs2) = Some st2 ->
  (forall s, In s (sh2 :: shs2) -> lookupN (keys0 ++ keys_of w1 (sh1 :: shs1)) s = None) ->
  let s1' := {| xs_node := xs_node s1; xs_st := st2; xs_all := xs_all s1; xs_crashed := false |} in
  forall h2 vs, cwf2 p g U B cap w1 w2 s1' h2 ->
  let s := crun p B cap h2 s1' in
  in_step g s -> (forall v, In v vs -> v = w1 \/ v = w2) ->
  let s' := crun p B cap (h2 ++ map CEv (map XBatch vs)) s1' in
  xs_node s' = xs_node s /\ in_step g s' /\
  (forall v, v = w1 \/ v = w2 ->
     (forall k, Import.status_of (xs_st s) v = Some (Import.WImporting k) ->
                (0 < count_occ N.eq_dec vs v)%nat /\
                chain_height (xs_node s) <= k + Z.of_nat (count_occ N.eq_dec vs v) * B) ->
     Import.status_of (xs_st s') v = Some Import.WReady) /\
  (Import.status_of (xs_st s') w1 = Some Import.WReady -> Import.status_of (xs_st s') w2 = Some Import.WReady ->
     equals_live_all p (xs_st s') (xs_node s')).
Proof. exact crash_two_imports_live. Qed.
Print Assumptions C06_crash_two_imports_live.

(* COROLLARY "exactly the state of a run that never stopped", two restores *)
Theorem C06_crash_run_equals_uninterrupted_two : forall p g U, (forall b1 b2, In b1 U -> In b2 U -> b_id b1 = b_id b2 -> b1 = b2) ->
  forall w1 w2, w1 <> w2 -> forall keys0 B cap, 0 < B ->
  forall pass1 sh1 shs1 pass2 sh2 shs2 c0 n0 all0 st0 st1,
  ninv g U n0 -> minv p g U w1 keys0 c0 st0 -> Import.status_of st0 w1 = None -> (forall s, ownW w1 keys0 s = None) ->
  (forall s, In s (sh1 :: shs1) -> lookupN keys0 s = None) ->
  import_start st0 w1 pass1 (sh1 :: shs1) = Some st1 ->
  forall h1, cwf p g U B cap w1 {| xs_node := n0; xs_st := st1; xs_all := all0; xs_crashed := false |} h1 ->
  let s1 := crun p B cap h1 {| xs_node := n0; xs_st := st1; xs_all := all0; xs_crashed := false |} in
  forall st2, import_start (xs_st s1) w2 pass2 (sh2 :: shs2) = Some st2 ->
  (forall s, In s (sh2 :: shs2) -> lookupN (keys0 ++ keys_of w1 (sh1 :: shs1)) s = None) ->
  let s1' := {| xs_node := xs_node s1; xs_st := st2; xs_all := xs_all s1; xs_crashed := false |} in
  forall hc hx, cwf2 p g U B cap w1 w2 s1' hc -> xwf2 p g U w1 w2 B cap s1' hx ->
  let sc := crun p B cap hc s1' in
  let sx := fold_left (xstep repaired p B cap) hx s1' in
  xs_node sc = xs_node sx -> in_step g sc -> in_step g sx ->
  Import.status_of (xs_st sc) w1 = Some Import.WReady -> Import.status_of (xs_st sc) w2 = Some Import.WReady ->
  Import.status_of (xs_st sx) w1 = Some Import.WReady -> Import.status_of (xs_st sx) w2 = Some Import.WReady ->
  synced (x_w (xs_st sc)) = synced (x_w (xs_st sx)) /\
  Permutation.Permutation (credits (x_w (xs_st sc))) (credits (x_w (xs_st sx))) /\
  forall v, proj v (credits (x_w (xs_st sc))) = proj v (credits (x_w (xs_st sx))) /\
            xreport (xs_st sc) v = xreport (xs_st sx) v.
Proof. exact crash_run_equals_uninterrupted2. Qed.
Print Assumptions C06_crash_run_equals_uninterrupted_two.

(* FRAME across crashes, two restores: every wallet other than w1 and w2, at every point *)
Theorem C06_crash_two_imports_frame : forall p g U, (forall b1 b2, In b1 U -> In b2 U -> b_id b1 = b_id b2 -> b1 = b2) ->
  forall w1 w2, w1 <> w2 -> forall keys0 B cap, 0 < B ->
  forall pass1 sh1 shs1 pass2 sh2 shs2 c0 n0 all0 st0 st1,
  ninv g U n0 -> minv p g U w1 keys0 c0 st0 -> Import.status_of st0 w1 = None -> (forall s, ownW w1 keys0 s = None) ->
  import_start st0 w1 pass1 (sh1 :: shs1) = Some st1 ->
  forall h1, cwf p g U B cap w1 {| xs_node := n0; xs_st := st1; xs_all := all0; xs_crashed := false |} h1 ->
  let s1 := crun p B cap h1 {| xs_node := n0; xs_st := st1; xs_all := all0; xs_crashed := false |} in
  forall st2, import_start (xs_st s1) w2 pass2 (sh2 :: shs2) = Some st2 ->
  let s1' := {| xs_node := xs_node s1; xs_st := st2; xs_all := xs_all s1; xs_crashed := false |} in
  forall h2, cwf2 p g U B cap w1 w2 s1' h2 ->
  let s := crun p B cap h2 s1' in
  exists c, wf_chain c /\ synced (x_w (xs_st s)) = Proofs.synced_of c /\
    forall v, v <> w1 -> v <> w2 ->
      proj v (credits (x_w (xs_st s))) = proj v (credits (Proofs.L p (lookupN keys0) c)) /\
      xreport (xs_st s) v = spec_report p (lookupN keys0) c v.
Proof. exact crash_two_imports_frame. Qed.
Print Assumptions C06_crash_two_imports_frame.

(* ------------------------------------------------------------------ T16: closed instances (non-vacuity)

   The database of C07's shared-transaction example: wallet 1 (script hash 1) is live and ready.  Block 1's
   coinbase pays script hash 2 (wallet 2's, restored later) 100 and script hash 9 (wallet 3's) 1000; block 2 holds
   T = transaction 5: spends the coin of script hash 2, pays wallet 1 60 and wallet 2 40 change; block 3.
   Batch size 1.  Wallet 2 is restored: two batches (cursor 2: its coin of block 1, T's spend of it and the change
   are stored, T's record shared with wallet 1).  CRASH between two batches.  While the wallet is down the node
   abandons blocks 3 and 2 and grows to height 4 on another branch, on which T is mined again in another block
   2' (with a coinbase that pays script hash 9 another 7; block 3' pays it 5).  Restart (Start with the
   fast-forward, margin 0): the reorganisation is processed, the cursor is pulled back to 1, wallet 2 is in the
   rebuilt queue; three more batches.  All hypotheses of T14 hold; at the end the handler is in step, wallet 2 is
   ready, both reports are the chain's, and the store is EQUAL to that of the run that never stopped (the same
   events with the announcement of the new tip processed by the live handler instead of Start). *)
Definition mcb (id : N) (outs : list txout) : tx := {| t_id := id; t_cb := true; t_ins := []; t_outs := outs |}.
Definition mpay (sh : N) (v : Z) : txout := {| o_sh := sh; o_val := v; o_class := CStd |}.
Definition mb1 := {| b_id := 1; b_prev := 0; b_height := 1; b_txs := [mcb 1 [mpay 2 100; mpay 9 1000]] |}.
Definition mT : tx := {| t_id := 5; t_cb := false; t_ins := [(1, 0)%N]; t_outs := [mpay 1 60; mpay 2 40] |}.
Definition mb2 := {| b_id := 2; b_prev := 1; b_height := 2; b_txs := [mcb 2 []; mT] |}.
Definition mb3 := {| b_id := 3; b_prev := 2; b_height := 3; b_txs := [mcb 3 []] |}.
Definition m_pre : list xevent :=
  [XNewWallet 1 11; XNewAddr 1 1; XAttach mb1; XProcess mb1; XAttach mb2; XProcess mb2; XAttach mb3; XProcess mb3].
Definition m_chain : list block := [g0; mb1; mb2; mb3].
Definition mb2' := {| b_id := 12; b_prev := 1; b_height := 2; b_txs := [mcb 12 [mpay 9 7]; mT] |}.
Definition mb3' := {| b_id := 13; b_prev := 12; b_height := 3; b_txs := [mcb 13 [mpay 9 5]] |}.
Definition mb4' := {| b_id := 14; b_prev := 13; b_height := 4; b_txs := [mcb 14 []] |}.
Definition m_U : list block := m_chain ++ [mb2'; mb3'; mb4'].
Definition m_chain' : list block := [g0; mb1; mb2'; mb3'; mb4'].
(* what the node does while the wallet is down *)
Definition m_down : list xevent := [XDetach; XDetach; XAttach mb2'; XAttach mb3'; XAttach mb4'].
Definition m_hist1 : list cev :=
  [CEv (XBatch 2); CEv (XBatch 2)] ++ map CEv m_down ++ [CRestart (Some 0)] ++ [CEv (XBatch 2); CEv (XBatch 2); CEv (XBatch 2)].
(* the run that never stopped: the live handler processes the announcement of the new tip *)
Definition m_hx1 : list xevent := [XBatch 2; XBatch 2] ++ m_down ++ [XProcess mb4'] ++ [XBatch 2; XBatch 2; XBatch 2].
Definition m_st0 : xstate := xs_st (xrun repaired p0 1000 20000 [g0] m_pre).

Lemma m_start : (forall b1 b2, In b1 m_U -> In b2 m_U -> b_id b1 = b_id b2 -> b1 = b2) /\
  ninv g0 m_U m_chain /\ minv p0 g0 m_U 2 [(1, 1)%N] m_chain m_st0 /\ Import.status_of m_st0 2 = None /\
  (forall s, ownW 2 [(1, 1)%N] s = None) /\ (forall s, In s [2%N] -> lookupN [(1, 1)%N] s = None).
Proof.
  assert (Hwf : wf_chain m_chain) by (apply wf_chain_b_sound; vm_compute; reflexivity).
  assert (HU : incl m_chain m_U) by (apply incl_appl; apply incl_refl).
  split; [apply ids_b_sound; vm_compute; reflexivity|].
  split; [split; [exact Hwf|split; [eexists; reflexivity|exact HU]]|].
  assert (Hm : minv p0 g0 m_U 2 [(1, 1)%N] m_chain m_st0 /\ (forall s, ownW 2 [(1, 1)%N] s = None)).
  { apply minv_live_start.
    - exact Hwf.
    - eexists; reflexivity.
    - exact HU.
    - vm_compute. reflexivity.
    - vm_compute. reflexivity.
    - vm_compute. reflexivity.
    - apply covered_b_sound. vm_compute. reflexivity.
    - change [(1, 1)%N] with (x_keys m_st0). apply keys_ready_b_sound. vm_compute. reflexivity.
    - vm_compute. reflexivity.
    - apply brs_ok_b_sound. vm_compute. reflexivity.
    - apply brs_le_b_sound. vm_compute. reflexivity. }
  destruct Hm as [Hm Hnk].
  split; [exact Hm|]. split; [vm_compute; reflexivity|]. split; [exact Hnk|].
  intros s [<-|[]]; vm_compute; reflexivity.
Qed.
Print Assumptions m_start.

Example C06_crash_during_import_instance :
  (forall b1 b2, In b1 m_U -> In b2 m_U -> b_id b1 = b_id b2 -> b1 = b2) /\
  ninv g0 m_U m_chain /\ minv p0 g0 m_U 2 [(1, 1)%N] m_chain m_st0 /\ Import.status_of m_st0 2 = None /\
  (forall s, ownW 2 [(1, 1)%N] s = None) /\ (forall s, In s [2%N] -> lookupN [(1, 1)%N] s = None) /\
  exists st1, import_start m_st0 2 22 [2%N] = Some st1 /\
    let s0 := {| xs_node := m_chain; xs_st := st1; xs_all := []; xs_crashed := false |} in
    cwf p0 g0 m_U 1 20000 2 s0 m_hist1 /\ xwf p0 g0 m_U 2 1 20000 s0 m_hx1 /\
    (* at the crash: cursor 2, on the old chain; the node is on the new one *)
    let s_down := crun p0 1 20000 (firstn 7 m_hist1) s0 in
    Import.status_of (xs_st s_down) 2 = Some (Import.WImporting 2) /\ xs_node s_down = m_chain' /\
    synced (x_w (xs_st s_down)) = [(3, 3%N); (2, 2%N); (1, 1%N); (0, 0%N)] /\
    (* after the restart: in step, cursor pulled back, the restore in the rebuilt queue *)
    let s_up := crun p0 1 20000 (firstn 8 m_hist1) s0 in
    in_step g0 s_up /\ Import.status_of (xs_st s_up) 2 = Some (Import.WImporting 1) /\
    synced (x_w (xs_st s_up)) = [(4, 14%N); (3, 13%N); (2, 12%N); (1, 1%N); (0, 0%N)] /\
    rebuild_queue (xs_st s_up) = [(2%N, false)] /\ xs_crashed s_up = false /\
    (* at the end *)
    let s := crun p0 1 20000 m_hist1 s0 in
    let sx := fold_left (xstep repaired p0 1 20000) m_hx1 s0 in
    in_step g0 s /\ xs_node s = m_chain' /\ Import.status_of (xs_st s) 2 = Some Import.WReady /\
    map (fun c => (c_tx c, c_vout c, c_amount c, c_height c, c_spent c)) (proj 2 (credits (x_w (xs_st s)))) =
      [(1%N, 0%N, 100, 1, Some (5%N, 0%N, 2)); (5%N, 1%N, 40, 2, None)] /\
    xreport (xs_st s) 1 = spec_report p0 (key_owner (xs_st s)) m_chain' 1 /\ r_total (xreport (xs_st s) 1) = 60 /\
    xreport (xs_st s) 2 = spec_report p0 (key_owner (xs_st s)) m_chain' 2 /\ r_total (xreport (xs_st s) 2) = 40 /\
    x_brecs (xs_st s) = [{| br_h := 1; br_bid := 1; br_txs := [1%N] |}; {| br_h := 2; br_bid := 12; br_txs := [5%N] |}] /\
    (* the run that never stopped *)
    in_step g0 sx /\ xs_node sx = m_chain' /\ Import.status_of (xs_st sx) 2 = Some Import.WReady /\ xs_st s = xs_st sx.
Proof.
  destruct m_start as [H1 [H2 [H3 [H4 [H5 H6]]]]].
  split; [exact H1|]. split; [exact H2|]. split; [exact H3|]. split; [exact H4|]. split; [exact H5|]. split; [exact H6|].
  eexists. split; [vm_compute; reflexivity|]. cbv zeta.
  split; [apply (cwf_b_sound false); [discriminate|vm_compute; reflexivity]|].
  split; [apply xwf_b_sound; vm_compute; reflexivity|].
  vm_compute. repeat split; reflexivity.
Qed.

(* Two concurrent restores on the same database.  Wallet 2 is restored: one batch (cursor 1), then a crash and a
   restart with the node where it was (Remove.v's Start: nothing to do).  Wallet 3 (script hash 9) is restored while
   2 is importing.  Batches of 3, 2, 3 (cursors 2 and 2).  CRASH; the same reorganisation while the wallet is
   down; restart: BOTH cursors are pulled back to 1, both restores are in the rebuilt queue; batches of 2, 3, 3, 2,
   2, 3.  All hypotheses of T15 hold; at the end all three wallets are ready with the balances of the node's
   chain (wallet 3: 1000 + 7 + 5), and the store is EQUAL to that of the run that never stopped. *)
Definition m_h1 : list cev := [CEv (XBatch 2); CRestart None].
Definition m_hist2 : list cev :=
  [CEv (XBatch 3); CEv (XBatch 2); CEv (XBatch 3)] ++ map CEv m_down ++ [CRestart (Some 0)] ++
  [CEv (XBatch 2); CEv (XBatch 3); CEv (XBatch 3); CEv (XBatch 2); CEv (XBatch 2); CEv (XBatch 3)].
Definition m_hx2 : list xevent :=
  [XBatch 3; XBatch 2; XBatch 3] ++ m_down ++ [XProcess mb4'] ++ [XBatch 2; XBatch 3; XBatch 3; XBatch 2; XBatch 2; XBatch 3].

Example C06_crash_during_two_imports_instance :
  (forall b1 b2, In b1 m_U -> In b2 m_U -> b_id b1 = b_id b2 -> b1 = b2) /\
  ninv g0 m_U m_chain /\ minv p0 g0 m_U 2 [(1, 1)%N] m_chain m_st0 /\ Import.status_of m_st0 2 = None /\
  (forall s, ownW 2 [(1, 1)%N] s = None) /\ (forall s, In s [2%N] -> lookupN [(1, 1)%N] s = None) /\
  exists st1, import_start m_st0 2 22 [2%N] = Some st1 /\
    let s0 := {| xs_node := m_chain; xs_st := st1; xs_all := []; xs_crashed := false |} in
    cwf p0 g0 m_U 1 20000 2 s0 m_h1 /\
    let s1 := crun p0 1 20000 m_h1 s0 in
    Import.status_of (xs_st s1) 2 = Some (Import.WImporting 1) /\
    exists st2, import_start (xs_st s1) 3 33 [9%N] = Some st2 /\
      (forall s, In s [9%N] -> lookupN ([(1, 1)%N] ++ keys_of 2 [2%N]) s = None) /\
      let s1' := {| xs_node := xs_node s1; xs_st := st2; xs_all := xs_all s1; xs_crashed := false |} in
      cwf2 p0 g0 m_U 1 20000 2 3 s1' m_hist2 /\ xwf2 p0 g0 m_U 2 3 1 20000 s1' m_hx2 /\
      let s_down := crun p0 1 20000 (firstn 8 m_hist2) s1' in
      Import.status_of (xs_st s_down) 2 = Some (Import.WImporting 2) /\
      Import.status_of (xs_st s_down) 3 = Some (Import.WImporting 2) /\ xs_node s_down = m_chain' /\
      let s_up := crun p0 1 20000 (firstn 9 m_hist2) s1' in
      in_step g0 s_up /\ Import.status_of (xs_st s_up) 2 = Some (Import.WImporting 1) /\
      Import.status_of (xs_st s_up) 3 = Some (Import.WImporting 1) /\
      rebuild_queue (xs_st s_up) = [(2%N, false); (3%N, false)] /\ xs_crashed s_up = false /\
      let s := crun p0 1 20000 m_hist2 s1' in
      let sx := fold_left (xstep repaired p0 1 20000) m_hx2 s1' in
      in_step g0 s /\ xs_node s = m_chain' /\
      Import.status_of (xs_st s) 2 = Some Import.WReady /\ Import.status_of (xs_st s) 3 = Some Import.WReady /\
      (forall v, In v [1%N; 2%N; 3%N] -> xreport (xs_st s) v = spec_report p0 (key_owner (xs_st s)) m_chain' v) /\
      r_total (xreport (xs_st s) 1) = 60 /\ r_total (xreport (xs_st s) 2) = 40 /\ r_total (xreport (xs_st s) 3) = 1012 /\
      in_step g0 sx /\ Import.status_of (xs_st sx) 2 = Some Import.WReady /\ Import.status_of (xs_st sx) 3 = Some Import.WReady /\
      xs_st s = xs_st sx.
Proof.
  destruct m_start as [H1 [H2 [H3 [H4 [H5 H6]]]]].
  split; [exact H1|]. split; [exact H2|]. split; [exact H3|]. split; [exact H4|]. split; [exact H5|]. split; [exact H6|].
  eexists. split; [vm_compute; reflexivity|]. cbv zeta.
  split; [apply (cwf_b_sound false); [discriminate|vm_compute; reflexivity]|].
  split; [vm_compute; reflexivity|].
  eexists. split; [vm_compute; reflexivity|].
  split; [intros s [<-|[]]; vm_compute; reflexivity|].
  split; [apply (cwf2_b_sound false); [discriminate|vm_compute; reflexivity]|].
  split; [apply xwf2_b_sound; vm_compute; reflexivity|].
  vm_compute. repeat split; try reflexivity.
  intros v [<-|[<-|[<-|[]]]]; reflexivity.
Qed.

(* The node reorganised back to its BARE GENESIS while the wallet is down (admitted by [node_ok] because no block of
   the universe has the genesis block's previous-hash field as its hash): wallet 2 is restored, two batches
   (cursor 2), crash; the node disconnects every block; restart: Start rolls the store back to the genesis, the
   cursor is pulled back to 0, wallet 1 — live and ready — reports nothing; the node grows again on the other
   branch, Start's successor (the live handler) processes the tip, four batches: the reports are the chain's. *)
Definition m_hist3 : list cev :=
  [CEv (XBatch 2); CEv (XBatch 2); CEv XDetach; CEv XDetach; CEv XDetach; CRestart (Some 0);
   CEv (XAttach mb1); CEv (XAttach mb2'); CEv (XAttach mb3'); CEv (XAttach mb4'); CEv (XProcess mb4');
   CEv (XBatch 2); CEv (XBatch 2); CEv (XBatch 2); CEv (XBatch 2)].

Example C06_crash_bare_genesis_instance :
  Crash2.genesis_prev_free g0 m_U /\
  exists st1, import_start m_st0 2 22 [2%N] = Some st1 /\
    let s0 := {| xs_node := m_chain; xs_st := st1; xs_all := []; xs_crashed := false |} in
    cwf p0 g0 m_U 1 20000 2 s0 m_hist3 /\
    let s_up := crun p0 1 20000 (firstn 6 m_hist3) s0 in
    xs_node s_up = [g0] /\ in_step g0 s_up /\ xs_crashed s_up = false /\
    synced (x_w (xs_st s_up)) = [(0, 0%N)] /\ credits (x_w (xs_st s_up)) = [] /\
    Import.status_of (xs_st s_up) 2 = Some (Import.WImporting 0) /\ Import.status_of (xs_st s_up) 1 = Some Import.WReady /\
    let s := crun p0 1 20000 m_hist3 s0 in
    in_step g0 s /\ xs_node s = m_chain' /\ Import.status_of (xs_st s) 2 = Some Import.WReady /\
    xreport (xs_st s) 1 = spec_report p0 (key_owner (xs_st s)) m_chain' 1 /\ r_total (xreport (xs_st s) 1) = 60 /\
    xreport (xs_st s) 2 = spec_report p0 (key_owner (xs_st s)) m_chain' 2 /\ r_total (xreport (xs_st s) 2) = 40.
Proof.
  assert (Hg : Crash2.genesis_prev_free g0 m_U) by (apply gpf_b_sound; vm_compute; reflexivity).
  split; [exact Hg|].
  eexists. split; [vm_compute; reflexivity|]. cbv zeta.
  split; [apply (cwf_b_sound true); [intros _; exact Hg|vm_compute; reflexivity]|].
  vm_compute. repeat split; reflexivity.
Qed.
