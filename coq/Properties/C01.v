(* Property C01 — the wallet ledger equals what the best chain pays to its addresses.
   Only statements here; proofs are in Ledger/Proofs*.v.
   Model: Ledger/Model.v (filterTx, filterBlock, insertMinedTx, updateMinedBalance, AddCredits,
   Rollback, reorg, processConnectedBlock, ScriptAddressBalance/Unspents), histories: Ledger/Run.v,
   specification: Ledger/Spec.v, environment assumptions: Ledger/WF.v. *)
From Coq Require Import List ZArith NArith Bool.
Import ListNotations.
Open Scope Z_scope.
Require Import MW.Ledger.Model MW.Ledger.Spec MW.Ledger.Run MW.Ledger.WF.
Require Import MW.Ledger.Proofs MW.Ledger.Proofs2 MW.Ledger.Proofs3 MW.Ledger.Proofs4 MW.Ledger.Proofs5 MW.Ledger.Proofs6.

(* The code as first found asked ExistCreditFromTx through a separate read transaction, i.e.
   against the committed store, while the reorg's write transaction was open ([a1fix] = false).
   Then the property is false: a reorg connecting two blocks in one commit misses the spend, in the
   second block, of a wallet coin created by the first.  Witness (replayed on the implementation
   by the correspondence check; repaired in /repo, see KNOWN_FINDINGS.txt). *)
Definition p0 : params := {| p_cbmat := 4; p_bindlock := 4294967294 |}.
Definition g0 : block := {| b_id := 0; b_prev := 0; b_height := 0; b_txs := [] |}.
Definition blk1 : block := {| b_id := 1; b_prev := 0; b_height := 1;
  b_txs := [ {| t_id := 1; t_cb := true; t_ins := []; t_outs := [ {| o_sh := 9; o_val := 5; o_class := CStd |} ] |} ] |}.
Definition blk2 : block := {| b_id := 2; b_prev := 1; b_height := 2;
  b_txs := [ {| t_id := 2; t_cb := true; t_ins := []; t_outs := [] |};
             {| t_id := 3; t_cb := false; t_ins := [(1, 0)%N]; t_outs := [ {| o_sh := 1; o_val := 5; o_class := CStd |} ] |} ] |}.
Definition blk3 : block := {| b_id := 3; b_prev := 2; b_height := 3;
  b_txs := [ {| t_id := 4; t_cb := true; t_ins := []; t_outs := [] |};
             {| t_id := 5; t_cb := false; t_ins := [(3, 0)%N]; t_outs := [ {| o_sh := 9; o_val := 5; o_class := CStd |} ] |} ] |}.
Definition hist0 : list event :=
  [EvOwner 1 1; EvAttach blk1; EvProcess blk1; EvAttach blk2; EvAttach blk3; EvProcess blk3].

Theorem C01_unfixed_refuted :
  let s := run p0 false g0 hist0 in
  wf_chain (s_node s) /\
  model_report (s_wallet s) 1%N <> spec_report p0 (own_of (s_own s)) (s_node s) 1%N /\
  r_total (model_report (s_wallet s) 1%N) = 5 /\ r_total (spec_report p0 (own_of (s_own s)) (s_node s) 1%N) = 0.
Proof.
  cbv zeta. split; [|split; [|split]].
  - constructor.
    + exists g0, [blk1; blk2; blk3]. vm_compute. repeat split; reflexivity.
    + vm_compute. repeat constructor; cbn; intuition discriminate.
    + vm_compute. repeat constructor; cbn; intuition discriminate.
    + cbn. repeat split; try discriminate.
      * intros _ op [<-|[]]. exists {| t_id := 1; t_cb := true; t_ins := []; t_outs := [ {| o_sh := 9; o_val := 5; o_class := CStd |} ] |}.
        cbn. split; [left; reflexivity|split; [reflexivity|apply le_n]].
      * intros _ op [<-|[]]. exists {| t_id := 3; t_cb := false; t_ins := [(1, 0)%N]; t_outs := [ {| o_sh := 1; o_val := 5; o_class := CStd |} ] |}.
        cbn. split; [right; right; left; reflexivity|split; [reflexivity|apply le_n]].
    + vm_compute. repeat constructor; cbn; intuition discriminate.
  - vm_compute. discriminate.
  - vm_compute. reflexivity.
  - vm_compute. reflexivity.
Qed.
Print Assumptions C01_unfixed_refuted.

(* the same history on the repaired code ([a1fix] = true) reports what the chain pays *)
Example C01_fixed_on_witness :
  let s := run p0 true g0 hist0 in
  model_report (s_wallet s) 1%N = spec_report p0 (own_of (s_own s)) (s_node s) 1%N.
Proof. vm_compute. reflexivity. Qed.

(* T1: a wallet that follows a well-formed chain block by block succeeds, and reports exactly what
   the chain pays to the ready wallets' addresses and has not spent (rows as equal lists, chain order) *)
Theorem C01_follow_refines_chain : forall p own c, wf_chain c ->
  exists st, ledger_of_chain p true own c = Ok st /\
             forall w, model_report st w = spec_report p own c w.
Proof. exact follow_refines_chain. Qed.
Print Assumptions C01_follow_refines_chain.

(* T2: rolling the ledger of a chain back to height k gives exactly the ledger of the prefix of height k *)
Theorem C01_rollback_inverse : forall p own c st k,
  wf_chain c -> ledger_of_chain p true own c = Ok st -> 0 <= k <= chain_height c ->
  exists st', ledger_of_chain p true own (firstn (Z.to_nat k + 1) c) = Ok st' /\
              rollback_to st (k + 1) = st'.
Proof. exact rollback_inverse. Qed.
Print Assumptions C01_rollback_inverse.

(* T3: the node announces its tip b (not the genesis, which is never announced) to a wallet whose
   ledger is that of ANY well-formed chain c with the same genesis (any fork depth, wallet behind or
   ahead), block ids naming one block across the two chains: processing succeeds and the ledger
   becomes the ledger of the node's chain.
   [same_genesis c n] := exists g c' n', c = g :: c' /\ n = g :: n';
   [ids_agree c n] := forall b1 b2, In b1 c -> In b2 n -> b_id b1 = b_id b2 -> b1 = b2. *)
Theorem C01_process_reorg : forall p own n c st b,
  wf_chain n -> wf_chain c -> same_genesis c n -> ids_agree c n ->
  ledger_of_chain p true own c = Ok st ->
  (exists n1, n1 <> [] /\ n = n1 ++ [b]) ->
  exists st', process p true own n st b = Ok st' /\ ledger_of_chain p true own n = Ok st'.
Proof. exact process_reorg. Qed.
Print Assumptions C01_process_reorg.

(* why the genesis is excluded in T3: a genesis whose prev field equals the id of the wallet's tip
   (here: its own id) would be "connected" on top of itself *)
Example C01_genesis_announcement_excluded :
  process p0 true (fun _ => None) [g0] (init_state 0) g0 = Ok {| credits := []; synced := [(0, 0%N); (0, 0%N)] |}.
Proof. vm_compute. reflexivity. Qed.

(* T4 = C01: in every well-formed history, once the announcement of the node's current tip has been
   processed, every ready wallet's report (synced height, total, spendable / withdrawable sums and the
   list of unspent rows) is exactly what the node's best chain pays to the wallet's addresses and has
   not spent — whatever happened before: extensions, forks, reorganisations of any depth, skipped,
   stale, repeated or failed announcements.  [wf_history] (Ledger/WF.v): the node's chain is well
   formed after every event, addresses are issued before the chain events, a block id names one
   block, only blocks that were attached at some time are announced. *)
Theorem C01_ledger_refines_chain : forall p g h b,
  wf_history p true g (h ++ [EvProcess b]) ->
  last (s_node (run p true g h)) g = b ->
  let s := run p true g (h ++ [EvProcess b]) in
  forall w, model_report (s_wallet s) w = spec_report p (own_of (s_own s)) (s_node s) w.
Proof. exact history_theorem. Qed.
Print Assumptions C01_ledger_refines_chain.

(* non-vacuity: a history with two wallets, a tip announced without its parent, a 2-deep
   reorganisation (3 blocks connected in one commit, one of them spending a coin created by an
   earlier one), then a stale announcement (rolls back), a failing one, and the tip again *)
Definition blk2b : block := {| b_id := 12; b_prev := 1; b_height := 2;
  b_txs := [ {| t_id := 12; t_cb := true; t_ins := []; t_outs := [ {| o_sh := 9; o_val := 7; o_class := CStd |} ] |};
             {| t_id := 13; t_cb := false; t_ins := [(1, 0)%N];
                t_outs := [ {| o_sh := 1; o_val := 3; o_class := CStd |}; {| o_sh := 7; o_val := 2; o_class := CStd |} ] |} ] |}.
Definition blk3b : block := {| b_id := 13; b_prev := 12; b_height := 3;
  b_txs := [ {| t_id := 14; t_cb := true; t_ins := []; t_outs := [] |} ] |}.
Definition blk4b : block := {| b_id := 14; b_prev := 13; b_height := 4;
  b_txs := [ {| t_id := 15; t_cb := true; t_ins := []; t_outs := [] |};
             {| t_id := 16; t_cb := false; t_ins := [(13, 0)%N];
                t_outs := [ {| o_sh := 9; o_val := 2; o_class := CStaking 1 |}; {| o_sh := 1; o_val := 1; o_class := CStd |} ] |} ] |}.
Definition hist1a : list event :=
  [EvOwner 1 1; EvOwner 9 2; EvAttach blk1; EvProcess blk1; EvAttach blk2; EvAttach blk3; EvProcess blk3; EvQuery 1;
   EvDetach; EvDetach; EvAttach blk2b; EvAttach blk3b; EvAttach blk4b].
Definition hist1 : list event := hist1a ++ [EvProcess blk4b].
Definition hist2a : list event := hist1 ++ [EvQuery 2; EvProcess blk3b; EvProcess blk2].
Definition hist2 : list event := hist2a ++ [EvProcess blk4b].

Example C01_history_wf_1 : wf_history p0 true g0 hist1 /\ last (s_node (run p0 true g0 hist1a)) g0 = blk4b.
Proof. split; [apply wf_history_b_sound|]; vm_compute; reflexivity. Qed.

Example C01_history_wf_2 : wf_history p0 true g0 hist2 /\ last (s_node (run p0 true g0 hist2a)) g0 = blk4b.
Proof. split; [apply wf_history_b_sound|]; vm_compute; reflexivity. Qed.

(* the last event of hist1 is a 2-deep reorganisation of the wallet's ledger: heights 2 and 3 are replaced *)
Example C01_history_reorg_depth :
  synced (s_wallet (run p0 true g0 hist1a)) = [(3, 3%N); (2, 2%N); (1, 1%N); (0, 0%N)] /\
  synced (s_wallet (run p0 true g0 hist1)) = [(4, 14%N); (3, 13%N); (2, 12%N); (1, 1%N); (0, 0%N)] /\
  r_total (model_report (s_wallet (run p0 true g0 hist1)) 1%N) = 1 /\
  r_total (model_report (s_wallet (run p0 true g0 hist1)) 2%N) = 9.
Proof. vm_compute. repeat split; reflexivity. Qed.

(* in hist2 the stale announcement rolls the ledger back, the announcement of a block that is no
   longer on the node fails and changes nothing, the tip is then connected again *)
Example C01_history_stale_and_failed :
  map (fun k => fst (tip (s_wallet (run p0 true g0 (firstn k hist2))))) [14; 16; 17; 18]%nat = [4; 3; 3; 4].
Proof. vm_compute. reflexivity. Qed.

(* C01 with addresses issued at any time: [wf_history_gen] only asks that an address is issued before
   any attached block pays it ([owners_before_paid]); [wf_history] (all addresses first) implies it *)
Theorem C01_ledger_refines_chain_gen : forall p g h b,
  wf_history_gen p true g (h ++ [EvProcess b]) ->
  last (s_node (run p true g h)) g = b ->
  let s := run p true g (h ++ [EvProcess b]) in
  forall w, model_report (s_wallet s) w = spec_report p (own_of (s_own s)) (s_node s) w.
Proof. exact history_theorem_gen. Qed.
Print Assumptions C01_ledger_refines_chain_gen.

Theorem C01_wf_history_is_gen : forall p a g h, wf_history p a g h -> wf_history_gen p a g h.
Proof. exact wf_history_gen_of. Qed.
Print Assumptions C01_wf_history_is_gen.

(* non-vacuity of the general form: address 1 is issued after blocks were attached and processed,
   before the first block that pays it (blk2b) is attached; this history is not [owners_first] *)
Definition hist3a : list event :=
  [EvOwner 9 2; EvAttach blk1; EvProcess blk1; EvOwner 1 1; EvAttach blk2b; EvAttach blk3b; EvProcess blk3b;
   EvOwner 5 1; EvAttach blk4b].
Definition hist3 : list event := hist3a ++ [EvProcess blk4b].

Example C01_history_gen_wf : wf_history_gen p0 true g0 hist3 /\ last (s_node (run p0 true g0 hist3a)) g0 = blk4b.
Proof. split; [apply wf_history_gen_b_sound|]; vm_compute; reflexivity. Qed.

Example C01_history_gen_totals :
  map (fun w => r_total (model_report (s_wallet (run p0 true g0 hist3)) w)) [1; 2]%N = [1; 9].
Proof. vm_compute. reflexivity. Qed.
