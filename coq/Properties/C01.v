(* Property C01 — the wallet ledger equals what the best chain pays to its addresses.
   Only statements here; proofs are in Ledger/Proofs.v.
   Model: Ledger/Model.v (filterTx, filterBlock, insertMinedTx, updateMinedBalance, AddCredits,
   Rollback, reorg, processConnectedBlock, ScriptAddressBalance/Unspents), histories: Ledger/Run.v,
   specification: Ledger/Spec.v, environment assumptions: Ledger/WF.v. *)
From Coq Require Import List ZArith NArith Bool.
Import ListNotations.
Open Scope Z_scope.
Require Import MW.Ledger.Model MW.Ledger.Spec MW.Ledger.Run MW.Ledger.WF.

(* The code as first found asked ExistCreditFromTx through a separate read transaction, i.e.
   against the committed store, while the reorg's write transaction was open ([a1fix] = false).
   Then the property is false: a reorg connecting two blocks in one commit misses the spend, in the
   second block, of a wallet coin created by the first.  Witness (replayed on the implementation
   by the correspondence check; repaired in /repo, see KNOWN_FINDINGS.txt). *)
Definition p0 : params := {| p_cbmat := 4; p_bindlock := 4294967294 |}.
Definition g0 : block := {| b_id := 0; b_prev := 0; b_height := 0; b_txs := [] |}.
Definition blk1 : block := {| b_id := 1; b_prev := 0; b_height := 1;
  b_txs := [ {| t_id := 1; t_cb := true; t_ins := []; t_outs := [ {| o_sh := 9; o_val := 5; o_class := CStd |} ] |} ] |}.
Definition blk2 : block := {| b_id := 2; b_prev := 1; b_height := 2;
  b_txs := [ {| t_id := 2; t_cb := true; t_ins := []; t_outs := [] |};
             {| t_id := 3; t_cb := false; t_ins := [(1, 0)%N]; t_outs := [ {| o_sh := 1; o_val := 5; o_class := CStd |} ] |} ] |}.
Definition blk3 : block := {| b_id := 3; b_prev := 2; b_height := 3;
  b_txs := [ {| t_id := 4; t_cb := true; t_ins := []; t_outs := [] |};
             {| t_id := 5; t_cb := false; t_ins := [(3, 0)%N]; t_outs := [ {| o_sh := 9; o_val := 5; o_class := CStd |} ] |} ] |}.
Definition hist0 : list event :=
  [EvOwner 1 1; EvAttach blk1; EvProcess blk1; EvAttach blk2; EvAttach blk3; EvProcess blk3].

Theorem C01_unfixed_refuted :
  let s := run p0 false g0 hist0 in
  wf_chain (s_node s) /\
  model_report (s_wallet s) 1%N <> spec_report p0 (own_of (s_own s)) (s_node s) 1%N /\
  r_total (model_report (s_wallet s) 1%N) = 5 /\ r_total (spec_report p0 (own_of (s_own s)) (s_node s) 1%N) = 0.
Proof.
  cbv zeta. split; [|split; [|split]].
  - constructor.
    + exists g0, [blk1; blk2; blk3]. vm_compute. repeat split; reflexivity.
    + vm_compute. repeat constructor; cbn; intuition discriminate.
    + vm_compute. repeat constructor; cbn; intuition discriminate.
    + cbn. repeat split; try discriminate.
      * intros _ op [<-|[]]. exists {| t_id := 1; t_cb := true; t_ins := []; t_outs := [ {| o_sh := 9; o_val := 5; o_class := CStd |} ] |}.
        cbn. split; [left; reflexivity|split; [reflexivity|apply le_n]].
      * intros _ op [<-|[]]. exists {| t_id := 3; t_cb := false; t_ins := [(1, 0)%N]; t_outs := [ {| o_sh := 1; o_val := 5; o_class := CStd |} ] |}.
        cbn. split; [right; right; left; reflexivity|split; [reflexivity|apply le_n]].
    + vm_compute. repeat constructor; cbn; intuition discriminate.
  - vm_compute. discriminate.
  - vm_compute. reflexivity.
  - vm_compute. reflexivity.
Qed.
Print Assumptions C01_unfixed_refuted.

(* the same history on the repaired code ([a1fix] = true) reports what the chain pays *)
Example C01_fixed_on_witness :
  let s := run p0 true g0 hist0 in
  model_report (s_wallet s) 1%N = spec_report p0 (own_of (s_own s)) (s_node s) 1%N.
Proof. vm_compute. reflexivity. Qed.
