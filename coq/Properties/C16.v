(* Property C16 — output-script classification agrees with consensus templates and never crashes.
   Only statements here; each is closed by [exact] of a lemma proved in Codec/ScriptProofs.v
   and followed by Print Assumptions.
   Model: Codec/Script.v.  Consensus side: [parse_script] (mass-core's tokenizer), [script_class]
   (GetScriptClass), [extract_pk_script_addrs] (ExtractPkScriptAddrs).  Wallet side: [parse_pk_script_gen b]
   (utils.ParsePkScript), the builders, [extract_address_infos_gen e2fix e3guard] (api.extractAddressInfos;
   false/false is the code as found).  [spec_template] / [layout] are the witness-v0 templates written as
   byte layouts; [wallet_spec] is the reading the property asks for.  Scripts are arbitrary [list Z]
   (every theorem holds for all of them, in particular for all byte strings of any length);
   addresses are the data their strings encode; [pk] is btcec.ParsePubKey's verdict (arbitrary).
   [b] is the A2 switch of [parse_pk_script_gen] (false = the code as found, true = the proposed repair that
   returns ErrUnsupportedScript for the classes the wallet does not read): the theorems hold for both. *)
From Coq Require Import List ZArith.
Import ListNotations.
Open Scope Z_scope.
Require Import MW.Gen.Consts MW.Codec.Script MW.Codec.ScriptProofs.

(* the templates as equations on bytes: 00 20 <32>, 00 20 <32> 08 <8>, 00 20 <32> 14 <20> | 16 <22> *)
Theorem C16_spec_grammar : forall s t, spec_template s = Some t <-> layout s t.
Proof. exact spec_template_grammar. Qed.
Print Assumptions C16_spec_grammar.

(* the consensus library's own template matching (tokenizer + isWitness...Script) is exactly these layouts *)
Theorem C16_consensus_templates : forall s,
  (script_class s = WitnessV0ScriptHashTy <-> exists h, layout s (TStd h)) /\
  (script_class s = StakingScriptHashTy <-> exists h p, layout s (TStaking h p)) /\
  (script_class s = BindingScriptHashTy <-> exists h t, layout s (TBinding h t)).
Proof. exact consensus_templates. Qed.
Print Assumptions C16_consensus_templates.

(* the wallet's reading of every script is the specified one: class, owner, second address, maturity *)
Theorem C16_parse_is_spec : forall b s i, wallet_spec s = Some i -> parse_pk_script_gen b s = Ok i.
Proof. exact parse_pk_script_spec_some. Qed.
Print Assumptions C16_parse_is_spec.

(* ... and where the specification has no reading the wallet returns an error (which one: see A2 below) *)
Theorem C16_parse_is_spec_none : forall b s, wallet_spec s = None ->
  (spec_template s = None /\ parse_pk_script_gen b s = Err (a2_err b)) \/
  (exists h t, spec_template s = Some (TBinding h t) /\ lenZ t = 22 /\ target_ok t = false /\
               parse_pk_script_gen b s = Err (target_err b)).
Proof. exact parse_pk_script_spec_none. Qed.
Print Assumptions C16_parse_is_spec_none.

(* agreement with the consensus library: same class; the library's addresses are the wallet's
   (owner, then staking address or binding target); staking: owner = standard address of the staking
   address' script hash; maturity = frozen period + 1 (uint64) / the IP2 locked period / 0 *)
Theorem C16_agree : forall b pk s i, parse_pk_script_gen b s = Ok i ->
  pk_class i = script_class s /\
  extract_pk_script_addrs pk s = Ok (pk_class i, wallet_view i, 1) /\
  (pk_class i = StakingScriptHashTy -> exists h, pk_std i = AWsh 0 h /\ pk_second i = Some (AWsh 1 h)) /\
  pk_maturity i = spec_maturity s /\
  pk_addrclass i = (if sclass_eqb (pk_class i) StakingScriptHashTy then 1 else 0).
Proof. exact agree. Qed.
Print Assumptions C16_agree.

(* the API-side view (DecodeRawTransaction etc.) shows the same owner / staking address / target *)
Theorem C16_extract_agrees : forall b e2 e3 pk s i x, parse_pk_script_gen b s = Ok i ->
  extract_address_infos_gen e2 e3 pk s = Ok x ->
  x_class x = pk_class i /\ x_recipient x = Some (pk_std i) /\ x_reqsigs x = 1 /\
  (pk_class i = StakingScriptHashTy -> x_staking x = pk_second i) /\
  (pk_class i = BindingScriptHashTy -> exists a c z, x_binding x = Some (a, c, z) /\ pk_second i = Some a).
Proof. exact extract_agrees_with_parse. Qed.
Print Assumptions C16_extract_agrees.

(* rejected exactly when the consensus class is none of the three witness templates, or the template is
   binding and the consensus address layer itself refuses the 22-byte target (unknown type / size byte) *)
Theorem C16_reject_iff_unsupported : forall b s,
  (exists e, parse_pk_script_gen b s = Err e) <->
  (script_class s = NonStandardTy \/ script_class s = MultiSigTy \/ script_class s = NullDataTy) \/
  (exists h t, spec_template s = Some (TBinding h t) /\ valid_target t = false).
Proof. exact reject_iff. Qed.
Print Assumptions C16_reject_iff_unsupported.

(* the second disjunct in the consensus library's terms: ExtractPkScriptAddrs yields the owner only *)
Theorem C16_undecodable_target : forall pk s h t, spec_template s = Some (TBinding h t) ->
  (valid_target t = false <-> extract_pk_script_addrs pk s = Ok (BindingScriptHashTy, [AWsh 0 h], 1)).
Proof. exact valid_target_undecodable. Qed.
Print Assumptions C16_undecodable_target.

(* DESIGN.md A2: utils.ErrUnsupportedScript is unreachable; every non-witness class (OP_RETURN, multisig,
   P2PKH-like, empty, unparsable) gets mass-core's "invalid script hash type" error instead *)
Theorem C16_unsupported_unreachable : forall s, parse_pk_script_gen false s <> Err EUnsupported.
Proof. exact parse_pk_script_never_unsupported. Qed.
Print Assumptions C16_unsupported_unreachable.
Theorem C16_unsupported_iff_fixed : forall s, parse_pk_script_gen true s = Err EUnsupported <->
  (script_class s = NonStandardTy \/ script_class s = MultiSigTy \/ script_class s = NullDataTy \/
   exists h t, spec_template s = Some (TBinding h t) /\ lenZ t = 22 /\ target_ok t = false).
Proof. exact unsupported_iff_fixed. Qed.
Print Assumptions C16_unsupported_iff_fixed.
Theorem C16_nonwitness_error : forall b s,
  script_class s = NonStandardTy \/ script_class s = MultiSigTy \/ script_class s = NullDataTy ->
  parse_pk_script_gen b s = Err (a2_err b).
Proof. exact nonwitness_error. Qed.
Print Assumptions C16_nonwitness_error.

(* builders: what the wallet builds reads back to exactly the values it was built from:
   every 32-byte script hash, every legal frozen period, every 20-byte target and every 22-byte target that is
   an address (type 0/1, size 20..200) *)
Theorem C16_builders_roundtrip : forall b h, lenZ h = 32 ->
  (wallet_pay_to_witness_v0 (Some (AWsh 0 h)) = Ok (0 :: 32 :: h) /\
   parse_pk_script_gen b (0 :: 32 :: h) = Ok (mkpk WitnessV0ScriptHashTy 0 0 (AWsh 0 h) None)) /\
  (forall p, MinFrozenPeriod <= p <= SequenceLockTimeMask - 1 ->
   exists s, wallet_staking_script (Some (AWsh 1 h)) p = Ok s /\ pay_to_staking_addr_script (AWsh 1 h) p = Ok s /\
             parse_pk_script_gen b s = Ok (mkpk StakingScriptHashTy 1 (p + 1) (AWsh 0 h) (Some (AWsh 1 h)))) /\
  (forall t, valid_target t = true ->
   wallet_binding_script (AWsh 0 h) (target_addr t) = Ok (0 :: 32 :: h ++ lenZ t :: t) /\
   parse_pk_script_gen b (0 :: 32 :: h ++ lenZ t :: t) =
   Ok (mkpk BindingScriptHashTy 0 (if lenZ t =? 22 then BindingLockedPeriod else 0) (AWsh 0 h) (Some (target_addr t)))).
Proof. exact builders_roundtrip. Qed.
Print Assumptions C16_builders_roundtrip.

(* [valid_target] cannot be dropped: a raw 22-byte target that is not an address builds and does not read back
   (the wallet's own path takes the target from a massutil.Address, so it cannot produce one) *)
Theorem C16_builders_roundtrip_raw_refuted : forall b, exists h t s, lenZ h = 32 /\ lenZ t = 22 /\
  pay_to_binding_script h t = Ok s /\ parse_pk_script_gen b s = Err (target_err b).
Proof. exact roundtrip_binding_raw_refuted. Qed.
Print Assumptions C16_builders_roundtrip_raw_refuted.

(* address strings: with injective encoders the strings agree exactly when the data do *)
Theorem C16_encoded_agree : forall b (str : Type) (encode : addr -> str),
  (forall a1 a2, encode a1 = encode a2 -> a1 = a2) ->
  forall pk s i c addrs r, parse_pk_script_gen b s = Ok i -> extract_pk_script_addrs pk s = Ok (c, addrs, r) ->
  c = pk_class i /\ map encode addrs = map encode (wallet_view i) /\
  (forall l, map encode l = map encode addrs -> l = wallet_view i).
Proof. exact encoded_agree. Qed.
Print Assumptions C16_encoded_agree.

Theorem C16_builders_roundtrip_encoded : forall b (str : Type) (encode : addr -> str) (decode : str -> option addr),
  (forall a, decode (encode a) = Some a) ->
  forall h, lenZ h = 32 ->
  (exists s, wallet_pay_to_witness_v0 (decode (encode (AWsh 0 h))) = Ok s /\
             parse_pk_script_gen b s = Ok (mkpk WitnessV0ScriptHashTy 0 0 (AWsh 0 h) None)) /\
  (forall p, MinFrozenPeriod <= p <= SequenceLockTimeMask - 1 ->
   exists s, wallet_staking_script (decode (encode (AWsh 1 h))) p = Ok s /\
             parse_pk_script_gen b s = Ok (mkpk StakingScriptHashTy 1 (p + 1) (AWsh 0 h) (Some (AWsh 1 h)))).
Proof. exact roundtrip_encoded. Qed.
Print Assumptions C16_builders_roundtrip_encoded.

(* never panics, first conjunct: utils.ParsePkScript, every input *)
Theorem C16_no_panic_parse : forall b s p, parse_pk_script_gen b s <> Panic p.
Proof. exact parse_pk_script_no_panic. Qed.
Print Assumptions C16_no_panic_parse.

(* never panics, second conjunct, for the code as found: REFUTED.
   E2: 00 20 <32 x 11> 16 <20 x 22> 05 20 makes api.extractAddressInfos index addrs[1] of a 1-element slice *)
Theorem C16_extract_no_panic_refuted : forall pk, exists s,
  extract_address_infos_gen false false pk s = Panic PAddrsIndex1 /\ script_class s = BindingScriptHashTy.
Proof. exact extract_no_panic_refuted. Qed.
Print Assumptions C16_extract_no_panic_refuted.

(* E3: a 1-of-1 multisig whose key btcec refuses: nil dereference inside mass-core's ExtractPkScriptAddrs
   (the bounds check of E2 does not help) *)
Theorem C16_extract_multisig_refuted : forall e2 pk, pk e3_key = false ->
  extract_address_infos_gen e2 false pk e3_witness = Panic PNilAddrPubKey /\ script_class e3_witness = MultiSigTy.
Proof. exact extract_multisig_panic_refuted. Qed.
Print Assumptions C16_extract_multisig_refuted.

(* exactly these two shapes panic in the code as found *)
Theorem C16_extract_panic_iff : forall pk s p,
  extract_address_infos_gen false false pk s = Panic p <->
  (p = PAddrsIndex1 /\ exists h t, spec_template s = Some (TBinding h t) /\ valid_target t = false) \/
  (p = PNilAddrPubKey /\ exists pops, parse_script s = Ok pops /\ type_of_pops pops = MultiSigTy /\
                                      keys_ok pk (multisig_keys pops) = false).
Proof. exact extract_panic_iff. Qed.
Print Assumptions C16_extract_panic_iff.

(* with the bounds check (e2fix) the only panic left is the dependency's, on a multisig with a bad key *)
Theorem C16_no_panic_e2fixed : forall pk s p, extract_address_infos_gen true false pk s = Panic p ->
  p = PNilAddrPubKey /\ script_class s = MultiSigTy /\
  exists pops, parse_script s = Ok pops /\ keys_ok pk (multisig_keys pops) = false.
Proof. exact extract_e2fixed_panic. Qed.
Print Assumptions C16_no_panic_e2fixed.

(* with both repairs: the full statement *)
Theorem C16_no_panic : forall b pk s,
  (forall p, parse_pk_script_gen b s <> Panic p) /\ (forall p, extract_address_infos_gen true true pk s <> Panic p).
Proof. exact no_panic_repaired. Qed.
Print Assumptions C16_no_panic.

(* api.extractAddressInfos, completely (all switches) *)
Theorem C16_extract_is_spec : forall e2 e3 pk s, extract_address_infos_gen e2 e3 pk s = xinfo_spec e2 e3 pk s.
Proof. exact extract_address_infos_is_spec. Qed.
Print Assumptions C16_extract_is_spec.

(* non-vacuity: concrete values *)
Example C16_ex_staking :
  parse_pk_script_gen false ([0; 32] ++ repeat 171 32 ++ [8; 0; 240; 0; 0; 0; 0; 0; 0]) =
  Ok (mkpk StakingScriptHashTy 1 61441 (AWsh 0 (repeat 171 32)) (Some (AWsh 1 (repeat 171 32)))).
Proof. vm_compute. reflexivity. Qed.
Example C16_ex_wrap :   (* frozen period 2^64-1: maturity wraps to 0, as the uint64 addition in the code does *)
  parse_pk_script_gen false ([0; 32] ++ repeat 0 32 ++ 8 :: repeat 255 8) =
  Ok (mkpk StakingScriptHashTy 1 0 (AWsh 0 (repeat 0 32)) (Some (AWsh 1 (repeat 0 32)))).
Proof. vm_compute. reflexivity. Qed.
Example C16_ex_opreturn : parse_pk_script_gen false [106] = Err EInvalidHashType /\ parse_pk_script_gen true [106] = Err EUnsupported /\
  script_class [106] = NullDataTy.
Proof. vm_compute. repeat split; reflexivity. Qed.
Example C16_ex_truncated : parse_script [0; 32; 1; 2; 3] = Err EShortScript /\ parse_script [78; 255; 255; 255; 255] = Err EShortScript.
Proof. vm_compute. split; reflexivity. Qed.
Example C16_ex_e2 : parse_pk_script_gen false e2_witness = Err EAddress /\
  extract_address_infos_gen true false (fun _ => true) e2_witness = Err EGuard.
Proof. vm_compute. split; reflexivity. Qed.
