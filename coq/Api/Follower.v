(* Api/Follower.v — the background follower never wedges (C19, second half), derived from the
   frozen Ledger model: [step … (EvProcess b)] is [process_or_keep] (one atomic commit or no
   change at all), and the history theorem of C01 says what the ledger is once the node's tip has
   been announced. *)
From Coq Require Import List ZArith NArith Bool Lia.
Import ListNotations.
Open Scope Z_scope.
Require Import MW.Ledger.Model MW.Ledger.Spec MW.Ledger.Run MW.Ledger.WF MW.Ledger.Proofs4.

(* whatever was delivered before — extensions, forks, reorganisations of any depth, skipped, stale,
   repeated, refused announcements — once the announcement of the node's current tip is processed
   the wallet is synced to the node's height: no earlier delivery can leave the handler in a state
   in which the tip is refused *)
Theorem follower_progress : forall p g h b,
  wf_history p true g (h ++ [EvProcess b]) ->
  last (s_node (run p true g h)) g = b ->
  let s := run p true g (h ++ [EvProcess b]) in
  fst (tip (s_wallet s)) = chain_height (s_node s).
Proof.
  intros p g h b Hwf Hlast s.
  pose proof (history_theorem p g h b Hwf Hlast 0%N) as E.
  apply (f_equal r_synced) in E. exact E.
Qed.

(* a refused delivery changes nothing (the database transaction is rolled back) *)
Theorem refused_delivery_keeps_state : forall p own n st b e,
  process p true own n st b = Err e -> process_or_keep p true own n st b = st.
Proof. intros p own n st b e H. unfold process_or_keep. rewrite H. reflexivity. Qed.
