(* Api/Proofs.v — proofs about the API model (C19). Stdlib style (List, ZArith, lia). *)
From Coq Require Import List ZArith NArith Bool Lia.
Import ListNotations.
Open Scope Z_scope.
Require Import MW.Gen.Consts MW.Codec.Amount MW.Codec.AmountProofs MW.Api.Validate MW.Api.Panic.

Local Ltac bool_hyps :=
  repeat match goal with
         | H : _ && _ = true |- _ => apply andb_true_iff in H; destruct H
         | H : _ && _ = false |- _ => apply andb_false_iff in H
         | H : _ || _ = false |- _ => apply orb_false_iff in H; destruct H
         | H : _ || _ = true |- _ => apply orb_true_iff in H
         | H : negb _ = true |- _ => apply negb_true_iff in H
         | H : negb _ = false |- _ => apply negb_false_iff in H
         | H : (_ <=? _) = true |- _ => apply Z.leb_le in H
         | H : (_ <=? _) = false |- _ => apply Z.leb_gt in H
         | H : (_ <? _) = true |- _ => apply Z.ltb_lt in H
         | H : (_ <? _) = false |- _ => apply Z.ltb_ge in H
         | H : (_ =? _) = true |- _ => apply Z.eqb_eq in H
         | H : (_ =? _) = false |- _ => apply Z.eqb_neq in H
         end.

(* ---------------------------------------------------------------- the outcome monad *)
Lemma bind_panic {A B} (x : outcome A) (f : A -> outcome B) p :
  bind x f = Panic p -> x = Panic p \/ exists a, x = Ok a /\ f a = Panic p.
Proof. destruct x; cbn; intros H; [right; eauto | discriminate | left; inversion H; reflexivity]. Qed.

Lemma bind_ok {A B} (x : outcome A) (f : A -> outcome B) b :
  bind x f = Ok b -> exists a, x = Ok a /\ f a = Ok b.
Proof. destruct x; cbn; intros H; [eauto | discriminate | discriminate]. Qed.

Lemma lenZ_nonneg {A} (l : list A) : 0 <= lenZ l.
Proof. unfold lenZ. lia. Qed.

(* the generic bounds lemmas: an index below the length, a cut inside the length *)
Lemma idx_in_bounds {A} p (l : list A) i : 0 <= i < lenZ l -> exists x, idx p l i = Ok x.
Proof.
  intros [H0 H1]. unfold idx. destruct (i <? 0) eqn:E; bool_hyps; [lia|].
  destruct (nth_error l (Z.to_nat i)) eqn:N; [eauto|].
  apply nth_error_None in N. unfold lenZ in H1. lia.
Qed.

Lemma idx_panic {A} p (l : list A) i q : idx p l i = Panic q -> q = p /\ (i < 0 \/ lenZ l <= i).
Proof.
  unfold idx. destruct (i <? 0) eqn:E; bool_hyps.
  - intros H; inversion H; subst. split; [reflexivity|lia].
  - destruct (nth_error l (Z.to_nat i)) eqn:N; [discriminate|].
    intros H; inversion H; subst. apply nth_error_None in N. split; [reflexivity|]. right. unfold lenZ. lia.
Qed.

Lemma idx_nth {A} p (l : list A) i x : 0 <= i -> nth_error l (Z.to_nat i) = Some x -> idx p l i = Ok x.
Proof. intros H N. unfold idx. destruct (i <? 0) eqn:E; bool_hyps; [lia|]. rewrite N. reflexivity. Qed.

Lemma slice_in_bounds {A} p (l : list A) k : 0 <= k <= lenZ l -> exists a b, slice_split p l k = Ok (a, b).
Proof.
  intros H. unfold slice_split. destruct ((k <? 0) || (lenZ l <? k)) eqn:E; [|eauto].
  bool_hyps. destruct E; bool_hyps; lia.
Qed.

Lemma slice_panic {A} p (l : list A) k q : slice_split p l k = Panic q -> q = p /\ (k < 0 \/ lenZ l < k).
Proof.
  unfold slice_split. destruct ((k <? 0) || (lenZ l <? k)) eqn:E; [|discriminate].
  intros H; inversion H; subst. split; [reflexivity|]. bool_hyps. destruct E; bool_hyps; lia.
Qed.

Lemma lenZ_repeat {A} (x : A) n : 0 <= n -> lenZ (repeat x (Z.to_nat n)) = n.
Proof. intros H. unfold lenZ. rewrite repeat_length. lia. Qed.

(* ---------------------------------------------------------------- api/util.go *)
Lemma check_no_panic b c p : check b c <> Panic p.
Proof. unfold check. destruct b; discriminate. Qed.

Lemma check_all_panic {A} (f : A -> outcome unit) l p :
  check_all f l = Panic p -> exists a, In a l /\ f a = Panic p.
Proof.
  induction l as [|a r IH]; cbn; [discriminate|]. intros H.
  apply bind_panic in H. destruct H as [H|(u & _ & H)].
  - exists a. split; [left; reflexivity|assumption].
  - destruct (IH H) as (b & Hb & Hf). exists b. split; [right; assumption|assumption].
Qed.

(* StringToAmount: s1[0], strings.Repeat, sInt[0], sFrac[0] never fire, and the function is the
   one C15 is about *)
Lemma split_dot_hd s : exists p0 r, split_dot s = p0 :: r.
Proof. pose proof (split_dot_nonempty s). destruct (split_dot s); [congruence|eauto]. Qed.

Definition lift (o : option Z) : outcome Z := match o with Some v => Ok v | None => Err ErrAPIInvalidAmount end.

Lemma amount_core_p_spec sInt sFrac : sInt <> [] -> sFrac <> [] ->
  amount_core_p sInt sFrac = lift (amount_core sInt sFrac).
Proof.
  intros Hi Hf. unfold amount_core_p, amount_core.
  destruct (parse_int sInt) as [i|]; [|reflexivity].
  destruct ((i <? 0) || (MaxMass <? i)); [reflexivity|].
  destruct (parse_int sFrac) as [f|]; [|reflexivity].
  destruct (f <? 0); [reflexivity|].
  destruct sInt as [|c t]; [congruence|]. destruct sFrac as [|d u]; [congruence|].
  unfold idx. cbn [Z.ltb Z.compare Z.to_nat nth_error bind has_sign andb].
  unfold is_sign. destruct ((c =? ch_plus) || (c =? ch_minus) || ((d =? ch_plus) || (d =? ch_minus))); [reflexivity|].
  cbv zeta. destruct (max_amount <? MaxwellPerMass * i + f); reflexivity.
Qed.

Theorem string_to_amount_p_spec s : string_to_amount_p s = lift (parse_amount s).
Proof.
  rewrite parse_amount_unfold. unfold string_to_amount_p. cbv zeta.
  destruct (split_dot_hd s) as (p0 & r & E). rewrite E.
  change (lenZ (p0 :: r)) with (Z.of_nat (length (p0 :: r))).
  destruct (2 <? Z.of_nat (length (p0 :: r))) eqn:L; [reflexivity|].
  assert (E0 : idx PAmountS1 (p0 :: r) 0 = Ok p0) by reflexivity. rewrite E0. cbn [bind hd tl].
  assert (Hi : (if null (trim_left0 p0) then [ch_0] else trim_left0 p0) <> []).
  { destruct (trim_left0 p0); cbn; congruence. }
  assert (Hmain : forall sf, (length sf <= 8)%nat ->
    bind (repeat_p PAmountRepeat ch_0 (8 - lenZ sf))
         (fun pad => amount_core_p (if null (trim_left0 p0) then [ch_0] else trim_left0 p0) (sf ++ pad)) =
    lift (amount_core (int_half p0) (sf ++ repeat ch_0 (8 - length sf)))).
  { intros sf Hlen. unfold repeat_p, lenZ.
    destruct (8 - Z.of_nat (length sf) <? 0) eqn:N; bool_hyps; [lia|]. cbn [bind].
    replace (Z.to_nat (8 - Z.of_nat (length sf))) with (8 - length sf)%nat by lia.
    apply amount_core_p_spec; [exact Hi|].
    destruct sf; cbn; congruence. }
  destruct r as [|f r'].
  - cbn [bind]. exact (Hmain [] ltac:(cbn; lia)).
  - change (lenZ (trim_right0 f)) with (Z.of_nat (length (trim_right0 f))).
    destruct (8 <? Z.of_nat (length (trim_right0 f))) eqn:L8; [reflexivity|].
    cbn [bind]. bool_hyps. exact (Hmain (trim_right0 f) ltac:(lia)).
Qed.

Theorem string_to_amount_no_panic s p : string_to_amount_p s <> Panic p.
Proof. rewrite string_to_amount_p_spec. destruct (parse_amount s); discriminate. Qed.

(* AmountToString: the cut s[:len(s)-8] is inside the numeral, which has at least nine digits *)
Theorem amount_to_string_no_panic m p : amount_to_string_p m <> Panic p.
Proof.
  unfold amount_to_string_p. destruct (max_amount <? m) eqn:E1; [discriminate|].
  destruct (m <? 0) eqn:E2; [discriminate|]. bool_hyps.
  pose proof max_amount_lt as Hmax. pose proof MaxwellPerMass_val as Hmw.
  assert (0 <= m + MaxwellPerMass < 10 ^ 40) as Hr.
  { rewrite Hmw. split; [lia|]. assert (2 ^ 63 + 10 ^ 8 < 10 ^ 40) by (vm_compute; reflexivity). lia. }
  destruct (dec_spec _ Hr) as (Hd & Hv & _ & _).
  pose proof (dval_bounds _ Hd) as Hb. rewrite Hv in Hb.
  assert (8 < lenZ (dec (m + MaxwellPerMass))) as Hlen.
  { unfold lenZ. destruct (Z_lt_le_dec 8 (Z.of_nat (length (dec (m + MaxwellPerMass))))) as [|Hle]; [assumption|].
    exfalso. assert (10 ^ Z.of_nat (length (dec (m + MaxwellPerMass))) <= 10 ^ 8) by (apply Z.pow_le_mono_r; lia). lia. }
  destruct (slice_in_bounds PFormatSlice (dec (m + MaxwellPerMass)) (lenZ (dec (m + MaxwellPerMass)) - 8) ltac:(lia)) as (a & b & ->).
  cbn [bind fst snd]. destruct (parse_int a); [|discriminate].
  destruct (null (trim_right0 b)); discriminate.
Qed.

(* the prologue of every request answers or rejects *)
Lemma check_amount_map_no_panic trim m p : check_amount_map trim m <> Panic p.
Proof.
  intros H. apply check_all_panic in H. destruct H as (kv & _ & H).
  apply bind_panic in H. destruct H as [H|(u & _ & H)]; [exact (check_no_panic _ _ _ H)|].
  apply bind_panic in H. destruct H as [H|(v & _ & H)]; [exact (string_to_amount_no_panic _ _ H)|discriminate].
Qed.

Lemma check_all_len_no_panic {A} (g : A -> str) (f : str -> outcome unit) l p :
  (forall s q, f s <> Panic q) -> check_all (fun a => f (g a)) l <> Panic p.
Proof. intros Hf H. apply check_all_panic in H. destruct H as (a & _ & H). exact (Hf _ _ H). Qed.

Theorem prologue_no_panic trim r p : prologue trim r <> Panic p.
Proof.
  assert (Hc : forall b c q, check b c <> Panic q) by apply check_no_panic.
  assert (Ha : forall s q, check_address_len s <> Panic q) by (intros; apply Hc).
  assert (Ht : forall s q, check_txid_len s <> Panic q) by (intros; apply Hc).
  destruct r; cbn [prologue]; intros H;
    repeat match goal with
           | H : bind _ _ = Panic _ |- _ => apply bind_panic in H; destruct H as [H|(? & _ & H)]
           | H : check _ _ = Panic _ |- _ => exact (Hc _ _ _ H)
           | H : check_wallet_id_len _ = Panic _ |- _ => exact (Hc _ _ _ H)
           | H : check_pass_len _ = Panic _ |- _ => exact (Hc _ _ _ H)
           | H : check_mnemonic_len _ = Panic _ |- _ => exact (Hc _ _ _ H)
           | H : check_address_len _ = Panic _ |- _ => exact (Hc _ _ _ H)
           | H : check_txid_len _ = Panic _ |- _ => exact (Hc _ _ _ H)
           | H : check_locktime _ = Panic _ |- _ => exact (Hc _ _ _ H)
           | H : check_not_empty _ = Panic _ |- _ => exact (Hc _ _ _ H)
           | H : check_amount_map _ _ = Panic _ |- _ => exact (check_amount_map_no_panic _ _ _ H)
           | H : check_parse_amount _ = Panic _ |- _ => exact (string_to_amount_no_panic _ _ H)
           | H : Ok _ = Panic _ |- _ => discriminate H
           end.
  - (* GetAddressBalance: addresses *) apply check_all_panic in H. destruct H as (a & _ & H). exact (Ha _ _ H).
  - (* GetUtxo *) apply check_all_panic in H. destruct H as (a & _ & H). exact (Ha _ _ H).
  - (* TxHistory *) destruct (0 <? lenZ addr); [exact (Ha _ _ H)|discriminate].
  - (* CreateRawTransaction: txids *) apply check_all_panic in H. destruct H as (a & _ & H). exact (Ht _ _ H).
  - (* AutoCreate: fee *) destruct (check_parse_amount fee) eqn:E; try discriminate. exact (string_to_amount_no_panic _ _ E).
Qed.
