(* Api/Proofs.v — proofs about the API model (C19). Stdlib style (List, ZArith, lia). *)
From Coq Require Import List ZArith NArith Bool Lia.
Import ListNotations.
Open Scope Z_scope.
Require Import MW.Gen.Consts MW.Codec.Amount MW.Codec.AmountProofs MW.Api.Validate MW.Api.Panic.

Local Ltac bool_hyps :=
  repeat match goal with
         | H : _ && _ = true |- _ => apply andb_true_iff in H; destruct H
         | H : _ && _ = false |- _ => apply andb_false_iff in H
         | H : _ || _ = false |- _ => apply orb_false_iff in H; destruct H
         | H : _ || _ = true |- _ => apply orb_true_iff in H
         | H : negb _ = true |- _ => apply negb_true_iff in H
         | H : negb _ = false |- _ => apply negb_false_iff in H
         | H : (_ <=? _) = true |- _ => apply Z.leb_le in H
         | H : (_ <=? _) = false |- _ => apply Z.leb_gt in H
         | H : (_ <? _) = true |- _ => apply Z.ltb_lt in H
         | H : (_ <? _) = false |- _ => apply Z.ltb_ge in H
         | H : (_ =? _) = true |- _ => apply Z.eqb_eq in H
         | H : (_ =? _) = false |- _ => apply Z.eqb_neq in H
         end.

(* ---------------------------------------------------------------- the outcome monad *)
Lemma bind_panic {A B} (x : outcome A) (f : A -> outcome B) p :
  bind x f = Panic p -> x = Panic p \/ exists a, x = Ok a /\ f a = Panic p.
Proof. destruct x; cbn; intros H; [right; eauto | discriminate | left; inversion H; reflexivity]. Qed.

Lemma bind_ok {A B} (x : outcome A) (f : A -> outcome B) b :
  bind x f = Ok b -> exists a, x = Ok a /\ f a = Ok b.
Proof. destruct x; cbn; intros H; [eauto | discriminate | discriminate]. Qed.

Lemma lenZ_nonneg {A} (l : list A) : 0 <= lenZ l.
Proof. unfold lenZ. lia. Qed.

(* the generic bounds lemmas: an index below the length, a cut inside the length *)
Lemma idx_in_bounds {A} p (l : list A) i : 0 <= i < lenZ l -> exists x, idx p l i = Ok x.
Proof.
  intros [H0 H1]. unfold idx. destruct (i <? 0) eqn:E; bool_hyps; [lia|].
  destruct (nth_error l (Z.to_nat i)) eqn:N; [eauto|].
  apply nth_error_None in N. unfold lenZ in H1. lia.
Qed.

Lemma idx_panic {A} p (l : list A) i q : idx p l i = Panic q -> q = p /\ (i < 0 \/ lenZ l <= i).
Proof.
  unfold idx. destruct (i <? 0) eqn:E; bool_hyps.
  - intros H; inversion H; subst. split; [reflexivity|lia].
  - destruct (nth_error l (Z.to_nat i)) eqn:N; [discriminate|].
    intros H; inversion H; subst. apply nth_error_None in N. split; [reflexivity|]. right. unfold lenZ. lia.
Qed.

Lemma idx_nth {A} p (l : list A) i x : 0 <= i -> nth_error l (Z.to_nat i) = Some x -> idx p l i = Ok x.
Proof. intros H N. unfold idx. destruct (i <? 0) eqn:E; bool_hyps; [lia|]. rewrite N. reflexivity. Qed.

Lemma slice_in_bounds {A} p (l : list A) k : 0 <= k <= lenZ l -> exists a b, slice_split p l k = Ok (a, b).
Proof.
  intros H. unfold slice_split. destruct ((k <? 0) || (lenZ l <? k)) eqn:E; [|eauto].
  bool_hyps. destruct E; bool_hyps; lia.
Qed.

Lemma slice_panic {A} p (l : list A) k q : slice_split p l k = Panic q -> q = p /\ (k < 0 \/ lenZ l < k).
Proof.
  unfold slice_split. destruct ((k <? 0) || (lenZ l <? k)) eqn:E; [|discriminate].
  intros H; inversion H; subst. split; [reflexivity|]. bool_hyps. destruct E; bool_hyps; lia.
Qed.

Lemma lenZ_repeat {A} (x : A) n : 0 <= n -> lenZ (repeat x (Z.to_nat n)) = n.
Proof. intros H. unfold lenZ. rewrite repeat_length. lia. Qed.

(* ---------------------------------------------------------------- api/util.go *)
Lemma check_no_panic b c p : check b c <> Panic p.
Proof. unfold check. destruct b; discriminate. Qed.

Lemma check_all_panic {A} (f : A -> outcome unit) l p :
  check_all f l = Panic p -> exists a, In a l /\ f a = Panic p.
Proof.
  induction l as [|a r IH]; cbn; [discriminate|]. intros H.
  apply bind_panic in H. destruct H as [H|(u & _ & H)].
  - exists a. split; [left; reflexivity|assumption].
  - destruct (IH H) as (b & Hb & Hf). exists b. split; [right; assumption|assumption].
Qed.

(* StringToAmount: s1[0], strings.Repeat, sInt[0], sFrac[0] never fire, and the function is the
   one C15 is about *)
Lemma split_dot_hd s : exists p0 r, split_dot s = p0 :: r.
Proof. pose proof (split_dot_nonempty s). destruct (split_dot s); [congruence|eauto]. Qed.

Definition lift (o : option Z) : outcome Z := match o with Some v => Ok v | None => Err ErrAPIInvalidAmount end.

Lemma amount_core_p_spec sInt sFrac : sInt <> [] -> sFrac <> [] ->
  amount_core_p sInt sFrac = lift (amount_core sInt sFrac).
Proof.
  intros Hi Hf. unfold amount_core_p, amount_core.
  destruct (parse_int sInt) as [i|]; [|reflexivity].
  destruct ((i <? 0) || (MaxMass <? i)); [reflexivity|].
  destruct (parse_int sFrac) as [f|]; [|reflexivity].
  destruct (f <? 0); [reflexivity|].
  destruct sInt as [|c t]; [congruence|]. destruct sFrac as [|d u]; [congruence|].
  unfold idx. cbn [Z.ltb Z.compare Z.to_nat nth_error bind has_sign andb].
  unfold is_sign. destruct ((c =? ch_plus) || (c =? ch_minus) || ((d =? ch_plus) || (d =? ch_minus))); [reflexivity|].
  cbv zeta. destruct (max_amount <? MaxwellPerMass * i + f); reflexivity.
Qed.

Theorem string_to_amount_p_spec s : string_to_amount_p s = lift (parse_amount s).
Proof.
  rewrite parse_amount_unfold. unfold string_to_amount_p. cbv zeta.
  destruct (split_dot_hd s) as (p0 & r & E). rewrite E.
  change (lenZ (p0 :: r)) with (Z.of_nat (length (p0 :: r))).
  destruct (2 <? Z.of_nat (length (p0 :: r))) eqn:L; [reflexivity|].
  assert (E0 : idx PAmountS1 (p0 :: r) 0 = Ok p0) by reflexivity. rewrite E0. cbn [bind hd tl].
  assert (Hi : (if null (trim_left0 p0) then [ch_0] else trim_left0 p0) <> []).
  { destruct (trim_left0 p0); cbn; congruence. }
  assert (Hmain : forall sf, (length sf <= 8)%nat ->
    bind (repeat_p PAmountRepeat ch_0 (8 - lenZ sf))
         (fun pad => amount_core_p (if null (trim_left0 p0) then [ch_0] else trim_left0 p0) (sf ++ pad)) =
    lift (amount_core (int_half p0) (sf ++ repeat ch_0 (8 - length sf)))).
  { intros sf Hlen. unfold repeat_p, lenZ.
    destruct (8 - Z.of_nat (length sf) <? 0) eqn:N; bool_hyps; [lia|]. cbn [bind].
    replace (Z.to_nat (8 - Z.of_nat (length sf))) with (8 - length sf)%nat by lia.
    apply amount_core_p_spec; [exact Hi|].
    destruct sf; cbn; congruence. }
  destruct r as [|f r'].
  - cbn [bind]. exact (Hmain [] ltac:(cbn; lia)).
  - change (lenZ (trim_right0 f)) with (Z.of_nat (length (trim_right0 f))).
    destruct (8 <? Z.of_nat (length (trim_right0 f))) eqn:L8; [reflexivity|].
    cbn [bind]. bool_hyps. exact (Hmain (trim_right0 f) ltac:(lia)).
Qed.

Theorem string_to_amount_no_panic s p : string_to_amount_p s <> Panic p.
Proof. rewrite string_to_amount_p_spec. destruct (parse_amount s); discriminate. Qed.

(* AmountToString: the cut s[:len(s)-8] is inside the numeral, which has at least nine digits *)
Theorem amount_to_string_no_panic m p : amount_to_string_p m <> Panic p.
Proof.
  unfold amount_to_string_p. destruct (max_amount <? m) eqn:E1; [discriminate|].
  destruct (m <? 0) eqn:E2; [discriminate|]. bool_hyps.
  pose proof max_amount_lt as Hmax. pose proof MaxwellPerMass_val as Hmw.
  assert (0 <= m + MaxwellPerMass < 10 ^ 40) as Hr.
  { rewrite Hmw. split; [lia|]. assert (2 ^ 63 + 10 ^ 8 < 10 ^ 40) by (vm_compute; reflexivity). lia. }
  destruct (dec_spec _ Hr) as (Hd & Hv & _ & _).
  pose proof (dval_bounds _ Hd) as Hb. rewrite Hv in Hb.
  assert (8 < lenZ (dec (m + MaxwellPerMass))) as Hlen.
  { unfold lenZ. destruct (Z_lt_le_dec 8 (Z.of_nat (length (dec (m + MaxwellPerMass))))) as [|Hle]; [assumption|].
    exfalso. assert (10 ^ Z.of_nat (length (dec (m + MaxwellPerMass))) <= 10 ^ 8) by (apply Z.pow_le_mono_r; lia). lia. }
  destruct (slice_in_bounds PFormatSlice (dec (m + MaxwellPerMass)) (lenZ (dec (m + MaxwellPerMass)) - 8) ltac:(lia)) as (a & b & ->).
  cbn [bind fst snd]. destruct (parse_int a); [|discriminate].
  destruct (null (trim_right0 b)); discriminate.
Qed.

(* the prologue of every request answers or rejects *)
Lemma check_amount_map_no_panic trim m p : check_amount_map trim m <> Panic p.
Proof.
  intros H. apply check_all_panic in H. destruct H as (kv & _ & H).
  apply bind_panic in H. destruct H as [H|(u & _ & H)]; [exact (check_no_panic _ _ _ H)|].
  apply bind_panic in H. destruct H as [H|(v & _ & H)]; [exact (string_to_amount_no_panic _ _ H)|discriminate].
Qed.

Lemma check_all_len_no_panic {A} (g : A -> str) (f : str -> outcome unit) l p :
  (forall s q, f s <> Panic q) -> check_all (fun a => f (g a)) l <> Panic p.
Proof. intros Hf H. apply check_all_panic in H. destruct H as (a & _ & H). exact (Hf _ _ H). Qed.

Lemma check_fee_no_panic fee p : check_fee fee <> Panic p.
Proof. unfold check_fee. destruct (check_parse_amount fee) eqn:E; try discriminate. intros _. exact (string_to_amount_no_panic _ _ E). Qed.

Lemma check_witness_address_no_panic cd a st p : check_witness_address cd a st <> Panic p.
Proof. unfold check_witness_address. destruct (c_addr cd a); try discriminate. apply check_no_panic. Qed.

Lemma check_opt_witness_address_no_panic cd a p : check_opt_witness_address cd a <> Panic p.
Proof. unfold check_opt_witness_address. destruct (0 <? lenZ a); [apply check_witness_address_no_panic|discriminate]. Qed.

Lemma parse_binding_target_no_panic cd a p : parse_binding_target cd a <> Panic p.
Proof. unfold parse_binding_target. destruct (is_valid_binding_target (c_addr cd a)); discriminate. Qed.

Lemma sum_amounts_no_panic l : forall acc p, sum_amounts l acc <> Panic p.
Proof.
  induction l as [|a r IH]; intros acc p H; cbn [sum_amounts] in H; [discriminate|].
  apply bind_panic in H. destruct H as [H|(v & _ & H)]; [exact (string_to_amount_no_panic _ _ H)|].
  destruct (max_amount <? acc + v); [discriminate|exact (IH _ _ H)].
Qed.

Theorem prologue_no_panic trim cd r p : prologue trim cd r <> Panic p.
Proof.
  assert (Hc : forall b c q, check b c <> Panic q) by apply check_no_panic.
  assert (Ha : forall s q, check_address_len s <> Panic q) by (intros; apply Hc).
  assert (Ht : forall s q, check_txid_len s <> Panic q) by (intros; apply Hc).
  destruct r; cbn [prologue]; intros H;
    repeat match goal with
           | H : bind _ _ = Panic _ |- _ => apply bind_panic in H; destruct H as [H|(? & _ & H)]
           | H : check _ _ = Panic _ |- _ => exact (Hc _ _ _ H)
           | H : check_wallet_id_len _ = Panic _ |- _ => exact (Hc _ _ _ H)
           | H : check_pass_len _ = Panic _ |- _ => exact (Hc _ _ _ H)
           | H : check_mnemonic_len _ = Panic _ |- _ => exact (Hc _ _ _ H)
           | H : check_address_len _ = Panic _ |- _ => exact (Hc _ _ _ H)
           | H : check_txid_len _ = Panic _ |- _ => exact (Hc _ _ _ H)
           | H : check_locktime _ = Panic _ |- _ => exact (Hc _ _ _ H)
           | H : check_not_empty _ = Panic _ |- _ => exact (Hc _ _ _ H)
           | H : check_amount_map _ _ = Panic _ |- _ => exact (check_amount_map_no_panic _ _ _ H)
           | H : check_parse_amount _ = Panic _ |- _ => exact (string_to_amount_no_panic _ _ H)
           | H : check_fee _ = Panic _ |- _ => exact (check_fee_no_panic _ _ H)
           | H : check_witness_address _ _ _ = Panic _ |- _ => exact (check_witness_address_no_panic _ _ _ _ H)
           | H : check_opt_witness_address _ _ = Panic _ |- _ => exact (check_opt_witness_address_no_panic _ _ _ H)
           | H : parse_binding_target _ _ = Panic _ |- _ => exact (parse_binding_target_no_panic _ _ _ H)
           | H : sum_amounts _ _ = Panic _ |- _ => exact (sum_amounts_no_panic _ _ _ H)
           | H : Ok _ = Panic _ |- _ => discriminate H
           end.
  - (* GetAddressBalance: addresses *) apply check_all_panic in H. destruct H as (a & _ & H). exact (Ha _ _ H).
  - (* GetUtxo *) apply check_all_panic in H. destruct H as (a & _ & H). exact (Ha _ _ H).
  - (* TxHistory *) destruct (0 <? lenZ addr); [exact (Ha _ _ H)|discriminate].
  - (* CreateRawTransaction: txids *) apply check_all_panic in H. destruct H as (a & _ & H). exact (Ht _ _ H).
  - (* CreateBindingTransaction: the outputs *)
    apply check_all_panic in H. destruct H as (o & _ & H).
    apply bind_panic in H. destruct H as [H|(u & _ & H)]; [exact (check_witness_address_no_panic _ _ _ _ H)|].
    apply bind_panic in H. destruct H as [H|(u' & _ & H)]; [exact (parse_binding_target_no_panic _ _ _ H)|].
    apply bind_panic in H. destruct H as [H|(u'' & _ & H)]; [exact (string_to_amount_no_panic _ _ H)|discriminate].
  - (* CreatePoolPkCoinbaseTransaction: the payload *)
    destruct (decode_hex_strict payload); [exact (Hc _ _ _ H)|discriminate].
  - (* CheckPoolPkCoinbase *) apply check_all_panic in H. destruct H as (a & _ & H). exact (Hc _ _ _ H).
Qed.

(* ---------------------------------------------------------------- txmgr: the current keystore *)
Lemma exists_msg_tx_panic fx w h i p :
  exists_msg_tx fx w h i = Panic p -> p = PExistsTxCurNil /\ fx_cur_nil fx = false /\ cur2 w = None.
Proof.
  unfold exists_msg_tx. destruct (cur2 w); [discriminate|].
  destruct (fx_cur_nil fx); [discriminate|]. intros H; inversion H. auto.
Qed.

Lemma exists_out_point_panic fx w h i p :
  exists_out_point fx w h i = Panic p -> p = PExistsUtxoCurNil /\ fx_cur_nil fx = false /\ cur2 w = None.
Proof.
  unfold exists_out_point. destruct (cur2 w); [discriminate|].
  destruct (fx_cur_nil fx); [discriminate|]. intros H; inversion H. auto.
Qed.

Lemma script_address_scan_panic q fx w p :
  script_address_scan q fx w = Panic p -> p = q /\ fx_cur_nil fx = false /\ cur2 w = None.
Proof.
  unfold script_address_scan. destruct (cur2 w); [discriminate|].
  destruct (fx_cur_nil fx); [discriminate|]. intros H; inversion H. auto.
Qed.

Lemma lookup_prev_panic fx w h i p :
  lookup_prev fx w h i = Panic p -> p = PExistsTxCurNil /\ fx_cur_nil fx = false /\ cur2 w = None.
Proof.
  unfold lookup_prev. intros H. apply bind_panic in H. destruct H as [H|(r & _ & H)].
  - exact (exists_msg_tx_panic _ _ _ _ _ H).
  - destruct r; try discriminate. destruct (st_unmined (st w) h); discriminate.
Qed.

(* what a successful look-up returns in a well-formed store *)
Lemma lookup_prev_ok fx w h i t m txof :
  (forall h i t ht, st_credit (st w) h i = Found t ht ->
     t = txof h /\ 0 <= i /\ exists o, nth_error t (Z.to_nat i) = Some o /\ wf_out o) ->
  (forall h t, st_unmined (st w) h = Some t -> t = txof h) ->
  lookup_prev fx w h i = Ok (t, m) ->
  t = txof h /\ (m <> None -> 0 <= i /\ exists o, nth_error t (Z.to_nat i) = Some o /\ wf_out o).
Proof.
  intros Hc Hu H. unfold lookup_prev in H. apply bind_ok in H. destruct H as (r & Hr & H).
  assert (Hr' : r = NotFound \/ r = st_credit (st w) h i).
  { unfold exists_msg_tx in Hr. destruct (cur2 w); [inversion Hr; auto|].
    destruct (fx_cur_nil fx); [inversion Hr; auto|discriminate]. }
  destruct r as [t' ht| |]; try discriminate.
  - destruct Hr' as [Hr'|Hr']; [discriminate|]. symmetry in Hr'.
    inversion H; subst. destruct (Hc _ _ _ _ Hr') as (-> & Hi & Ho). split; [reflexivity|]. intros _. auto.
  - destruct (st_unmined (st w) h) as [t'|] eqn:U; [|discriminate]. inversion H; subst.
    split; [exact (Hu _ _ U)|]. intros C; congruence.
Qed.

(* ---------------------------------------------------------------- constructTxIn *)
Lemma cti_one_panic fx w i p : 0 <= in_vout i -> cti_one fx w i = Panic p -> guarded_by fx p = false.
Proof.
  intros Hv. unfold cti_one. destruct (hash_from_str (in_txid i)) as [h|]; [|discriminate].
  intros H. apply bind_panic in H. destruct H as [H|(tb & _ & H)].
  - destruct (lookup_prev_panic _ _ _ _ _ H) as (-> & Hf & _). exact Hf.
  - destruct (fx_cti_index fx && (lenZ (fst tb) <=? in_vout i)) eqn:G; [discriminate|].
    apply bind_panic in H. destruct H as [H|(o & Ho & H)].
    + destruct (idx_panic _ _ _ _ H) as (-> & Hr). cbn [guarded_by].
      destruct (fx_cti_index fx); [|reflexivity]. cbn [andb] in G. bool_hyps.
      exfalso. destruct Hr; lia.
    + destruct (ov_parse o) as [c|]; [|discriminate].
      destruct (negb (ov_mine o)); [discriminate|].
      destruct c; try discriminate. destruct (snd tb); [discriminate|].
      destruct (fx_cti_block fx) eqn:F; [discriminate|]. inversion H; subst. exact F.
Qed.

Lemma cti_loop_panic fx w inputs : forall seen p,
  inputs_ok inputs -> cti_loop fx w seen inputs = Panic p -> guarded_by fx p = false.
Proof.
  induction inputs as [|i r IH]; intros seen p Hi H; cbn [cti_loop] in H; [discriminate|].
  pose proof (Forall_inv Hi) as Hv. pose proof (Forall_inv_tail Hi) as Ht.
  match type of H with (if ?c then _ else _) = _ => destruct c; [discriminate|] end.
  apply bind_panic in H. destruct H as [H|(c & _ & H)]; [exact (cti_one_panic _ _ _ _ Hv H)|].
  apply bind_panic in H. destruct H as [H|(cs & _ & H)]; [exact (IH _ _ Ht H)|discriminate].
Qed.

Lemma construct_tx_in_panic fx w inputs p :
  inputs_ok inputs -> construct_tx_in fx w inputs = Panic p -> guarded_by fx p = false.
Proof. intros Hi. unfold construct_tx_in. destruct (cur w); [apply cti_loop_panic; exact Hi|discriminate]. Qed.

Lemma cti_loop_length fx w inputs : forall seen cs, cti_loop fx w seen inputs = Ok cs -> length cs = length inputs.
Proof.
  induction inputs as [|i r IH]; intros seen cs H; cbn [cti_loop] in H.
  - inversion H. reflexivity.
  - match type of H with (if ?c then _ else _) = _ => destruct c; [discriminate|] end.
    apply bind_ok in H. destruct H as (c & _ & H). apply bind_ok in H. destruct H as (cs' & Hcs & H).
    inversion H; subst. cbn. f_equal. exact (IH _ _ Hcs).
Qed.

(* ---------------------------------------------------------------- estimateSignedSize *)
Lemma est_one_panic fx w h i p : wf w -> est_one fx w h i = Panic p -> guarded_by fx p = false.
Proof.
  intros (txof & Hc & _ & _) H. unfold est_one in H. apply bind_panic in H. destruct H as [H|(r & Hr & H)].
  - destruct (exists_msg_tx_panic _ _ _ _ _ H) as (-> & Hf & _). exact Hf.
  - destruct r as [t ht| |]; try discriminate.
    unfold exists_msg_tx in Hr. destruct (cur2 w); [|destruct (fx_cur_nil fx); discriminate].
    inversion Hr as [E]. destruct (Hc _ _ _ _ E) as (_ & Hi & o & Ho & (_ & k & Hk)).
    rewrite (idx_nth _ _ _ _ Hi Ho) in H. cbn [bind] in H. rewrite Hk in H.
    destruct (ov_keys o); discriminate.
Qed.

Lemma est_loop_panic fx w ops p : wf w -> est_loop fx w ops = Panic p -> guarded_by fx p = false.
Proof.
  intros Hw. induction ops as [|[h i] r IH]; cbn [est_loop]; [discriminate|]. intros H.
  apply bind_panic in H. destruct H as [H|(u & _ & H)]; [exact (est_one_panic _ _ _ _ _ Hw H)|exact (IH H)].
Qed.

Lemma estimate_manual_tx_fee_panic fx w inputs p :
  wf w -> estimate_manual_tx_fee fx w inputs = Panic p -> guarded_by fx p = false.
Proof.
  intros Hw. unfold estimate_manual_tx_fee. destruct (parse_inputs inputs); [apply est_loop_panic; exact Hw|discriminate].
Qed.

(* ---------------------------------------------------------------- CreateRawTransaction *)
Lemma wm_create_raw_transaction_panic fx w inputs ce ro p :
  wf w -> inputs_ok inputs -> wm_create_raw_transaction fx w inputs ce ro = Panic p -> guarded_by fx p = false.
Proof.
  intros Hw Hi H. unfold wm_create_raw_transaction in H.
  apply bind_panic in H. destruct H as [H|(senders & Hs & H)]; [exact (construct_tx_in_panic _ _ _ _ Hi H)|].
  apply bind_panic in H. destruct H as [H|(u & _ & H)].
  - destruct (fx_senders fx && null senders) eqn:G; [discriminate|].
    destruct ce; [|discriminate].
    apply bind_panic in H. destruct H as [H|(c & _ & H)]; [|discriminate].
    destruct (idx_panic _ _ _ _ H) as (-> & Hr). cbn [guarded_by].
    destruct (fx_senders fx); [|reflexivity]. cbn [andb] in G.
    destruct senders; [discriminate|]. exfalso. unfold lenZ in Hr. cbn [length] in Hr. lia.
  - apply bind_panic in H. destruct H as [H|(u' & _ & H)]; [exact (estimate_manual_tx_fee_panic _ _ _ _ Hw H)|].
    destruct ro; discriminate.
Qed.

(* ---------------------------------------------------------------- signWitnessTx *)
Lemma assoc_in {A} k (l : list (N * A)) v : assoc k l = Some v -> In (k, v) l.
Proof.
  induction l as [|[k' v'] r IH]; cbn; [discriminate|].
  destruct (k =? k')%N eqn:E; [|auto]. apply N.eqb_eq in E. intros H; inversion H; subst. left; reflexivity.
Qed.

Lemma sign_loop_panic fx w so ins : forall cache p txof,
  (forall h i t ht, st_credit (st w) h i = Found t ht ->
     t = txof h /\ 0 <= i /\ exists o, nth_error t (Z.to_nat i) = Some o /\ wf_out o) ->
  (forall h t, st_unmined (st w) h = Some t -> t = txof h) ->
  (forall h i b, st_utxo (st w) h i = Some b -> 0 <= i < lenZ (txof h)) ->
  (forall h e, In (h, e) cache -> fst e = txof h) ->
  sign_loop fx w so cache ins = Panic p -> guarded_by fx p = false.
Proof.
  induction ins as [|[h i] r IH]; intros cache p txof Hc Hu Hx Hcache H; cbn [sign_loop] in H; [discriminate|].
  apply bind_panic in H. destruct H as [H|(ec & Hec & H)].
  - destruct (assoc h cache); [discriminate|].
    apply bind_panic in H. destruct H as [H|(e & _ & H)]; [|discriminate].
    destruct (lookup_prev_panic _ _ _ _ _ H) as (-> & Hf & _). exact Hf.
  - (* the entry used for this hash is the transaction the hash names *)
    assert (Ht : fst (fst ec) = txof h /\ forall h' e', In (h', e') (snd ec) -> fst e' = txof h').
    { destruct (assoc h cache) as [e|] eqn:A.
      - inversion Hec; subst. cbn. split; [exact (Hcache _ _ (assoc_in _ _ _ A))|exact Hcache].
      - apply bind_ok in Hec. destruct Hec as ([t m] & Hl & Hec). inversion Hec; subst. cbn.
        destruct (lookup_prev_ok _ _ _ _ _ _ _ Hc Hu Hl) as (-> & _).
        split; [reflexivity|]. intros h' e' [E|E]; [inversion E; subst; reflexivity|exact (Hcache _ _ E)]. }
    destruct Ht as (Ht & Hcache').
    match type of H with (if ?c then _ else _) = _ => destruct c; [discriminate|] end.
    apply bind_panic in H. destruct H as [H|(fl & Hfl & H)].
    + destruct (exists_out_point_panic _ _ _ _ _ H) as (-> & Hf & _). exact Hf.
    + destruct fl as [[|]|]; try discriminate.
      unfold exists_out_point in Hfl. destruct (cur2 w); [|destruct (fx_cur_nil fx); discriminate].
      inversion Hfl as [E]. pose proof (Hx _ _ _ E) as Hr. rewrite <- Ht in Hr.
      destruct (idx_in_bounds PSignIndex (fst (fst ec)) i Hr) as (o & Eo). rewrite Eo in H. cbn [bind] in H.
      apply bind_panic in H. destruct H as [H|(u & _ & H)].
      { destruct (ov_parse o); [|discriminate]. destruct (cur3 w); [discriminate|].
        destruct (fx_cur3_nil fx) eqn:F; [discriminate|]. inversion H; subst. exact F. }
      destruct (negb so); [discriminate|].
      destruct (snd (fst ec)).
      * exact (IH _ _ _ Hc Hu Hx Hcache' H).
      * destruct (fx_sign_meta fx) eqn:F; [exact (IH _ _ _ Hc Hu Hx Hcache' H)|].
        inversion H; subst. exact F.
Qed.

Lemma wm_sign_raw_tx_panic fx w flag tx so p :
  wf w -> wm_sign_raw_tx fx w flag tx so = Panic p -> guarded_by fx p = false.
Proof.
  intros (txof & Hc & Hu & Hx) H. unfold wm_sign_raw_tx in H. destruct (cur w); [|discriminate].
  destruct (negb (valid_flag flag)); [discriminate|].
  eapply sign_loop_panic; eauto. intros h e [].
Qed.

(* ---------------------------------------------------------------- automatic transactions *)
Lemma add_one_panic fx w h i p :
  wf w -> (exists t ht, st_credit (st w) h i = Found t ht) -> add_one fx w h i = Panic p -> guarded_by fx p = false.
Proof.
  intros (txof & Hc & _ & _) (t & ht & E) H. unfold add_one in H.
  apply bind_panic in H. destruct H as [H|(r & Hr & H)].
  - destruct (exists_msg_tx_panic _ _ _ _ _ H) as (-> & Hf & _). exact Hf.
  - unfold exists_msg_tx in Hr. destruct (cur2 w); [|destruct (fx_cur_nil fx); [inversion Hr; subst r; discriminate|discriminate]].
    inversion Hr; subst r. rewrite E in H.
    destruct (Hc _ _ _ _ E) as (_ & Hi & o & Ho & _). rewrite (idx_nth _ _ _ _ Hi Ho) in H. cbn [bind] in H.
    destruct (ov_parse o); discriminate.
Qed.

Lemma add_loop_panic fx w ops p :
  wf w -> (forall h i, In (h, i) ops -> exists t ht, st_credit (st w) h i = Found t ht) ->
  add_loop fx w ops = Panic p -> guarded_by fx p = false.
Proof.
  intros Hw. induction ops as [|[h i] r IH]; cbn [add_loop]; intros Hs H; [discriminate|].
  apply bind_panic in H. destruct H as [H|(u & _ & H)].
  - exact (add_one_panic _ _ _ _ _ Hw (Hs _ _ (or_introl eq_refl)) H).
  - apply IH; [intros; apply Hs; right; assumption|exact H].
Qed.

Lemma find_eligible_panic fx w n p : find_eligible fx w n = Panic p -> guarded_by fx p = false.
Proof.
  unfold find_eligible. intros H. apply bind_panic in H. destruct H as [H|(u & _ & H)].
  - destruct (script_address_scan_panic _ _ _ _ H) as (-> & Hf & _). exact Hf.
  - destruct n; [discriminate|]. destruct (cur3 w); [discriminate|].
    destruct (fx_cur3_nil fx) eqn:F; [discriminate|]. inversion H; subst. exact F.
Qed.

Lemma wm_auto_create_panic fx w sel ro p :
  wf w -> (forall h i, In (h, i) sel -> exists t ht, st_credit (st w) h i = Found t ht) ->
  wm_auto_create fx w sel ro = Panic p -> guarded_by fx p = false.
Proof.
  intros Hw Hs H. unfold wm_auto_create in H. destruct (cur w); [|discriminate].
  apply bind_panic in H. destruct H as [H|(u & _ & H)]; [exact (find_eligible_panic _ _ _ _ H)|].
  apply bind_panic in H. destruct H as [H|(u' & _ & H)]; [exact (est_loop_panic _ _ _ _ Hw H)|].
  apply bind_panic in H. destruct H as [H|(u'' & _ & H)]; [exact (add_loop_panic _ _ _ _ Hw Hs H)|].
  destruct ro; discriminate.
Qed.

(* ---------------------------------------------------------------- balances, addresses *)
Lemma wm_balance_panic q fx w scan p :
  wm_balance q fx w scan = Panic p -> p = q /\ fx_cur_nil fx = false.
Proof.
  unfold wm_balance. destruct (cur w); [|discriminate]. destruct scan; [|discriminate].
  intros H. destruct (script_address_scan_panic _ _ _ _ H) as (-> & Hf & _). auto.
Qed.

Lemma wm_all_addresses_panic fx w p : wm_all_addresses_with_pubkey fx w = Panic p -> guarded_by fx p = false.
Proof.
  unfold wm_all_addresses_with_pubkey. destruct (cur w); [|discriminate]. destruct (cur2 w); [discriminate|].
  destruct (fx_cur3_nil fx) eqn:F; [discriminate|]. intros H; inversion H; subst. exact F.
Qed.

Lemma wm_new_address_no_panic w next p :
  (forall mas, next = Some mas -> length mas = 1%nat) -> wm_new_address w next <> Panic p.
Proof.
  intros Hn H. unfold wm_new_address in H. destruct (cur w); [|discriminate].
  destruct next as [mas|]; [|discriminate]. specialize (Hn _ eq_refl).
  destruct mas as [|m [|? ?]]; try discriminate.
Qed.

(* ---------------------------------------------------------------- GetTxHistory / selectRelatedTx *)
Lemma sumZ_nonneg l : Forall (fun x => 0 <= x) l -> 0 <= sumZ l.
Proof. induction 1; unfold sumZ in *; cbn [fold_right]; lia. Qed.

Lemma select_related_tx_no_panic lens : forall num count p,
  Forall (fun x => 0 <= x) lens -> 0 <= count <= num -> select_related_tx lens num count <> Panic p.
Proof.
  induction lens as [|l r IH]; intros num count p Hl Hc H; cbn [select_related_tx] in H; [discriminate|].
  inversion Hl; subst.
  destruct (count + l <=? num) eqn:E; bool_hyps.
  - apply (IH num (count + l) p); [assumption|lia|exact H].
  - destruct (num - count =? 0) eqn:Z0; [discriminate|]. bool_hyps.
    apply bind_panic in H. destruct H as [H|(x & _ & H)]; [|discriminate].
    destruct (slice_panic _ _ _ _ H) as (_ & Hr). rewrite lenZ_repeat in Hr by assumption. lia.
Qed.

Lemma history_loop_no_panic batches : forall wanted count p,
  Forall (Forall (fun x => 0 <= x)) batches -> 0 <= count <= wanted -> history_loop batches wanted count <> Panic p.
Proof.
  induction batches as [|b r IH]; intros wanted count p Hb Hc H; cbn [history_loop] in H; [discriminate|].
  inversion Hb; subst. pose proof (sumZ_nonneg _ H2).
  destruct (count + sumZ b <=? wanted) eqn:E; bool_hyps.
  - apply (IH wanted (count + sumZ b) p); [assumption|lia|exact H].
  - destruct (wanted - count =? 0) eqn:Z0; [discriminate|]. bool_hyps.
    apply (select_related_tx_no_panic b (wanted - count) 0 p); [assumption|lia|exact H].
Qed.

Lemma get_tx_history_panic fx batches wanted p :
  Forall (Forall (fun x => 0 <= x)) batches -> get_tx_history fx batches wanted = Panic p ->
  fx_select_neg fx = false /\ wanted < 0.
Proof.
  intros Hb H. unfold get_tx_history in H.
  destruct (wanted =? 0) eqn:Z0.
  - exfalso. apply (history_loop_no_panic batches 200 0 p); [assumption|lia|exact H].
  - destruct (fx_select_neg fx && (wanted <? 0)) eqn:G.
    + exfalso. apply (history_loop_no_panic batches 200 0 p); [assumption|lia|exact H].
    + destruct (Z_lt_le_dec wanted 0) as [Hn|Hp].
      * split; [|assumption]. destruct (fx_select_neg fx); [|reflexivity]. cbn [andb] in G. bool_hyps. lia.
      * exfalso. apply (history_loop_no_panic batches wanted 0 p); [assumption|lia|exact H].
Qed.

Lemma select_related_tx_site lens : forall num c p, select_related_tx lens num c = Panic p -> p = PSelectSlice.
Proof.
  induction lens as [|l r IH]; intros num c p H; cbn [select_related_tx] in H; [discriminate|].
  destruct (c + l <=? num); [exact (IH _ _ _ H)|]. destruct (num - c =? 0); [discriminate|].
  apply bind_panic in H. destruct H as [H|(x & _ & H)]; [|discriminate].
  destruct (slice_panic _ _ _ _ H) as (-> & _). reflexivity.
Qed.

Lemma history_loop_site batches : forall wn c p, history_loop batches wn c = Panic p -> p = PSelectSlice.
Proof.
  induction batches as [|b r IH]; intros wn c p H; cbn [history_loop] in H; [discriminate|].
  destruct (c + sumZ b <=? wn); [exact (IH _ _ _ H)|]. destruct (wn - c =? 0); [discriminate|].
  exact (select_related_tx_site _ _ _ _ H).
Qed.

Lemma get_tx_history_site fx batches wanted p : get_tx_history fx batches wanted = Panic p -> p = PSelectSlice.
Proof. unfold get_tx_history. apply history_loop_site. Qed.

(* ---------------------------------------------------------------- the handler goroutines *)
Lemma task_queue_panic fx w p : task_queue fx w = Panic p -> p = PTaskChanNil /\ fx_taskchan fx = false /\ taskchan w = false.
Proof.
  unfold task_queue. destruct (taskchan w); [discriminate|]. destruct (fx_taskchan fx); [discriminate|].
  intros H; inversion H. auto.
Qed.

Lemma async_import_panic fx txs p : async_import fx txs = Panic p -> p = PImportRecNil /\ fx_import_rec fx = false.
Proof.
  induction txs as [|[| |] r IH]; cbn [async_import]; try discriminate; [|exact IH].
  destruct (fx_import_rec fx); [exact IH|]. intros H; inversion H. auto.
Qed.

Lemma filter_tx_input_guarded nout i p : 0 <= nout -> 0 <= i -> filter_tx_input true nout i <> Panic p.
Proof.
  intros Hn Hi H. unfold filter_tx_input in H. cbn [andb] in H.
  destruct (nout <=? i) eqn:E; [discriminate|]. bool_hyps.
  apply bind_panic in H. destruct H as [H|(x & _ & H)]; [|discriminate].
  destruct (idx_panic _ _ _ _ H) as (_ & Hr). rewrite lenZ_repeat in Hr by assumption. lia.
Qed.

Lemma filter_imp_input_no_panic nout i p : 0 <= i < nout -> filter_imp_input nout i <> Panic p.
Proof.
  intros Hr H. unfold filter_imp_input in H. apply bind_panic in H. destruct H as [H|(x & _ & H)]; [|discriminate].
  destruct (idx_panic _ _ _ _ H) as (_ & Hb). rewrite lenZ_repeat in Hb by lia. lia.
Qed.

Lemma filter_block_loc_no_panic ntx i p : 0 <= i < ntx -> filter_block_loc ntx ntx i <> Panic p.
Proof.
  intros Hr H. unfold filter_block_loc in H. apply bind_panic in H. destruct H as [H|(x & _ & H)]; [|discriminate].
  destruct (idx_panic _ _ _ _ H) as (_ & Hb). rewrite lenZ_repeat in Hb by lia. lia.
Qed.

(* ---------------------------------------------------------------- the second group: served transactions, histories, targets *)
Lemma idx_repeat_no_panic q n i p : 0 <= i < n -> idx q (repeat tt (Z.to_nat n)) i <> Panic p.
Proof.
  intros Hr H. destruct (idx_panic _ _ _ _ H) as (_ & Hb). rewrite lenZ_repeat in Hb by lia. lia.
Qed.

Lemma tx_type_ins_no_panic ins p : Forall wf_bin ins -> tx_type_ins ins <> Panic p.
Proof.
  induction 1 as [|i r Hi _ IH]; cbn [tx_type_ins]; [discriminate|]. intros H.
  destruct (bi_prev i) as [n|] eqn:E; [|discriminate].
  apply bind_panic in H. destruct H as [H|(u & _ & H)]; [exact (idx_repeat_no_panic _ _ _ _ (Hi _ E) H)|].
  destruct (bi_game i); [discriminate|exact (IH H)].
Qed.

Lemma vin_list_no_panic ins : forall sk p, Forall wf_bin ins -> vin_list sk ins <> Panic p.
Proof.
  induction ins as [|i r IH]; intros sk p Hw H; cbn [vin_list] in H; [discriminate|].
  pose proof (Forall_inv Hw) as Hi. pose proof (Forall_inv_tail Hw) as Ht.
  destruct sk; [exact (IH _ _ Ht H)|].
  destruct (bi_prev i) as [n|] eqn:E; [|discriminate].
  apply bind_panic in H. destruct H as [H|(u & _ & H)]; [exact (idx_repeat_no_panic _ _ _ _ (Hi _ E) H)|].
  destruct (bi_addr_ok i); [exact (IH _ _ Ht H)|discriminate].
Qed.

Lemma create_block_tx_no_panic t p : wf_btx t -> create_block_tx t <> Panic p.
Proof.
  intros Hw H. unfold create_block_tx in H. apply bind_panic in H. destruct H as [H|(ty & _ & H)].
  - unfold get_tx_type in H. destruct (bt_coinbase t); [discriminate|]. destruct (bt_game_out t); [discriminate|].
    exact (tx_type_ins_no_panic _ _ Hw H).
  - destruct (negb (bt_vout_ok t)); [discriminate|].
    apply bind_panic in H. destruct H as [H|(u & _ & H)]; [exact (vin_list_no_panic _ _ _ Hw H)|].
    destruct (bt_rest_ok t); discriminate.
Qed.

Lemma create_tx_raw_result_no_panic t p : wf_btx t -> create_tx_raw_result t <> Panic p.
Proof.
  intros Hw H. unfold create_tx_raw_result in H. destruct (negb (bt_vout_ok t)); [discriminate|].
  apply bind_panic in H. destruct H as [H|(u & _ & H)]; [exact (vin_list_no_panic _ _ _ Hw H)|].
  destruct (bt_rest_ok t); discriminate.
Qed.

Lemma marshal_block_no_panic b p : Forall wf_btx b -> marshal_block b <> Panic p.
Proof.
  intros Hw H. unfold marshal_block in H. apply check_all_panic in H. destruct H as (t & Ht & H).
  rewrite Forall_forall in Hw. exact (create_block_tx_no_panic _ _ (Hw _ Ht) H).
Qed.

Lemma reward_outs_no_panic n nout p : n <= nout -> reward_outs n nout <> Panic p.
Proof.
  intros Hn H. unfold reward_outs in H. apply check_all_panic in H. destruct H as (j & Hj & H).
  apply in_map_iff in Hj. destruct Hj as (k & <- & Hk). apply in_seq in Hk.
  apply bind_panic in H. destruct H as [H|(u & _ & H)]; [|discriminate].
  apply (idx_repeat_no_panic PRewardTxOut nout (Z.of_nat k) p); [lia|exact H].
Qed.

Lemma bind_froms_no_panic ins p : Forall wf_bin ins -> bind_froms ins <> Panic p.
Proof.
  induction 1 as [|i r Hi _ IH]; cbn [bind_froms]; [discriminate|]. intros H.
  destruct (bi_prev i) as [n|] eqn:E; [|discriminate].
  apply bind_panic in H. destruct H as [H|(u & _ & H)]; [exact (idx_repeat_no_panic _ _ _ _ (Hi _ E) H)|].
  destruct (bi_addr_ok i); [exact (IH H)|discriminate].
Qed.

(* a row whose fetched transaction is the recorded one yields a detail with a binding target *)
Lemma bind_detail_spec fx r : wf_bind_row r ->
  (forall p, bind_detail fx r = Panic p -> p = PBindHistIndex /\ fx_bindhist_hash fx = false /\ br_mined r = true /\ br_same r = false) /\
  (forall b r', bind_detail fx r = Ok (Some (b, r')) ->
     r' = r /\ (b = false -> fx_bindhist_hash fx = false /\ br_mined r = true /\ br_same r = false)).
Proof.
  intros (_ & Hrow). unfold bind_detail. destruct (br_tx r) as [t|] eqn:T; [|split; intros; discriminate].
  destruct (fx_bindhist_hash fx && br_mined r && negb (br_same r)) eqn:G; [split; intros; discriminate|].
  assert (Hcase : (br_mined r = false \/ br_same r = true) \/ (fx_bindhist_hash fx = false /\ br_mined r = true /\ br_same r = false)).
  { destruct (br_mined r), (br_same r), (fx_bindhist_hash fx); cbn in G; try discriminate; auto. }
  destruct Hcase as [Hs|Hbad].
  - destruct (Hrow Hs t eq_refl) as (Hv & Hn). rewrite (idx_nth _ _ _ _ Hv Hn). cbn [bind].
    split; [intros; discriminate|]. intros b r' E. inversion E; subst. split; [reflexivity|discriminate].
  - split.
    + intros p H. apply bind_panic in H. destruct H as [H|(o & _ & H)].
      * destruct (idx_panic _ _ _ _ H) as (-> & _). tauto.
      * destruct o; discriminate.
    + intros b r' H. apply bind_ok in H. destruct H as (o & _ & H). destruct o as [b0|]; [|discriminate].
      inversion H; subst. split; [reflexivity|]. intros _. exact Hbad.
Qed.

Lemma bind_details_spec fx rows : Forall wf_bind_row rows ->
  (forall p, bind_details fx rows = Panic p -> p = PBindHistIndex /\ fx_bindhist_hash fx = false /\ exists r, In r rows /\ br_mined r = true /\ br_same r = false) /\
  (forall ds, bind_details fx rows = Ok ds -> forall b r, In (b, r) ds ->
     In r rows /\ (b = false -> fx_bindhist_hash fx = false /\ br_mined r = true /\ br_same r = false)).
Proof.
  induction 1 as [|r rest Hr _ IH]; cbn [bind_details].
  - split; [intros; discriminate|]. intros ds E; inversion E; subst. intros b r [].
  - destruct (bind_detail_spec fx r Hr) as (Hp & Ho). destruct IH as (IHp & IHo). split.
    + intros p H. apply bind_panic in H. destruct H as [H|(d & Hd & H)].
      * destruct (Hp _ H) as (-> & Hf & Hm & Hs). split; [reflexivity|]. split; [exact Hf|]. exists r. split; [left; reflexivity|auto].
      * apply bind_panic in H. destruct H as [H|(ds & _ & H)]; [|discriminate].
        destruct (IHp _ H) as (-> & Hf & r0 & Hin & Hm & Hs). split; [reflexivity|]. split; [exact Hf|]. exists r0. split; [right; exact Hin|auto].
    + intros ds H. apply bind_ok in H. destruct H as (d & Hd & H). apply bind_ok in H. destruct H as (ds' & Hds & H).
      inversion H; subst. intros b r0 Hin. destruct d as [[b1 r1]|].
      * destruct Hin as [E|Hin].
        -- inversion E; subst. destruct (Ho _ _ Hd) as (-> & Hb). split; [left; reflexivity|exact Hb].
        -- destruct (IHo _ Hds _ _ Hin) as (Hi & Hb). split; [right; exact Hi|exact Hb].
      * destruct (IHo _ Hds _ _ Hin) as (Hi & Hb). split; [right; exact Hi|exact Hb].
Qed.

Lemma bind_history_entry_panic d p : Forall wf_bin (br_ins (snd d)) ->
  bind_history_entry d = Panic p -> p = PBindHistTargetNil /\ fst d = false.
Proof.
  intros Hi H. unfold bind_history_entry in H.
  apply bind_panic in H. destruct H as [H|(u & _ & H)].
  { destruct (amount_to_string_p (br_amount (snd d))) eqn:E; try discriminate. exfalso. exact (amount_to_string_no_panic _ _ E). }
  apply bind_panic in H. destruct H as [H|(u' & _ & H)].
  { destruct (br_coinbase (snd d)); [discriminate|]. exfalso. exact (bind_froms_no_panic _ _ Hi H). }
  destruct (fst d); [discriminate|]. inversion H. auto.
Qed.

(* GetBindingHistory: a panic needs the unrepaired code AND a mined row whose transaction the node no longer has at the recorded place *)
Lemma get_binding_history_panic fx w rows p : Forall wf_bind_row rows ->
  get_binding_history fx w rows = Panic p ->
  (p = PBindHistIndex \/ p = PBindHistTargetNil) /\ fx_bindhist_hash fx = false /\
  exists r, In r rows /\ br_mined r = true /\ br_same r = false.
Proof.
  intros Hw H. unfold get_binding_history in H. destruct (cur w); [|discriminate].
  destruct (bind_details_spec fx rows Hw) as (Hp & Ho).
  apply bind_panic in H. destruct H as [H|(ds & Hds & H)].
  - destruct (Hp _ H) as (-> & Hf & Hr). auto.
  - apply check_all_panic in H. destruct H as ([b r] & Hin & H).
    destruct (Ho _ Hds _ _ Hin) as (Hir & Hb).
    rewrite Forall_forall in Hw. destruct (Hw _ Hir) as (Hins & _).
    destruct (bind_history_entry_panic (b, r) _ Hins H) as (-> & Hfalse). cbn in Hfalse.
    destruct (Hb Hfalse) as (Hf & Hm & Hs). split; [auto|]. split; [exact Hf|]. exists r. auto.
Qed.

Lemma get_staking_history_no_panic w ok rows p : get_staking_history w ok rows <> Panic p.
Proof.
  unfold get_staking_history. destruct (negb ok); [discriminate|]. destruct (cur w); [|discriminate].
  intros H. apply check_all_panic in H. destruct H as (a & _ & H).
  destruct (amount_to_string_p a) eqn:E; try discriminate. exact (amount_to_string_no_panic _ _ E).
Qed.

(* CheckTargetBinding: a valid target that is not a pubkey hash is a 22-byte binding target *)
Lemma check_target_no_panic trim cd e t p : check_target trim cd e t <> Panic p.
Proof.
  unfold check_target. destruct (c_addr cd (trim t)) eqn:A; cbn [is_valid_binding_target negb]; try discriminate.
  - destruct (e_rest_ok e); discriminate.
  - destruct (negb (e_rest_ok e)); [discriminate|]. cbn [script_len]. intros H.
    apply bind_panic in H. destruct H as [H|(u & _ & H)]; [exact (idx_repeat_no_panic _ 22 20 _ ltac:(lia) H)|].
    apply bind_panic in H. destruct H as [H|(u' & _ & H)]; [exact (idx_repeat_no_panic _ 22 21 _ ltac:(lia) H)|discriminate].
Qed.

(* a served transaction whose input names output 2 of a two-output transaction (never delivered by a validating node) *)
Theorem serve_block_unchecked_refuted :
  marshal_block [ {| bt_coinbase := false; bt_game_out := false;
                     bt_ins := [ {| bi_prev := Some 2; bi_index := 2; bi_game := false; bi_addr_ok := true |} ];
                     bt_vout_ok := true; bt_rest_ok := true |} ] = Panic PTxTypeIndex.
Proof. reflexivity. Qed.

(* ---------------------------------------------------------------- every request *)
Lemma answer_no_panic e p : answer e <> Panic p.
Proof. unfold answer. destruct (e_rest_ok e); discriminate. Qed.

Lemma inputs_ok_map trim inputs :
  inputs_ok inputs -> inputs_ok (map (fun i => {| in_txid := trim (in_txid i); in_vout := in_vout i |}) inputs).
Proof. unfold inputs_ok. intros H. apply Forall_map. exact H. Qed.

Theorem deep_panic_only_unfixed trim cd fx e w r p :
  wf w -> wf_env e -> selected_ok w e -> req_ok r ->
  deep trim cd fx e w r = Panic p -> guarded_by fx p = false.
Proof.
  intros Hw (Hna & Hhb & Hblk & Hraw & Hrew & Hrows) Hsel Hr H.
  destruct r; cbn [deep req_ok] in H, Hr; unfold auto_tx in H;
    try (exfalso; exact (answer_no_panic _ _ H)).
  - (* RemoveWallet *)
    apply bind_panic in H. destruct H as [H|(u & _ & H)]; [|exfalso; exact (answer_no_panic _ _ H)].
    destruct (task_queue_panic _ _ _ H) as (-> & Hf & _). exact Hf.
  - (* ImportWallet *)
    apply bind_panic in H. destruct H as [H|(u & _ & H)]; [|exfalso; exact (answer_no_panic _ _ H)].
    destruct (task_queue_panic _ _ _ H) as (-> & Hf & _). exact Hf.
  - (* ImportMnemonic *)
    apply bind_panic in H. destruct H as [H|(u & _ & H)]; [|exfalso; exact (answer_no_panic _ _ H)].
    destruct (task_queue_panic _ _ _ H) as (-> & Hf & _). exact Hf.
  - (* ValidateAddress *)
    unfold validate_address in H. destruct (c_addr cd addr); try discriminate;
      (destruct (negb (evicted w) && match cur w with None => true | Some _ => false end); [discriminate|];
       match type of H with (if ?c then _ else _) = _ => destruct c; [discriminate|] end;
       destruct (evicted w); [destruct (fx_cur_evicted fx) eqn:F; [discriminate|inversion H; subst; exact F]|discriminate]).
  - (* GetAddressBalance *)
    apply bind_panic in H. destruct H as [H|(u & _ & H)]; [|exfalso; exact (answer_no_panic _ _ H)].
    destruct (wm_balance_panic _ _ _ _ _ H) as (-> & Hf). exact Hf.
  - (* GetWalletBalance *)
    apply bind_panic in H. destruct H as [H|(u & _ & H)]; [|exfalso; exact (answer_no_panic _ _ H)].
    destruct (wm_balance_panic _ _ _ _ _ H) as (-> & Hf). exact Hf.
  - (* GetUtxo *)
    apply bind_panic in H. destruct H as [H|(u & _ & H)]; [|exfalso; exact (answer_no_panic _ _ H)].
    destruct (wm_balance_panic _ _ _ _ _ H) as (-> & Hf). exact Hf.
  - (* CreateAddress *)
    destruct (cur w); [|discriminate].
    apply bind_panic in H. destruct H as [H|(u & _ & H)]; [|exfalso; exact (answer_no_panic _ _ H)].
    exfalso. exact (wm_new_address_no_panic _ _ _ Hna H).
  - (* GetAllAddressesWithPubkey *) exact (wm_all_addresses_panic _ _ _ H).
  - (* TxHistory *)
    destruct (cur w); [|discriminate]. destruct (get_tx_history_panic _ _ _ _ Hhb H) as (Hf & _).
    rewrite (get_tx_history_site _ _ _ _ H).
    exact Hf.
  - (* GetRawTransaction *)
    destruct (e_rawtx e) as [t|] eqn:E; [|discriminate]. exfalso. exact (create_tx_raw_result_no_panic _ _ (Hraw _ eq_refl) H).
  - (* CreateRawTransaction *)
    exact (wm_create_raw_transaction_panic _ _ _ _ _ _ Hw (inputs_ok_map trim _ Hr) H).
  - (* WalletManager.CreateRawTransaction *)
    exact (wm_create_raw_transaction_panic _ _ _ _ _ _ Hw Hr H).
  - (* AutoCreateTransaction *) destruct (cur w); [|discriminate]. exact (wm_auto_create_panic _ _ _ _ _ Hw Hsel H).
  - (* CreateStakingTransaction *) destruct (cur w); [|discriminate]. exact (wm_auto_create_panic _ _ _ _ _ Hw Hsel H).
  - (* GetTransactionFee *)
    destruct (cur w); [|discriminate]. destruct inputs as [|i0 inputs'].
    + apply bind_panic in H. destruct H as [H|(u & _ & H)]; [|exact (wm_auto_create_panic _ _ _ _ _ Hw Hsel H)].
      exfalso. apply check_all_panic in H. destruct H as (kv & _ & H).
      apply bind_panic in H. destruct H as [H|(u & _ & H)].
      { destruct has_binding; [exact (check_witness_address_no_panic _ _ _ _ H)|discriminate]. }
      apply bind_panic in H. destruct H as [H|(v & _ & H)]; [exact (string_to_amount_no_panic _ _ H)|discriminate].
    + apply bind_panic in H. destruct H as [H|(u & _ & H)].
      * exfalso. apply check_all_panic in H. destruct H as (a & _ & H). exact (check_no_panic _ _ _ H).
      * apply bind_panic in H. destruct H as [H|(u' & _ & H)]; [|exfalso; exact (answer_no_panic _ _ H)].
        exact (estimate_manual_tx_fee_panic _ _ _ _ Hw H).
  - (* WalletManager.EstimateManualTxFee *) exact (estimate_manual_tx_fee_panic _ _ _ _ Hw H).
  - (* SignRawTransaction *)
    destruct (decode_hex_str rawtx); [|discriminate]. destruct (e_decode_tx e l); [|discriminate].
    apply bind_panic in H. destruct H as [H|(u & _ & H)]; [exfalso; exact (check_no_panic _ _ _ H)|].
    exact (wm_sign_raw_tx_panic _ _ _ _ _ _ Hw H).
  - (* WalletManager.GetTxHistory *)
    destruct (cur w); [|discriminate]. destruct (get_tx_history_panic _ _ _ _ Hhb H) as (Hf & _).
    rewrite (get_tx_history_site _ _ _ _ H).
    exact Hf.
  - (* CreateBindingTransaction *) destruct (cur w); [|discriminate]. exact (wm_auto_create_panic _ _ _ _ _ Hw Hsel H).
  - (* CreatePoolPkCoinbaseTransaction *) destruct (cur w); [|discriminate]. exact (wm_auto_create_panic _ _ _ _ _ Hw Hsel H).
  - (* GetStakingHistory *) exfalso. exact (get_staking_history_no_panic _ _ _ _ H).
  - (* GetBindingHistory *)
    destruct (get_binding_history_panic _ _ _ _ Hrows H) as ([-> | ->] & Hf & _); exact Hf.
  - (* SendRawTransaction *)
    destruct (decode_hex_str hex); [|discriminate]. destruct (e_decode_tx e l); [|discriminate].
    exfalso. exact (answer_no_panic _ _ H).
  - (* CheckTargetBinding *)
    exfalso. apply check_all_panic in H. destruct H as (t & _ & H). exact (check_target_no_panic _ _ _ _ _ H).
  - (* GetBlockByHeight *)
    destruct (e_block e) as [b|] eqn:E; [|discriminate]. exfalso. exact (marshal_block_no_panic _ _ (Hblk _ eq_refl) H).
  - (* GetBestBlock *)
    destruct (e_block e) as [b|] eqn:E; [|discriminate]. exfalso. exact (marshal_block_no_panic _ _ (Hblk _ eq_refl) H).
  - (* GetBlockStakingReward *)
    destruct (e_best e <? height); [discriminate|]. destruct (e_reward e) as [[n nout]|] eqn:E; [|discriminate].
    exfalso. apply bind_panic in H. destruct H as [H|(u & _ & H)]; [exact (reward_outs_no_panic _ _ _ (Hrew _ _ eq_refl) H)|exact (answer_no_panic _ _ H)].
Qed.

(* a panic can only come from a site whose switch is off *)
Theorem handle_panic_only_unfixed trim cd fx e w r p :
  wf w -> wf_env e -> selected_ok w e -> req_ok r ->
  handle trim cd fx e w r = Panic p -> guarded_by fx p = false.
Proof.
  intros Hw He Hs Hr H. unfold handle in H. apply bind_panic in H. destruct H as [H|(u & _ & H)].
  - exfalso. exact (prologue_no_panic _ _ _ _ H).
  - exact (deep_panic_only_unfixed _ _ _ _ _ _ _ Hw He Hs Hr H).
Qed.

Lemma guarded_all_fixed p : guarded_by all_fixed p = true.
Proof. destruct p; reflexivity. Qed.

(* C19 for the repaired code: every request is answered or rejected, in every well-formed state,
   whether or not a wallet is selected, whatever the background tasks do to the current keystore
   between two reads (cur2), whether or not the task queue exists yet *)
Theorem handle_no_panic trim cd e w r p :
  wf w -> wf_env e -> selected_ok w e -> req_ok r -> handle trim cd all_fixed e w r <> Panic p.
Proof.
  intros Hw He Hs Hr H. pose proof (handle_panic_only_unfixed _ _ _ _ _ _ _ Hw He Hs Hr H) as G.
  rewrite guarded_all_fixed in G. discriminate.
Qed.

Lemma bind_details_ext fx fx' rows :
  fx_bindhist_hash fx = fx_bindhist_hash fx' -> bind_details fx rows = bind_details fx' rows.
Proof.
  intros E. induction rows as [|r rest IH]; [reflexivity|]. cbn [bind_details]. rewrite IH. unfold bind_detail. rewrite E. reflexivity.
Qed.

(* the API proper (gRPC requests, sequential use, task queue created): the code as found could only
   panic at the three pending-input sites and in GetBindingHistory *)
Definition api_request (r : request) : Prop :=
  match r with
  | RGetAllAddressesWithPubkey | RWmCreateRawTransaction _ _ _ | RWmEstimateManualTxFee _ | RWmGetTxHistory _ => False
  | RTxHistory count _ => 0 <= count       (* a uint32 *)
  | _ => True
  end.

Theorem api_as_found_panics_only_at_pending_sites trim cd e w r p :
  wf w -> wf_env e -> selected_ok w e -> req_ok r -> api_request r ->
  sequential w -> taskchan w = true ->
  handle trim cd as_found e w r = Panic p ->
  p = PCtiIndex \/ p = PCtiBlockNil \/ p = PSignMetaNil \/ p = PBindHistIndex \/ p = PBindHistTargetNil \/ p = PCurEvictedNil.
Proof.
  intros Hw He Hs Hr Ha (Hseq & Hseq3) Htc H.
  (* re-run the analysis with the switches of the sites that cannot fire here turned on *)
  set (fx := {| fx_cti_index := false; fx_cti_block := false; fx_cti_dup := false; fx_senders := true; fx_sign_meta := false; fx_sign_len0 := false;
                fx_cur_nil := true; fx_cur3_nil := true; fx_import_rec := true; fx_taskchan := true; fx_select_neg := true;
                fx_cur_evicted := false; fx_bindhist_hash := false |}).
  assert (E : handle trim cd as_found e w r = handle trim cd fx e w r).
  { unfold handle. destruct (prologue trim cd r) eqn:P; cbn [bind]; try reflexivity.
    destruct (cur w) as [c|] eqn:C.
    - (* a wallet is selected: both reads see it *)
      assert (Hc2 : forall q, script_address_scan q as_found w = script_address_scan q fx w).
      { intros q. unfold script_address_scan. rewrite Hseq. reflexivity. }
      assert (Hm : forall h i, exists_msg_tx as_found w h i = exists_msg_tx fx w h i).
      { intros h i. unfold exists_msg_tx. rewrite Hseq. reflexivity. }
      assert (Ho : forall h i, exists_out_point as_found w h i = exists_out_point fx w h i).
      { intros h i. unfold exists_out_point. rewrite Hseq. reflexivity. }
      assert (Hl : forall h i, lookup_prev as_found w h i = lookup_prev fx w h i).
      { intros h i. unfold lookup_prev. rewrite Hm. reflexivity. }
      assert (Hcti : forall inputs seen, cti_loop as_found w seen inputs = cti_loop fx w seen inputs).
      { induction inputs as [|i r' IH]; intros seen; [reflexivity|]. cbn [cti_loop]. rewrite IH. unfold cti_one.
        change (fx_cti_dup as_found) with false. change (fx_cti_dup fx) with false.
        destruct (hash_from_str (in_txid i)); [|reflexivity]. rewrite Hl. reflexivity. }
      assert (Hest : forall ops, est_loop as_found w ops = est_loop fx w ops).
      { induction ops as [|[h i] r' IH]; [reflexivity|]. cbn [est_loop]. rewrite IH. unfold est_one. rewrite Hm. reflexivity. }
      assert (Hadd : forall ops, add_loop as_found w ops = add_loop fx w ops).
      { induction ops as [|[h i] r' IH]; [reflexivity|]. cbn [add_loop]. rewrite IH. unfold add_one. rewrite Hm. reflexivity. }
      assert (Hsign : forall so ins cache, sign_loop as_found w so cache ins = sign_loop fx w so cache ins).
      { intros so. induction ins as [|[h i] r' IH]; intros cache; [reflexivity|]. cbn [sign_loop].
        rewrite Hl.
        match goal with |- bind ?x _ = _ => destruct x as [[e0 c0]| |] end; cbn [bind fst snd]; try reflexivity.
        rewrite Ho.
        change (fx_sign_len0 as_found) with false. change (fx_sign_len0 fx) with false.
        change (fx_sign_meta as_found) with false. change (fx_sign_meta fx) with false.
        destruct (if lenZ (fst e0) =? 0 then false else lenZ (fst e0) - 1 <? i); [reflexivity|].
        destruct (exists_out_point fx w h i) as [[[|]|]| |]; cbn [bind]; try reflexivity.
        destruct (idx PSignIndex (fst e0) i) as [o| |]; cbn [bind]; try reflexivity.
        rewrite Hseq3.
        destruct (ov_parse o); cbn [bind]; [|reflexivity].
        destruct (negb so); [reflexivity|]. destruct (snd e0); [apply IH|reflexivity]. }
      assert (Hfe : forall n, find_eligible as_found w n = find_eligible fx w n).
      { intros n. unfold find_eligible. rewrite Hc2. rewrite Hseq3. reflexivity. }
      assert (Hcr : forall inputs ce ro, inputs <> [] -> wm_create_raw_transaction as_found w inputs ce ro = wm_create_raw_transaction fx w inputs ce ro).
      { intros inputs ce ro Hne. unfold wm_create_raw_transaction, construct_tx_in, estimate_manual_tx_fee. rewrite C, Hcti.
        destruct (cti_loop fx w [] inputs) as [senders| |] eqn:L; cbn [bind]; try reflexivity.
        assert (senders <> []) as Hsn.
        { apply cti_loop_length in L. destruct senders; [destruct inputs; [congruence|discriminate]|congruence]. }
        destruct senders as [|s0 ss]; [congruence|].
        change (fx_senders as_found && null (s0 :: ss)) with false. change (fx_senders fx && null (s0 :: ss)) with false.
        destruct (parse_inputs inputs); [rewrite Hest|]; reflexivity. }
      assert (Hbd : forall rows, bind_details as_found rows = bind_details fx rows).
      { intros rows. apply bind_details_ext. reflexivity. }
      destruct r; cbn [deep api_request] in *; try contradiction; try reflexivity;
        unfold auto_tx, get_binding_history, task_queue, wm_balance, wm_auto_create, wm_sign_raw_tx, estimate_manual_tx_fee;
        rewrite ?Htc, ?C, ?Hc2, ?Hfe, ?Hest, ?Hadd, ?Hsign, ?Hbd; try reflexivity.
      + (* TxHistory *) unfold get_tx_history. cbn [fx_select_neg as_found fx andb].
        destruct (count =? 0) eqn:Z0; [reflexivity|]. destruct (count <? 0) eqn:N; bool_hyps; [lia|reflexivity].
      + (* CreateRawTransaction *)
        apply Hcr. (* the prologue has checked that there is an input *)
        cbn [prologue] in P. destruct inputs; [|discriminate].
        destruct (check_locktime locktime); cbn in P; discriminate.
      + (* GetTransactionFee *)
        destruct inputs; [rewrite ?Hfe, ?Hest, ?Hadd; reflexivity|].
        destruct (check_all (fun i0 : inp => check_txid_len (in_txid i0)) (i :: inputs)); cbn [bind]; try reflexivity.
        destruct (parse_inputs (i :: inputs)); [rewrite Hest|]; reflexivity.
      + (* SignRawTransaction *)
        destruct (decode_hex_str rawtx); [|reflexivity]. destruct (e_decode_tx e l); [|reflexivity].
        destruct (check_pass_len pass); cbn [bind]; try reflexivity.
        destruct (negb (valid_flag (if null flags then [65; 76; 76] else flags))); [reflexivity|]. apply Hsign.
    - (* no wallet selected: every modelled path answers ErrNoWalletInUse before it reads the store *)
      destruct r; cbn [deep api_request] in *; try contradiction; try reflexivity;
        unfold auto_tx, get_binding_history, task_queue, wm_balance, wm_auto_create, wm_sign_raw_tx, wm_create_raw_transaction, construct_tx_in;
        rewrite ?Htc, ?C; try reflexivity. }
  rewrite E in H. pose proof (handle_panic_only_unfixed _ _ _ _ _ _ _ Hw He Hs Hr H) as G.
  destruct p; cbn in G; try discriminate; tauto.
Qed.

(* ---------------------------------------------------------------- witnesses for the code as found *)
(* a state with one unmined transaction (hash 1: a standard and a binding output of the selected
   wallet) and one mined credit (hash 2, output 0) *)
Definition o_std : outv := {| ov_parse := Some PkStd; ov_mine := true; ov_addrs := Some 1%nat; ov_keys := true |}.
Definition o_bind : outv := {| ov_parse := Some PkBinding; ov_mine := true; ov_addrs := Some 2%nat; ov_keys := true |}.
Definition tx_pending : txv := [o_std; o_bind].
Definition txof0 (h : N) : txv := if (h =? 1)%N then tx_pending else if (h =? 2)%N then [o_std] else [].
Definition store0 : store :=
  {| st_credit := fun h i => if (h =? 2)%N && (i =? 0) then Found [o_std] 7 else NotFound;
     st_unmined := fun h => if (h =? 1)%N then Some tx_pending else None;
     st_utxo := fun h i => if (h =? 1)%N && (0 <=? i) && (i <? 2) then Some false
                           else if (h =? 2)%N && (i =? 0) then Some false else None |}.
Definition w_sel : wst := {| cur := Some 5%N; cur2 := Some 5%N; cur3 := Some 5%N; st := store0; taskchan := true; evicted := false |}.
Definition w_none : wst := {| cur := None; cur2 := None; cur3 := None; st := store0; taskchan := true; evicted := false |}.
Definition w_race : wst := {| cur := Some 5%N; cur2 := None; cur3 := None; st := store0; taskchan := true; evicted := false |}.       (* removal completed between the first two reads *)
Definition w_race3 : wst := {| cur := Some 5%N; cur2 := Some 5%N; cur3 := None; st := store0; taskchan := true; evicted := false |}.  (* … after the store was read *)
Definition w_starting : wst := {| cur := None; cur2 := None; cur3 := None; st := store0; taskchan := false; evicted := false |}.      (* worker() not yet scheduled *)

Lemma wf_store0 : wf_store store0.
Proof.
  exists txof0. split; [|split].
  - intros h i t ht H. cbn in H. destruct ((h =? 2)%N && (i =? 0)) eqn:E; [|discriminate].
    inversion H; subst. bool_hyps. apply N.eqb_eq in H0. subst. cbn.
    split; [reflexivity|]. split; [lia|]. exists o_std. split; [reflexivity|].
    split; [discriminate|]. exists 0%nat. reflexivity.
  - intros h t H. cbn in H. unfold txof0. destruct (h =? 1)%N; [inversion H; reflexivity|discriminate].
  - intros h i b H. cbn in H. unfold txof0.
    destruct ((h =? 1)%N && (0 <=? i) && (i <? 2)) eqn:E.
    + bool_hyps. rewrite H0. cbn. lia.
    + destruct ((h =? 2)%N && (i =? 0)) eqn:E2; [|discriminate]. bool_hyps.
      apply N.eqb_eq in H0. subst. cbn. lia.
Qed.

Definition txid_of (n : Z) : str := repeat 48 63 ++ [48 + n].      (* 64 characters *)
(* a served block: a coinbase, a transaction spending output 1 of a two-output transaction *)
Definition bin_ok : bin := {| bi_prev := Some 2; bi_index := 1; bi_game := false; bi_addr_ok := true |}.
Definition btx_cb : btx := {| bt_coinbase := true; bt_game_out := false; bt_ins := [ {| bi_prev := None; bi_index := 4294967295; bi_game := false; bi_addr_ok := false |} ];
                              bt_vout_ok := true; bt_rest_ok := true |}.
Definition btx_std : btx := {| bt_coinbase := false; bt_game_out := false; bt_ins := [bin_ok]; bt_vout_ok := true; bt_rest_ok := true |}.
(* a mined binding deposit at output 1 of a two-output transaction the node still has *)
Definition row_ok : bind_row :=
  {| br_mined := true; br_vout := 1; br_same := true; br_tx := Some [Some false; Some true]; br_amount := 100000000;
     br_coinbase := false; br_ins := [bin_ok] |}.
Definition env0 : env :=
  {| e_rest_ok := true; e_decode_tx := fun _ => Some [(1%N, 0)]; e_sign_ok := true; e_selected := [];
     e_next_addr := Some [tt]; e_history_batches := [[2]];
     e_block := Some [btx_cb; btx_std]; e_rawtx := Some btx_std; e_best := 10; e_reward := Some (1, 2);
     e_stake_rows := [204800000000]; e_bind_rows := [row_ok] |}.
Lemma wf_bin_ok : wf_bin bin_ok.
Proof. intros n H. inversion H; subst. cbn. lia. Qed.
Lemma wf_btx_std : wf_btx btx_std.
Proof. constructor; [exact wf_bin_ok|constructor]. Qed.
Lemma wf_btx_cb : wf_btx btx_cb.
Proof. constructor; [intros n H; discriminate|constructor]. Qed.
Lemma wf_row_ok : wf_bind_row row_ok.
Proof.
  split; [constructor; [exact wf_bin_ok|constructor]|]. intros _ t H. inversion H; subst. cbn. split; [lia|reflexivity].
Qed.
Lemma wf_env0 : wf_env env0.
Proof.
  split; [intros mas H; inversion H; reflexivity|]. split; [repeat constructor; lia|].
  split; [intros b H; inversion H; subst; constructor; [exact wf_btx_cb|constructor; [exact wf_btx_std|constructor]]|].
  split; [intros t H; inversion H; subst; exact wf_btx_std|].
  split; [intros n nout H; inversion H; subst; lia|].
  constructor; [exact wf_row_ok|constructor].
Qed.
(* the address codec of the witnesses: "m" a standard address, "s" a staking address, "t" a binding target, "p" a pubkey hash *)
Definition cd0 : codecs :=
  {| c_addr := fun s => match s with
                        | [109] => AWitness 0 0 | [115] => AWitness 0 1 | [116] => ABindingTarget | [112] => APubKeyHash
                        | [120] => AOther 33
                        | _ => ADecErr
                        end;
     c_payload_pool := fun raw => match raw with [] => false | _ => true end |}.
Lemma selected_ok0 w : selected_ok w env0.
Proof. intros h i []. Qed.

Definition id_trim (s : str) : str := s.
Definition one_mass : list (str * str) := [([109], [49])].          (* {"m": "1"} *)
Definition pass6 : str := [49; 50; 51; 52; 53; 54].

(* E1a: manual transaction from a pending output with an index beyond its outputs *)
Definition req_cti_index : request := RCreateRawTransaction [ {| in_txid := txid_of 1; in_vout := 2 |} ] one_mass 0 [109] [].
(* E1b: manual transaction from a pending BINDING output *)
Definition req_cti_block : request := RCreateRawTransaction [ {| in_txid := txid_of 1; in_vout := 1 |} ] one_mass 0 [109] [].
(* E1c: signing a transaction that spends a pending output *)
Definition req_sign_meta : request := RSignRawTransaction [48; 48] pass6 [].

Theorem as_found_refuted :
  wf w_sel /\ sequential w_sel /\ wf_env env0 /\
  handle id_trim cd0 as_found env0 w_sel req_cti_index = Panic PCtiIndex /\
  handle id_trim cd0 as_found env0 w_sel req_cti_block = Panic PCtiBlockNil /\
  handle id_trim cd0 as_found env0 w_sel req_sign_meta = Panic PSignMetaNil /\
  (* WalletManager level *)
  handle id_trim cd0 as_found env0 w_sel (RWmCreateRawTransaction [] 1 true) = Panic PSenders0 /\
  handle id_trim cd0 as_found env0 w_none (RWmEstimateManualTxFee [ {| in_txid := [50]; in_vout := 0 |} ]) = Panic PExistsTxCurNil /\
  handle id_trim cd0 as_found env0 w_sel (RWmGetTxHistory (-1)) = Panic PSelectSlice /\
  (* the background removal completes between two reads of the current keystore *)
  handle id_trim cd0 as_found env0 w_race (RGetWalletBalance 1 true) = Panic PBalanceCurNil /\
  handle id_trim cd0 as_found env0 w_race (RGetUtxo []) = Panic PUnspentsCurNil /\
  handle id_trim cd0 as_found env0 w_race req_sign_meta = Panic PExistsTxCurNil /\
  handle id_trim cd0 as_found env0 w_race RGetAllAddressesWithPubkey = Panic PPubkeyCurNil /\
  (* a request before the worker goroutine created the task queue *)
  handle id_trim cd0 as_found env0 w_starting (RImportWallet [123; 125] pass6) = Panic PTaskChanNil /\
  (* the import task meets a transaction the index lists but the script reader does not accept *)
  async_import as_found [ImpRelevant; ImpNotRelevant] = Panic PImportRecNil.
Proof.
  split; [exact wf_store0|]. split; [split; reflexivity|]. split; [exact wf_env0|].
  repeat split; vm_compute; reflexivity.
Qed.

(* the same requests on the repaired code are answered *)
Theorem witnesses_fixed :
  handle id_trim cd0 all_fixed env0 w_sel req_cti_index = Err ErrBelow /\
  handle id_trim cd0 all_fixed env0 w_sel req_cti_block = Err ErrBelow /\   (* the fee estimate looks in the mined bucket only *)
  handle id_trim cd0 all_fixed env0 w_sel req_sign_meta = Ok tt /\
  handle id_trim cd0 all_fixed env0 w_sel (RWmCreateRawTransaction [] 1 true) = Err ErrBelow /\
  handle id_trim cd0 all_fixed env0 w_race (RGetWalletBalance 1 true) = Err ErrBelow /\
  handle id_trim cd0 all_fixed env0 w_starting (RImportWallet [123; 125] pass6) = Ok tt /\
  handle id_trim cd0 all_fixed env0 w_sel (RWmGetTxHistory (-1)) = Ok tt /\
  async_import all_fixed [ImpRelevant; ImpNotRelevant] = Ok tt.
Proof. repeat split; vm_compute; reflexivity. Qed.

(* filterTx without its length test (a mutation the exploration must catch) *)
Theorem filter_tx_unguarded_refuted : filter_tx_input false 2 2 = Panic PFilterTxIndex.
Proof. reflexivity. Qed.

(* ---------------------------------------------------------------- generic bounds facts the inventory refers to *)
(* wire.Hash.String() (inlined at every logging call): for i := 0; i < HashSize/2; i++ { h[i], h[HashSize-1-i] = … } on a [32]byte *)
Lemma hash_string_in_bounds i : 0 <= i < 16 -> 0 <= i < 32 /\ 0 <= 31 - i < 32.
Proof. lia. Qed.
(* hex.EncodeToString (inlined): dst := make([]byte, 2*len(src)); dst[2i], dst[2i+1] for i < len(src) *)
Lemma hex_encode_in_bounds n i : 0 <= i < n -> 0 <= 2 * i /\ 2 * i + 1 < 2 * n.
Proof. lia. Qed.
(* binary.BigEndian.Uint64(b[a:a+8]) / Uint32 / PutUint16 and the fixed-width key codecs of txmgr:
   a cut [a:b] of a slice whose length was tested (or constructed) to be at least b *)
Lemma fixed_width_in_bounds {A} p (l : list A) a b : 0 <= a <= b -> b <= lenZ l ->
  exists x y, slice_split p l a = Ok (x, y) /\ exists u v, slice_split p y (b - a) = Ok (u, v).
Proof.
  intros Hab Hb. destruct (slice_in_bounds p l a ltac:(lia)) as (x & y & E). exists x, y. split; [assumption|].
  unfold slice_split in E. destruct ((a <? 0) || (lenZ l <? a)); [discriminate|]. inversion E; subst.
  apply slice_in_bounds. unfold lenZ in *. rewrite skipn_length. lia.
Qed.
(* sort.Slice(x, func(i, j int) bool { … x[i] … x[j] … }): the sort calls less with 0 <= i, j < len(x) *)
Lemma sort_less_in_bounds {A} p (l : list A) i j : 0 <= i < lenZ l -> 0 <= j < lenZ l ->
  exists a b, idx p l i = Ok a /\ idx p l j = Ok b.
Proof. intros Hi Hj. destruct (idx_in_bounds p l i Hi) as (a & ->). destruct (idx_in_bounds p l j Hj) as (b & ->). eauto. Qed.
(* for i := … ; i < len(x); … { x[i] } and for i := len(x)-1; i >= 0; i-- { x[i] } *)
Lemma loop_index_in_bounds {A} p (l : list A) i : 0 <= i < lenZ l -> exists a, idx p l i = Ok a.
Proof. apply idx_in_bounds. Qed.

(* the removal completes AFTER the store was read: the late reads of the current keystore *)
Definition env_sel : env :=
  {| e_rest_ok := true; e_decode_tx := fun _ => Some [(2%N, 0)]; e_sign_ok := true; e_selected := [(2%N, 0)];
     e_next_addr := Some [tt]; e_history_batches := [];
     e_block := None; e_rawtx := None; e_best := 0; e_reward := None; e_stake_rows := []; e_bind_rows := [] |}.
Lemma selected_ok_sel w : st w = store0 -> selected_ok w env_sel.
Proof. intros E h i [H|[]]. inversion H; subst. rewrite E. cbn. eauto. Qed.

Theorem as_found_refuted_late_reads :
  wf w_race3 /\ selected_ok w_race3 env_sel /\
  handle id_trim cd0 as_found env_sel w_race3 (RAutoCreateTransaction one_mass 0 [] [] []) = Panic PFindMaNil /\
  handle id_trim cd0 as_found env_sel w_race3 req_sign_meta = Panic PSignScriptCurNil /\
  handle id_trim cd0 all_fixed env_sel w_race3 (RAutoCreateTransaction one_mass 0 [] [] []) = Err ErrBelow /\
  handle id_trim cd0 all_fixed env_sel w_race3 req_sign_meta = Err ErrBelow.
Proof.
  split; [exact wf_store0|]. split; [apply selected_ok_sel; reflexivity|].
  repeat split; vm_compute; reflexivity.
Qed.

(* ---------------------------------------------------------------- GetBindingHistory while the wallet lags behind a reorganisation of the node *)
(* the wallet recorded a binding deposit at output 1 of a transaction at (height, location); the node has
   reorganised and now holds, at the same height and location, a transaction with one output (row_lag1) resp.
   a transaction whose output 1 is an ordinary script (row_lag2); the wallet has not processed the new chain yet *)
Definition row_lag1 : bind_row :=
  {| br_mined := true; br_vout := 1; br_same := false; br_tx := Some [Some false]; br_amount := 100000000;
     br_coinbase := false; br_ins := [bin_ok] |}.
Definition row_lag2 : bind_row :=
  {| br_mined := true; br_vout := 1; br_same := false; br_tx := Some [Some true; Some false]; br_amount := 100000000;
     br_coinbase := false; br_ins := [bin_ok] |}.
Definition env_lag (r : bind_row) : env :=
  {| e_rest_ok := true; e_decode_tx := fun _ => None; e_sign_ok := true; e_selected := [];
     e_next_addr := Some [tt]; e_history_batches := [];
     e_block := None; e_rawtx := None; e_best := 0; e_reward := None; e_stake_rows := []; e_bind_rows := [row_ok; r] |}.

Lemma wf_env_lag r : br_mined r = true -> br_same r = false -> br_ins r = [bin_ok] -> wf_env (env_lag r).
Proof.
  intros Hm Hs Hi. split; [intros mas H; inversion H; reflexivity|]. split; [constructor|].
  split; [intros b H; discriminate|]. split; [intros t H; discriminate|]. split; [intros n nout H; discriminate|].
  constructor; [exact wf_row_ok|]. constructor; [|constructor].
  split; [rewrite Hi; constructor; [exact wf_bin_ok|constructor]|].
  intros [H|H]; congruence.
Qed.

Theorem bind_history_as_found_refuted :
  wf w_sel /\ sequential w_sel /\ wf_env (env_lag row_lag1) /\ wf_env (env_lag row_lag2) /\
  handle id_trim cd0 as_found (env_lag row_lag1) w_sel (RGetBindingHistory []) = Panic PBindHistIndex /\
  handle id_trim cd0 as_found (env_lag row_lag2) w_sel (RGetBindingHistory []) = Panic PBindHistTargetNil /\
  handle id_trim cd0 code_before_second_group_repairs (env_lag row_lag1) w_sel (RGetBindingHistory []) = Panic PBindHistIndex /\
  handle id_trim cd0 code_before_second_group_repairs (env_lag row_lag2) w_sel (RGetBindingHistory []) = Panic PBindHistTargetNil /\
  (* repaired: the rows whose transaction is gone are left out, the others are reported *)
  handle id_trim cd0 all_fixed (env_lag row_lag1) w_sel (RGetBindingHistory []) = Ok tt /\
  handle id_trim cd0 all_fixed (env_lag row_lag2) w_sel (RGetBindingHistory []) = Ok tt.
Proof.
  split; [exact wf_store0|]. split; [split; reflexivity|].
  split; [apply wf_env_lag; reflexivity|]. split; [apply wf_env_lag; reflexivity|].
  repeat split; vm_compute; reflexivity.
Qed.

(* the code as it stands (after /repo commits 9638031 and d0557bc): every switch is in the repaired position *)
Lemma current_code_switches :
  current_code = {| fx_cti_index := true; fx_cti_block := true; fx_cti_dup := true; fx_senders := true; fx_sign_meta := true; fx_sign_len0 := true;
                    fx_cur_nil := true; fx_cur3_nil := true; fx_import_rec := true; fx_taskchan := true; fx_select_neg := true;
                    fx_cur_evicted := true; fx_bindhist_hash := true |}.
Proof. reflexivity. Qed.

(* the code before the two repairs could panic only at the two sites of GetBindingHistory and at the cache look-up of ValidateAddress *)
Theorem current_code_panics_only_at_known_sites trim cd e w r p :
  wf w -> wf_env e -> selected_ok w e -> req_ok r ->
  handle trim cd code_before_second_group_repairs e w r = Panic p -> p = PBindHistIndex \/ p = PBindHistTargetNil \/ p = PCurEvictedNil.
Proof.
  intros Hw He Hs Hr H.
  pose proof (handle_panic_only_unfixed _ _ _ _ _ _ _ Hw He Hs Hr H) as G.
  destruct p; cbn in G; try discriminate; auto.
Qed.

(* ... and GetBindingHistory panics only with the unrepaired code and only while a mined row's transaction is no
   longer where the wallet recorded it (the node reorganised, the wallet has not followed yet) *)
Theorem binding_history_panic_needs_lagging_row trim cd fx e w t p :
  wf_env e -> handle trim cd fx e w (RGetBindingHistory t) = Panic p ->
  (p = PBindHistIndex \/ p = PBindHistTargetNil) /\ fx_bindhist_hash fx = false /\
  exists row, In row (e_bind_rows e) /\ br_mined row = true /\ br_same row = false.
Proof.
  intros (_ & _ & _ & _ & _ & Hrows) H. unfold handle in H. cbn [prologue bind deep] in H.
  exact (get_binding_history_panic _ _ _ _ Hrows H).
Qed.

(* ---------------------------------------------------------------- ValidateAddress after the keystore cache lost the selected keystore *)
(* the database is failing (after Stop): NewAddress fails, drops the cached keystore by name in order to reload it, and the
   reload fails too, while km.currentKeystore keeps naming the keystore *)
Definition w_evicted : wst := {| cur := None; cur2 := None; cur3 := None; st := store0; taskchan := true; evicted := true |}.

Theorem cur_evicted_refuted :
  wf w_evicted /\ wf_env env0 /\
  handle id_trim cd0 as_found env0 w_evicted (RValidateAddress [109]) = Panic PCurEvictedNil /\
  handle id_trim cd0 code_before_second_group_repairs env0 w_evicted (RValidateAddress [109]) = Panic PCurEvictedNil /\
  handle id_trim cd0 all_fixed env0 w_evicted (RValidateAddress [109]) = Err ErrAPINoWalletInUse /\
  (* an address that does not decode is answered before the keystore is consulted; the other requests see "no wallet in use" *)
  handle id_trim cd0 as_found env0 w_evicted (RValidateAddress [122]) = Ok tt /\
  handle id_trim cd0 as_found env0 w_evicted (RGetWalletBalance 1 true) = Err ErrAPINoWalletInUse.
Proof. split; [exact wf_store0|]. split; [exact wf_env0|]. repeat split; vm_compute; reflexivity. Qed.

Theorem validate_address_panic_needs_evicted trim cd fx e w a p :
  handle trim cd fx e w (RValidateAddress a) = Panic p ->
  p = PCurEvictedNil /\ fx_cur_evicted fx = false /\ evicted w = true.
Proof.
  intros H. unfold handle in H. apply bind_panic in H. destruct H as [H|(u & _ & H)]; [exfalso; exact (prologue_no_panic _ _ _ _ H)|].
  cbn [deep] in H. unfold validate_address in H.
  destruct (c_addr cd a); try discriminate;
    (destruct (negb (evicted w) && match cur w with None => true | Some _ => false end); [discriminate|];
     match type of H with (if ?c then _ else _) = _ => destruct c; [discriminate|] end;
     destruct (evicted w); [destruct (fx_cur_evicted fx); [discriminate|inversion H; auto]|discriminate]).
Qed.
