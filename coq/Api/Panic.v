(* Api/Panic.v — executable model of the look-up paths below the validation prologue in which
   Go can panic: masswallet/tx.go (constructTxIn, estimateSignedSize, EstimateManualTxFee,
   signWitnessTx, findEligibleUtxos, selectRelatedTx), common.go (existsMsgTx, existsUnminedTx,
   existsOutPoint, addTxIn), wallet.go (CreateRawTransaction, SignRawTx, NewAddress,
   GetAllAddressesWithPubkey), txmgr (the first statement of ExistsTx / ExistsUtxo /
   ScriptAddressBalance / ScriptAddressUnspents), ntfnshandler.go (asyncImport's use of the record
   returned by filterTxForImporting, the input look-ups of filterTx / filterTxForImporting,
   filterBlock's txLocs[i], IsWorkerBusy / OnImportWallet / OnRemoveWallet on the task queue), and
   [handle]: prologue, then the path, for every request of Api/Validate.v.
   Everything these paths do NOT look at is abstracted: a previous output is what ParsePkScript,
   the keystore and ExtractPkScriptAddrs say about it ([outv]); the store is the answers of
   ExistsTx / ExistUnminedTx / ExistsUtxo ([store]); the part of a method behind the modelled path
   (fee arithmetic, output construction, signing, serialisation) is a boolean oracle.
   One switch per site that was found to panic ([fixes]): false = the code as found.
   Definitions only. *)
From Coq Require Import List ZArith NArith Bool.
Import ListNotations.
Open Scope Z_scope.
Require Import MW.Gen.Consts MW.Codec.Amount MW.Api.Validate.

(* ---------------------------------------------------------------- abstraction of the state *)
Inductive pclass := PkStd | PkStaking | PkBinding.

(* what the paths read of one transaction output *)
Record outv := {
  ov_parse : option pclass;   (* utils.ParsePkScript: None = error (unsupported or malformed script) *)
  ov_mine : bool;             (* am.Address(pks.StdEncodeAddress()) succeeds in the CURRENT wallet *)
  ov_addrs : option nat;      (* txscript.ExtractPkScriptAddrs: None = error, Some k = k addresses *)
  ov_keys : bool              (* estimateSignedSize: address manager, managed address and redeem script are found *)
}.
Definition txv := list outv.   (* a transaction = its outputs *)

(* TxStore.ExistsTx(outpoint): a credit (of any wallet) exists for exactly this outpoint and the chain
   still has the transaction -> (transaction, height of the credit's block); else ErrNotFound; or another error *)
Inductive lookres := Found (t : txv) (height : Z) | NotFound | LookErr.

Record store := {
  st_credit : N -> Z -> lookres;            (* ExistsTx, by (tx hash, output index) *)
  st_unmined : N -> option txv;             (* ExistUnminedTx, by tx hash only *)
  st_utxo : N -> Z -> option bool           (* ExistsUtxo: None = not found / error, Some spent *)
}.

Record wst := {
  cur : option N;       (* ksmgr.CurrentKeystore() as read by the WalletManager method *)
  cur2 : option N;      (* ksmgr.CurrentKeystore() as read again, later in the same call, by txmgr / findEligibleUtxos /
                           GetAllAddressesWithPubkey. Sequentially cur2 = cur; it is None after the background removal of
                           the selected wallet completed in between (asyncRemove does not take WalletManager.mu) *)
  cur3 : option N;      (* … and as read a third time, after the store has been consulted: findEligibleUtxos naming the
                           first selected address, the script closure of signWitnessTx *)
  st : store;
  taskchan : bool;      (* h.taskChan has been created by the worker goroutine *)
  evicted : bool        (* km.currentKeystore still names a keystore that km.managedKeystores no longer holds: a failed NewAddress
                           whose reload of the keystore failed too dropped the cached entry (needs a failing database: after
                           Stop, or two storage faults). CurrentKeystore() then answers nil: [cur] = None *)
}.

(* one switch per site found to panic; true = repaired *)
Record fixes := {
  fx_cti_index : bool;    (* constructTxIn tests the output index against len(prevTx.TxOut) *)
  fx_cti_block : bool;    (* constructTxIn does not read block.Height of a nil block *)
  fx_cti_dup : bool;      (* constructTxIn rejects an outpoint given twice (repair made for C02; no panic involved) *)
  fx_senders : bool;      (* CreateRawTransaction tests len(senders) *)
  fx_sign_meta : bool;    (* signWitnessTx does not read Height of a nil block meta *)
  fx_sign_len0 : bool;    (* signWitnessTx's index test does not underflow for a transaction without outputs *)
  fx_cur_nil : bool;      (* txmgr (ExistsTx, ExistsUtxo, ScriptAddressBalance, ScriptAddressUnspents) test CurrentKeystore() for nil *)
  fx_cur3_nil : bool;     (* findEligibleUtxos, the script closure of signWitnessTx and GetAllAddressesWithPubkey test their
                             own, later read of CurrentKeystore() for nil *)
  fx_import_rec : bool;   (* asyncImport skips a transaction for which filterTxForImporting returns (nil, nil) *)
  fx_taskchan : bool;     (* the task queue exists before requests are served (or is nil-tested) *)
  fx_select_neg : bool;   (* GetTxHistory treats wanted <= 0 as the default *)
  fx_cur_evicted : bool;  (* GetManagedAddressByScriptHashInCurrent tests the cache look-up (as ChangePrivPassphrase does) *)
  fx_bindhist_hash : bool (* GetBindingHistoryDetail compares the hash of the transaction it fetched by (height, location) with the
                             recorded one (as TxStore.ExistsTx does) and skips the row when the node's chain has changed there *)
}.
Definition all_fixed : fixes :=
  {| fx_cti_index := true; fx_cti_block := true; fx_cti_dup := true; fx_senders := true; fx_sign_meta := true; fx_sign_len0 := true;
     fx_cur_nil := true; fx_cur3_nil := true; fx_import_rec := true; fx_taskchan := true; fx_select_neg := true;
     fx_cur_evicted := true; fx_bindhist_hash := true |}.
(* the switches as /repo stands now *)
Definition current_code : fixes :=
  {| fx_cti_index := true; fx_cti_block := true; fx_cti_dup := true; fx_senders := true; fx_sign_meta := true; fx_sign_len0 := true;
     fx_cur_nil := true; fx_cur3_nil := true; fx_import_rec := true; fx_taskchan := true; fx_select_neg := true;
     fx_cur_evicted := true; fx_bindhist_hash := true |}.
(* the code as it stood when the second group of API methods was modelled (before /repo commits 9638031 and d0557bc):
   every earlier repair in place, GetBindingHistoryDetail and the cache look-up of the selected keystore unrepaired *)
Definition code_before_second_group_repairs : fixes :=
  {| fx_cti_index := true; fx_cti_block := true; fx_cti_dup := true; fx_senders := true; fx_sign_meta := true; fx_sign_len0 := true;
     fx_cur_nil := true; fx_cur3_nil := true; fx_import_rec := true; fx_taskchan := true; fx_select_neg := true;
     fx_cur_evicted := false; fx_bindhist_hash := false |}.
Definition as_found : fixes :=
  {| fx_cti_index := false; fx_cti_block := false; fx_cti_dup := false; fx_senders := false; fx_sign_meta := false; fx_sign_len0 := false;
     fx_cur_nil := false; fx_cur3_nil := false; fx_import_rec := false; fx_taskchan := false; fx_select_neg := false;
     fx_cur_evicted := false; fx_bindhist_hash := false |}.

(* ---------------------------------------------------------------- wire.NewHashFromStr *)
(* at most 64 hex characters; the value of the hex numeral identifies the hash *)
Definition hash_from_str (s : str) : option N :=
  if (lenZ s <=? 64) && forallb is_hex s
  then Some (Z.to_N (fold_left (fun a c => a * 16 + hexval c) s 0))
  else None.

(* ---------------------------------------------------------------- common.go / txmgr *)
(* existsMsgTx -> TxStore.ExistsTx: begins with s.ksmgr.CurrentKeystore().Name() *)
Definition exists_msg_tx (fx : fixes) (w : wst) (h : N) (i : Z) : outcome lookres :=
  match cur2 w with
  | None => if fx_cur_nil fx then Ok NotFound else Panic PExistsTxCurNil      (* repaired: ErrNotFound *)
  | Some _ => Ok (st_credit (st w) h i)
  end.

(* existsOutPoint -> TxStore.ExistsUtxo *)
Definition exists_out_point (fx : fixes) (w : wst) (h : N) (i : Z) : outcome (option bool) :=
  match cur2 w with
  | None => if fx_cur_nil fx then Ok None else Panic PExistsUtxoCurNil        (* repaired: ErrNotFound *)
  | Some _ => Ok (st_utxo (st w) h i)
  end.

(* UtxoStore.ScriptAddressBalance / ScriptAddressUnspents: iterate the unspent bucket of CurrentKeystore().Name() *)
Definition script_address_scan (p : site) (fx : fixes) (w : wst) : outcome unit :=
  match cur2 w with
  | None => if fx_cur_nil fx then Err ErrBelow else Panic p
  | Some _ => Ok tt
  end.

(* the mined look-up with its fall-back to the unmined bucket, as constructTxIn and signWitnessTx do it *)
Definition lookup_prev (fx : fixes) (w : wst) (h : N) (i : Z) : outcome (txv * option Z) :=
  bind (exists_msg_tx fx w h i) (fun r =>
  match r with
  | Found t ht => Ok (t, Some ht)
  | NotFound => match st_unmined (st w) h with Some t => Ok (t, None) | None => Err ErrBelow end
  | LookErr => Err ErrBelow
  end).

(* ---------------------------------------------------------------- tx.go: constructTxIn *)
Definition cti_one (fx : fixes) (w : wst) (i : inp) : outcome pclass :=
  match hash_from_str (in_txid i) with
  | None => Err ErrBelow
  | Some h =>
      bind (lookup_prev fx w h (in_vout i)) (fun tb =>
      let t := fst tb in
      if fx_cti_index fx && (lenZ t <=? in_vout i) then Err ErrBelow
      else
        bind (idx PCtiIndex t (in_vout i)) (fun o =>
        match ov_parse o with
        | None => Err ErrBelow
        | Some c =>
            if negb (ov_mine o) then Err ErrBelow
            else match c, snd tb with
                 | PkBinding, None => if fx_cti_block fx then Ok c else Panic PCtiBlockNil
                 | _, _ => Ok c
                 end
        end))
  end.

Definition same_outpoint (i : inp) (hv : option N * Z) : bool :=
  match hash_from_str (in_txid i), fst hv with
  | Some a, Some b => (a =? b)%N && (in_vout i =? snd hv)
  | _, _ => false
  end.

Fixpoint cti_loop (fx : fixes) (w : wst) (seen : list (option N * Z)) (inputs : list inp) : outcome (list pclass) :=
  match inputs with
  | [] => Ok []
  | i :: r =>
      if fx_cti_dup fx && existsb (same_outpoint i) seen && (match hash_from_str (in_txid i) with Some _ => true | None => false end)
      then Err ErrBelow
      else bind (cti_one fx w i) (fun c =>
           bind (cti_loop fx w ((hash_from_str (in_txid i), in_vout i) :: seen) r) (fun cs => Ok (c :: cs)))
  end.

Definition construct_tx_in (fx : fixes) (w : wst) (inputs : list inp) : outcome (list pclass) :=
  match cur w with
  | None => Err ErrAPINoWalletInUse
  | Some _ => cti_loop fx w [] inputs
  end.

(* ---------------------------------------------------------------- tx.go: estimateSignedSize / EstimateManualTxFee *)
Definition est_one (fx : fixes) (w : wst) (h : N) (i : Z) : outcome unit :=
  bind (exists_msg_tx fx w h i) (fun r =>
  match r with
  | Found t _ =>
      bind (idx PEstIndex t i) (fun o =>
      match ov_addrs o with
      | None => Err ErrBelow
      | Some O => Panic PEstAddrs0
      | Some (S _) => if ov_keys o then Ok tt else Err ErrBelow
      end)
  | _ => Err ErrBelow
  end).

Fixpoint est_loop (fx : fixes) (w : wst) (ops : list (N * Z)) : outcome unit :=
  match ops with
  | [] => Ok tt
  | (h, i) :: r => bind (est_one fx w h i) (fun _ => est_loop fx w r)
  end.

Fixpoint parse_inputs (inputs : list inp) : option (list (N * Z)) :=
  match inputs with
  | [] => Some []
  | i :: r => match hash_from_str (in_txid i), parse_inputs r with
              | Some h, Some l => Some ((h, in_vout i) :: l)
              | _, _ => None
              end
  end.

Definition estimate_manual_tx_fee (fx : fixes) (w : wst) (inputs : list inp) : outcome unit :=
  match parse_inputs inputs with
  | None => Err ErrBelow
  | Some ops => est_loop fx w ops
  end.

(* ---------------------------------------------------------------- wallet.go: CreateRawTransaction *)
(* [rest_ok]: the fee arithmetic and output construction behind the modelled part succeed *)
Definition wm_create_raw_transaction (fx : fixes) (w : wst) (inputs : list inp) (change_empty : bool) (rest_ok : bool)
  : outcome unit :=
  bind (construct_tx_in fx w inputs) (fun senders =>
  bind (if fx_senders fx && null senders then Err ErrBelow
        else if change_empty then bind (idx PSenders0 senders 0) (fun _ => Ok tt)
        else Ok tt) (fun _ =>
  bind (estimate_manual_tx_fee fx w inputs) (fun _ =>
  if rest_ok then Ok tt else Err ErrBelow))).

(* ---------------------------------------------------------------- tx.go: signWitnessTx, wallet.go: SignRawTx *)
(* a decoded transaction, as far as signing looks at it: the outpoints of its inputs *)
Definition txreq := list (N * Z).

Fixpoint assoc {A} (k : N) (l : list (N * A)) : option A :=
  match l with
  | [] => None
  | (k', v) :: r => if (k =? k')%N then Some v else assoc k r
  end.

(* [sign_ok]: SignTxOutputWit and the script engine accept (keys, passphrase, scripts) *)
Fixpoint sign_loop (fx : fixes) (w : wst) (sign_ok : bool) (cache : list (N * (txv * option Z))) (ins : txreq) : outcome unit :=
  match ins with
  | [] => Ok tt
  | (h, i) :: r =>
      bind (match assoc h cache with
            | Some e => Ok (e, cache)
            | None => bind (lookup_prev fx w h i) (fun e => Ok (e, (h, e) :: cache))
            end) (fun ec =>
      let t := fst (fst ec) in
      let meta := snd (fst ec) in
      let n := lenZ t in
      (* if txIn.PreviousOutPoint.Index > uint32(len(prevTx.TxOut)-1) *)
      let out_of_range := if fx_sign_len0 fx then n <=? i else (if n =? 0 then false else n - 1 <? i) in
      if out_of_range then Err ErrBelow
      else
        bind (exists_out_point fx w h i) (fun fl =>
        match fl with
        | None => Err ErrBelow
        | Some true => Err ErrBelow                      (* spent: ErrDoubleSpend *)
        | Some false =>
            bind (idx PSignIndex t i) (fun o =>
            (* SignTxOutputWit asks the script closure for the redeem script of a script the reader accepts *)
            bind (match ov_parse o with
                  | None => Err ErrBelow
                  | Some _ => match cur3 w with
                              | None => if fx_cur3_nil fx then Err ErrBelow else Panic PSignScriptCurNil
                              | Some _ => Ok tt
                              end
                  end) (fun _ =>
            if negb sign_ok then Err ErrBelow
            else match meta with
                 | None => if fx_sign_meta fx then sign_loop fx w sign_ok (snd ec) r else Panic PSignMetaNil
                 | Some _ => sign_loop fx w sign_ok (snd ec) r
                 end))
        end))
  end.

Definition valid_flag (f : str) : bool :=
  let eqs (a b : str) := if list_eq_dec Z.eq_dec a b then true else false in
  existsb (eqs f)
    [ [65;76;76]; [78;79;78;69]; [83;73;78;71;76;69];
      [65;76;76;124;65;78;89;79;78;69;67;65;78;80;65;89];
      [78;79;78;69;124;65;78;89;79;78;69;67;65;78;80;65;89];
      [83;73;78;71;76;69;124;65;78;89;79;78;69;67;65;78;80;65;89] ].

Definition wm_sign_raw_tx (fx : fixes) (w : wst) (flag : str) (tx : txreq) (sign_ok : bool) : outcome unit :=
  match cur w with
  | None => Err ErrAPINoWalletInUse
  | Some _ => if negb (valid_flag flag) then Err ErrBelow else sign_loop fx w sign_ok [] tx
  end.

(* ---------------------------------------------------------------- common.go: addTxIn (automatic transactions) *)
Definition add_one (fx : fixes) (w : wst) (h : N) (i : Z) : outcome unit :=
  bind (exists_msg_tx fx w h i) (fun r =>
  match r with
  | Found t _ =>
      bind (idx PAddIndex t i) (fun o =>
      match ov_parse o with None => Err ErrBelow | Some _ => Ok tt end)   (* block != nil whenever err == nil *)
  | _ => Err ErrBelow
  end).

(* findEligibleUtxos: the addresses were looked up in CurrentKeystore() once; it is read again
   to name the first selected address. [nsel] = number of selected coins *)
Definition find_eligible (fx : fixes) (w : wst) (nsel : nat) : outcome unit :=
  bind (script_address_scan PUnspentsCurNil fx w) (fun _ =>
  match nsel with
  | O => Ok tt
  | S _ => match cur3 w with
           | None => if fx_cur3_nil fx then Err ErrBelow else Panic PFindMaNil
           | Some _ => Ok tt
           end
  end).

(* the coins an automatic transaction selects are unspent credits of the current wallet *)
Fixpoint add_loop (fx : fixes) (w : wst) (ops : list (N * Z)) : outcome unit :=
  match ops with
  | [] => Ok tt
  | (h, i) :: r => bind (add_one fx w h i) (fun _ => add_loop fx w r)
  end.

Definition wm_auto_create (fx : fixes) (w : wst) (sel : list (N * Z)) (rest_ok : bool) : outcome unit :=
  match cur w with
  | None => Err ErrAPINoWalletInUse
  | Some _ =>
      bind (find_eligible fx w (length sel)) (fun _ =>
      bind (est_loop fx w sel) (fun _ =>
      bind (add_loop fx w sel) (fun _ => if rest_ok then Ok tt else Err ErrBelow)))
  end.

(* ---------------------------------------------------------------- wallet.go: balances, listings, addresses *)
Definition wm_balance (p : site) (fx : fixes) (w : wst) (scan : bool) : outcome unit :=
  match cur w with
  | None => Err ErrAPINoWalletInUse
  | Some _ => if scan then script_address_scan p fx w else Ok tt
  end.

Definition wm_all_addresses_with_pubkey (fx : fixes) (w : wst) : outcome unit :=
  match cur w with
  | None => Err ErrAPINoWalletInUse               (* GetAddresses answers first *)
  | Some _ => match cur2 w with
              | None => if fx_cur3_nil fx then Err ErrBelow else Panic PPubkeyCurNil
              | Some _ => Ok tt
              end
  end.

(* NewAddress: NextAddresses(…, 1, …) returns exactly one address or an error *)
Definition wm_new_address (w : wst) (next : option (list unit)) : outcome unit :=
  match cur w with
  | None => Err ErrAPINoWalletInUse
  | Some _ => match next with
              | None => Err ErrBelow
              | Some mas => bind (idx PMas0 mas 0) (fun _ => Ok tt)
              end
  end.

(* selectRelatedTx(h, num): heights are taken while they fit; the first that does not is cut to its
   last (num - count) transactions. [lens] = number of transactions per height, in the order visited *)
Fixpoint select_related_tx (lens : list Z) (num count : Z) : outcome unit :=
  match lens with
  | [] => Ok tt
  | l :: r =>
      if count + l <=? num then select_related_tx r num (count + l)
      else let rest := num - count in
           if rest =? 0 then Ok tt
           else bind (slice_split PSelectSlice (repeat tt (Z.to_nat l)) (l - rest)) (fun _ => Ok tt)
  end.

Definition sumZ (l : list Z) : Z := fold_right Z.add 0 l.

(* GetTxHistory(wanted, …): batches of 500 blocks are accumulated while they fit; the first batch that
   does not is cut by selectRelatedTx(rTxs, wanted - count) *)
Fixpoint history_loop (batches : list (list Z)) (wanted count : Z) : outcome unit :=
  match batches with
  | [] => Ok tt
  | b :: r =>
      if count + sumZ b <=? wanted then history_loop r wanted (count + sumZ b)
      else let rest := wanted - count in
           if rest =? 0 then Ok tt else select_related_tx b rest 0
  end.

Definition get_tx_history (fx : fixes) (batches : list (list Z)) (wanted : Z) : outcome unit :=
  let wanted' := if wanted =? 0 then 200 else if fx_select_neg fx && (wanted <? 0) then 200 else wanted in
  history_loop batches wanted' 0.

(* ---------------------------------------------------------------- ntfnshandler.go *)
(* IsWorkerBusy / OnImportWallet / OnRemoveWallet *)
Definition task_queue (fx : fixes) (w : wst) : outcome unit :=
  if taskchan w then Ok tt else if fx_taskchan fx then Ok tt else Panic PTaskChanNil.

(* asyncImport: what filterTxForImporting answers for one transaction the index lists *)
Inductive impres := ImpErr | ImpNotRelevant | ImpRelevant.
Fixpoint async_import (fx : fixes) (txs : list impres) : outcome unit :=
  match txs with
  | [] => Ok tt
  | ImpErr :: _ => Err ErrBelow
  | ImpRelevant :: r => async_import fx r
  | ImpNotRelevant :: r => if fx_import_rec fx then async_import fx r else Panic PImportRecNil
  end.

(* filterTx: an input whose previous transaction the handler found ([nout] outputs) *)
Definition filter_tx_input (guard : bool) (nout idxv : Z) : outcome unit :=
  if guard && (nout <=? idxv) then Err ErrBelow
  else bind (idx PFilterTxIndex (repeat tt (Z.to_nat nout)) idxv) (fun _ => Ok tt).

(* filterTxForImporting: no test; the transaction and its previous transaction are on the node's chain *)
Definition filter_imp_input (nout idxv : Z) : outcome unit :=
  bind (idx PFilterImpIndex (repeat tt (Z.to_nat nout)) idxv) (fun _ => Ok tt).

(* filterBlock: txLocs := massutil.NewBlock(block).TxLoc(); txLocs[i] for i ranging over block.Transactions *)
Definition filter_block_loc (ntx nlocs i : Z) : outcome unit :=
  bind (idx PTxLocsIndex (repeat tt (Z.to_nat nlocs)) i) (fun _ => Ok tt).

(* ---------------------------------------------------------------- api/block_service.go, api/tx_service.go: transactions the node serves *)
(* one input of a transaction of a served block / of a binding deposit, as the API resolves it on the node *)
Record bin := {
  bi_prev : option Z;    (* number of outputs of the previous transaction the node finds (Blockchain().GetTransaction,
                            TxMemPool().FetchTransaction / GetTransactionInDB); None = not found *)
  bi_index : Z;          (* txIn.PreviousOutPoint.Index *)
  bi_game : bool;        (* that output is a staking or a binding output (getTxType answers at once) *)
  bi_addr_ok : bool      (* extractAddressInfos / ParsePkScript accept its script *)
}.
Record btx := {
  bt_coinbase : bool;    (* blockchain.IsCoinBaseTx *)
  bt_game_out : bool;    (* one of its own outputs is a staking or binding output *)
  bt_ins : list bin;
  bt_vout_ok : bool;     (* createVoutList succeeds *)
  bt_rest_ok : bool      (* fee formatting and getStatus succeed *)
}.

Definition ErrAPINoTxInfo : Z := 1101.

(* getTxType: the inputs are looked at only when no output decides; the first staking/binding input decides *)
Fixpoint tx_type_ins (ins : list bin) : outcome Z :=
  match ins with
  | [] => Ok 3
  | i :: r =>
      match bi_prev i with
      | None => Err ErrAPINoTxInfo
      | Some n => bind (idx PTxTypeIndex (repeat tt (Z.to_nat n)) (bi_index i)) (fun _ =>
                  if bi_game i then Ok 1 else tx_type_ins r)
      end
  end.
Definition get_tx_type (t : btx) : outcome Z :=
  if bt_coinbase t then Ok 4 else if bt_game_out t then Ok 1 else tx_type_ins (bt_ins t).

(* createVinList(mtx, isCoinbase): every input (but the first of a coinbase) *)
Fixpoint vin_list (skip_first : bool) (ins : list bin) : outcome unit :=
  match ins with
  | [] => Ok tt
  | i :: r =>
      if skip_first then vin_list false r
      else match bi_prev i with
           | None => Err ErrBelow
           | Some n => bind (idx PVinIndex (repeat tt (Z.to_nat n)) (bi_index i)) (fun _ =>
                       if bi_addr_ok i then vin_list false r else Err ErrBelow)
           end
  end.

(* createBlockTx *)
Definition create_block_tx (t : btx) : outcome unit :=
  bind (get_tx_type t) (fun ty =>
  if negb (bt_vout_ok t) then Err ErrBelow
  else bind (vin_list (ty =? 4) (bt_ins t)) (fun _ => if bt_rest_ok t then Ok tt else Err ErrBelow)).

(* createTxRawResult (GetRawTransaction) *)
Definition create_tx_raw_result (t : btx) : outcome unit :=
  if negb (bt_vout_ok t) then Err ErrBelow
  else bind (vin_list (bt_coinbase t) (bt_ins t)) (fun _ => if bt_rest_ok t then Ok tt else Err ErrBelow).

(* marshalGetBlockResponse: header fields, proposals, then createBlockTx for every transaction *)
Definition marshal_block (b : list btx) : outcome unit := check_all create_block_tx b.

(* GetBlockStakingReward: txOuts[j] for j < coinbasePayload.NumStakingReward() *)
Definition reward_outs (n nout : Z) : outcome unit :=
  check_all (fun j => bind (idx PRewardTxOut (repeat tt (Z.to_nat nout)) j) (fun _ => Ok tt))
            (map Z.of_nat (seq 0 (Z.to_nat n))).

(* ---------------------------------------------------------------- GetBindingHistory (wallet.go, txmgr/utxostore.go, api/tx_service.go) *)
(* one row of the (unmined or mined) binding history of the current wallet *)
Record bind_row := {
  br_mined : bool;
  br_vout : Z;                        (* history.vout *)
  br_same : bool;                     (* mined rows: the block the node has at the recorded height still holds the recorded transaction
                                         at the recorded location (false after the node reorganised and before the wallet followed) *)
  br_tx : option (list (option bool)); (* chainFetcher.FetchTxByLoc(height, loc) resp. the unmined record; None = error / not found: the row is
                                          skipped. Per output what utils.ParsePkScript says: None = error, Some b: b = it is a binding script *)
  br_amount : Z;                      (* amount of the credit *)
  br_coinbase : bool;
  br_ins : list bin                   (* inputs of that transaction as GetBindingHistory resolves them (GetTransactionInDB) *)
}.

(* GetUnminedBindingHistoryDetail / GetBindingHistoryDetail: one row -> a detail (and whether its BindingTarget is not nil), or skipped *)
Definition bind_detail (fx : fixes) (r : bind_row) : outcome (option (bool * bind_row)) :=
  match br_tx r with
  | None => Ok None
  | Some t =>
      if fx_bindhist_hash fx && br_mined r && negb (br_same r) then Ok None     (* repaired: hash mismatch, skipped *)
      else bind (idx PBindHistIndex t (br_vout r)) (fun o =>
           match o with
           | None => Err ErrBelow
           | Some b => Ok (Some (b, r))          (* Holder: script.StdAddress(), BindingTarget: script.SecondAddress() *)
           end)
  end.

Fixpoint bind_details (fx : fixes) (rows : list bind_row) : outcome (list (bool * bind_row)) :=
  match rows with
  | [] => Ok []
  | r :: rest => bind (bind_detail fx r) (fun d =>
                 bind (bind_details fx rest) (fun ds => Ok (match d with Some x => x :: ds | None => ds end)))
  end.

(* the from-addresses of a deposit that is not a coinbase *)
Fixpoint bind_froms (ins : list bin) : outcome unit :=
  match ins with
  | [] => Ok tt
  | i :: r =>
      match bi_prev i with
      | None => Err ErrAPIQueryDataFailed
      | Some n => bind (idx PBindHistPrevIndex (repeat tt (Z.to_nat n)) (bi_index i)) (fun _ =>
                  if bi_addr_ok i then bind_froms r else Err ErrAPIAbnormalData)
      end
  end.

(* the API's loop over the details *)
Definition bind_history_entry (d : bool * bind_row) : outcome unit :=
  let r := snd d in
  bind (match amount_to_string_p (br_amount r) with Ok _ => Ok tt | Err _ => Err ErrAPIInvalidAmount | Panic p => Panic p end) (fun _ =>
  bind (if br_coinbase r then Ok tt else bind_froms (br_ins r)) (fun _ =>
  if fst d then Ok tt else Panic PBindHistTargetNil)).          (* detail.Utxo.BindingTarget.EncodeAddress() *)

Definition get_binding_history (fx : fixes) (w : wst) (rows : list bind_row) : outcome unit :=
  match cur w with
  | None => Err ErrAPINoWalletInUse
  | Some _ => bind (bind_details fx rows) (fun ds => check_all bind_history_entry ds)
  end.

(* GetStakingHistory: the node's staking rank, WalletManager.GetStakingHistory, AmountToString of every row *)
Definition get_staking_history (w : wst) (node_ok : bool) (rows : list Z) : outcome unit :=
  if negb node_ok then Err ErrAPIGetStakingTxDetail
  else match cur w with
       | None => Err ErrAPIGetStakingTxDetail
       | Some _ => check_all (fun a => match amount_to_string_p a with
                                       | Ok _ => Ok tt | Err _ => Err ErrAPIGetStakingTxDetail | Panic p => Panic p end) rows
       end.

(* ---------------------------------------------------------------- the API, request by request *)
(* the environment of one call: everything behind the modelled part *)
Record env := {
  e_rest_ok : bool;                        (* the unmodelled remainder of the method succeeds *)
  e_decode_tx : list Z -> option txreq;    (* wire.MsgTx.SetBytes on the decoded hex *)
  e_sign_ok : bool;
  e_selected : list (N * Z);               (* coins an automatic transaction selects *)
  e_next_addr : option (list unit);        (* NextAddresses result *)
  e_history_batches : list (list Z);       (* GetTxHistory: per 500-block batch, the number of related transactions per height *)
  e_block : option (list btx);             (* GetBlockByHeight / GetBestBlock: the transactions of the block the node returns; None = no block *)
  e_rawtx : option btx;                    (* GetRawTransaction: the transaction the mempool / the chain returns *)
  e_best : Z;                              (* Blockchain().BestBlockHeight() *)
  e_reward : option (Z * Z);               (* GetBlockStakingReward: NumStakingReward() of the coinbase payload and len(coinbase.TxOut);
                                              None = rank list / block / payload not available *)
  e_stake_rows : list Z;                   (* GetStakingHistory: amounts of the rows *)
  e_bind_rows : list bind_row              (* GetBindingHistory: unmined rows, then mined rows *)
}.

Section Handle.
  Variable trim : str -> str.
  Variable cd : codecs.

  (* CheckTargetBinding: one target *)
  Definition check_target (e : env) (t : str) : outcome unit :=
    let a := c_addr cd (trim t) in
    if negb (is_valid_binding_target a) then Ok tt              (* "Unknown" *)
    else match a with
         | APubKeyHash => if e_rest_ok e then Ok tt else Err ErrAPIQueryDataFailed      (* FetchOldBinding *)
         | _ => if negb (e_rest_ok e) then Err ErrAPIQueryDataFailed                    (* GetNewBinding *)
                else bind (idx PTargetIdx (repeat tt (Z.to_nat (script_len a))) 20) (fun _ =>
                     bind (idx PTargetIdx (repeat tt (Z.to_nat (script_len a))) 21) (fun _ => Ok tt))
         end.

  (* ValidateAddress -> WalletManager.IsAddressInCurrent -> KeystoreManager.GetManagedAddressByScriptHashInCurrent *)
  Definition validate_address (fx : fixes) (e : env) (w : wst) (a : str) : outcome unit :=
    match c_addr cd a with
    | ADecErr => Ok tt                              (* answered: not valid *)
    | c =>
        if negb (evicted w) && (match cur w with None => true | Some _ => false end)
        then Err ErrAPINoWalletInUse                (* km.currentKeystore == nil: ErrCurrentKeystoreNotFound *)
        else if negb (script_len c =? 32) then Err ErrAPIInvalidAddress     (* NewAddressWitnessScriptHash(scriptHash) refuses *)
        else if evicted w then (if fx_cur_evicted fx then Err ErrAPINoWalletInUse else Panic PCurEvictedNil)
        else Ok tt                                  (* mine or not mine *)
    end.

  (* the automatic transactions: EstimateTxFee / EstimateStakingTxFee / EstimateBindingTxFee begin with prepareFromAddresses *)
  Definition auto_tx (fx : fixes) (e : env) (w : wst) : outcome unit :=
    match cur w with
    | None => Err ErrAPINoWalletInUse
    | Some _ => wm_auto_create fx w (e_selected e) (e_rest_ok e)
    end.

  Definition answer (e : env) : outcome unit := if e_rest_ok e then Ok tt else Err ErrBelow.

  Definition deep (fx : fixes) (e : env) (w : wst) (r : request) : outcome unit :=
    match r with
    | RImportWallet _ _ | RImportMnemonic _ _ _ _ _ | RRemoveWallet _ _ =>
        bind (task_queue fx w) (fun _ => answer e)
    | RGetWalletBalance _ detail => bind (wm_balance PBalanceCurNil fx w detail) (fun _ => answer e)
    | RGetAddressBalance _ _ => bind (wm_balance PBalanceCurNil fx w true) (fun _ => answer e)
    | RGetUtxo _ => bind (wm_balance PUnspentsCurNil fx w true) (fun _ => answer e)
    | RGetAllAddressesWithPubkey => wm_all_addresses_with_pubkey fx w
    | RCreateAddress _ =>
        match cur w with
        | None => Err ErrBelow          (* GetAddresses fails first; CreateAddress reports it as ErrAPIAbnormalData *)
        | Some _ => bind (wm_new_address w (e_next_addr e)) (fun _ => answer e)
        end
    | RCreateRawTransaction inputs _ _ change _ =>
        wm_create_raw_transaction fx w
          (map (fun i => {| in_txid := trim (in_txid i); in_vout := in_vout i |}) inputs)
          (null (trim change)) (e_rest_ok e)
    | RWmCreateRawTransaction inputs _ change_empty => wm_create_raw_transaction fx w inputs change_empty (e_rest_ok e)
    | RAutoCreateTransaction _ _ _ _ _ | RCreateStakingTransaction _ _ _ _ _
    | RCreateBindingTransaction _ _ _ | RCreatePoolPkCoinbaseTransaction _ _ => auto_tx fx e w
    | RGetTransactionFee amounts inputs has_binding =>
        match cur w with
        | None => Err ErrAPINoWalletInUse
        | Some _ =>
            match inputs with
            | [] =>
                (* binding: checkWitnessAddress of every key, then its amount; otherwise the amounts only *)
                bind (check_all (fun kv => bind (if has_binding then check_witness_address cd (fst kv) false else Ok tt) (fun _ =>
                                           bind (check_parse_amount (snd kv)) (fun _ => Ok tt))) amounts) (fun _ =>
                wm_auto_create fx w (e_selected e) (e_rest_ok e))
            | _ => bind (check_all (fun i => check_txid_len (in_txid i)) inputs) (fun _ =>
                   bind (estimate_manual_tx_fee fx w inputs) (fun _ => answer e))
            end
        end
    | RWmEstimateManualTxFee inputs => estimate_manual_tx_fee fx w inputs
    | RSignRawTransaction rawtx pass flags =>
        match decode_hex_str rawtx with
        | None => Err ErrAPIInvalidTxHex
        | Some raw =>
            match e_decode_tx e raw with
            | None => Err ErrAPIInvalidTxHex
            | Some tx =>
                bind (check_pass_len pass) (fun _ =>
                wm_sign_raw_tx fx w (if null flags then [65;76;76] else flags) tx (e_sign_ok e))
            end
        end
    | RWmGetTxHistory wanted =>
        match cur w with
        | None => Err ErrAPINoWalletInUse
        | Some _ => get_tx_history fx (e_history_batches e) wanted
        end
    | RTxHistory count _ =>
        match cur w with
        | None => Err ErrAPINoWalletInUse
        | Some _ => get_tx_history fx (e_history_batches e) count
        end
    | RValidateAddress a => validate_address fx e w a
    | RGetRawTransaction _ =>
        match e_rawtx e with
        | None => Err ErrBelow
        | Some t => create_tx_raw_result t
        end
    | RGetStakingHistory _ => get_staking_history w (e_rest_ok e) (e_stake_rows e)
    | RGetBindingHistory _ => get_binding_history fx w (e_bind_rows e)
    | RSendRawTransaction h =>
        match decode_hex_str h with
        | None => Err ErrAPIInvalidTxHex
        | Some raw => match e_decode_tx e raw with
                      | None => Err ErrAPIInvalidTxHex
                      | Some _ => answer e            (* the fork tests, ProcessTx, ClearUsedUTXOMark *)
                      end
        end
    | RCheckTargetBinding targets => check_all (check_target e) targets
    | RGetBlockByHeight _ | RGetBestBlock =>
        match e_block e with
        | None => Err ErrAPIBlockNotFound
        | Some b => marshal_block b
        end
    | RGetBlockStakingReward height =>
        if e_best e <? height then Err ErrAPIInvalidParameter
        else match e_reward e with
             | None => Err ErrBelow
             | Some (n, nout) => bind (reward_outs n nout) (fun _ => answer e)
             end
    | _ => answer e
    end.

  Definition handle (fx : fixes) (e : env) (w : wst) (r : request) : outcome unit :=
    bind (prologue trim cd r) (fun _ => deep fx e w r).
End Handle.

(* ---------------------------------------------------------------- well-formed states *)
(* what the ledger (C01) and the script reader (C16) guarantee about the answers of the store:
   ExistsTx answers Found only for an existing credit, whose output exists in the transaction the
   chain returns, was read by ParsePkScript when the credit was made, and therefore has an address *)
Definition wf_out (o : outv) : Prop :=
  ov_parse o <> None /\ exists k, ov_addrs o = Some (S k).

Definition wf_store (s : store) : Prop :=
  exists txof : N -> txv,                       (* a hash names one transaction *)
    (forall h i t ht, st_credit s h i = Found t ht ->
       t = txof h /\ 0 <= i /\ exists o, nth_error t (Z.to_nat i) = Some o /\ wf_out o) /\
    (forall h t, st_unmined s h = Some t -> t = txof h) /\
    (* ExistsUtxo answers only for a credit (mined or unmined), and credits are made for real outputs *)
    (forall h i b, st_utxo s h i = Some b -> 0 <= i < lenZ (txof h)).

(* sequential use: nothing changes the current keystore between two reads of one call *)
Definition sequential (w : wst) : Prop := cur2 w = cur w /\ cur3 w = cur w.

Definition wf (w : wst) : Prop := wf_store (st w).

(* chain consistency (the node validated the block / the unconfirmed transaction): an input refers to an existing output *)
Definition wf_bin (i : bin) : Prop := forall n, bi_prev i = Some n -> 0 <= bi_index i < n.
Definition wf_btx (t : btx) : Prop := Forall wf_bin (bt_ins t).

(* a row of the binding history was written for a binding output of the recorded transaction: as long as the fetched
   transaction IS the recorded one (unmined rows: always), output [vout] exists and is a binding script *)
Definition wf_bind_row (r : bind_row) : Prop :=
  Forall wf_bin (br_ins r) /\
  ((br_mined r = false \/ br_same r = true) ->
   forall t, br_tx r = Some t -> 0 <= br_vout r /\ nth_error t (Z.to_nat (br_vout r)) = Some (Some true)).

Definition wf_env (e : env) : Prop :=
  (forall mas, e_next_addr e = Some mas -> length mas = 1%nat) /\
  Forall (Forall (fun l => 0 <= l)) (e_history_batches e) /\
  (forall b, e_block e = Some b -> Forall wf_btx b) /\
  (forall t, e_rawtx e = Some t -> wf_btx t) /\
  (* consensus: the coinbase pays the staking rewards its payload announces *)
  (forall n nout, e_reward e = Some (n, nout) -> n <= nout) /\
  Forall wf_bind_row (e_bind_rows e).

(* the coins an automatic transaction selects are credits of the store *)
Definition selected_ok (w : wst) (e : env) : Prop :=
  forall h i, In (h, i) (e_selected e) -> exists t ht, st_credit (st w) h i = Found t ht.

(* output indexes of a request are uint32 values *)
Definition inputs_ok (l : list inp) : Prop := Forall (fun i => 0 <= in_vout i) l.
Definition req_ok (r : request) : Prop :=
  match r with
  | RCreateRawTransaction inputs _ _ _ _ | RWmCreateRawTransaction inputs _ _
  | RGetTransactionFee _ inputs _ | RWmEstimateManualTxFee inputs => inputs_ok inputs
  | _ => True
  end.

(* which switch guards a site: a site without a switch can never fire in a well-formed state *)
Definition guarded_by (fx : fixes) (p : site) : bool :=
  match p with
  | PCtiIndex => fx_cti_index fx
  | PCtiBlockNil => fx_cti_block fx
  | PSenders0 => fx_senders fx
  | PSignMetaNil => fx_sign_meta fx
  | PExistsTxCurNil | PExistsUtxoCurNil | PBalanceCurNil | PUnspentsCurNil => fx_cur_nil fx
  | PFindMaNil | PSignScriptCurNil | PPubkeyCurNil => fx_cur3_nil fx
  | PImportRecNil => fx_import_rec fx
  | PTaskChanNil => fx_taskchan fx
  | PSelectSlice => fx_select_neg fx
  | PBindHistIndex | PBindHistTargetNil => fx_bindhist_hash fx
  | PCurEvictedNil => fx_cur_evicted fx
  | _ => true
  end.
