(* Api/Validate.v — executable model of the validation prologues of the wallet API
   (api/util.go check* functions, api/wallet_service.go decodeHexStr, and the argument checks
   every APIServer method performs before it calls the WalletManager), written with explicit
   Go failure modes: [Ok | Err code | Panic site].  Slice indexing, slicing and
   strings.Repeat are Panic-producing operations, so that "never panics" is a statement.
   38 request kinds: the 26 of the first round and the second group (binding / pool-coinbase creation, staking and
   binding history, SendRawTransaction, network / pool / target queries, the block service, Wallets), whose address and
   payload decoding is an oracle ([codecs]).
   Definitions only (proofs: Api/Proofs.v, theorems: Properties/C19.v).
   Strings are lists of byte codes (as in Codec/Amount.v). Length limits are the translated
   constants of Gen/Consts.v; error codes are the numeric gRPC status codes of api/errors.go
   (restated here; compared with the implementation's answers on every run). *)
From Coq Require Import List ZArith Bool.
Import ListNotations.
Open Scope Z_scope.
Require Import MW.Gen.Consts MW.Codec.Amount.

(* ---------------------------------------------------------------- panic sites *)
(* one constructor per place of the modelled functions where Go can panic (compiler-unproven
   bounds checks of the inventory, nil dereferences found by reading); the inventory
   /verif/corpus/C19_inventory.json maps every entry to one of these and to its lemma *)
Inductive site :=
(* api/util.go *)
| PAmountS1          (* StringToAmount: s1[0] *)
| PAmountRepeat      (* StringToAmount: strings.Repeat("0", 8-len(sFrac)) with a negative count *)
| PAmountSInt0       (* StringToAmount: sInt[0] *)
| PAmountSFrac0      (* StringToAmount: sFrac[0] *)
| PFormatSlice       (* AmountToString (api and masswallet): s[:len(s)-8] *)
(* masswallet/tx.go, common.go, wallet.go *)
| PCtiIndex          (* constructTxIn: prevTx.TxOut[txIn.PreviousOutPoint.Index] *)
| PCtiBlockNil       (* constructTxIn: block.Height with block == nil (unmined previous transaction) *)
| PSenders0          (* CreateRawTransaction: senders[0] *)
| PEstIndex          (* estimateSignedSize: mtx.TxOut[txidx] *)
| PEstAddrs0         (* estimateSignedSize: addrs[0] *)
| PSignIndex         (* signWitnessTx: prevTx.TxOut[txIn.PreviousOutPoint.Index] *)
| PSignMetaNil       (* signWitnessTx: cacheMeta[hash].Height with a nil block meta *)
| PAddIndex          (* addTxIn: prevTx.TxOut[txIn.PreviousOutPoint.Index] *)
| PAddBlockNil       (* addTxIn: block.Height *)
| PFindMaNil         (* findEligibleUtxos: am.Address(addr) / ma.ScriptAddress() with am == nil (second read of the current keystore) *)
| PSignScriptCurNil  (* signWitnessTx, script closure: acctM.Address(addrStr) with acctM == nil *)
| PPubkeyCurNil      (* GetAllAddressesWithPubkey: w.ksmgr.CurrentKeystore().ManagedAddresses() *)
| PMas0              (* NewAddress: mas[0] *)
| PSelectSlice       (* selectRelatedTx: h.Data[height][len(h.Data[height])-rest:] *)
(* masswallet/txmgr *)
| PExistsTxCurNil    (* TxStore.ExistsTx: s.ksmgr.CurrentKeystore().Name() *)
| PExistsUtxoCurNil  (* TxStore.ExistsUtxo: the same *)
| PBalanceCurNil     (* UtxoStore.ScriptAddressBalance: the same *)
| PUnspentsCurNil    (* UtxoStore.ScriptAddressUnspents: the same *)
(* masswallet/ntfnshandler.go, task.go *)
| PImportRecNil      (* asyncImport: rec.Hash when filterTxForImporting returned (nil, nil) *)
| PTaskChanNil       (* IsWorkerBusy / OnImportWallet / OnRemoveWallet: h.taskChan == nil *)
| PFilterTxIndex     (* filterTx: prevTx.TxOut[txIn.PreviousOutPoint.Index] *)
| PFilterImpIndex    (* filterTxForImporting: prevTx.TxOut[txIn.PreviousOutPoint.Index] *)
| PTxLocsIndex       (* filterBlock: txLocs[i] *)
(* api/tx_service.go, api/block_service.go, masswallet/txmgr/utxostore.go (the second group of API methods) *)
| PTargetIdx         (* CheckTargetBinding: target.ScriptAddress()[20] and [21] *)
| PBindHistIndex     (* GetBindingHistoryDetail: msgtx.TxOut[index] (GetUnminedBindingHistoryDetail: rec.MsgTx.TxOut[index]) *)
| PBindHistTargetNil (* GetBindingHistory: detail.Utxo.BindingTarget.EncodeAddress() on the nil second address of a script that is not a binding script *)
| PBindHistPrevIndex (* GetBindingHistory: prevMtx.TxOut[txIn.PreviousOutPoint.Index] *)
| PTxTypeIndex       (* getTxType: tx.TxOut[index] *)
| PVinIndex          (* createVinList: prevTx.TxOut[txIn.PreviousOutPoint.Index] *)
| PRewardTxOut       (* GetBlockStakingReward: txOuts[j] for j < NumStakingReward() *)
(* masswallet/keystore/manager.go *)
| PCurEvictedNil     (* GetManagedAddressByScriptHashInCurrent: km.managedKeystores[km.currentKeystore.accountName].addrs when the cache
                        has lost the entry of the keystore that is still selected *).

Inductive outcome (A : Type) :=
| Ok (a : A)
| Err (code : Z)     (* a gRPC status code of api/errors.go; 0 = an error raised below the prologue (code not modelled) *)
| Panic (p : site).
Arguments Ok {A} a.
Arguments Err {A} code.
Arguments Panic {A} p.

Definition bind {A B} (x : outcome A) (f : A -> outcome B) : outcome B :=
  match x with Ok a => f a | Err e => Err e | Panic p => Panic p end.

Definition is_panic {A} (x : outcome A) : bool := match x with Panic _ => true | _ => false end.

Definition lenZ {A} (l : list A) : Z := Z.of_nat (length l).

(* Go: l[i] — i is a non-negative machine integer *)
Definition idx {A} (p : site) (l : list A) (i : Z) : outcome A :=
  if i <? 0 then Panic p
  else match nth_error l (Z.to_nat i) with Some x => Ok x | None => Panic p end.

(* Go: l[:k] and l[k:] *)
Definition slice_split {A} (p : site) (l : list A) (k : Z) : outcome (list A * list A) :=
  if (k <? 0) || (lenZ l <? k) then Panic p
  else Ok (firstn (Z.to_nat k) l, skipn (Z.to_nat k) l).

(* Go: strings.Repeat(s, n) panics for n < 0 *)
Definition repeat_p (p : site) (c : Z) (n : Z) : outcome str :=
  if n <? 0 then Panic p else Ok (repeat c (Z.to_nat n)).

(* ---------------------------------------------------------------- error codes (api/errors.go) *)
Definition ErrAPIUserTxFee : Z := 1103.
Definition ErrAPINoWalletInUse : Z := 1303.
Definition ErrAPIInvalidParameter : Z := 1501.
Definition ErrAPIInvalidLockTime : Z := 1502.
Definition ErrAPIInvalidAmount : Z := 1503.
Definition ErrAPIInvalidAddress : Z := 1504.
Definition ErrAPIInvalidTxHex : Z := 1506.
Definition ErrAPIInvalidPassphrase : Z := 1507.
Definition ErrAPIInvalidWalletId : Z := 1511.
Definition ErrAPIInvalidVersion : Z := 1513.
Definition ErrAPIInvalidMnemonic : Z := 1516.
Definition ErrAPIInvalidTxId : Z := 1518.
Definition ErrAPIInvalidTxHistoryCount : Z := 1519.
Definition ErrAPIGetStakingTxDetail : Z := 1105.
Definition ErrAPIBlockNotFound : Z := 1203.
Definition ErrAPIQueryDataFailed : Z := 1702.
Definition ErrAPIAbnormalData : Z := 1703.
Definition ErrBelow : Z := 0.

(* ---------------------------------------------------------------- api/util.go: length checks *)
Definition check (bad : bool) (code : Z) : outcome unit := if bad then Err code else Ok tt.

Definition check_address_len (a : str) : outcome unit :=
  check ((lenZ a =? 0) || (AddressMaxLen <? lenZ a)) ErrAPIInvalidAddress.
Definition check_wallet_id_len (w : str) : outcome unit :=
  check (negb (lenZ w =? LenWalletId)) ErrAPIInvalidWalletId.
Definition check_txid_len (t : str) : outcome unit :=
  check (negb (lenZ t =? LenTxId)) ErrAPIInvalidTxId.
Definition check_mnemonic_len (m : str) : outcome unit :=
  check ((LenMnemonicMax <? lenZ m) || (lenZ m <? LenMnemonicMin)) ErrAPIInvalidMnemonic.
Definition check_pass_len (p : str) : outcome unit :=
  check ((LenPassMax <? lenZ p) || (lenZ p <? LenPassMin)) ErrAPIInvalidPassphrase.
(* checkLocktime(locktime uint64): locktime > math.MaxInt64 *)
Definition check_locktime (l : Z) : outcome unit := check (2 ^ 63 - 1 <? l) ErrAPIInvalidLockTime.
(* checkNotEmpty on a slice or map *)
Definition check_not_empty {A} (l : list A) : outcome unit :=
  check (match l with [] => true | _ => false end) ErrAPIInvalidParameter.

Fixpoint check_all {A} (f : A -> outcome unit) (l : list A) : outcome unit :=
  match l with
  | [] => Ok tt
  | a :: r => bind (f a) (fun _ => check_all f r)
  end.

(* ---------------------------------------------------------------- decodeHexStr *)
Definition is_hex (c : Z) : bool :=
  ((48 <=? c) && (c <=? 57)) || ((97 <=? c) && (c <=? 102)) || ((65 <=? c) && (c <=? 70)).
Definition hexval (c : Z) : Z :=
  if (48 <=? c) && (c <=? 57) then c - 48 else if (97 <=? c) && (c <=? 102) then c - 87 else c - 55.
Fixpoint hex_pairs (s : str) : list Z :=
  match s with
  | a :: b :: r => (16 * hexval a + hexval b) :: hex_pairs r
  | _ => []
  end.
(* if len(hexStr)%2 != 0 { hexStr = "0" + hexStr }; hex.DecodeString *)
Definition decode_hex_str (s : str) : option (list Z) :=
  let s' := if Z.odd (lenZ s) then 48 :: s else s in
  if forallb is_hex s' then Some (hex_pairs s') else None.

(* ---------------------------------------------------------------- StringToAmount with its indexings *)
Definition is_sign (c : Z) : bool := (c =? ch_plus) || (c =? ch_minus).

(* the conversion proper, once the two halves are prepared *)
Definition amount_core_p (sInt sFrac : str) : outcome Z :=
  match parse_int sInt with
  | None => Err ErrAPIInvalidAmount
  | Some i =>
      if (i <? 0) || (MaxMass <? i) then Err ErrAPIInvalidAmount
      else match parse_int sFrac with
           | None => Err ErrAPIInvalidAmount
           | Some f =>
               if f <? 0 then Err ErrAPIInvalidAmount
               else
                 bind (idx PAmountSInt0 sInt 0) (fun c0 =>
                 bind (idx PAmountSFrac0 sFrac 0) (fun d0 =>
                 if is_sign c0 || is_sign d0 then Err ErrAPIInvalidAmount
                 else
                   let u := MaxwellPerMass * i + f in
                   if max_amount <? u then Err ErrAPIInvalidAmount else Ok u))
           end
  end.

Definition string_to_amount_p (s : str) : outcome Z :=
  let s1 := split_dot s in
  if 2 <? lenZ s1 then Err ErrAPIInvalidAmount
  else
    bind (idx PAmountS1 s1 0) (fun p0 =>
    let sInt0 := trim_left0 p0 in
    let sInt := if null sInt0 then [ch_0] else sInt0 in
    bind (match tl s1 with
          | f :: _ => let sf := trim_right0 f in
                      if 8 <? lenZ sf then Err ErrAPIInvalidAmount else Ok sf
          | [] => Ok []
          end) (fun sf =>
    bind (repeat_p PAmountRepeat ch_0 (8 - lenZ sf)) (fun pad =>
    amount_core_p sInt (sf ++ pad)))).

(* checkParseAmount *)
Definition check_parse_amount (s : str) : outcome Z := string_to_amount_p s.

(* AmountToString(m int64) with its slicing *)
Definition amount_to_string_p (m : Z) : outcome str :=
  if max_amount <? m then Err ErrAPIInvalidAmount
  else if m <? 0 then Err ErrAPIInvalidAmount
  else
    let s := dec (m + MaxwellPerMass) in
    bind (slice_split PFormatSlice s (lenZ s - 8)) (fun parts =>
    let sFrac := trim_right0 (snd parts) in
    match parse_int (fst parts) with
    | None => Err ErrAPIInvalidAmount
    | Some i =>
        let sInt' := dec (i - 1) in
        if null sFrac then Ok sInt' else Ok (sInt' ++ [ch_dot] ++ sFrac)
    end).

(* ---------------------------------------------------------------- addresses, payloads (mass-core codecs: oracles) *)
(* what massutil.DecodeAddress says about a string: an error, a witness script hash (witness version,
   extend version: 0 = standard, 1 = staking), a pubkey hash (the old binding target), a 22-byte binding
   target, or another kind of address (pubkey, script hash) with a script of [n] bytes *)
Inductive addr_class := ADecErr | AWitness (wver ext : Z) | APubKeyHash | ABindingTarget | AOther (n : Z).

Record codecs := {
  c_addr : str -> addr_class;             (* massutil.DecodeAddress(s, config.ChainParams) *)
  c_payload_pool : list Z -> bool         (* blockchain.DecodePayload(raw) != nil && its Method == BindPoolCoinbase *)
}.

(* len(a.ScriptAddress()): [32]byte, [20]byte and [22]byte arrays inside the address types *)
Definition script_len (a : addr_class) : Z :=
  match a with AWitness _ _ => 32 | APubKeyHash => 20 | ABindingTarget => 22 | AOther n => n | ADecErr => 0 end.

(* checkWitnessAddress(address, expectStaking, net) *)
Definition check_witness_address (cd : codecs) (a : str) (staking : bool) : outcome unit :=
  match c_addr cd a with
  | AWitness wv ext => check (negb ((wv =? 0) && (ext =? (if staking then 1 else 0)))) ErrAPIInvalidAddress
  | _ => Err ErrAPIInvalidAddress
  end.

(* massutil.IsValidBindingTarget *)
Definition is_valid_binding_target (a : addr_class) : bool :=
  match a with APubKeyHash | ABindingTarget => true | _ => false end.

(* parseBindingTarget(address, net) *)
Definition parse_binding_target (cd : codecs) (a : str) : outcome addr_class :=
  let c := c_addr cd a in
  if is_valid_binding_target c then Ok c else Err ErrAPIInvalidAddress.

(* hex.DecodeString (NOT decodeHexStr: an odd length is an error) *)
Definition decode_hex_strict (s : str) : option (list Z) :=
  if Z.even (lenZ s) && forallb is_hex s then Some (hex_pairs s) else None.

(* consensus.MinStakingValue (mass-core; restated, compared with the implementation on every run) *)
Definition MinStakingValue : Z := 2048 * MaxwellPerMass.

(* CreateBindingTransaction: totalOutValue.Add(val) for every output; Amount.Add refuses a sum above MaxAmount *)
Fixpoint sum_amounts (l : list str) (acc : Z) : outcome Z :=
  match l with
  | [] => Ok acc
  | a :: r => bind (check_parse_amount a) (fun v =>
              if max_amount <? acc + v then Err ErrAPIInvalidAmount else sum_amounts r (acc + v))
  end.

(* a fee string: any parse error is reported as ErrAPIUserTxFee *)
Definition check_fee (fee : str) : outcome unit :=
  match check_parse_amount fee with
  | Ok _ => Ok tt
  | Err _ => Err ErrAPIUserTxFee
  | Panic p => Panic p
  end.

(* ---------------------------------------------------------------- requests *)
(* one transaction input of a request: txid string and output index (uint32) *)
Record inp := { in_txid : str; in_vout : Z }.

(* one output of a CreateBindingTransaction request *)
Record bind_out := { bo_holder : str; bo_binding : str; bo_amount : str }.

Inductive request :=
| RUseWallet (id : str)
| RExportWallet (id pass : str)
| RRemoveWallet (id pass : str)
| RGetWalletMnemonic (id pass : str)
| RImportWallet (keystore pass : str)
| RImportMnemonic (mnemonic pass remarks : str) (ext int : Z)
| RCreateWallet (pass remarks : str) (bitsize : Z)
| RValidateAddress (addr : str)
| RGetAddressBalance (confs : Z) (addrs : list str)
| RGetWalletBalance (confs : Z) (detail : bool)
| RGetUtxo (addrs : list str)
| RCreateAddress (version : Z)
| RGetAddresses (version : Z)
| RGetAllAddressesWithPubkey                     (* WalletManager level only *)
| RTxHistory (count : Z) (addr : str)
| RGetTxStatus (txid : str)
| RGetRawTransaction (txid : str)
| RDecodeRawTransaction (hex : str)
| RCreateRawTransaction (inputs : list inp) (amounts : list (str * str)) (locktime : Z) (change : str) (subfee : list str)
| RWmCreateRawTransaction (inputs : list inp) (namounts : Z) (change_empty : bool)   (* WalletManager.CreateRawTransaction called directly *)
| RAutoCreateTransaction (amounts : list (str * str)) (locktime : Z) (fee from change : str)
| RCreateStakingTransaction (from staking amount : str) (frozen : Z) (fee : str)
| RGetTransactionFee (amounts : list (str * str)) (inputs : list inp) (has_binding : bool)
| RWmEstimateManualTxFee (inputs : list inp)      (* WalletManager.EstimateManualTxFee called directly *)
| RSignRawTransaction (rawtx pass flags : str)
| RWmGetTxHistory (wanted : Z)                    (* WalletManager.GetTxHistory called directly (negative counts) *)
(* the second group: api/tx_service.go, api/block_service.go, Wallets *)
| RCreateBindingTransaction (outputs : list bind_out) (from fee : str)
| RCreatePoolPkCoinbaseTransaction (from payload : str)
| RGetStakingHistory (type : str)
| RGetBindingHistory (type : str)
| RSendRawTransaction (hex : str)
| RGetNetworkBinding (height : Z)
| RCheckPoolPkCoinbase (pubkeys : list str)
| RCheckTargetBinding (targets : list str)
| RGetBlockByHeight (height : Z)
| RGetBestBlock
| RGetBlockStakingReward (height : Z)
| RWallets.

(* uint16(in.Version) is a valid address class: 0 (witness v0) or 1 (staking) *)
Definition valid_address_class (v : Z) : bool := let c := v mod 65536 in (c =? 0) || (c =? 1).

(* the argument checks in front of the WalletManager call, in source order. [trim] is
   strings.TrimSpace; the theorems hold for any function in its place. *)
Section Prologue.
  Variable trim : str -> str.
  Variable cd : codecs.

  (* an optional address argument: checked when it is not empty *)
  Definition check_opt_witness_address (a : str) : outcome unit :=
    if 0 <? lenZ a then check_witness_address cd a false else Ok tt.

  Definition check_amount_map (m : list (str * str)) : outcome unit :=
    check_all (fun kv => bind (check_address_len (trim (fst kv))) (fun _ =>
                         bind (check_parse_amount (trim (snd kv))) (fun _ => Ok tt))) m.

  Definition prologue (r : request) : outcome unit :=
    match r with
    | RUseWallet id => check_wallet_id_len id
    | RExportWallet id pass | RRemoveWallet id pass | RGetWalletMnemonic id pass =>
        bind (check_wallet_id_len id) (fun _ => check_pass_len pass)
    | RImportWallet _ pass => check_pass_len pass
    | RImportMnemonic mn pass _ _ _ => bind (check_mnemonic_len mn) (fun _ => check_pass_len pass)
    | RCreateWallet pass _ _ => check_pass_len pass
    | RValidateAddress a => check_address_len a
    | RGetAddressBalance confs addrs =>
        bind (check (confs <? 0) ErrAPIInvalidParameter) (fun _ => check_all check_address_len addrs)
    | RGetWalletBalance confs _ => check (confs <? 0) ErrAPIInvalidParameter
    | RGetUtxo addrs => check_all check_address_len addrs
    | RCreateAddress v | RGetAddresses v => check (negb (valid_address_class v)) ErrAPIInvalidVersion
    | RGetAllAddressesWithPubkey => Ok tt
    | RTxHistory count addr =>
        bind (if 0 <? lenZ addr then check_address_len addr else Ok tt) (fun _ =>
        check (1000 <? count) ErrAPIInvalidTxHistoryCount)
    | RGetTxStatus t | RGetRawTransaction t => check_txid_len t
    | RDecodeRawTransaction h => check (match decode_hex_str h with None => true | _ => false end) ErrAPIInvalidTxHex
    | RCreateRawTransaction inputs amounts locktime _ _ =>
        bind (check_locktime locktime) (fun _ =>
        bind (check_not_empty inputs) (fun _ =>
        bind (check_not_empty amounts) (fun _ =>
        bind (check_all (fun i => check_txid_len (trim (in_txid i))) inputs) (fun _ =>
        check_amount_map amounts))))
    | RWmCreateRawTransaction _ _ _ => Ok tt
    | RAutoCreateTransaction amounts locktime fee from change =>
        bind (check_locktime locktime) (fun _ =>
        bind (check_not_empty amounts) (fun _ =>
        bind (check_amount_map amounts) (fun _ =>
        bind (check_fee fee) (fun _ =>
        bind (check_opt_witness_address (trim from)) (fun _ =>
        check_opt_witness_address (trim change))))))
    | RCreateStakingTransaction from staking amount _ fee =>
        bind (check_parse_amount amount) (fun v =>
        bind (check (v <? MinStakingValue) ErrAPIInvalidAmount) (fun _ =>      (* wire.IsValidStakingValue *)
        bind (check_fee fee) (fun _ =>
        bind (check_opt_witness_address from) (fun _ =>
        check_witness_address cd staking true))))
    | RGetTransactionFee amounts inputs _ => check_not_empty amounts
    | RWmEstimateManualTxFee _ => Ok tt
    | RSignRawTransaction rawtx _ _ =>
        bind (check (lenZ rawtx =? 0) ErrAPIInvalidTxHex) (fun _ =>
        check (match decode_hex_str rawtx with None => true | _ => false end) ErrAPIInvalidTxHex)
    | RWmGetTxHistory _ => Ok tt
    | RCreateBindingTransaction outputs from fee =>
        bind (check_not_empty outputs) (fun _ =>
        bind (sum_amounts (map bo_amount outputs) 0) (fun _ =>
        bind (check_fee fee) (fun _ =>
        bind (check_opt_witness_address from) (fun _ =>
        check_all (fun o => bind (check_witness_address cd (bo_holder o) false) (fun _ =>
                            bind (parse_binding_target cd (bo_binding o)) (fun _ =>
                            bind (check_parse_amount (bo_amount o)) (fun _ => Ok tt)))) outputs))))
    | RCreatePoolPkCoinbaseTransaction from payload =>
        bind (check_witness_address cd (trim from) false) (fun _ =>
        match decode_hex_strict payload with
        | None => Err ErrAPIInvalidParameter
        | Some raw => check (negb (c_payload_pool cd raw)) ErrAPIInvalidParameter
        end)
    | RGetStakingHistory _ | RGetBindingHistory _ => Ok tt
    | RSendRawTransaction h =>
        bind (check (lenZ h =? 0) ErrAPIInvalidTxHex) (fun _ =>
        check (match decode_hex_str h with None => true | _ => false end) ErrAPIInvalidTxHex)
    | RGetNetworkBinding _ => Ok tt
    | RCheckPoolPkCoinbase pks =>
        check_all (fun pk => check (match decode_hex_strict pk with None => true | _ => false end) ErrAPIInvalidParameter) pks
    | RCheckTargetBinding _ => Ok tt           (* undecodable targets are answered as "Unknown" *)
    | RGetBlockByHeight _ | RGetBestBlock | RGetBlockStakingReward _ | RWallets => Ok tt
    end.
End Prologue.

(* strings.TrimSpace restricted to ASCII white space (used when the model is executed; the
   generator of the correspondence check uses no other white space) *)
Definition is_space (c : Z) : bool := (c =? 32) || ((9 <=? c) && (c <=? 13)).
Fixpoint trim_left_sp (s : str) : str :=
  match s with c :: r => if is_space c then trim_left_sp r else s | [] => [] end.
(* rev_append: the linear-time reversal (the strings of the exploration are up to 10 000 characters long) *)
Definition trim_ascii (s : str) : str := rev_append (trim_left_sp (rev_append (trim_left_sp s) [])) [].
