(* Codec/Amount.v — executable model of api.StringToAmount, api.AmountToString and
   masswallet.AmountToString (the two formatters are textually the same function).
   Characters are their byte codes in Z; a Go string is a [list Z].
   Only definitions here (the model must still run when a proof breaks);
   proofs are in AmountProofs.v, the property theorems in Properties/C15.v. *)
From Coq Require Import List ZArith Bool.
Import ListNotations.
Open Scope Z_scope.
Require Import MW.Gen.Consts.

Definition str := list Z.

Definition ch_0 : Z := 48.
Definition ch_dot : Z := 46.
Definition ch_plus : Z := 43.
Definition ch_minus : Z := 45.

Definition is_digit (c : Z) : bool := (48 <=? c) && (c <=? 57).
Definition all_digits (s : str) : bool := forallb is_digit s.

Definition null {A} (l : list A) : bool := match l with [] => true | _ => false end.

(* strings.Split(s, ".") : never returns an empty list *)
Fixpoint split_dot (s : str) : list str :=
  match s with
  | [] => [[]]
  | c :: r =>
      let rs := split_dot r in
      if c =? ch_dot then [] :: rs
      else match rs with
           | h :: t => (c :: h) :: t
           | [] => [[c]]
           end
  end.

(* strings.TrimLeft(s, "0") / strings.TrimRight(s, "0") *)
Fixpoint trim_left0 (s : str) : str :=
  match s with
  | c :: r => if c =? ch_0 then trim_left0 r else s
  | [] => []
  end.
Definition trim_right0 (s : str) : str := rev (trim_left0 (rev s)).

(* value of a digit string, most significant first *)
Definition dval (s : str) : Z := fold_left (fun a c => a * 10 + (c - 48)) s 0.

(* strconv.ParseInt(s, 10, 64): optional sign, at least one digit, only digits,
   range of int64. None = any error. *)
Definition parse_int (s : str) : option Z :=
  match s with
  | [] => None
  | c :: r =>
      let neg := c =? ch_minus in
      let ds := if (c =? ch_plus) || (c =? ch_minus) then r else s in
      if null ds then None
      else if all_digits ds then
             let v := dval ds in
             if neg then (if v <=? 2 ^ 63 then Some (- v) else None)
             else (if v <? 2 ^ 63 then Some v else None)
           else None
  end.

(* decimal rendering of a non-negative number (strconv.Itoa / Uint128.String) *)
Fixpoint dec_aux (fuel : nat) (n : Z) (acc : str) : str :=
  match fuel with
  | O => acc
  | S f =>
      let acc' := (48 + n mod 10) :: acc in
      if n <? 10 then acc' else dec_aux f (n / 10) acc'
  end.
Definition dec (n : Z) : str := dec_aux 40 n [].

Definition max_amount : Z := MaxMass * MaxwellPerMass.

Definition has_sign (s : str) : bool :=
  match s with c :: _ => (c =? ch_plus) || (c =? ch_minus) | [] => false end.

(* api.StringToAmount.  [signfix] = the code rejects a sign character in either
   half (true on the repaired tree; false reproduces the code as first found). *)
Definition parse_amount_gen (signfix : bool) (s : str) : option Z :=
  let s1 := split_dot s in
  if (2 <? Z.of_nat (length s1)) then None
  else
    let sInt0 := trim_left0 (hd [] s1) in
    let sInt := if null sInt0 then [ch_0] else sInt0 in
    let fracr :=
      match tl s1 with
      | f :: _ => let sf := trim_right0 f in
                  if 8 <? Z.of_nat (length sf) then None else Some sf
      | [] => Some []
      end in
    match fracr with
    | None => None
    | Some sf =>
        let sFrac := sf ++ repeat ch_0 (8 - length sf) in
        match parse_int sInt with
        | None => None
        | Some i =>
            if (i <? 0) || (MaxMass <? i) then None
            else match parse_int sFrac with
                 | None => None
                 | Some f =>
                     if f <? 0 then None
                     else if signfix && (has_sign sInt || has_sign sFrac) then None
                     else
                       let u := MaxwellPerMass * i + f in
                       if max_amount <? u then None else Some u
                 end
        end
    end.

Definition parse_amount : str -> option Z := parse_amount_gen true.
Definition parse_amount_unfixed : str -> option Z := parse_amount_gen false.

(* AmountToString(m int64) *)
Definition format_amount (m : Z) : option str :=
  if max_amount <? m then None
  else if m <? 0 then None
  else
    let s := dec (m + MaxwellPerMass) in
    let n := length s in
    let sInt := firstn (n - 8) s in
    let sFrac := trim_right0 (skipn (n - 8) s) in
    match parse_int sInt with
    | None => None
    | Some i =>
        let sInt' := dec (i - 1) in
        if null sFrac then Some sInt' else Some (sInt' ++ [ch_dot] ++ sFrac)
    end.

(* ---------- specification, written from the property text ---------- *)

(* first '.' splits the numeral *)
Fixpoint cut_dot (s : str) : str * option str :=
  match s with
  | [] => ([], None)
  | c :: r => if c =? ch_dot then ([], Some r)
              else let '(i, f) := cut_dot r in (c :: i, f)
  end.

(* unsigned plain decimal numeral: digits, optionally '.' and digits (either
   part may be empty: "", ".5", "1." are inside the grammar — see DESIGN C15) *)
Definition spec_parse (s : str) : option Z :=
  let '(i, fo) := cut_dot s in
  let f := match fo with Some f => f | None => [] end in
  if all_digits i && all_digits f then
    let f' := trim_right0 f in
    if 8 <? Z.of_nat (length f') then None
    else
      let v := dval i * MaxwellPerMass + dval f' * 10 ^ (8 - Z.of_nat (length f')) in
      if max_amount <? v then None else Some v
  else None.

(* shortest rendering: integer part without leading zeros ("0" for zero),
   fraction without trailing zeros, no '.' when the fraction is empty *)
Definition pad8 (s : str) : str := repeat ch_0 (8 - length s) ++ s.
Definition canon (n : Z) : str :=
  let q := n / MaxwellPerMass in
  let r := n mod MaxwellPerMass in
  if r =? 0 then dec q else dec q ++ [ch_dot] ++ trim_right0 (pad8 (dec r)).
