(* Codec/Bip32.v — executable model of masswallet/keystore/hdkeychain/extendedkey.go
   (NewMaster, Child, Neuter, String, NewKeyFromString, paddedAppend) and of the path
   helpers of masswallet/keystore/hd.go, next to a specification side written from the
   text of BIP-32 (ser256, ser32, serP, CKDpriv, CKDpub, N, master key generation,
   serialization format).
   Bytes are their codes in Z; a Go []byte / string is a [list Z].
   The model keeps the [key] field AS THE CODE STORES IT: for a derived private child
   that is the result of big.Int.Bytes(), i.e. without leading zero bytes.
   Cryptographic primitives are Section variables (instantiated by table lookups in the
   correspondence driver, by a toy instance in the refutation witnesses).
   Only definitions here; proofs are in Bip32Proofs.v, the property theorems in
   Properties/C14.v. *)
From Coq Require Import List ZArith Bool.
Import ListNotations.
Open Scope Z_scope.

Definition bytes := list Z.

(* error values of hdkeychain / keystore (one constructor per Go error variable) *)
Inductive err :=
| EInvalidSeedLen | EUnusableSeed | EDeriveHardFromPublic | EDeriveBeyondMaxDepth
| EInvalidChild | EBadChecksum | EInvalidKeyLen
| EPubKeyParse          (* any error returned by btcec.ParsePubKey *)
| EUnknownHDKeyID       (* config.ErrUnknownHDKeyID *)
| EInvalidCoinType | EInvalidAccountNumber.

Inductive Outcome (A : Type) := Ok (a : A) | Err (e : err).
Arguments Ok {A} a.
Arguments Err {A} e.
Definition bind {A B} (o : Outcome A) (f : A -> Outcome B) : Outcome B :=
  match o with Ok a => f a | Err e => Err e end.

(* ------------------------------------------------------------------ constants *)
(* btcec.S256().N — compared with the linked btcec value on every run (CONST line) *)
Definition curve_n : Z :=
  115792089237316195423570985008687907852837564279074904382605163141518161494337.
(* btcec.S256().P — the field prime, 2^256 - 2^32 - 977 (CONST line) *)
Definition curve_p : Z :=
  115792089237316195423570985008687907853269984665640564039457584007908834671663.
Definition hardened_start : Z := 2147483648.            (* HardenedKeyStart = 2^31 *)
Definition min_seed_bytes : nat := 16.
Definition max_seed_bytes : nat := 64.
Definition serialized_key_len : nat := 78.              (* 4+1+4+4+32+33 *)
Definition max_uint8 : Z := 255.
(* masterKey = []byte("Bitcoin seed") *)
Definition master_key : bytes := [66;105;116;99;111;105;110;32;115;101;101;100].
(* "zeroed extended key" *)
Definition zeroed_string : bytes :=
  [122;101;114;111;101;100;32;101;120;116;101;110;100;101;100;32;107;101;121].
(* mass-core config.ChainParams HD version bytes; the registry of
   config.HDPrivateKeyToPublicKeyID holds exactly this pair (config.init) *)
Definition hd_private_key_id : bytes := [4;136;173;228].   (* 0488ade4 xprv *)
Definition hd_public_key_id : bytes := [4;136;178;30].     (* 0488b21e xpub *)
(* keystore constants (manager.go) *)
Definition max_coin_type : Z := hardened_start - 1.
Definition max_account_num : Z := hardened_start - 2.
Definition external_branch : Z := 0.
Definition internal_branch : Z := 1.

(* ------------------------------------------------------------------ byte strings *)
Definition null {A} (l : list A) : bool := match l with [] => true | _ => false end.

Fixpoint bytes_eqb (a b : bytes) : bool :=
  match a, b with
  | [], [] => true
  | x :: a', y :: b' => (x =? y) && bytes_eqb a' b'
  | _, _ => false
  end.

(* big.Int.SetBytes / parse256 / binary.BigEndian.Uint32: big-endian value *)
Fixpoint be2z_acc (acc : Z) (l : bytes) : Z :=
  match l with [] => acc | c :: r => be2z_acc (acc * 256 + c) r end.
Definition be2z (l : bytes) : Z := be2z_acc 0 l.

(* fixed-width big-endian rendering: ser256 / ser32 / PutUint32 *)
Fixpoint ser_fixed (len : nat) (n : Z) : bytes :=
  match len with O => [] | S l => ser_fixed l (n / 256) ++ [n mod 256] end.
Definition ser256 : Z -> bytes := ser_fixed 32.
Definition ser32 : Z -> bytes := ser_fixed 4.
Definition parse256 : bytes -> Z := be2z.

Fixpoint strip0 (l : bytes) : bytes :=
  match l with c :: r => if c =? 0 then strip0 r else l | [] => [] end.
(* big.Int.Bytes() for 0 <= n < 2^256 (its only use is on a value reduced mod curve_n):
   minimal big-endian rendering, no leading zero byte, empty for 0 *)
Definition int_bytes (n : Z) : bytes := strip0 (ser_fixed 32 n).

(* Go: buf := make([]byte, n); copy(buf, src) *)
Definition fill (n : nat) (src : bytes) : bytes := firstn n (src ++ repeat 0 n).
(* paddedAppend(size, dst, src) *)
Definition padded_append (size : nat) (dst src : bytes) : bytes :=
  dst ++ repeat 0 (size - length src) ++ src.
(* s[a:b] for a <= b <= len s *)
Definition slice (a b : nat) (l : bytes) : bytes := firstn (b - a) (skipn a l).

(* ------------------------------------------------------------------ the extended key of the code *)
Record ExtendedKey := mkEK {
  ek_key : bytes;        (* private scalar bytes as stored, or the 33-byte compressed public key *)
  ek_chain : bytes;
  ek_depth : Z;          (* uint8 *)
  ek_fp : bytes;         (* parentFP *)
  ek_num : Z;            (* childNum, uint32 *)
  ek_version : bytes;
  ek_priv : bool }.

(* config.HDPrivateKeyToPublicKeyID *)
Definition hd_priv_to_pub (v : bytes) : option bytes :=
  if bytes_eqb v hd_private_key_id then Some hd_public_key_id else None.

(* the extended key of the specification: (k, c) or (K, c) plus the serialization metadata *)
Inductive SKey (point : Type) := SPriv (k : Z) | SPub (K : point).
Arguments SPriv {point} k.
Arguments SPub {point} K.
Record XKey (point : Type) := mkX {
  x_key : SKey point;
  x_chain : bytes;
  x_depth : Z;
  x_fp : bytes;
  x_num : Z;
  x_version : bytes }.
Arguments mkX {point}.
Arguments x_key {point}.
Arguments x_chain {point}.
Arguments x_depth {point}.
Arguments x_fp {point}.
Arguments x_num {point}.
Arguments x_version {point}.

Section Prims.
  (* HMAC-SHA512(key, data) *)
  Variable hmac512 : bytes -> bytes -> bytes.
  (* the secp256k1 group as btcec presents it *)
  Variable point : Type.
  Variable smulG : Z -> point.                 (* ScalarBaseMult of the big-endian value; point(k) *)
  Variable padd : point -> point -> point.     (* Add *)
  Variable ser_P : point -> bytes.             (* SerializeCompressed; serP *)
  Variable parse_pub : bytes -> option point.  (* btcec.ParsePubKey *)
  Variable coord_zero : point -> bool.         (* x.Sign()==0 || y.Sign()==0 *)
  Variable is_inf : point -> bool.             (* the point at infinity (specification side only) *)
  Variable hash160 : bytes -> bytes.           (* massutil.Hash160 *)
  Variable dsha256 : bytes -> bytes.           (* wire.DoubleHashB *)
  Variable b58enc : bytes -> bytes.            (* base58.Encode *)
  Variable b58dec : bytes -> bytes.            (* base58.Decode *)

  (* ================================================================ the code *)

  (* pubKeyBytes (the memo field is not observable and is left out) *)
  Definition pub_key_bytes (k : ExtendedKey) : bytes :=
    if ek_priv k then ser_P (smulG (be2z (ek_key k))) else ek_key k.

  (* NewMaster(seed, net) with ver = net.HDPrivateKeyID[:] *)
  Definition new_master (ver seed : bytes) : Outcome ExtendedKey :=
    if (length seed <? min_seed_bytes)%nat || (max_seed_bytes <? length seed)%nat
    then Err EInvalidSeedLen
    else
      let lr := hmac512 master_key seed in
      let half := Nat.div2 (length lr) in
      let secret := firstn half lr in
      let chain := skipn half lr in
      let num := be2z secret in
      if (curve_n <=? num) || (num =? 0) then Err EUnusableSeed
      else Ok (mkEK secret chain 0 [0;0;0;0] 0 ver true).

  (* the 37-byte HMAC input of Child:
       data := make([]byte, 37)
       hardened: copy(data[1:], k.key)          <- the stored bytes, NOT padded to 32
       normal:   copy(data, k.pubKeyBytes())
       binary.BigEndian.PutUint32(data[33:], i) *)
  Definition child_data (k : ExtendedKey) (i : Z) : bytes :=
    (if hardened_start <=? i then 0 :: fill 32 (ek_key k) else fill 33 (pub_key_bytes k)) ++ ser32 i.

  (* method ExtendedKey.Child *)
  Definition child (k : ExtendedKey) (i : Z) : Outcome ExtendedKey :=
    if ek_depth k =? max_uint8 then Err EDeriveBeyondMaxDepth
    else
      let hard := hardened_start <=? i in
      if negb (ek_priv k) && hard then Err EDeriveHardFromPublic
      else
        let ilr := hmac512 (ek_chain k) (child_data k i) in
        let half := Nat.div2 (length ilr) in
        let il := firstn half ilr in
        let chain := skipn half ilr in
        let iln := be2z il in
        if (curve_n <=? iln) || (iln =? 0) then Err EInvalidChild
        else
          let fp := firstn 4 (hash160 (pub_key_bytes k)) in
          if ek_priv k then
            (* ilNum.Add(ilNum, keyNum); ilNum.Mod(ilNum, N); childKey = ilNum.Bytes() *)
            let ck := int_bytes ((iln + be2z (ek_key k)) mod curve_n) in
            Ok (mkEK ck chain (ek_depth k + 1) fp i (ek_version k) true)
          else
            let ip := smulG iln in
            if coord_zero ip then Err EInvalidChild
            else match parse_pub (ek_key k) with
                 | None => Err EPubKeyParse
                 | Some P =>
                     Ok (mkEK (ser_P (padd ip P)) chain (ek_depth k + 1) fp i (ek_version k) false)
                 end.

  (* method ExtendedKey.Neuter *)
  Definition neuter (k : ExtendedKey) : Outcome ExtendedKey :=
    if negb (ek_priv k) then Ok k
    else match hd_priv_to_pub (ek_version k) with
         | None => Err EUnknownHDKeyID
         | Some v => Ok (mkEK (pub_key_bytes k) (ek_chain k) (ek_depth k) (ek_fp k) (ek_num k) v false)
         end.

  (* the 78 bytes String() puts before the checksum *)
  Definition serialize_payload (k : ExtendedKey) : bytes :=
    ek_version k ++ [ek_depth k] ++ ek_fp k ++ ser32 (ek_num k) ++ ek_chain k ++
    (if ek_priv k then padded_append 32 [0] (ek_key k) else pub_key_bytes k).

  (* method ExtendedKey.String *)
  Definition to_string (k : ExtendedKey) : bytes :=
    if null (ek_key k) then zeroed_string
    else let p := serialize_payload k in b58enc (p ++ firstn 4 (dsha256 p)).

  (* NewKeyFromString.  [xfix] = the code rejects a public key whose X coordinate is >= P after
     btcec.ParsePubKey accepted it (true on the repaired tree, /repo commit bc42b55; false
     reproduces the code as first found: btcec reduces such an X modulo P silently). *)
  Definition from_string_gen (xfix : bool) (s : bytes) : Outcome ExtendedKey :=
    let decoded := b58dec s in
    if negb (length decoded =? serialized_key_len + 4)%nat then Err EInvalidKeyLen
    else
      let payload := firstn (length decoded - 4) decoded in
      let cs := skipn (length decoded - 4) decoded in
      if negb (bytes_eqb cs (firstn 4 (dsha256 payload))) then Err EBadChecksum
      else
        let version := slice 0 4 payload in
        let depth := nth 4 payload 0 in
        let fp := slice 5 9 payload in
        let num := be2z (slice 9 13 payload) in
        let chain := slice 13 45 payload in
        let keydata := slice 45 78 payload in
        if nth 0 keydata 0 =? 0 then
          let kd := tl keydata in
          let kn := be2z kd in
          if (curve_n <=? kn) || (kn =? 0) then Err EUnusableSeed
          else Ok (mkEK kd chain depth fp num version true)
        else match parse_pub keydata with
             | None => Err EPubKeyParse
             | Some _ =>
                 if xfix && (curve_p <=? be2z (tl keydata)) then Err EPubKeyParse
                 else Ok (mkEK keydata chain depth fp num version false)
             end.
  Definition from_string : bytes -> Outcome ExtendedKey := from_string_gen true.
  Definition from_string_unfixed : bytes -> Outcome ExtendedKey := from_string_gen false.

  (* what the exported accessors return for the key material:
     ECPrivKey().Serialize() (32 bytes) / the compressed public key *)
  Definition api_key (k : ExtendedKey) : bytes :=
    if ek_priv k then ser256 (be2z (ek_key k)) else ek_key k.
  (* ECPubKey() = btcec.ParsePubKey(k.pubKeyBytes()), then SerializeCompressed; None = error *)
  Definition api_pub (k : ExtendedKey) : option bytes :=
    match parse_pub (pub_key_bytes k) with Some P => Some (ser_P P) | None => None end.

  (* a derivation path is a sequence of Child calls *)
  Fixpoint derive_path (k : ExtendedKey) (path : list Z) : Outcome ExtendedKey :=
    match path with
    | [] => Ok k
    | i :: r => bind (child k i) (fun c => derive_path c r)
    end.

  (* ---- keystore/hd.go; uint32 additions wrap *)
  Definition u32 (x : Z) : Z := x mod 4294967296.
  (* deriveCoinTypeKey(master, KeyScope{purpose, coin}) *)
  Definition derive_coin_type_key (master : ExtendedKey) (purpose coin : Z) : Outcome ExtendedKey :=
    if max_coin_type <? coin then Err EInvalidCoinType
    else bind (child master (u32 (purpose + hardened_start)))
              (fun p => child p (u32 (coin + hardened_start))).
  (* deriveAccountKey(coinTypeKey, account) *)
  Definition derive_account_key (coin_key : ExtendedKey) (account : Z) : Outcome ExtendedKey :=
    if max_account_num <? account then Err EInvalidAccountNumber
    else child coin_key (u32 (account + hardened_start)).
  (* checkBranchKeys(acctKey): None = nil error *)
  Definition check_branch_keys (acct : ExtendedKey) : option err :=
    match child acct external_branch with
    | Err e => Some e
    | Ok _ => match child acct internal_branch with Err e => Some e | Ok _ => None end
    end.

  (* ================================================================ BIP-32, from its text *)

  (* "Private parent key -> private child key":
       if i >= 2^31: I = HMAC-SHA512(Key = cpar, Data = 0x00 || ser256(kpar) || ser32(i))
       else          I = HMAC-SHA512(Key = cpar, Data = serP(point(kpar)) || ser32(i))
       split I into two 32-byte sequences IL, IR;  ki = parse256(IL) + kpar (mod n);  ci = IR
       in case parse256(IL) >= n or ki = 0 the resulting key is invalid *)
  Definition ckd_priv_I (kpar : Z) (cpar : bytes) (i : Z) : bytes :=
    if hardened_start <=? i then hmac512 cpar (0 :: ser256 kpar ++ ser32 i)
    else hmac512 cpar (ser_P (smulG kpar) ++ ser32 i).
  Definition CKDpriv (kpar : Z) (cpar : bytes) (i : Z) : Outcome (Z * bytes) :=
    let I := ckd_priv_I kpar cpar i in
    let IL := firstn 32 I in
    let IR := skipn 32 I in
    let ki := (parse256 IL + kpar) mod curve_n in
    if (curve_n <=? parse256 IL) || (ki =? 0) then Err EInvalidChild else Ok (ki, IR).

  (* "Public parent key -> public child key":
       if i >= 2^31: failure
       I = HMAC-SHA512(Key = cpar, Data = serP(Kpar) || ser32(i));  Ki = point(parse256(IL)) + Kpar;  ci = IR
       in case parse256(IL) >= n or Ki is the point at infinity the resulting key is invalid *)
  Definition ckd_pub_I (Kpar : point) (cpar : bytes) (i : Z) : bytes :=
    hmac512 cpar (ser_P Kpar ++ ser32 i).
  Definition CKDpub (Kpar : point) (cpar : bytes) (i : Z) : Outcome (point * bytes) :=
    if hardened_start <=? i then Err EDeriveHardFromPublic
    else
      let I := ckd_pub_I Kpar cpar i in
      let IL := firstn 32 I in
      let IR := skipn 32 I in
      let Ki := padd (smulG (parse256 IL)) Kpar in
      if (curve_n <=? parse256 IL) || is_inf Ki then Err EInvalidChild else Ok (Ki, IR).

  Definition spec_point_of (x : SKey point) : point :=
    match x with SPriv k => smulG k | SPub K => K end.
  (* "the first 32 bits of the identifier"; identifier = Hash160 of the serialized public key *)
  Definition spec_fingerprint (K : point) : bytes := firstn 4 (hash160 (ser_P K)).

  (* child of an extended key together with the serialization metadata
     (depth is one byte: 0xff has no child; fingerprint of the parent; child number) *)
  Definition spec_ckd (x : XKey point) (i : Z) : Outcome (XKey point) :=
    if x_depth x =? 255 then Err EDeriveBeyondMaxDepth
    else
      let fp := spec_fingerprint (spec_point_of (x_key x)) in
      match x_key x with
      | SPriv k =>
          match CKDpriv k (x_chain x) i with
          | Ok (ki, ci) => Ok (mkX (SPriv ki) ci (x_depth x + 1) fp i (x_version x))
          | Err e => Err e
          end
      | SPub K =>
          match CKDpub K (x_chain x) i with
          | Ok (Ki, ci) => Ok (mkX (SPub Ki) ci (x_depth x + 1) fp i (x_version x))
          | Err e => Err e
          end
      end.

  (* N((k, c)) = (point(k), c); the version bytes become those of a public key *)
  Definition spec_neuter (x : XKey point) : Outcome (XKey point) :=
    match x_key x with
    | SPub _ => Ok x
    | SPriv k =>
        match hd_priv_to_pub (x_version x) with
        | None => Err EUnknownHDKeyID
        | Some v => Ok (mkX (SPub (smulG k)) (x_chain x) (x_depth x) (x_fp x) (x_num x) v)
        end
    end.

  (* "Master key generation": S of 128..512 bits; I = HMAC-SHA512(Key = "Bitcoin seed", Data = S);
     master secret key parse256(IL), chain code IR; invalid if parse256(IL) is 0 or >= n *)
  Definition spec_master (ver S : bytes) : Outcome (XKey point) :=
    if (length S <? 16)%nat || (64 <? length S)%nat then Err EInvalidSeedLen
    else
      let I := hmac512 master_key S in
      let IL := firstn 32 I in
      let IR := skipn 32 I in
      if (parse256 IL =? 0) || (curve_n <=? parse256 IL) then Err EUnusableSeed
      else Ok (mkX (SPriv (parse256 IL)) IR 0 [0;0;0;0] 0 ver).

  (* "Serialization format": 4 version, 1 depth, 4 parent fingerprint, 4 child number (ser32),
     32 chain code, 33 key data (serP(K) or 0x00 || ser256(k)); then Base58Check
     (32 checksum bits from double SHA-256) *)
  Definition spec_key_data (x : SKey point) : bytes :=
    match x with SPriv k => 0 :: ser256 k | SPub K => ser_P K end.
  Definition spec_payload (x : XKey point) : bytes :=
    x_version x ++ [x_depth x] ++ x_fp x ++ ser32 (x_num x) ++ x_chain x ++ spec_key_data (x_key x).
  Definition spec_string (x : XKey point) : bytes :=
    let p := spec_payload x in b58enc (p ++ firstn 4 (dsha256 p)).
  (* the 32 / 33 bytes of key material *)
  Definition spec_api_key (x : XKey point) : bytes :=
    match x_key x with SPriv k => ser256 k | SPub K => ser_P K end.

  (* parsing a serialized key: Base58Check (length 78+4, checksum), then the key material:
     0x00 || ser256(k) with k in 1..n-1, or serP(K) of a curve point (decided by the
     point-decoding primitive, and the X coordinate below the field prime) *)
  Definition spec_parse (s : bytes) : Outcome (XKey point) :=
    let d := b58dec s in
    if negb (length d =? 82)%nat then Err EInvalidKeyLen
    else
      let payload := firstn 78 d in
      if negb (bytes_eqb (skipn 78 d) (firstn 4 (dsha256 payload))) then Err EBadChecksum
      else
        let mk := fun key => mkX key (slice 13 45 payload) (nth 4 payload 0) (slice 5 9 payload)
                                 (be2z (slice 9 13 payload)) (slice 0 4 payload) in
        match slice 45 78 payload with
        | 0 :: kb =>
            let k := parse256 kb in
            if (k =? 0) || (curve_n <=? k) then Err EUnusableSeed else Ok (mk (SPriv k))
        | kd =>
            (* serP(K) = (0x02 or 0x03) || ser256(x) with x a field element, i.e. x < p *)
            match parse_pub kd with
            | Some K => if curve_p <=? parse256 (tl kd) then Err EPubKeyParse else Ok (mk (SPub K))
            | None => Err EPubKeyParse
            end
        end.

  Fixpoint spec_derive_path (x : XKey point) (path : list Z) : Outcome (XKey point) :=
    match path with
    | [] => Ok x
    | i :: r => bind (spec_ckd x i) (fun c => spec_derive_path c r)
    end.

  (* the BIP-44 wallet path m / purpose' / coin' / account' *)
  Definition spec_coin_type_key (m : XKey point) (purpose coin : Z) : Outcome (XKey point) :=
    if max_coin_type <? coin then Err EInvalidCoinType
    else spec_derive_path m [u32 (purpose + hardened_start); u32 (coin + hardened_start)].
  Definition spec_account_key (c : XKey point) (account : Z) : Outcome (XKey point) :=
    if max_account_num <? account then Err EInvalidAccountNumber
    else spec_ckd c (u32 (account + hardened_start)).

  (* ================================================================ code key -> specification key *)
  Definition abs (k : ExtendedKey) : option (XKey point) :=
    if ek_priv k then
      Some (mkX (SPriv (be2z (ek_key k))) (ek_chain k) (ek_depth k) (ek_fp k) (ek_num k) (ek_version k))
    else match parse_pub (ek_key k) with
         | Some P => Some (mkX (SPub P) (ek_chain k) (ek_depth k) (ek_fp k) (ek_num k) (ek_version k))
         | None => None
         end.
  Definition abs_out (o : Outcome ExtendedKey) : Outcome (XKey point) :=
    match o with
    | Ok k => match abs k with Some x => Ok x | None => Err EPubKeyParse end
    | Err e => Err e
    end.

  (* the key NewKeyFromString(k.String()) returns: the private scalar re-padded to 32 bytes *)
  Definition norm (k : ExtendedKey) : ExtendedKey :=
    if ek_priv k
    then mkEK (padded_append 32 [] (ek_key k)) (ek_chain k) (ek_depth k) (ek_fp k) (ek_num k) (ek_version k) true
    else k.
End Prims.
