(* Codec/Script.v — executable model of output-script classification (property C16).

   Consensus side (mass-core/txscript, read line by line):
     parseScript / parseScriptTemplate   -> [next_op], [parse_fuel], [parse_script]
     isWitnessScriptHash, isWitnessStakingScript, isWitnessBindingScript,
     isMultiSig, isNullData, typeOfScript -> [is_wsh] ... [type_of_pops]
     GetScriptClass, GetScriptInfo        -> [script_class], [get_script_info]
     GetParsedOpcode, GetParsedBindingOpcode
     ExtractPkScriptAddrs                 -> [extract_pk_script_addrs]
     ScriptBuilder.AddData, PayTo*Script  -> [add_data], [pay_to_*]
     massutil address constructors        -> [new_wsh], [new_pkh], [new_bind]
   Wallet side (/repo):
     masswallet/utils.ParsePkScript       -> [parse_pk_script]
     masswallet.PayToWitnessV0Address, amountToTxOut, constructStakingTxOut,
       EstimateBindingTxFee's script      -> [wallet_pay_to_witness_v0] ...
     api.extractAddressInfos              -> [extract_address_infos_gen]

   Bytes are their codes in Z; a Go []byte is a [list Z] (a nil slice and an empty
   slice are both []: only lengths and contents are ever looked at).
   An address is the data its string encodes (kind, version, payload); the bech32 /
   base58check encoders are injective oracles (see ScriptProofs.v, Section Encoders).
   Go failure modes are explicit: [Err e] is a returned error, [Panic p] a run-time
   panic (slice index out of range, nil dereference), so "never panics" is a statement.
   Only definitions here (the model must still run when a proof breaks). *)
From Coq Require Import List ZArith Bool.
Import ListNotations.
Open Scope Z_scope.
Require Import MW.Gen.Consts.

Definition bytes := list Z.

(* where Go would panic *)
Inductive psite :=
| PAddrsIndex1      (* api/util.go extractAddressInfos: addrs[1] with len(addrs) = 1 *)
| PNilAddrPubKey    (* mass-core ExtractPkScriptAddrs: addr.PubKey() on the nil *AddressPubKey of a failed NewAddressPubKey *)
| PPopsIndex        (* pops[i] out of range *)
| PDataIndex.       (* binary.LittleEndian.Uint64 on fewer than 8 bytes *)

(* error values, as far as callers can tell them apart *)
Inductive errk :=
| EShortScript            (* txscript.ErrStackShortScript: the script does not tokenize *)
| EInvalidHashType        (* GetParsedOpcode: errors.New("invalid script hash type") *)
| EWitnessProgLen         (* txscript.ErrWitnessProgramLength *)
| EWitnessExtLen          (* txscript.ErrWitnessExtProgramLength *)
| EInvalidBindingScript   (* txscript.ErrInvalidBindingScript *)
| EAddress                (* a massutil address constructor or DecodeAddress refused *)
| EUnsupported            (* utils.ErrUnsupportedScript *)
| ENoAddress              (* api: "no address parsed from output script" *)
| EBuild                  (* a script builder refused (length, frozen period, address kind, net) *)
| EGuard                  (* repaired api.extractAddressInfos only: error returned instead of a panic *)
| EFuel.                  (* model only: recursion fuel exhausted; proved unreachable *)

Inductive Outcome (A : Type) :=
| Ok (a : A)
| Err (e : errk)
| Panic (p : psite).
Arguments Ok {A} a.
Arguments Err {A} e.
Arguments Panic {A} p.

Definition bind {A B} (x : Outcome A) (f : A -> Outcome B) : Outcome B :=
  match x with Ok a => f a | Err e => Err e | Panic p => Panic p end.

Definition lenZ {A} (l : list A) : Z := Z.of_nat (length l).
Definition take {A} (n : Z) (l : list A) : list A := firstn (Z.to_nat n) l.
Definition drop {A} (n : Z) (l : list A) : list A := skipn (Z.to_nat n) l.

(* little endian *)
Definition le_dec (l : bytes) : Z := fold_right (fun b acc => b + 256 * acc) 0 l.
Fixpoint le_enc (k : nat) (v : Z) : bytes :=
  match k with O => [] | S k' => (v mod 256) :: le_enc k' (v / 256) end.

(* ---------------------------------------------------------------- opcodes *)
Definition OP_0 : Z := 0.
Definition OP_DATA_8 : Z := 8.
Definition OP_DATA_20 : Z := 20.
Definition OP_DATA_22 : Z := 22.
Definition OP_DATA_32 : Z := 32.
Definition OP_DATA_75 : Z := 75.
Definition OP_PUSHDATA1 : Z := 76.
Definition OP_PUSHDATA2 : Z := 77.
Definition OP_PUSHDATA4 : Z := 78.
Definition OP_1NEGATE : Z := 79.
Definition OP_1 : Z := 81.
Definition OP_16 : Z := 96.
Definition OP_RETURN : Z := 106.
Definition OP_CHECKMULTISIG : Z := 174.
Definition MaxDataCarrierSize : Z := 80.
Definition MaxScriptElementSize : Z := 520.

(* mass-core constants that are not in Gen/Consts.v; the check compares them with the
   compiled values on every run (harness line kind "K") *)
Definition SequenceLockTimeMask : Z := 4294967295.            (* wire.SequenceLockTimeMask *)
Definition BindingLockedPeriod : Z := 4294967294.             (* consensus.MASSIP0002BindingLockedPeriod *)
Definition two64 : Z := 18446744073709551616.

(* parsedOpcode: the opcode byte and the pushed data *)
Record pop := mkpop { pop_op : Z; pop_data : bytes }.

(* one iteration of parseScriptTemplate's loop on script[i:] = b :: r.
   opcodeArray lengths: OP_DATA_n (1..75) = n+1, OP_PUSHDATA1/2/4 = -1/-2/-4, every other = 1.
   None = ErrStackShortScript. *)
Definition next_op (b : Z) (r : bytes) : option (pop * bytes) :=
  if (1 <=? b) && (b <=? OP_DATA_75) then
    (* len(script[i:]) < op.length *)
    if lenZ r <? b then None
    else Some (mkpop b (take b r), drop b r)
  else if (OP_PUSHDATA1 <=? b) && (b <=? OP_PUSHDATA4) then
    let k := if b =? OP_PUSHDATA1 then 1 else if b =? OP_PUSHDATA2 then 2 else 4 in
    (* len(script[off:]) < -op.length *)
    if lenZ r <? k then None
    else
      let l := le_dec (take k r) in
      let r' := drop k r in
      (* int(l) > len(script[off:]) || int(l) < 0 ; compared in Z before any conversion *)
      if (lenZ r' <? l) || (l <? 0) then None
      else Some (mkpop b (take l r'), drop l r')
  else Some (mkpop b [], r).

Fixpoint parse_fuel (fuel : nat) (s : bytes) : Outcome (list pop) :=
  match s with
  | [] => Ok []
  | b :: r =>
      match fuel with
      | O => Err EFuel
      | S f =>
          match next_op b r with
          | None => Err EShortScript
          | Some (p, rest) => bind (parse_fuel f rest) (fun ps => Ok (p :: ps))
          end
      end
  end.

(* txscript.parseScript *)
Definition parse_script (s : bytes) : Outcome (list pop) := parse_fuel (length s) s.

(* ---------------------------------------------------------------- classes *)
Inductive sclass :=
| NonStandardTy | WitnessV0ScriptHashTy | StakingScriptHashTy | BindingScriptHashTy | MultiSigTy | NullDataTy.

Definition sclass_eqb (a b : sclass) : bool :=
  match a, b with
  | NonStandardTy, NonStandardTy | WitnessV0ScriptHashTy, WitnessV0ScriptHashTy
  | StakingScriptHashTy, StakingScriptHashTy | BindingScriptHashTy, BindingScriptHashTy
  | MultiSigTy, MultiSigTy | NullDataTy, NullDataTy => true
  | _, _ => false
  end.

Definition is_small_int (op : Z) : bool := (op =? OP_0) || ((OP_1 <=? op) && (op <=? OP_16)).
Definition as_small_int (op : Z) : Z := if op =? OP_0 then 0 else op - (OP_1 - 1).

Definition is_wsh (pops : list pop) : bool :=
  match pops with
  | [p0; p1] => (pop_op p0 =? OP_0) && (pop_op p1 =? OP_DATA_32)
  | _ => false
  end.
Definition is_staking (pops : list pop) : bool :=
  match pops with
  | [p0; p1; p2] => (pop_op p0 =? OP_0) && (pop_op p1 =? OP_DATA_32) && (pop_op p2 =? OP_DATA_8)
  | _ => false
  end.
Definition is_binding (pops : list pop) : bool :=
  match pops with
  | [p0; p1; p2] => (pop_op p0 =? OP_0) && (pop_op p1 =? OP_DATA_32) &&
                    ((pop_op p2 =? OP_DATA_20) || (pop_op p2 =? OP_DATA_22))
  | _ => false
  end.

Definition dummy_pop : pop := mkpop (-1) [].
Definition pop_nth (pops : list pop) (i : Z) : pop := nth (Z.to_nat i) pops dummy_pop.
Definition key_len_ok (p : pop) : bool := (lenZ (pop_data p) =? 33) || (lenZ (pop_data p) =? 65).

(* isMultiSig: all indexes are in range once l >= 4 *)
Definition is_multisig (pops : list pop) : bool :=
  let l := lenZ pops in
  if l <? 4 then false
  else if negb (is_small_int (pop_op (pop_nth pops 0))) then false
  else if negb (is_small_int (pop_op (pop_nth pops (l - 2)))) then false
  else if negb (pop_op (pop_nth pops (l - 1)) =? OP_CHECKMULTISIG) then false
  else if negb (l - 2 - 1 =? as_small_int (pop_op (pop_nth pops (l - 2)))) then false
  else forallb key_len_ok (take (l - 3) (drop 1 pops)).

Definition is_nulldata (pops : list pop) : bool :=
  match pops with
  | [p0] => pop_op p0 =? OP_RETURN
  | [p0; p1] => (pop_op p0 =? OP_RETURN) && (pop_op p1 <=? OP_PUSHDATA4) &&
                (lenZ (pop_data p1) <=? MaxDataCarrierSize)
  | _ => false
  end.

(* typeOfScript *)
Definition type_of_pops (pops : list pop) : sclass :=
  if is_wsh pops then WitnessV0ScriptHashTy
  else if is_staking pops then StakingScriptHashTy
  else if is_binding pops then BindingScriptHashTy
  else if is_multisig pops then MultiSigTy
  else if is_nulldata pops then NullDataTy
  else NonStandardTy.

(* GetScriptClass: the consensus library's template matching *)
Definition script_class (s : bytes) : sclass :=
  match parse_script s with Ok pops => type_of_pops pops | _ => NonStandardTy end.

(* GetScriptInfo *)
Definition get_script_info (s : bytes) : sclass * list pop :=
  match parse_script s with Ok pops => (type_of_pops pops, pops) | _ => (NonStandardTy, []) end.

(* pops[i] as Go evaluates it *)
Definition pop_at (pops : list pop) (i : nat) : Outcome pop :=
  match nth_error pops i with Some p => Ok p | None => Panic PPopsIndex end.

(* copy(rsh[:], scripthash) into a zeroed [32]byte *)
Definition pad32 (h : bytes) : bytes := firstn 32 (h ++ repeat 0 32).

(* binary.LittleEndian.Uint64 *)
Definition uint64_le (b : bytes) : Outcome Z :=
  if lenZ b <? 8 then Panic PDataIndex else Ok (le_dec (take 8 b)).

(* GetParsedOpcode(pops, class) : (frozen period, script hash array) *)
Definition get_parsed_opcode (pops : list pop) (c : sclass) : Outcome (Z * bytes) :=
  match c with
  | StakingScriptHashTy =>
      bind (pop_at pops 1) (fun p1 =>
      if negb (lenZ (pop_data p1) =? 32) then Err EWitnessProgLen
      else bind (pop_at pops 2) (fun p2 =>
           bind (uint64_le (pop_data p2)) (fun hgt => Ok (hgt, pad32 (pop_data p1)))))
  | WitnessV0ScriptHashTy =>
      bind (pop_at pops 1) (fun p1 =>
      if negb (lenZ (pop_data p1) =? 32) then Err EWitnessProgLen
      else Ok (0, pad32 (pop_data p1)))
  | BindingScriptHashTy =>
      bind (pop_at pops 1) (fun p1 =>
      if negb (lenZ (pop_data p1) =? 32) then Err EWitnessProgLen
      else bind (pop_at pops 2) (fun p2 =>
           if negb (lenZ (pop_data p2) =? 20) && negb (lenZ (pop_data p2) =? 22) then Err EWitnessExtLen
           else Ok (0, pad32 (pop_data p1))))
  | _ => Err EInvalidHashType
  end.

(* GetParsedBindingOpcode *)
Definition get_parsed_binding_opcode (pops : list pop) : Outcome (bytes * bytes) :=
  if negb (is_binding pops) then Err EInvalidBindingScript
  else bind (pop_at pops 1) (fun p1 => bind (pop_at pops 2) (fun p2 => Ok (pop_data p1, pop_data p2))).

(* ---------------------------------------------------------------- addresses *)
(* what an address string encodes *)
Inductive addr :=
| AWsh (ext : Z) (prog : bytes)     (* bech32: witness version 0, extension version (0 standard, 1 staking), 32-byte program *)
| APkh (h : bytes)                  (* base58check: 20-byte hash (old binding target) *)
| ABind (t : bytes)                 (* base58check: 22-byte binding target: hash, type, size *)
| APubKey (k : bytes).              (* serialized public key *)

Definition script_address (a : addr) : bytes :=
  match a with AWsh _ p => p | APkh h => h | ABind t => t | APubKey k => k end.

Fixpoint bytes_eqb (a b : bytes) : bool :=
  match a, b with
  | [], [] => true
  | x :: a', y :: b' => (x =? y) && bytes_eqb a' b'
  | _, _ => false
  end.

Definition addr_eqb (a b : addr) : bool :=
  match a, b with
  | AWsh e p, AWsh e' p' => (e =? e') && bytes_eqb p p'
  | APkh h, APkh h' => bytes_eqb h h'
  | ABind t, ABind t' => bytes_eqb t t'
  | APubKey k, APubKey k' => bytes_eqb k k'
  | _, _ => false
  end.

(* massutil.newAddressWitnessScriptHash *)
Definition new_wsh (ext : Z) (prog : bytes) : option addr :=
  if negb (lenZ prog =? 32) then None else if 1 <? ext then None else Some (AWsh ext prog).
(* massutil.newAddressPubKeyHash *)
Definition new_pkh (h : bytes) : option addr :=
  if negb (lenZ h =? 20) then None else Some (APkh h).
(* massutil.newAddressBindingTarget *)
Definition target_ok (t : bytes) : bool :=
  let ty := nth 20 t 0 in
  let sz := nth 21 t 0 in
  ((ty =? 0) || (ty =? 1)) && (20 <=? sz) && (sz <=? 200).
Definition new_bind (t : bytes) : option addr :=
  if negb (lenZ t =? 22) then None else if target_ok t then Some (ABind t) else None.

Definition is_witness_v0 (a : addr) : bool := match a with AWsh e _ => e =? 0 | _ => false end.
Definition is_witness_staking (a : addr) : bool := match a with AWsh e _ => e =? 1 | _ => false end.

(* ---------------------------------------------------------------- utils.ParsePkScript *)
Record pkinfo := mkpk {
  pk_class : sclass;             (* ScriptClass() ; IsStaking / IsBinding are comparisons with it *)
  pk_addrclass : Z;              (* AddressClass(): 0 witness v0, 1 staking *)
  pk_maturity : Z;               (* Maturity() *)
  pk_std : addr;                 (* StdAddress(): owner / withdraw address *)
  pk_second : option addr        (* SecondAddress(): staking address or binding target; nil for standard *)
}.

Definition witness_class (c : sclass) : bool :=
  match c with WitnessV0ScriptHashTy | StakingScriptHashTy | BindingScriptHashTy => true | _ => false end.

(* [a2fix] = false is the code as found.  true models the proposed repair of DESIGN.md A2: the class is
   looked at before GetParsedOpcode and every class the wallet does not read returns ErrUnsupportedScript. *)
(* error for a binding target that is not an address: "unsupported" in the repaired code *)
Definition target_err (a2fix : bool) : errk := if a2fix then EUnsupported else EAddress.

Definition parse_pk_script_gen (a2fix : bool) (s : bytes) : Outcome pkinfo :=
  let '(c, pops) := get_script_info s in
  if a2fix && negb (witness_class c) then Err EUnsupported else
  bind (get_parsed_opcode pops c) (fun hs =>
  let '(height, sh) := hs in
  match c with
  | WitnessV0ScriptHashTy =>
      (* NewAddressWitnessScriptHash(scriptHash[:]) on a [32]byte cannot fail *)
      Ok (mkpk c 0 0 (AWsh 0 sh) None)
  | StakingScriptHashTy =>
      (* maturity = height + 1 in uint64 *)
      Ok (mkpk c 1 ((height + 1) mod two64) (AWsh 0 sh) (Some (AWsh 1 sh)))
  | BindingScriptHashTy =>
      bind (get_parsed_binding_opcode pops) (fun ss =>
      let '(s1, s2) := ss in
      match new_wsh 0 s1 with
      | None => Err EAddress
      | Some std =>
          if lenZ s2 =? OP_DATA_20 then
            match new_pkh s2 with
            | Some a => Ok (mkpk c 0 0 std (Some a))
            | None => Err (target_err a2fix)
            end
          else
            match new_bind s2 with
            | Some a => Ok (mkpk c 0 BindingLockedPeriod std (Some a))
            | None => Err (target_err a2fix)
            end
      end)
  | _ => Err EUnsupported
  end).

(* ---------------------------------------------------------------- builders *)
(* ScriptBuilder.AddData on an empty-error builder; maxScriptSize (10000) cannot be
   reached by the callers modelled here (scripts of at most 1 + 33 + 23 bytes) *)
Definition add_data (d : bytes) : Outcome bytes :=
  let n := lenZ d in
  if MaxScriptElementSize <? n then Err EBuild
  else match d with
       | [] => Ok [OP_0]
       | [b] => if b =? 0 then Ok [OP_0]
                else if b <=? 16 then Ok [OP_1 - 1 + b]
                else if b =? 129 then Ok [OP_1NEGATE]
                else Ok (1 :: d)
       | _ => if n <? OP_PUSHDATA1 then Ok (n :: d)
              else if n <=? 255 then Ok (OP_PUSHDATA1 :: n :: d)
              else Ok (OP_PUSHDATA2 :: le_enc 2 n ++ d)
       end.

(* payToWitnessScriptHashScript *)
Definition pay_to_wsh_script (h : bytes) : Outcome bytes :=
  if negb (lenZ h =? 32) then Err EBuild
  else bind (add_data h) (fun a => Ok (OP_0 :: a)).

(* txscript.PayToAddrScript *)
Definition pay_to_addr_script (a : addr) : Outcome bytes :=
  if is_witness_v0 a then pay_to_wsh_script (script_address a) else Err EBuild.

(* wire.IsValidFrozenPeriod *)
Definition valid_frozen_period (p : Z) : bool := (MinFrozenPeriod <=? p) && (p <=? SequenceLockTimeMask - 1).

(* txscript.PayToStakingAddrScript(addr, frozenPeriod uint64) *)
Definition pay_to_staking_addr_script (a : addr) (period : Z) : Outcome bytes :=
  if negb (is_witness_staking a) then Err EBuild
  else let h := script_address a in
       if negb (lenZ h =? 32) then Err EBuild
       else if negb (valid_frozen_period period) then Err EBuild
       else bind (add_data h) (fun x => bind (add_data (le_enc 8 period)) (fun y => Ok (OP_0 :: x ++ y))).

(* txscript.PayToBindingScriptHashScript(holder script hash, target) *)
Definition pay_to_binding_script (h t : bytes) : Outcome bytes :=
  if negb (lenZ h =? 32) || (negb (lenZ t =? 20) && negb (lenZ t =? 22)) then Err EBuild
  else bind (add_data h) (fun x => bind (add_data t) (fun y => Ok (OP_0 :: x ++ y))).

(* masswallet.PayToWitnessV0Address(encodedAddr): [decoded] is massutil.DecodeAddress's answer
   (None = it refused); the address is for the configured net (one net is modelled) *)
Definition wallet_pay_to_witness_v0 (decoded : option addr) : Outcome bytes :=
  match decoded with
  | None => Err EAddress
  | Some a => if negb (is_witness_v0 a) then Err EAddress else pay_to_addr_script a
  end.

(* masswallet.constructStakingTxOut's script for one output (FrozenPeriod is a uint32) *)
Definition wallet_staking_script (decoded : option addr) (period : Z) : Outcome bytes :=
  match decoded with
  | None => Err EAddress
  | Some a => if negb (is_witness_staking a) then Err EAddress
              else pay_to_staking_addr_script a (period mod 4294967296)
  end.

(* masswallet.EstimateBindingTxFee's script for one output: Holder and BindingTarget are addresses *)
Definition wallet_binding_script (holder target : addr) : Outcome bytes :=
  pay_to_binding_script (script_address holder) (script_address target).

(* ---------------------------------------------------------------- ExtractPkScriptAddrs *)
Definition opt_cons {A} (o : option A) (l : list A) : list A := match o with Some a => a :: l | None => l end.

(* the multisig loop: NewAddressPubKey(pops[i+1].data) then addr.PubKey() before the error is looked at.
   [pk_ok] is btcec.ParsePubKey's verdict (an oracle). *)
Fixpoint multisig_addrs (pk_ok : bytes -> bool) (keys : list pop) : Outcome (list addr) :=
  match keys with
  | [] => Ok []
  | k :: ks =>
      if pk_ok (pop_data k) then bind (multisig_addrs pk_ok ks) (fun l => Ok (APubKey (pop_data k) :: l))
      else Panic PNilAddrPubKey
  end.

(* keys pops[1] .. pops[n]; an index out of range would panic *)
Fixpoint pops_range (pops : list pop) (from : nat) (n : nat) : Outcome (list pop) :=
  match n with
  | O => Ok []
  | S n' => bind (pop_at pops from) (fun p => bind (pops_range pops (S from) n') (fun l => Ok (p :: l)))
  end.

(* (class, addrs, requiredSigs) *)
Definition extract_pk_script_addrs (pk_ok : bytes -> bool) (s : bytes) : Outcome (sclass * list addr * Z) :=
  match parse_script s with
  | Err e => Err e
  | Panic p => Panic p
  | Ok pops =>
      let c := type_of_pops pops in
      match c with
      | WitnessV0ScriptHashTy =>
          bind (pop_at pops 1) (fun p1 => Ok (c, opt_cons (new_wsh 0 (pop_data p1)) [], 1))
      | StakingScriptHashTy =>
          bind (pop_at pops 1) (fun p1 => Ok (c, opt_cons (new_wsh 1 (pop_data p1)) [], 1))
      | BindingScriptHashTy =>
          bind (pop_at pops 1) (fun p1 =>
          bind (pop_at pops 2) (fun p2 =>
          let target := if lenZ (pop_data p2) =? OP_DATA_20 then new_pkh (pop_data p2) else new_bind (pop_data p2) in
          Ok (c, opt_cons (new_wsh 0 (pop_data p1)) (opt_cons target []), 1)))
      | MultiSigTy =>
          bind (pop_at pops 0) (fun p0 =>
          bind (pop_at pops (length pops - 2)) (fun pn =>
          let n := as_small_int (pop_op pn) in
          bind (pops_range pops 1 (Z.to_nat n)) (fun keys =>
          bind (multisig_addrs pk_ok keys) (fun addrs => Ok (c, addrs, as_small_int (pop_op p0))))))
      | NullDataTy => Ok (c, [], 0)
      | NonStandardTy => Ok (c, [], 0)
      end
  end.

(* ---------------------------------------------------------------- api.extractAddressInfos *)
Record xinfo := mkx {
  x_class : sclass;
  x_recipient : option addr;                 (* "" = None *)
  x_staking : option addr;
  x_binding : option (addr * bool * Z);      (* "<address>:<MASS|Chia>:<size>" ; true = Chia *)
  x_reqsigs : Z
}.

Definition addr_at (addrs : list addr) (i : nat) : Outcome addr :=
  match nth_error addrs i with Some a => Ok a | None => Panic PAddrsIndex1 end.

(* [e2fix]: a bounds check before addrs[1] returns an error (proposed repair of api/util.go).
   [e3guard]: a panic inside mass-core's ExtractPkScriptAddrs is recovered and returned as an error
   (proposed guard; the dereference itself is in the dependency). false/false = the code as found. *)
Definition extract_address_infos_gen (e2fix e3guard : bool) (pk_ok : bytes -> bool) (s : bytes) : Outcome xinfo :=
  let r := extract_pk_script_addrs pk_ok s in
  let r := match r with Panic p => if e3guard then Err EGuard else Panic p | _ => r end in
  bind r (fun cas =>
  let '(c, addrs, req) := cas in
  match addrs with
  | [] => Err ENoAddress
  | a0 :: _ =>
      match c with
      | StakingScriptHashTy =>
          match new_wsh 0 (script_address a0) with
          | None => Err EAddress
          | Some std => Ok (mkx c (Some std) (Some a0) None req)
          end
      | BindingScriptHashTy =>
          if e2fix && (lenZ addrs <? 2) then Err EGuard
          else
            bind (addr_at addrs 1) (fun a1 =>
            let sa := script_address a1 in
            let chia := (lenZ sa =? 22) && (nth 20 sa 0 =? 1) in
            let size := if lenZ sa =? 22 then nth 21 sa 0 else 0 in
            Ok (mkx c (Some a0) None (Some (a1, chia, size)) req))
      | WitnessV0ScriptHashTy => Ok (mkx c (Some a0) None None req)
      | _ => Ok (mkx c None None None req)
      end
  end).

(* switches: flip to true when the corresponding repair is committed in /repo *)
Definition a2_fixed : bool := true.
Definition parse_pk_script := parse_pk_script_gen a2_fixed.
Definition a2_err (a2fix : bool) : errk := if a2fix then EUnsupported else EInvalidHashType.
Definition e2_fixed : bool := true.
Definition e3_guarded : bool := true.
Definition extract_address_infos := extract_address_infos_gen e2_fixed e3_guarded.

(* ---------------------------------------------------------------- specification *)
(* The witness-v0 templates as byte layouts (written from the consensus rules, not from the tokenizer):
     standard  00 20 <32 bytes>
     staking   00 20 <32 bytes> 08 <8 bytes: frozen period, little endian>
     binding   00 20 <32 bytes> 14 <20 bytes>   |   00 20 <32 bytes> 16 <22 bytes> *)
Inductive template :=
| TStd (h : bytes)
| TStaking (h : bytes) (period : Z)
| TBinding (h t : bytes).

Definition spec_template (s : bytes) : option template :=
  match s with
  | 0 :: 32 :: r =>
      if lenZ r <? 32 then None
      else
        let h := take 32 r in
        match drop 32 r with
        | [] => Some (TStd h)
        | 8 :: p => if lenZ p =? 8 then Some (TStaking h (le_dec p)) else None
        | 20 :: t => if lenZ t =? 20 then Some (TBinding h t) else None
        | 22 :: t => if lenZ t =? 22 then Some (TBinding h t) else None
        | _ => None
        end
  | _ => None
  end.

Definition class_of_template (t : template) : sclass :=
  match t with
  | TStd _ => WitnessV0ScriptHashTy
  | TStaking _ _ => StakingScriptHashTy
  | TBinding _ _ => BindingScriptHashTy
  end.

(* the reading the property asks for: class from the template, owner = standard address of the
   script hash, second address = staking address of the same hash / the binding target's address,
   maturity = frozen period + 1 (staking), the IP2 locked period (22-byte target), else 0.
   A binding template whose 22-byte target the address encoding refuses has no reading. *)
Definition wallet_spec (s : bytes) : option pkinfo :=
  match spec_template s with
  | Some (TStd h) => Some (mkpk WitnessV0ScriptHashTy 0 0 (AWsh 0 h) None)
  | Some (TStaking h p) => Some (mkpk StakingScriptHashTy 1 ((p + 1) mod two64) (AWsh 0 h) (Some (AWsh 1 h)))
  | Some (TBinding h t) =>
      if lenZ t =? 20 then Some (mkpk BindingScriptHashTy 0 0 (AWsh 0 h) (Some (APkh t)))
      else if target_ok t then Some (mkpk BindingScriptHashTy 0 BindingLockedPeriod (AWsh 0 h) (Some (ABind t)))
      else None
  | None => None
  end.

(* the consensus library's addresses for a template (what ExtractPkScriptAddrs returns) *)
Definition consensus_addrs (t : template) : list addr :=
  match t with
  | TStd h => [AWsh 0 h]
  | TStaking h _ => [AWsh 1 h]
  | TBinding h t => AWsh 0 h :: opt_cons (if lenZ t =? 20 then new_pkh t else new_bind t) []
  end.

Definition is_byte (b : Z) : bool := (0 <=? b) && (b <=? 255).
Definition all_bytes (s : bytes) : bool := forallb is_byte s.

(* a binding target the address layer accepts *)
Definition valid_target (t : bytes) : bool :=
  (lenZ t =? 20) || ((lenZ t =? 22) && target_ok t).

(* the keys of a multisig-shaped token list *)
Definition multisig_keys (pops : list pop) : list pop := take (lenZ pops - 3) (drop 1 pops).
