(* Codec/Bip32Obj.v — the extended key as the OBJECT the code manipulates.
   Codec/Bip32.v treats an extended key as an immutable value.  hdkeychain.ExtendedKey is a
   mutable struct: the byte slices key, pubKey (memoised by pubKeyBytes() for private keys),
   chainCode and parentFP point into backing arrays; Zero() wipes those arrays IN PLACE and
   then sets version = nil, key = nil, depth = 0, childNum = 0, isPrivate = false.  Two key
   objects that share a backing array corrupt each other when one of them is zeroed.
   This file models
     - a heap of byte buffers (allocation = append, a buffer id is its index) and a table of
       key objects (an object id is a *ExtendedKey); an object holds buffer ids for key
       (None = nil slice), the memoised pubKey (None = nil), chainCode, parentFP and the scalar
       fields; the version bytes are a value (Zero sets the field to nil, nobody writes
       through it);
     - [obs]: the stored fields an observer of the object reads (VerifFields), as the value
       record [ExtendedKey] of Codec/Bip32.v;
     - the methods Child, Neuter, Zero, String, pubKeyBytes as heap transformers, each defined
       through the value function of Codec/Bip32.v applied to [obs], plus its allocation /
       memoisation / in-place wiping effects.  [nfix] = Neuter gives the new key its own
       copies of the three slices (true on the repaired tree; false reproduces the code as
       first found, where the neutered key shared pubKey, chainCode and parentFP with the
       private key);
     - [run_script]: the script language of harness/cmd/c14 runObjScript (OBJ / OBJN cases).
   One simplification, justified in Bip32ObjProofs.v: where the code reads the memoised
   pubKey buffer of a private key inside Child, [child] recomputes the public key from the
   stored private key; [memo_ok] (an invariant of every reachable heap when nfix = true) says
   the buffer holds exactly that.  Neuter and pubKeyBytes read the buffer itself.
   Only definitions here; proofs are in Bip32ObjProofs.v, the property theorems in
   Properties/C14.v. *)
From Coq Require Import List ZArith Bool.
Import ListNotations.
Require Import MW.Codec.Bip32.
Open Scope Z_scope.

(* ------------------------------------------------------------------ heap and object table *)
Definition heap := list bytes.

Definition hget (h : heap) (id : nat) : bytes := nth id h [].
Definition hget_opt (h : heap) (o : option nat) : bytes :=
  match o with Some id => hget h id | None => [] end.

Fixpoint upd {A : Type} (l : list A) (n : nat) (x : A) : list A :=
  match l, n with
  | [], _ => []
  | _ :: r, O => x :: r
  | y :: r, S m => y :: upd r m x
  end.

(* zero(b): every byte of the backing array becomes 0, the length stays *)
Definition zeros (b : bytes) : bytes := repeat 0 (length b).
Definition hwipe (h : heap) (id : nat) : heap := upd h id (zeros (hget h id)).
Definition wipe_list (h : heap) (ids : list nat) : heap := fold_left hwipe ids h.

Record obj := mkObj {
  ob_key : option nat;       (* key []byte; None = nil (after Zero) *)
  ob_pub : option nat;       (* pubKey []byte, the memo of pubKeyBytes; None = nil *)
  ob_chain : nat;            (* chainCode *)
  ob_fp : nat;               (* parentFP *)
  ob_depth : Z;
  ob_num : Z;
  ob_version : bytes;
  ob_priv : bool }.

Record state := mkSt { heap_of : heap; objs_of : list obj }.

(* never looked at: object ids handed out by the operations are always in the table *)
Definition null_obj : obj := mkObj None None 0 0 0 0 [] false.
Definition oget (st : state) (a : nat) : obj := nth a (objs_of st) null_obj.

(* the buffers an object points to *)
Definition opt_list (o : option nat) : list nat := match o with Some x => [x] | None => [] end.
Definition bufs (o : obj) : list nat := opt_list (ob_key o) ++ opt_list (ob_pub o) ++ [ob_chain o; ob_fp o].

(* dereference: the stored fields as a value *)
Definition obs (h : heap) (o : obj) : ExtendedKey :=
  mkEK (hget_opt h (ob_key o)) (hget h (ob_chain o)) (ob_depth o) (hget h (ob_fp o)) (ob_num o)
       (ob_version o) (ob_priv o).
Definition obs_at (st : state) (a : nat) : ExtendedKey := obs (heap_of st) (oget st a).

(* Zero() on a value: what the stored fields of a zeroed key read *)
Definition v_zero (k : ExtendedKey) : ExtendedKey :=
  mkEK [] (zeros (ek_chain k)) 0 (zeros (ek_fp k)) 0 [] false.

(* NewExtendedKey(version, key, chainCode, parentFP, depth, childNum, isPrivate) on fresh slices *)
Definition new_obj (st : state) (k : ExtendedKey) : state * nat :=
  let n := length (heap_of st) in
  (mkSt (heap_of st ++ [ek_key k; ek_chain k; ek_fp k])
        (objs_of st ++ [mkObj (Some n) None (S n) (S (S n)) (ek_depth k) (ek_num k) (ek_version k) (ek_priv k)]),
   length (objs_of st)).

(* the harness' mk(fields): one key object on fresh copies of the field slices; it is object 0 *)
Definition init_state (f : ExtendedKey) : state := fst (new_obj (mkSt [] []) f).

Definition set_pub (o : obj) (p : option nat) : obj :=
  mkObj (ob_key o) p (ob_chain o) (ob_fp o) (ob_depth o) (ob_num o) (ob_version o) (ob_priv o).
Definition set_key (k : ExtendedKey) (b : bytes) : ExtendedKey :=
  mkEK b (ek_chain k) (ek_depth k) (ek_fp k) (ek_num k) (ek_version k) (ek_priv k).
Definition is_ok {A} (o : Outcome A) : bool := match o with Ok _ => true | Err _ => false end.

(* ---------------------------------------------------------------- the scripts of runObjScript *)
Inductive op :=
| OpB                (* B := P.Child(i) (OBJ) / P.Neuter() (OBJN) *)
| OpA (j : Z)        (* a<j>: A := P.Child(j); A.Zero() *)
| OpU (j : Z)        (* u<j>: A := P.Child(j); _ = A.String() *)
| OpN                (* n: N := P.Neuter(); if N != P { N.Zero() } *)
| OpC (k : Z)        (* c<k>: G := B.Child(k); G.Zero() *)
| OpM                (* m: M := B.Neuter(); if M != B { M.Zero() } *)
| OpS                (* s: _ = B.String() *)
| OpP.               (* p: if B != nil && B != P { P.Zero(); pz = true } *)

(* the variables of runObjScript: B, berr (None = B never assigned; Some (Err e) = B nil, berr e), pz *)
Record istate := mkI { i_st : state; i_B : option (Outcome nat); i_pz : bool }.

Record vstate := mkV { v_P : ExtendedKey; v_B : option (Outcome ExtendedKey); v_same : bool }.


(* the scripts the harness generates derive B once; what the headline theorem needs is only
   that B is not derived again from a parent that was zeroed *)
Definition is_B (o : op) : bool := match o with OpB => true | _ => false end.
Fixpoint no_B_after_p (script : list op) : bool :=
  match script with
  | [] => true
  | OpP :: r => negb (existsb is_B r)
  | _ :: r => no_B_after_p r
  end.

Section Prims.
  Variable hmac512 : bytes -> bytes -> bytes.
  Variable point : Type.
  Variable smulG : Z -> point.
  Variable padd : point -> point -> point.
  Variable ser_P : point -> bytes.
  Variable parse_pub : bytes -> option point.
  Variable coord_zero : point -> bool.
  Variable hash160 : bytes -> bytes.
  Variable dsha256 : bytes -> bytes.
  Variable b58enc : bytes -> bytes.

  Local Notation child := (child hmac512 point smulG padd ser_P parse_pub coord_zero hash160).
  Local Notation neuter := (neuter point smulG ser_P).
  Local Notation to_string := (to_string point smulG ser_P dsha256 b58enc).
  Local Notation pub_key_bytes := (pub_key_bytes point smulG ser_P).

  (* ---------------------------------------------------------------- pubKeyBytes *)
  (* if len(k.pubKey) == 0 { k.pubKey = SerializeCompressed(ScalarBaseMult(k.key)) }  (private keys only) *)
  Definition memo_needed (h : heap) (o : obj) : bool :=
    ob_priv o && null (hget_opt h (ob_pub o)).
  Definition o_memo (st : state) (a : nat) : state :=
    let o := oget st a in
    if memo_needed (heap_of st) o then
      mkSt (heap_of st ++ [pub_key_bytes (obs (heap_of st) o)])
           (upd (objs_of st) a (set_pub o (Some (length (heap_of st)))))
    else st.
  (* what pubKeyBytes returns once the memo is in place: the content of a buffer *)
  Definition pub_read (st : state) (a : nat) : bytes :=
    let o := oget st a in
    hget_opt (heap_of st) (if ob_priv o then ob_pub o else ob_key o).
  Definition o_pubkey (st : state) (a : nat) : state * bytes :=
    let st1 := o_memo st a in (st1, pub_read st1 a).

  (* ---------------------------------------------------------------- Child *)
  (* pubKeyBytes is called while the HMAC input is built when the index is not hardened, and for
     the parent fingerprint once the child key exists; not before the two early returns.  The
     child gets fresh slices: halves of the HMAC output / big.Int.Bytes() / SerializeCompressed,
     Hash160(...)[:4]; the version slice is handed on (a value here). *)
  Definition o_child (st : state) (a : nat) (i : Z) : state * Outcome nat :=
    let k := obs_at st a in
    let r := child k i in
    let st1 := if negb (ek_depth k =? max_uint8) && (negb (hardened_start <=? i) || is_ok r)
               then o_memo st a else st in
    match r with
    | Ok c => let (st2, id) := new_obj st1 c in (st2, Ok id)
    | Err e => (st1, Err e)
    end.

  (* ---------------------------------------------------------------- Neuter *)
  (* a public key: the same object.  A private key with a registered version: pubKeyBytes, then
     NewExtendedKey on copies (nfix) or on the very slices of k (as first found): key := k.pubKey,
     chainCode := k.chainCode, parentFP := k.parentFP *)
  Definition o_neuter (nfix : bool) (st : state) (a : nat) : state * Outcome nat :=
    let k := obs_at st a in
    match neuter k with
    | Err e => (st, Err e)
    | Ok n =>
        if negb (ek_priv k) then (st, Ok a)
        else
          let st1 := o_memo st a in
          if nfix then
            let (st2, id) := new_obj st1 (set_key n (pub_read st1 a)) in (st2, Ok id)
          else
            let o := oget st1 a in
            (mkSt (heap_of st1)
                  (objs_of st1 ++ [mkObj (ob_pub o) None (ob_chain o) (ob_fp o) (ek_depth n) (ek_num n)
                                         (ek_version n) (ek_priv n)]),
             Ok (length (objs_of st1)))
    end.

  (* ---------------------------------------------------------------- Zero *)
  (* zero(k.key); zero(k.pubKey); zero(k.chainCode); zero(k.parentFP); version = nil; key = nil;
     depth = 0; childNum = 0; isPrivate = false.  pubKey, chainCode, parentFP keep pointing to
     their (now zero) arrays.  [bufs o] lists the buffers in this very order *)
  Definition o_zero (st : state) (a : nat) : state :=
    let o := oget st a in
    mkSt (wipe_list (heap_of st) (bufs o))
         (upd (objs_of st) a (mkObj None (ob_pub o) (ob_chain o) (ob_fp o) 0 0 [] false)).

  (* ---------------------------------------------------------------- String *)
  (* reads the fields; pubKeyBytes is called for a public key only and returns k.key there:
     no memoisation, no effect *)
  Definition o_string (st : state) (a : nat) : state * bytes := (st, to_string (obs_at st a)).

  Definition P_id : nat := 0.

  Definition zero_result (st : state) (r : Outcome nat) : state :=
    match r with Ok x => o_zero st x | Err _ => st end.
  (* "err == nil && N != P" *)
  Definition zero_unless (self : nat) (st : state) (r : Outcome nat) : state :=
    match r with Ok x => if Nat.eqb x self then st else o_zero st x | Err _ => st end.
  Definition with_st (s : istate) (st : state) : istate := mkI st (i_B s) (i_pz s).

  Definition step (nfix neu : bool) (i : Z) (s : istate) (o : op) : istate :=
    let st := i_st s in
    match o with
    | OpB =>
        let (st1, r) := if neu then o_neuter nfix st P_id else o_child st P_id i in
        mkI st1 (Some r) (i_pz s)
    | OpA j =>
        if i_pz s then s
        else let (st1, r) := o_child st P_id j in with_st s (zero_result st1 r)
    | OpU j =>
        if i_pz s then s
        else let (st1, r) := o_child st P_id j in
             with_st s (match r with Ok x => fst (o_string st1 x) | Err _ => st1 end)
    | OpN =>
        if i_pz s then s
        else let (st1, r) := o_neuter nfix st P_id in with_st s (zero_unless P_id st1 r)
    | OpC k =>
        match i_B s with
        | Some (Ok b) => let (st1, r) := o_child st b k in with_st s (zero_result st1 r)
        | _ => s
        end
    | OpM =>
        match i_B s with
        | Some (Ok b) => let (st1, r) := o_neuter nfix st b in with_st s (zero_unless b st1 r)
        | _ => s
        end
    | OpS =>
        match i_B s with
        | Some (Ok b) => with_st s (fst (o_string st b))
        | _ => s
        end
    | OpP =>
        match i_B s with
        | Some (Ok b) => if Nat.eqb b P_id then s else mkI (o_zero st P_id) (i_B s) true
        | _ => s
        end
    end.

  Definition run_ops (nfix neu : bool) (i : Z) (s : istate) (script : list op) : istate :=
    fold_left (step nfix neu i) script s.

  (* res(B, berr): None = the script never assigned B *)
  Definition observe (s : istate) : option (Outcome ExtendedKey) :=
    match i_B s with
    | None => None
    | Some (Err e) => Some (Err e)
    | Some (Ok b) => Some (Ok (obs_at (i_st s) b))
    end.

  (* runObjScript(f, i, script, neuter) *)
  Definition run_script (nfix neu : bool) (f : ExtendedKey) (i : Z) (script : list op)
    : option (Outcome ExtendedKey) :=
    observe (run_ops nfix neu i (mkI (init_state f) None false) script).

  (* ---------------------------------------------------------------- the same scripts on values *)
  (* keys as values: only B and p matter.  v_P = the value of P, v_B = what B holds,
     v_same = B is the object P (Neuter of a public key) *)
  Definition vstep (neu : bool) (i : Z) (v : vstate) (o : op) : vstate :=
    match o with
    | OpB => mkV (v_P v) (Some (if neu then neuter (v_P v) else child (v_P v) i))
                 (neu && negb (ek_priv (v_P v)))
    | OpP =>
        match v_B v with
        | Some (Ok _) => if v_same v then v else mkV (v_zero (v_P v)) (v_B v) false
        | _ => v
        end
    | _ => v
    end.

  Definition val_script (neu : bool) (f : ExtendedKey) (i : Z) (script : list op)
    : option (Outcome ExtendedKey) :=
    v_B (fold_left (vstep neu i) script (mkV f None false)).

End Prims.
